// Package vsync is a drop-in replacement for the parts of package sync that
// peerswap uses.  The overlay generator rewrites `import "sync"` of the checked
// peerswap packages to this package.  Three run-time modes:
//
//	Plain  - delegate to package sync (used outside any controlled execution)
//	Bubble - channel-backed locks that are "durably blocking" for
//	         testing/synctest, with an owner registry that detects lock cycles
//	         structurally (no timing involved)
//	Sched  - every operation is a scheduling point of the cooperative scheduler
//	         in package sched (installed through the Hooks variable)
package vsync

import (
	"fmt"
	"runtime"
	"sync"
	"sync/atomic"
)

type ModeT int32

const (
	Plain ModeT = iota
	Bubble
	Sched
)

var mode atomic.Int32

func SetMode(m ModeT) { mode.Store(int32(m)) }
func Mode() ModeT     { return ModeT(mode.Load()) }

// Re-exported unchanged types.
type (
	Locker = sync.Locker
	Once   = sync.Once
	Map    = sync.Map
	Pool   = sync.Pool
)

// SchedHooks is installed by package sched.
type SchedHooks struct {
	Lock     func(m any, try func() bool) // blocks until granted; try acquires the real lock
	Unlock   func(m any) bool             // false: skip the real unlock (aborted execution unwinding)
	Yield    func(what string)
	Go       func(f func())
	CondWait func(c *Cond)
	CondWake func(c *Cond, all bool)
	WgWait   func(wg *WaitGroup, done func() bool)
	WgDone   func(wg *WaitGroup)
}

var Hooks *SchedHooks

// ---------------------------------------------------------------- bubble state

var (
	reg      sync.Mutex // protects everything below; never held while blocking
	abortCh  chan struct{}
	aborted  bool
	waiting  = map[int64]*waitRec{} // wait id -> what is waited for
	Deadlock []DeadlockReport
	nLockOps int64
	gen      int64
	waitSeq  int64
)

type waitRec struct {
	lock  any
	stack string
}

type DeadlockReport struct {
	Kind   string   // "stuck"
	Stacks []string // stack of each stuck goroutine at the time it blocked
}

// Reset prepares the shim for a new execution; must be called from inside the
// bubble (the abort channel has to belong to it).
func Reset() {
	reg.Lock()
	defer reg.Unlock()
	gen++
	abortCh = make(chan struct{})
	aborted = false
	waiting = map[int64]*waitRec{}
	Deadlock = nil
}

// Abort makes every goroutine that is blocked (or will block) on a shim lock
// exit via runtime.Goexit.  Used at the end of an execution.
func Abort() {
	reg.Lock()
	defer reg.Unlock()
	if !aborted && abortCh != nil {
		aborted = true
		close(abortCh)
	}
}

// Stuck returns the stacks of goroutines that were (still) blocked on a shim
// lock.  Called at the very end of an execution, after the incarnations were
// killed and every timer had fired: whoever is still waiting then waits for a
// lock whose holder can never release it — a deadlock, decided structurally.
func Stuck() []string { return Waiters() }

// Waiters returns the stacks of goroutines currently blocked on a shim lock.
func Waiters() []string {
	reg.Lock()
	defer reg.Unlock()
	var out []string
	for _, w := range waiting {
		out = append(out, w.stack)
	}
	return out
}

func TakeDeadlocks() []DeadlockReport {
	reg.Lock()
	defer reg.Unlock()
	d := Deadlock
	Deadlock = nil
	return d
}

func LockOps() int64 { reg.Lock(); defer reg.Unlock(); return nLockOps }

func goid() int64 {
	var buf [64]byte
	n := runtime.Stack(buf[:], false)
	// "goroutine 123 ["
	var id int64
	for i := len("goroutine "); i < n; i++ {
		c := buf[i]
		if c < '0' || c > '9' {
			break
		}
		id = id*10 + int64(c-'0')
	}
	return id
}

func stack() string {
	buf := make([]byte, 8192)
	n := runtime.Stack(buf, false)
	return string(buf[:n])
}

// ---------------------------------------------------------------- Mutex

type Mutex struct {
	real  sync.Mutex
	ch    chan struct{}
	chGen int64
	owner int64
}

// chanLocked returns the channel backing m in the current execution.  Channels
// belong to the bubble that created them, so a mutex that outlives an
// execution (package-level variables) gets a fresh one per generation.
func (m *Mutex) chanLocked() chan struct{} {
	if m.ch == nil || m.chGen != gen {
		m.ch = make(chan struct{}, 1)
		m.chGen = gen
	}
	return m.ch
}

func (m *Mutex) Lock() {
	switch Mode() {
	case Plain:
		m.real.Lock()
	case Bubble:
		m.lockBubble()
	case Sched:
		Hooks.Lock(m, m.real.TryLock)
	}
}

func (m *Mutex) TryLock() bool {
	switch Mode() {
	case Plain:
		return m.real.TryLock()
	case Bubble:
		reg.Lock()
		defer reg.Unlock()
		select {
		case m.chanLocked() <- struct{}{}:
			return true
		default:
			return false
		}
	default:
		panic("vsync: TryLock in sched mode")
	}
}

func (m *Mutex) Unlock() {
	switch Mode() {
	case Plain:
		m.real.Unlock()
	case Bubble:
		reg.Lock()
		ch := m.chanLocked()
		reg.Unlock()
		select {
		case <-ch:
		default:
			panic("vsync: unlock of unlocked mutex")
		}
	case Sched:
		if Hooks.Unlock(m) {
			m.real.Unlock()
		}
	}
}

func (m *Mutex) lockBubble() {
	reg.Lock()
	nLockOps++
	ch := m.chanLocked()
	select {
	case ch <- struct{}{}:
		reg.Unlock()
		return
	default:
	}
	// contended: register as waiter (with the stack, for stuck-handler reports)
	waitSeq++
	id := waitSeq
	waiting[id] = &waitRec{lock: m, stack: stack()}
	ab := abortCh
	reg.Unlock()
	select {
	case ch <- struct{}{}:
		reg.Lock()
		delete(waiting, id)
		reg.Unlock()
	case <-ab:
		// end of execution: the waiter stays registered so that Stuck() can report it
		runtime.Goexit()
	}
}

// ---------------------------------------------------------------- RWMutex

type RWMutex struct {
	real    sync.RWMutex
	w       Mutex // writer exclusion (bubble)
	readers int
	wowner  int64
	writer  bool
	wake    chan struct{}
	rwGen   int64
}

func (rw *RWMutex) syncGenLocked() {
	if rw.rwGen != gen {
		rw.rwGen = gen
		rw.wake = nil
		rw.readers = 0
		rw.writer = false
	}
}

func (rw *RWMutex) wakeLocked() chan struct{} {
	if rw.wake == nil {
		rw.wake = make(chan struct{})
	}
	return rw.wake
}

func (rw *RWMutex) broadcastLocked() {
	if rw.wake != nil {
		close(rw.wake)
		rw.wake = nil
	}
}

func (rw *RWMutex) acquire(write bool) {
	var id int64
	for {
		reg.Lock()
		rw.syncGenLocked()
		ok := false
		if write {
			ok = !rw.writer && rw.readers == 0
			if ok {
				rw.writer = true
			}
		} else {
			ok = !rw.writer
			if ok {
				rw.readers++
			}
		}
		if ok {
			if id != 0 {
				delete(waiting, id)
			}
			reg.Unlock()
			return
		}
		if id == 0 {
			waitSeq++
			id = waitSeq
			waiting[id] = &waitRec{lock: rw, stack: stack()}
		}
		wk := rw.wakeLocked()
		ab := abortCh
		reg.Unlock()
		select {
		case <-wk:
		case <-ab:
			runtime.Goexit()
		}
	}
}

func (rw *RWMutex) Lock() {
	switch Mode() {
	case Plain:
		rw.real.Lock()
	case Bubble:
		rw.acquire(true)
	case Sched:
		Hooks.Lock(rw, rw.real.TryLock)
	}
}

func (rw *RWMutex) Unlock() {
	switch Mode() {
	case Plain:
		rw.real.Unlock()
	case Bubble:
		reg.Lock()
		if !rw.writer {
			reg.Unlock()
			panic("vsync: Unlock of unlocked RWMutex")
		}
		rw.writer = false
		rw.broadcastLocked()
		reg.Unlock()
	case Sched:
		if Hooks.Unlock(rw) {
			rw.real.Unlock()
		}
	}
}

func (rw *RWMutex) RLock() {
	switch Mode() {
	case Plain:
		rw.real.RLock()
	case Bubble:
		rw.acquire(false)
	case Sched:
		Hooks.Lock(rw, rw.real.TryRLock)
	}
}

func (rw *RWMutex) RUnlock() {
	switch Mode() {
	case Plain:
		rw.real.RUnlock()
	case Bubble:
		reg.Lock()
		if rw.readers <= 0 {
			reg.Unlock()
			panic("vsync: RUnlock of unlocked RWMutex")
		}
		rw.readers--
		if rw.readers == 0 {
			rw.broadcastLocked()
		}
		reg.Unlock()
	case Sched:
		if Hooks.Unlock(rw) {
			rw.real.RUnlock()
		}
	}
}

func (rw *RWMutex) RLocker() Locker { return (*rlocker)(rw) }

type rlocker RWMutex

func (r *rlocker) Lock()   { (*RWMutex)(r).RLock() }
func (r *rlocker) Unlock() { (*RWMutex)(r).RUnlock() }

// ---------------------------------------------------------------- Cond

// Cond keeps sync.Cond's shape (exported L).  In plain and bubble mode it is
// the real sync.Cond (bubble-aware since go1.25) on top of a shim Locker.
type Cond struct {
	L    Locker
	real *sync.Cond
	// sched mode
	Waiters int
}

func NewCond(l Locker) *Cond { return &Cond{L: l, real: sync.NewCond(l)} }

func (c *Cond) Wait() {
	if Mode() == Sched {
		Hooks.CondWait(c)
		return
	}
	c.real.Wait()
}
func (c *Cond) Signal() {
	if Mode() == Sched {
		Hooks.CondWake(c, false)
		return
	}
	c.real.Signal()
}
func (c *Cond) Broadcast() {
	if Mode() == Sched {
		Hooks.CondWake(c, true)
		return
	}
	c.real.Broadcast()
}

// ---------------------------------------------------------------- WaitGroup

type WaitGroup struct {
	real sync.WaitGroup
	n    atomic.Int64
}

func (wg *WaitGroup) Add(d int) {
	wg.n.Add(int64(d))
	wg.real.Add(d)
}
func (wg *WaitGroup) Done() {
	wg.n.Add(-1)
	wg.real.Done()
	if Mode() == Sched {
		Hooks.WgDone(wg)
	}
}
func (wg *WaitGroup) Wait() {
	if Mode() == Sched {
		Hooks.WgWait(wg, func() bool { return wg.n.Load() <= 0 })
		return
	}
	wg.real.Wait()
}
func (wg *WaitGroup) Go(f func()) {
	wg.Add(1)
	Go(func() {
		defer wg.Done()
		f()
	})
}

// ---------------------------------------------------------------- Go

// Go replaces the `go` statement in rewritten packages.
func Go(f func()) {
	if Mode() == Sched {
		Hooks.Go(f)
		return
	}
	go f()
}

func init() { _ = fmt.Sprintf }
