module verif

go 1.26

require (
	github.com/btcsuite/btcd v0.24.3-0.20250318170759-4f4ea81776d6
	github.com/btcsuite/btcd/btcec/v2 v2.3.4
	github.com/btcsuite/btcd/btcutil v1.1.5
	github.com/btcsuite/btcd/btcutil/psbt v1.1.8
	github.com/btcsuite/btcd/chaincfg/chainhash v1.1.0
	github.com/checksum0/go-electrum v0.0.0-20220912200153-b862ac442cf9
	github.com/elementsproject/glightning v0.0.0-20250728212555-da2a093f26a9
	github.com/elementsproject/peerswap v0.0.0
	github.com/lightningnetwork/lnd v0.18.4-beta.rc1
	github.com/vulpemventures/go-elements v0.5.1
	github.com/vulpemventures/go-secp256k1-zkp v1.1.6
	go.etcd.io/bbolt v1.3.11
	google.golang.org/grpc v1.59.0
)

require (
	github.com/Nvveen/Gotty v0.0.0-20120604004816-cd527374f1e5 // indirect
	github.com/aead/chacha20 v0.0.0-20180709150244-8b13a72661da // indirect
	github.com/aead/siphash v1.0.1 // indirect
	github.com/btcsuite/btclog v0.0.0-20170628155309-84c8d2346e9f // indirect
	github.com/btcsuite/btcwallet v0.16.10-0.20240912233857-ffb143c77cc5 // indirect
	github.com/btcsuite/btcwallet/wallet/txauthor v1.3.5 // indirect
	github.com/btcsuite/btcwallet/wallet/txrules v1.2.2 // indirect
	github.com/btcsuite/btcwallet/wallet/txsizes v1.2.5 // indirect
	github.com/btcsuite/btcwallet/walletdb v1.4.4 // indirect
	github.com/btcsuite/btcwallet/wtxmgr v1.5.4 // indirect
	github.com/btcsuite/go-socks v0.0.0-20170105172521-4720035b7bfd // indirect
	github.com/btcsuite/websocket v0.0.0-20150119174127-31079b680792 // indirect
	github.com/cenkalti/backoff/v4 v4.3.0 // indirect
	github.com/containerd/continuity v0.3.0 // indirect
	github.com/davecgh/go-spew v1.1.1 // indirect
	github.com/decred/dcrd/crypto/blake256 v1.0.1 // indirect
	github.com/decred/dcrd/dcrec/secp256k1/v4 v4.3.0 // indirect
	github.com/decred/dcrd/lru v1.1.2 // indirect
	github.com/docker/cli v20.10.17+incompatible // indirect
	github.com/docker/docker v24.0.7+incompatible // indirect
	github.com/docker/go-connections v0.4.0 // indirect
	github.com/docker/go-units v0.5.0 // indirect
	github.com/dustin/go-humanize v1.0.1 // indirect
	github.com/go-errors/errors v1.4.2 // indirect
	github.com/go-macaroon-bakery/macaroonpb v1.0.0 // indirect
	github.com/gogo/protobuf v1.3.2 // indirect
	github.com/golang-migrate/migrate/v4 v4.17.0 // indirect
	github.com/golang/protobuf v1.5.3 // indirect
	github.com/google/shlex v0.0.0-20191202100458-e7afc7fbc510 // indirect
	github.com/gorilla/websocket v1.5.0 // indirect
	github.com/grpc-ecosystem/go-grpc-middleware v1.3.0 // indirect
	github.com/grpc-ecosystem/grpc-gateway/v2 v2.11.3 // indirect
	github.com/hashicorp/errwrap v1.1.0 // indirect
	github.com/hashicorp/go-cleanhttp v0.5.2 // indirect
	github.com/hashicorp/go-multierror v1.1.1 // indirect
	github.com/hashicorp/go-retryablehttp v0.7.5 // indirect
	github.com/imdario/mergo v0.3.12 // indirect
	github.com/jackc/chunkreader/v2 v2.0.1 // indirect
	github.com/jackc/pgconn v1.14.3 // indirect
	github.com/jackc/pgerrcode v0.0.0-20240316143900-6e2875d9b438 // indirect
	github.com/jackc/pgio v1.0.0 // indirect
	github.com/jackc/pgpassfile v1.0.0 // indirect
	github.com/jackc/pgproto3/v2 v2.3.3 // indirect
	github.com/jackc/pgservicefile v0.0.0-20221227161230-091c0ba34f0a // indirect
	github.com/jackc/pgtype v1.14.0 // indirect
	github.com/jackc/pgx/v4 v4.18.2 // indirect
	github.com/jackc/pgx/v5 v5.3.1 // indirect
	github.com/jessevdk/go-flags v1.5.0 // indirect
	github.com/jrick/logrotate v1.1.2 // indirect
	github.com/kkdai/bstream v1.0.0 // indirect
	github.com/lightninglabs/gozmq v0.0.0-20191113021534-d20a764486bf // indirect
	github.com/lightninglabs/neutrino v0.16.1-0.20240425105051-602843d34ffd // indirect
	github.com/lightninglabs/neutrino/cache v1.1.2 // indirect
	github.com/lightningnetwork/lightning-onion v1.2.1-0.20240712235311-98bd56499dfb // indirect
	github.com/lightningnetwork/lnd/clock v1.1.1 // indirect
	github.com/lightningnetwork/lnd/fn v1.2.3 // indirect
	github.com/lightningnetwork/lnd/healthcheck v1.2.5 // indirect
	github.com/lightningnetwork/lnd/kvdb v1.4.10 // indirect
	github.com/lightningnetwork/lnd/queue v1.1.1 // indirect
	github.com/lightningnetwork/lnd/sqldb v1.0.4 // indirect
	github.com/lightningnetwork/lnd/ticker v1.1.1 // indirect
	github.com/lightningnetwork/lnd/tlv v1.2.6 // indirect
	github.com/lightningnetwork/lnd/tor v1.1.2 // indirect
	github.com/ltcsuite/ltcd v0.22.1-beta // indirect
	github.com/miekg/dns v1.1.50 // indirect
	github.com/mitchellh/mapstructure v1.4.1 // indirect
	github.com/moby/term v0.5.0 // indirect
	github.com/opencontainers/go-digest v1.0.0 // indirect
	github.com/opencontainers/image-spec v1.0.2 // indirect
	github.com/opencontainers/runc v1.1.12 // indirect
	github.com/ory/dockertest/v3 v3.10.0 // indirect
	github.com/pelletier/go-toml/v2 v2.0.5 // indirect
	github.com/pkg/errors v0.9.1 // indirect
	github.com/pmezard/go-difflib v1.0.0 // indirect
	github.com/remyoudompheng/bigfft v0.0.0-20230129092748-24d4a6f8daec // indirect
	github.com/rogpeppe/fastuuid v1.2.0 // indirect
	github.com/samber/lo v1.47.0 // indirect
	github.com/sirupsen/logrus v1.9.2 // indirect
	github.com/stretchr/objx v0.5.2 // indirect
	github.com/stretchr/testify v1.9.0 // indirect
	github.com/vulpemventures/fastsha256 v0.0.0-20160815193821-637e65642941 // indirect
	github.com/xeipuuv/gojsonpointer v0.0.0-20180127040702-4e3ac2762d5f // indirect
	github.com/xeipuuv/gojsonreference v0.0.0-20180127040603-bd5ef7bd5415 // indirect
	github.com/xeipuuv/gojsonschema v1.2.0 // indirect
	go.uber.org/atomic v1.10.0 // indirect
	go.uber.org/multierr v1.8.0 // indirect
	go.uber.org/zap v1.23.0 // indirect
	golang.org/x/crypto v0.23.0 // indirect
	golang.org/x/exp v0.0.0-20240325151524-a685a6edb6d8 // indirect
	golang.org/x/net v0.25.0 // indirect
	golang.org/x/sync v0.10.0 // indirect
	golang.org/x/sys v0.20.0 // indirect
	golang.org/x/term v0.20.0 // indirect
	golang.org/x/text v0.16.0 // indirect
	google.golang.org/genproto v0.0.0-20231016165738-49dd2c1f3d0b // indirect
	google.golang.org/genproto/googleapis/api v0.0.0-20231016165738-49dd2c1f3d0b // indirect
	google.golang.org/genproto/googleapis/rpc v0.0.0-20231030173426-d783a09b4405 // indirect
	google.golang.org/protobuf v1.33.0 // indirect
	gopkg.in/errgo.v1 v1.0.1 // indirect
	gopkg.in/macaroon-bakery.v2 v2.3.0 // indirect
	gopkg.in/macaroon.v2 v2.1.0 // indirect
	gopkg.in/yaml.v2 v2.4.0 // indirect
	gopkg.in/yaml.v3 v3.0.1 // indirect
	modernc.org/libc v1.49.3 // indirect
	modernc.org/mathutil v1.6.0 // indirect
	modernc.org/memory v1.8.0 // indirect
	modernc.org/sqlite v1.29.10 // indirect
)

replace github.com/elementsproject/peerswap => /repo

replace github.com/grpc-ecosystem/go-grpc-middleware => github.com/nepet/go-grpc-middleware v1.3.1-0.20220824133300-340e95267339

replace google.golang.org/protobuf => github.com/lightninglabs/protobuf-go-hex-display v1.30.0-hex-display
