// Package sched is a hand-written cooperative scheduler for exhaustive,
// preemption-bounded exploration of thread interleavings of the real code.
//
// Threads are the harness's entry-point calls plus every goroutine the code
// spawns (through vsync.Go).  Exactly one thread runs at a time.  A thread
// yields to the scheduler before every lock acquisition, at Cond/WaitGroup
// waits, at spawn and exit, and before every simulated environment call.  The
// scheduler grants a lock only when it is free, so the real lock never blocks.
//
// Hand-off between threads uses raw read/write system calls on per-thread
// pipes and no Go synchronisation primitive at all (no mutex, channel or
// atomic): the Go race detector therefore sees exactly the happens-before
// edges of the program under test and none added by the scheduler (functions
// here are //go:norace so that the scheduler's own bookkeeping is invisible).
package sched

import (
	"fmt"
	"runtime"
	"sort"
	"strconv"
	"strings"
	"sync/atomic"
	"syscall"
	"time"
	"unsafe"

	"verif/vsync"
)

type wantKind int

const (
	wantRun wantKind = iota // nothing to wait for
	wantLock
	wantRLock
	wantCond // waiting for a signal
	wantWg
)

type Thread struct {
	ID      int
	Name    string
	rfd     int
	wfd     int
	done    bool
	want    wantKind
	obj     any
	wgDone  func() bool
	at      string
	started bool
	chain   string // peerswap call chain at the last lock request
}

// lockSt: scheduler-side state of one lock.  No Go maps anywhere in the
// scheduler: map operations are instrumented inside the runtime even when the
// caller is //go:norace, and would show up as (false) race reports.
type lockSt struct {
	obj     any
	name    string
	writer  *Thread
	readers []*Thread
}

// Point is one scheduling decision.
type Point struct {
	Enabled        []int // thread ids, canonical order
	Chosen         int   // index into Enabled
	RunningEnabled bool  // the previously running thread is Enabled[0]
	At             string
}

type Deadlock struct {
	Waiting []string // "T1(name) waits for <lock> held by T2(name) at <site>"
	Cycle   []string // call chains of the threads that form the cycle (a thread waiting for itself is a cycle of one)
}

type Exec struct {
	threads  []*Thread
	cur      *Thread
	locks    []*lockSt
	prefix   []int
	Points   []Point
	Choices  []int
	Deadlock *Deadlock
	aborted  bool
	steps    int
	MaxSteps int
	Overflow bool
	mainR    int
	mainW    int
	Internal string
}

var cur *Exec

var pendingUnmanaged int64

// WaitSetupIdle blocks until every goroutine spawned (through vsync.Go) during
// the unscheduled set-up phase has finished.
func WaitSetupIdle() bool {
	for i := 0; atomic.LoadInt64(&pendingUnmanaged) != 0; i++ {
		if i > 200000 {
			return false
		}
		time.Sleep(20 * time.Microsecond)
	}
	return true
}

//go:norace
func mkPipe() (int, int) {
	var p [2]int
	if err := syscall.Pipe(p[:]); err != nil {
		panic(err)
	}
	return p[0], p[1]
}

//go:norace
func rawWrite(fd int) {
	var b [1]byte
	for {
		_, _, e := syscall.Syscall(syscall.SYS_WRITE, uintptr(fd), uintptr(unsafe.Pointer(&b[0])), 1)
		if e == syscall.EINTR {
			continue
		}
		return
	}
}

//go:norace
func rawRead(fd int) {
	var b [1]byte
	for {
		_, _, e := syscall.Syscall(syscall.SYS_READ, uintptr(fd), uintptr(unsafe.Pointer(&b[0])), 1)
		if e == syscall.EINTR {
			continue
		}
		return
	}
}

//go:norace
func (t *Thread) park() { rawRead(t.rfd) }

//go:norace
func (t *Thread) wake() { rawWrite(t.wfd) }

//go:norace
func (e *Exec) newThread(name string) *Thread {
	t := &Thread{ID: len(e.threads), Name: name}
	t.rfd, t.wfd = mkPipe()
	e.threads = append(e.threads, t)
	return t
}

//go:norace
func (e *Exec) lock(obj any) *lockSt {
	for _, l := range e.locks {
		if l.obj == obj {
			return l
		}
	}
	name := "*vsync.Mutex"
	if _, ok := obj.(*vsync.RWMutex); ok {
		name = "*vsync.RWMutex"
	}
	l := &lockSt{obj: obj, name: name + "#" + strconv.Itoa(len(e.locks)+1)}
	e.locks = append(e.locks, l)
	return l
}

//go:norace
func (l *lockSt) removeReader(t *Thread) bool {
	for i, r := range l.readers {
		if r == t {
			l.readers = append(l.readers[:i], l.readers[i+1:]...)
			return true
		}
	}
	return false
}

//go:norace
func (e *Exec) enabled(t *Thread) bool {
	if t.done {
		return false
	}
	switch t.want {
	case wantRun:
		return true
	case wantLock:
		l := e.lock(t.obj)
		return l.writer == nil && len(l.readers) == 0
	case wantRLock:
		return e.lock(t.obj).writer == nil
	case wantCond:
		return false
	case wantWg:
		return t.wgDone()
	}
	return false
}

// choose picks the next thread: replays the prefix, then takes choice 0.
// Canonical order: the running thread first if still enabled, then ascending ids.
//
//go:norace
func (e *Exec) choose(running *Thread, at string) *Thread {
	var en []*Thread
	runningEnabled := false
	if running != nil && e.enabled(running) {
		en = append(en, running)
		runningEnabled = true
	}
	for _, t := range e.threads {
		if t != running && e.enabled(t) {
			en = append(en, t)
		}
	}
	if len(en) == 0 {
		return nil
	}
	idx := 0
	if len(e.Points) < len(e.prefix) {
		idx = e.prefix[len(e.Points)]
		if idx >= len(en) {
			var ats []string
			for _, p := range e.Points {
				ats = append(ats, fmt.Sprintf("%s%v->%d", p.At, p.Enabled, p.Chosen))
			}
			e.Internal = fmt.Sprintf("replay divergence: choice %d out of range (%d enabled) at point %d (%s); so far: %s", idx, len(en), len(e.Points), at, strings.Join(ats, " ; "))
			idx = 0
		}
	}
	ids := make([]int, len(en))
	for i, t := range en {
		ids[i] = t.ID
	}
	e.Points = append(e.Points, Point{Enabled: ids, Chosen: idx, RunningEnabled: runningEnabled, At: at})
	e.Choices = append(e.Choices, idx)
	return en[idx]
}

//go:norace
func (e *Exec) grant(t *Thread) {
	switch t.want {
	case wantLock:
		e.lock(t.obj).writer = t
	case wantRLock:
		l := e.lock(t.obj)
		l.readers = append(l.readers, t)
	}
	t.want = wantRun
	t.obj = nil
}

// yield is called by the running thread t at a scheduling point.
//
//go:norace
func (e *Exec) yield(t *Thread, at string) {
	e.steps++
	if e.MaxSteps > 0 && e.steps > e.MaxSteps {
		e.Overflow = true
		e.abortAll(t)
		runtime.Goexit()
	}
	t.at = at
	next := e.choose(t, at)
	if next == nil {
		e.reportDeadlock()
		e.abortAll(t)
		runtime.Goexit()
	}
	e.grant(next)
	if next == t {
		return
	}
	e.cur = next
	next.wake()
	t.park()
	if e.aborted {
		runtime.Goexit()
	}
}

//go:norace
func (e *Exec) exit(t *Thread) {
	t.done = true
	syscall.Close(t.rfd)
	syscall.Close(t.wfd)
	if e.aborted {
		return
	}
	next := e.choose(nil, "exit:"+t.Name)
	if next == nil {
		all := true
		for _, u := range e.threads {
			if !u.done {
				all = false
			}
		}
		if !all {
			e.reportDeadlock()
			e.abortAll(t)
			return
		}
		e.cur = nil
		rawWrite(e.mainW)
		return
	}
	e.grant(next)
	e.cur = next
	next.wake()
}

//go:norace
func (e *Exec) abortAll(except *Thread) {
	if e.aborted {
		return
	}
	e.aborted = true
	for _, u := range e.threads {
		if u != except && !u.done && u.started {
			u.wake()
		}
	}
	e.cur = nil
	rawWrite(e.mainW)
}

//go:norace
func (e *Exec) reportDeadlock() {
	d := &Deadlock{}
	for _, u := range e.threads {
		if u.done {
			continue
		}
		desc := fmt.Sprintf("T%d(%s) at %s", u.ID, u.Name, u.at)
		switch u.want {
		case wantLock, wantRLock:
			l := e.lock(u.obj)
			holder := "readers"
			if l.writer != nil {
				holder = fmt.Sprintf("T%d(%s)", l.writer.ID, l.writer.Name)
				if l.writer == u {
					holder += " [itself]"
				}
			}
			desc += fmt.Sprintf(" waits for %s held by %s", e.lock(u.obj).name, holder)
		case wantCond:
			desc += " waits for a condition signal"
		case wantWg:
			desc += " waits for a WaitGroup"
		}
		d.Waiting = append(d.Waiting, desc)
	}
	sort.Strings(d.Waiting)
	// threads on a cycle of the wait-for graph (others are only victims)
	next := func(u *Thread) *Thread {
		if u.want == wantLock || u.want == wantRLock {
			return e.lock(u.obj).writer
		}
		return nil
	}
	for _, u := range e.threads {
		if u.done {
			continue
		}
		steps := 0
		for v := u; v != nil && steps <= len(e.threads); v = next(v) {
			steps++
			if next(v) == u {
				d.Cycle = append(d.Cycle, u.chain)
				break
			}
		}
	}
	sort.Strings(d.Cycle)
	e.Deadlock = d
}

// callChain returns the peerswap functions on the stack, outermost first.
//
//go:norace
func callChain() string {
	pc := make([]uintptr, 48)
	n := runtime.Callers(3, pc)
	fr := runtime.CallersFrames(pc[:n])
	var fns []string
	for {
		f, more := fr.Next()
		if i := strings.Index(f.Function, "elementsproject/peerswap/"); i >= 0 {
			fn := f.Function[i+len("elementsproject/peerswap/"):]
			if len(fns) == 0 || fns[len(fns)-1] != fn {
				fns = append(fns, fn)
			}
		}
		if !more {
			break
		}
	}
	for i, j := 0, len(fns)-1; i < j; i, j = i+1, j-1 {
		fns[i], fns[j] = fns[j], fns[i]
	}
	return strings.Join(fns, " > ")
}

// ---------------------------------------------------------------- hooks

//go:norace
func hookLock(m any, try func() bool) {
	e := cur
	if e == nil || e.cur == nil {
		for !try() {
			runtime.Gosched()
		}
		return
	}
	t := e.cur
	_, isRW := m.(*vsync.RWMutex)
	t.chain = callChain()
	t.want, t.obj = wantLock, m
	if isRW && callerIsRLock() {
		t.want = wantRLock
	}
	e.yield(t, "lock:"+site(3))
	if !try() {
		e.Internal = "scheduler granted a lock that is not free: " + e.lock(m).name
	}
}

//go:norace
func callerIsRLock() bool {
	pc := make([]uintptr, 6)
	n := runtime.Callers(3, pc)
	fr := runtime.CallersFrames(pc[:n])
	for {
		f, more := fr.Next()
		if strings.HasSuffix(f.Function, "RWMutex).RLock") {
			return true
		}
		if strings.HasSuffix(f.Function, "RWMutex).Lock") {
			return false
		}
		if !more {
			return false
		}
	}
}

// hookUnlock updates the bookkeeping and tells the shim whether the real
// unlock must happen (not when an aborted thread unwinds through a deferred
// Unlock of a lock it never got).
//
//go:norace
func hookUnlock(m any) bool {
	e := cur
	if e == nil {
		return true
	}
	if e.aborted {
		l := e.lock(m)
		if l.writer == nil && len(l.readers) == 0 {
			return false
		}
		l.writer = nil
		l.readers = nil
		return true
	}
	if e.cur == nil {
		return true
	}
	t := e.cur
	l := e.lock(m)
	if l.writer != nil {
		l.writer = nil
	} else if !l.removeReader(t) && len(l.readers) > 0 {
		// unlock by another thread than the locker (legal in Go)
		l.readers = l.readers[1:]
	}
	return true
}

//go:norace
func hookYield(what string) {
	e := cur
	if e == nil || e.cur == nil {
		return
	}
	t := e.cur
	t.want = wantRun
	e.yield(t, "op:"+what)
}

// TimerSpawnSites lists functions whose `go` statements start a goroutine that only
// sleeps on a real timer (minutes) before acting.  Inside a scheduler exploration such a
// goroutine is not started: the explored horizon ends before any of these timers fires.
var TimerSpawnSites []string

// SkippedTimers counts the goroutines not started because of TimerSpawnSites.
var SkippedTimers int64

//go:norace
func hookGo(f func()) {
	if len(TimerSpawnSites) > 0 {
		s := site(3)
		for _, ts := range TimerSpawnSites {
			if strings.Contains(s, ts) {
				atomic.AddInt64(&SkippedTimers, 1)
				return
			}
		}
	}
	e := cur
	if e == nil || e.cur == nil {
		// unmanaged (set-up phase): the goroutine runs freely, and the
		// exploration only starts once all of them have finished
		atomic.AddInt64(&pendingUnmanaged, 1)
		go func() {
			defer atomic.AddInt64(&pendingUnmanaged, -1)
			f()
		}()
		return
	}
	parent := e.cur
	u := e.newThread("go:" + site(3))
	u.started = true
	go func() {
		u.park()
		if e.aborted {
			return
		}
		defer e.exit(u)
		f()
	}()
	parent.want = wantRun
	e.yield(parent, "spawn")
}

//go:norace
func hookCondWait(c *vsync.Cond) {
	e := cur
	if e == nil || e.cur == nil {
		panic("sched: Cond.Wait outside a managed thread")
	}
	t := e.cur
	c.L.Unlock()
	t.want, t.obj = wantCond, c
	e.yield(t, "condwait")
	c.L.Lock()
}

//go:norace
func hookCondWake(c *vsync.Cond, all bool) {
	e := cur
	if e == nil {
		return
	}
	for _, u := range e.threads {
		if !u.done && u.want == wantCond && u.obj == c {
			u.want, u.obj = wantRun, nil
			if !all {
				return
			}
		}
	}
}

//go:norace
func hookWgWait(wg *vsync.WaitGroup, done func() bool) {
	e := cur
	if e == nil || e.cur == nil {
		for !done() {
			runtime.Gosched()
		}
		return
	}
	t := e.cur
	t.want, t.obj, t.wgDone = wantWg, wg, done
	e.yield(t, "wgwait")
}

func hookWgDone(*vsync.WaitGroup) {}

//go:norace
func site(skip int) string {
	pc := make([]uintptr, 8)
	n := runtime.Callers(skip, pc)
	fr := runtime.CallersFrames(pc[:n])
	for {
		f, more := fr.Next()
		if !strings.Contains(f.Function, "verif/vsync") && !strings.Contains(f.Function, "verif/sched") {
			fn := f.Function
			if i := strings.LastIndex(fn, "/"); i >= 0 {
				fn = fn[i+1:]
			}
			return fmt.Sprintf("%s:%d", fn, f.Line)
		}
		if !more {
			return "?"
		}
	}
}

func Install() {
	vsync.Hooks = &vsync.SchedHooks{Lock: hookLock, Unlock: hookUnlock, Yield: hookYield, Go: hookGo,
		CondWait: hookCondWait, CondWake: hookCondWake, WgWait: hookWgWait, WgDone: hookWgDone}
	vsync.SetMode(vsync.Sched)
}

// Yield is the scheduling point for simulated environment calls.
//
//go:norace
func Yield(what string) { hookYield(what) }

// Harness describes one exploration target.
type Harness struct {
	Name string
	// Setup builds a fresh instance (runs unscheduled) and returns the
	// entry-point calls (threads) plus a check run after the execution.
	Setup func() (threads []NamedFunc, check func(e *Exec) []string, cleanup func())
}

type NamedFunc struct {
	Name string
	F    func()
}

// Run executes the harness once following prefix, then choice 0 everywhere.
//
//go:norace
func Run(h Harness, prefix []int, maxSteps int) (*Exec, []string) {
	e := &Exec{prefix: prefix, MaxSteps: maxSteps}
	e.mainR, e.mainW = mkPipe()
	cur = nil
	threads, check, cleanup := h.Setup()
	for i := 0; atomic.LoadInt64(&pendingUnmanaged) != 0; i++ {
		if i > 200000 {
			e.Internal = "set-up goroutines did not finish"
			break
		}
		time.Sleep(20 * time.Microsecond)
	}
	cur = e
	for _, nf := range threads {
		t := e.newThread(nf.Name)
		t.started = true
		f := nf.F
		go func() {
			t.park()
			if e.aborted {
				return
			}
			defer e.exit(t)
			f()
		}()
	}
	first := e.choose(nil, "start")
	if first != nil {
		e.grant(first)
		e.cur = first
		first.wake()
		rawRead(e.mainR)
	}
	cur = nil
	var problems []string
	if check != nil && e.Deadlock == nil && !e.Overflow {
		problems = check(e)
	}
	if cleanup != nil {
		cleanup()
	}
	syscall.Close(e.mainR)
	syscall.Close(e.mainW)
	return e, problems
}

// PreemptionsBefore counts the preemptions among points[0:i].
func (e *Exec) preemptionsBefore(i int) int {
	n := 0
	for _, p := range e.Points[:i] {
		if p.RunningEnabled && p.Chosen != 0 {
			n++
		}
	}
	return n
}

type Result struct {
	Executions   int
	Deadlocks    map[string]*DeadlockCase
	Problems     map[string][]int // final-state problems with a schedule
	MaxPoints    int
	Overflows    int
	Internal     []string
	Outcomes     map[string]int
	Bound        int
	Capped       bool
	SampleScheds [][]int
}

type DeadlockCase struct {
	Key      string
	Waiting  []string
	Schedule []int
}

// Explore enumerates all schedules with at most bound preemptions (depth-first).
func Explore(h Harness, bound int, maxExec int, outcome func(e *Exec) string) *Result {
	res := &Result{Deadlocks: map[string]*DeadlockCase{}, Problems: map[string][]int{}, Outcomes: map[string]int{}, Bound: bound}
	var rec func(prefix []int)
	rec = func(prefix []int) {
		if maxExec > 0 && res.Executions >= maxExec {
			res.Capped = true
			return
		}
		e, problems := Run(h, prefix, 20000)
		res.Executions++
		if len(res.SampleScheds) < 5 {
			res.SampleScheds = append(res.SampleScheds, append([]int{}, e.Choices...))
		}
		if e.Internal != "" {
			res.Internal = append(res.Internal, e.Internal)
		}
		if e.Overflow {
			res.Overflows++
		}
		if len(e.Points) > res.MaxPoints {
			res.MaxPoints = len(e.Points)
		}
		if e.Deadlock != nil {
			key := DeadlockKey(e.Deadlock)
			if _, ok := res.Deadlocks[key]; !ok {
				res.Deadlocks[key] = &DeadlockCase{Key: key, Waiting: e.Deadlock.Waiting, Schedule: append([]int{}, e.Choices...)}
			}
			res.Outcomes["deadlock"]++
		} else if outcome != nil {
			res.Outcomes[outcome(e)]++
		}
		for _, p := range problems {
			if _, ok := res.Problems[p]; !ok {
				res.Problems[p] = append([]int{}, e.Choices...)
			}
		}
		for i := len(prefix); i < len(e.Points); i++ {
			p := e.Points[i]
			cost := e.preemptionsBefore(i)
			for alt := 0; alt < len(p.Enabled); alt++ {
				if alt == p.Chosen {
					continue
				}
				c := cost
				if p.RunningEnabled && alt != 0 {
					c++
				}
				if c > bound {
					continue
				}
				np := append(append([]int{}, e.Choices[:i]...), alt)
				rec(np)
			}
		}
	}
	rec(nil)
	return res
}

// DeadlockKey is a stable description of the cycle: the peerswap call chains
// (function names, no line numbers, no thread or lock numbers) of the threads
// that wait for each other.
func DeadlockKey(d *Deadlock) string {
	if len(d.Cycle) == 0 {
		return "no_lock_cycle:" + strings.Join(d.Waiting, " | ")
	}
	return strings.Join(d.Cycle, " || ")
}
