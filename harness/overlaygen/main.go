// overlaygen rewrites the checked peerswap packages for the harness:
//
//  1. import "sync"  ->  import sync "verif/vsync"
//  2. go f(a, b)     ->  { a0, a1 := a, b; vsyncgo.Go(func() { f(a0, a1) }) }
//
// and writes a `go build -overlay` JSON.  Purely mechanical; a construct it does
// not understand is left untouched and counted (unhooked_constructs).
package main

import (
	"bytes"
	"encoding/json"
	"flag"
	"fmt"
	"go/ast"
	"go/format"
	"go/parser"
	"go/token"
	"os"
	"path/filepath"
	"strconv"
	"strings"
)

type report struct {
	Files         int      `json:"files"`
	SyncImports   int      `json:"sync_imports_rewritten"`
	GoStmts       int      `json:"go_statements_rewritten"`
	Unhooked      int      `json:"unhooked_constructs"`
	UnhookedWhere []string `json:"unhooked_where,omitempty"`
	Packages      []string `json:"packages"`
	TimeImports   int      `json:"time_imports_rewritten"`
	Mutated       []string `json:"mutated_files,omitempty"`
}

func main() {
	repo := flag.String("repo", "/repo", "repository root")
	out := flag.String("out", "", "output directory")
	pkgs := flag.String("pkgs", "swap,messages,txwatcher,electrum,lwk,policy,peersync,lnd,timer", "packages (dirs) to rewrite")
	timePkgs := flag.String("timepkgs", "", "packages whose \"time\" import is mapped to verif/vtime")
	mutants := flag.String("mutants", "", "directory mirroring the repository layout whose files replace the repository's (deliberate property-breaking changes, applied without touching the repository)")
	flag.Parse()
	if *out == "" {
		fmt.Fprintln(os.Stderr, "need -out")
		os.Exit(2)
	}
	os.MkdirAll(*out, 0o755)
	rep := report{Packages: strings.Split(*pkgs, ",")}
	timeSet := map[string]bool{}
	for _, p := range strings.Split(*timePkgs, ",") {
		if p != "" {
			timeSet[p] = true
		}
	}
	replace := map[string]string{}
	mutatedSeen := map[string]bool{}
	for _, pkg := range rep.Packages {
		dir := filepath.Join(*repo, pkg)
		ents, err := os.ReadDir(dir)
		if err != nil {
			continue
		}
		for _, e := range ents {
			n := e.Name()
			if e.IsDir() || !strings.HasSuffix(n, ".go") || strings.HasSuffix(n, "_test.go") {
				continue
			}
			src := filepath.Join(dir, n)
			readFrom := src
			mutated := false
			if *mutants != "" {
				if m := filepath.Join(*mutants, pkg, n); fileExists(m) {
					readFrom = m
					mutated = true
					mutatedSeen[filepath.Join(pkg, n)] = true
				}
			}
			data, err := os.ReadFile(readFrom)
			if err != nil {
				continue
			}
			newData, changed := rewrite(src, data, &rep, timeSet[pkg])
			if !changed {
				if mutated {
					replace[src] = readFrom
					rep.Mutated = append(rep.Mutated, filepath.Join(pkg, n))
				}
				continue
			}
			if mutated {
				rep.Mutated = append(rep.Mutated, filepath.Join(pkg, n))
			}
			dst := filepath.Join(*out, pkg, n)
			os.MkdirAll(filepath.Dir(dst), 0o755)
			// do not touch identical files (keeps the build cache warm)
			if old, err := os.ReadFile(dst); err != nil || !bytes.Equal(old, newData) {
				if err := os.WriteFile(dst, newData, 0o644); err != nil {
					fmt.Fprintln(os.Stderr, err)
					os.Exit(2)
				}
			}
			replace[src] = dst
			rep.Files++
		}
	}
	// mutant files outside the rewritten packages replace the originals as they are
	if *mutants != "" {
		filepath.Walk(*mutants, func(path string, info os.FileInfo, err error) error {
			if err != nil || info.IsDir() || !strings.HasSuffix(path, ".go") {
				return nil
			}
			rel, _ := filepath.Rel(*mutants, path)
			if mutatedSeen[rel] {
				return nil
			}
			replace[filepath.Join(*repo, rel)] = path
			rep.Mutated = append(rep.Mutated, rel)
			return nil
		})
	}
	ov, _ := json.MarshalIndent(map[string]any{"Replace": replace}, "", " ")
	os.WriteFile(filepath.Join(*out, "overlay.json"), ov, 0o644)
	rj, _ := json.MarshalIndent(rep, "", " ")
	os.WriteFile(filepath.Join(*out, "report.json"), rj, 0o644)
}

func fileExists(p string) bool {
	st, err := os.Stat(p)
	return err == nil && !st.IsDir()
}

func rewrite(name string, data []byte, rep *report, mapTime bool) ([]byte, bool) {
	fset := token.NewFileSet()
	f, err := parser.ParseFile(fset, name, data, parser.ParseComments)
	if err != nil {
		rep.Unhooked++
		rep.UnhookedWhere = append(rep.UnhookedWhere, name+": parse error")
		return nil, false
	}
	changed := false
	for _, imp := range f.Imports {
		p, _ := strconv.Unquote(imp.Path.Value)
		if p == "sync" {
			if imp.Name != nil && imp.Name.Name != "sync" {
				// keep the local name
			} else {
				imp.Name = ast.NewIdent("sync")
			}
			imp.Path.Value = strconv.Quote("verif/vsync")
			rep.SyncImports++
			changed = true
		}
		if p == "time" && mapTime {
			if imp.Name == nil {
				imp.Name = ast.NewIdent("time")
			}
			imp.Path.Value = strconv.Quote("verif/vtime")
			rep.TimeImports++
			changed = true
		}
	}
	nGo := 0
	var rewriteBlock func(list []ast.Stmt) []ast.Stmt
	rewriteStmt := func(s ast.Stmt) ast.Stmt {
		g, ok := s.(*ast.GoStmt)
		if !ok {
			return s
		}
		call := g.Call
		if call.Ellipsis.IsValid() {
			rep.Unhooked++
			rep.UnhookedWhere = append(rep.UnhookedWhere, fset.Position(g.Pos()).String()+": variadic go call")
			return s
		}
		var lhs []ast.Expr
		var rhs []ast.Expr
		var args []ast.Expr
		for i, a := range call.Args {
			id := ast.NewIdent(fmt.Sprintf("vgoArg%d", i))
			lhs = append(lhs, id)
			rhs = append(rhs, a)
			args = append(args, id)
		}
		inner := &ast.CallExpr{Fun: call.Fun, Args: args}
		lit := &ast.FuncLit{
			Type: &ast.FuncType{Params: &ast.FieldList{}},
			Body: &ast.BlockStmt{List: []ast.Stmt{&ast.ExprStmt{X: inner}}},
		}
		goCall := &ast.ExprStmt{X: &ast.CallExpr{
			Fun:  &ast.SelectorExpr{X: ast.NewIdent("vsyncgo"), Sel: ast.NewIdent("Go")},
			Args: []ast.Expr{lit},
		}}
		nGo++
		if len(lhs) == 0 {
			return goCall
		}
		return &ast.BlockStmt{List: []ast.Stmt{
			&ast.AssignStmt{Lhs: lhs, Tok: token.DEFINE, Rhs: rhs},
			goCall,
		}}
	}
	rewriteBlock = func(list []ast.Stmt) []ast.Stmt {
		for i, s := range list {
			list[i] = rewriteStmt(s)
		}
		return list
	}
	ast.Inspect(f, func(n ast.Node) bool {
		switch x := n.(type) {
		case *ast.BlockStmt:
			x.List = rewriteBlock(x.List)
		case *ast.CaseClause:
			x.Body = rewriteBlock(x.Body)
		case *ast.CommClause:
			x.Body = rewriteBlock(x.Body)
		case *ast.LabeledStmt:
			x.Stmt = rewriteStmt(x.Stmt)
		case *ast.IfStmt:
			// else-branch that is a bare go statement cannot occur (must be block)
		}
		return true
	})
	if nGo > 0 {
		changed = true
		rep.GoStmts += nGo
		// add import vsyncgo "verif/vsync"
		spec := &ast.ImportSpec{Name: ast.NewIdent("vsyncgo"), Path: &ast.BasicLit{Kind: token.STRING, Value: strconv.Quote("verif/vsync")}}
		added := false
		for _, d := range f.Decls {
			if gd, ok := d.(*ast.GenDecl); ok && gd.Tok == token.IMPORT {
				gd.Specs = append(gd.Specs, spec)
				if !gd.Lparen.IsValid() {
					gd.Lparen = gd.Pos()
					gd.Rparen = gd.End()
				}
				added = true
				break
			}
		}
		if !added {
			gd := &ast.GenDecl{Tok: token.IMPORT, Specs: []ast.Spec{spec}}
			f.Decls = append([]ast.Decl{gd}, f.Decls...)
		}
		f.Imports = append(f.Imports, spec)
	}
	if !changed {
		return nil, false
	}
	var buf bytes.Buffer
	if err := format.Node(&buf, fset, f); err != nil {
		rep.Unhooked++
		rep.UnhookedWhere = append(rep.UnhookedWhere, name+": print error "+err.Error())
		return nil, false
	}
	return buf.Bytes(), true
}
