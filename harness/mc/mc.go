// Package mc holds the explorers (breadth-first search by replay, product
// enumeration), the violation / known-findings filter and the evidence writer.
package mc

import (
	"crypto/sha256"
	"encoding/hex"
	"encoding/json"
	"fmt"
	"os"
	"path/filepath"
	"sort"
	"strings"
	"time"
)

// Event is one step of a history.  It is plain data so that histories can be
// stored and replayed.
type Event struct {
	Name  string `json:"e"`
	Arg   string `json:"a,omitempty"`
	N     int    `json:"n,omitempty"`
	Crash int    `json:"crash,omitempty"` // k+1: the node under test dies before its k-th effect op of this event; 0 = none
	Dev   int    `json:"dev,omitempty"`   // deviation cost
	// NoCrash: the event is a probe / a harness action, not behaviour of the node: no crash variants of it
	NoCrash bool `json:"nc,omitempty"`
}

func (e Event) String() string {
	s := e.Name
	if e.Arg != "" {
		s += "(" + e.Arg
		if e.N != 0 {
			s += fmt.Sprintf(",%d", e.N)
		}
		s += ")"
	} else if e.N != 0 {
		s += fmt.Sprintf("(%d)", e.N)
	}
	if e.Crash > 0 {
		s += fmt.Sprintf("@crash%d", e.Crash-1)
	}
	return s
}

func HistoryString(h []Event) []string {
	out := make([]string, len(h))
	for i, e := range h {
		out[i] = e.String()
	}
	return out
}

// Violation is one failed oracle clause.  Key names what fails where (oracle
// clause + state/event/call site + magnitude), not how it was reached.
type Violation struct {
	Property string   `json:"property"`
	Key      string   `json:"key"`
	Detail   string   `json:"detail"`
	History  []string `json:"history,omitempty"`
	Scenario string   `json:"scenario,omitempty"`
	Events   []Event  `json:"events,omitempty"`
}

// StepResult is what one execution (history + one event) yields.
type StepResult struct {
	Key        string
	Enabled    []Event
	Effects    int // effect ops of the node under test during the last event
	StoreOps   []int // indices of those effect ops that were durable store writes
	Violations []Violation
	Outcome    string // coarse oracle outcome label (vacuity guard)
	Internal   string // non-empty: internal error (never a violation)
	PrefixKey  string // key of the state before the last event (replay-divergence check)
	PrefixDiff string
	KeyText    string // full key (only with VERIF_DEBUG_KEYS=1)
}

// Compact replaces the (large) canonical keys by their hashes; used before a
// result crosses a process boundary.
func (r *StepResult) Compact() {
	if r.Key != "" {
		r.Key = hashKey(r.Key)
	}
	if r.PrefixKey != "" {
		r.PrefixKey = hashKey(r.PrefixKey)
	}
	if os.Getenv("VERIF_DEBUG_KEYS") == "" {
		r.PrefixDiff = ""
		r.KeyText = ""
	}
}

// Runner executes a history from the initial state and reports on the final state.
type Runner func(history []Event) StepResult

type Bounds struct {
	MaxDepth  int
	MaxDev    int
	MaxStates int           // cap (0 = none)
	Budget    time.Duration // wall-clock cap (0 = none); hitting it ends with exhaustive=false
	// NoCrashFirst: the coordinator first explores the family without crash variants (same depth, same budget) and
	// then again with them, so that the crash variants (which multiply the work per depth) never cost the plain
	// histories their depth when a budget is hit.
	NoCrashFirst bool
	// CPUNow, when set, returns the CPU time the family's worker processes have consumed so far (average per worker).
	// Budget is then measured on that clock, so that the explored prefix does not shrink when the machine is busy with
	// other work; wall-clock time is still capped, at 3 x Budget.
	CPUNow func() time.Duration `json:"-"`
	NoCrash   bool
	// CrashAfterStore restricts crash points to those immediately after a durable store
	// write (the node dies before the effect op that follows the write).
	CrashAfterStore bool
}

type Report struct {
	Scenario         string         `json:"scenario"`
	States           int            `json:"states"`
	Transitions      int            `json:"transitions"`
	Executions       int            `json:"executions"`
	MaxDepth         int            `json:"max_depth"`
	PerDepth         []int          `json:"frontier_per_depth"`
	Outcomes         map[string]int `json:"outcomes"`
	Violations       []Violation    `json:"violations"`
	Exhaustive       bool           `json:"exhaustive"`
	CapHit           string         `json:"cap_hit,omitempty"`
	Samples          [][]string     `json:"samples"`
	Internal         []string       `json:"internal_errors,omitempty"`
	WallS            float64        `json:"wall_s"`
	Bounds           Bounds         `json:"bounds"`
	CrashRuns        int            `json:"crash_runs"`
	CompletedDepth   int            `json:"completed_depth"`
	Nondeterministic int            `json:"nondeterministic_replays"`
	NondetSamples    []string       `json:"nondeterministic_samples,omitempty"`
}

type item struct {
	hist    []Event
	enabled []Event
	key     string
	keyText string
	dev     int
}

func devOf(h []Event) int {
	d := 0
	for _, e := range h {
		d += e.Dev
	}
	return d
}

func hashKey(s string) string {
	h := sha256.Sum256([]byte(s))
	return hex.EncodeToString(h[:12])
}

// BatchRunner executes several histories (possibly in parallel worker
// processes) and returns their results in order.
type BatchRunner func(histories [][]Event) []StepResult

func Sequential(run Runner) BatchRunner {
	return func(hs [][]Event) []StepResult {
		out := make([]StepResult, len(hs))
		for i, h := range hs {
			out[i] = run(h)
		}
		return out
	}
}

// BFS explores breadth-first by replay with state deduplication.  Every level
// is expanded in two rounds: the enabled events of all frontier states, then
// the crash variants of those events (one per effect operation observed).
func BFS(name string, runB BatchRunner, b Bounds) *Report {
	start := time.Now()
	var cpu0 time.Duration
	if b.CPUNow != nil {
		cpu0 = b.CPUNow()
	}
	rep := &Report{Scenario: name, Outcomes: map[string]int{}, Exhaustive: true, Bounds: b}
	seen := map[string]bool{}
	vseen := map[string]bool{}
	addV := func(vs []Violation, hist []Event) {
		for _, v := range vs {
			k := v.Property + "|" + v.Key
			if vseen[k] {
				continue
			}
			vseen[k] = true
			v.History = HistoryString(hist)
			v.Events = append([]Event{}, hist...)
			v.Scenario = name
			rep.Violations = append(rep.Violations, v)
		}
	}
	r0 := runB([][]Event{nil})[0]
	rep.Executions++
	if r0.Internal != "" {
		rep.Internal = append(rep.Internal, r0.Internal)
		rep.Exhaustive = false
		rep.WallS = time.Since(start).Seconds()
		return rep
	}
	seen[r0.Key] = true
	rep.States = 1
	rep.Outcomes[r0.Outcome]++
	addV(r0.Violations, nil)
	frontier := []item{{hist: nil, enabled: r0.Enabled, key: r0.Key, keyText: r0.KeyText}}
	rep.PerDepth = append(rep.PerDepth, 1)
	capHit := func() bool {
		if b.MaxStates > 0 && rep.States >= b.MaxStates {
			rep.CapHit = fmt.Sprintf("max_states=%d", b.MaxStates)
			return true
		}
		if b.Budget > 0 && b.CPUNow != nil {
			if used := b.CPUNow() - cpu0; used > b.Budget {
				rep.CapHit = fmt.Sprintf("budget=%s(worker cpu)", b.Budget)
				return true
			}
			if time.Since(start) > 3*b.Budget {
				rep.CapHit = fmt.Sprintf("budget=%s(wall clock, 3x)", b.Budget)
				return true
			}
			return false
		}
		if b.Budget > 0 && time.Since(start) > b.Budget {
			rep.CapHit = fmt.Sprintf("budget=%s", b.Budget)
			return true
		}
		return false
	}
	type job struct {
		parent *item
		e      Event
		h      []Event
	}
	const chunk = 512
	for depth := 0; depth < b.MaxDepth && len(frontier) > 0; depth++ {
		var next []item
		process := func(jobs []job, crashRound bool) []job {
			var crashJobs []job
			for lo := 0; lo < len(jobs); lo += chunk {
				if capHit() {
					return nil
				}
				hi := lo + chunk
				if hi > len(jobs) {
					hi = len(jobs)
				}
				hs := make([][]Event, hi-lo)
				for i := lo; i < hi; i++ {
					hs[i-lo] = jobs[i].h
				}
				results := runB(hs)
				for i, res := range results {
					j := jobs[lo+i]
					rep.Executions++
					rep.Transitions++
					if j.e.Crash > 0 {
						rep.CrashRuns++
					}
					if res.Internal != "" {
						rep.Internal = append(rep.Internal, fmt.Sprintf("%v: %s", HistoryString(j.h), res.Internal))
						rep.Exhaustive = false
						continue
					}
					if res.PrefixKey != "" && res.PrefixKey != j.parent.key {
						// The implementation itself is not deterministic at this
						// point (e.g. a Go select with two ready cases).  The
						// execution is still a real one and is kept, but the run
						// can no longer claim to have enumerated every successor.
						rep.Nondeterministic++
						if len(rep.NondetSamples) < 3 {
							msg := ""
							if j.parent.keyText != "" && res.PrefixDiff != "" {
								msg = diffKeys(j.parent.keyText, res.PrefixDiff)
							}
							rep.NondetSamples = append(rep.NondetSamples, fmt.Sprintf("%v %s", HistoryString(j.parent.hist), msg))
						}
						rep.Exhaustive = false
					}
					rep.Outcomes[res.Outcome]++
					addV(res.Violations, j.h)
					if !crashRound && !b.NoCrash && !j.e.NoCrash && j.parent.dev+j.e.Dev+1 <= b.MaxDev {
						for k := 0; k < res.Effects; k++ {
							if b.CrashAfterStore && !containsInt(res.StoreOps, k-1) {
								continue
							}
							ce := j.e
							ce.Crash = k + 1
							ce.Dev = j.e.Dev + 1
							crashJobs = append(crashJobs, job{parent: j.parent, e: ce, h: append(append([]Event{}, j.parent.hist...), ce)})
						}
					}
					if seen[res.Key] {
						continue
					}
					seen[res.Key] = true
					rep.States++
					if len(rep.Samples) < 6 || (rep.States%997 == 0 && len(rep.Samples) < 12) {
						rep.Samples = append(rep.Samples, HistoryString(j.h))
					}
					if len(j.h) > rep.MaxDepth {
						rep.MaxDepth = len(j.h)
					}
					next = append(next, item{hist: j.h, enabled: res.Enabled, key: res.Key, keyText: res.KeyText, dev: j.parent.dev + j.e.Dev})
				}
			}
			return crashJobs
		}
		var jobs []job
		for fi := range frontier {
			it := &frontier[fi]
			for _, e := range it.enabled {
				if it.dev+e.Dev <= b.MaxDev {
					jobs = append(jobs, job{parent: it, e: e, h: append(append([]Event{}, it.hist...), e)})
				}
			}
		}
		crashJobs := process(jobs, false)
		if rep.CapHit == "" {
			process(crashJobs, true)
		}
		if rep.CapHit != "" {
			rep.Exhaustive = false
			rep.CompletedDepth = depth
			break
		}
		rep.CompletedDepth = depth + 1
		frontier = next
		rep.PerDepth = append(rep.PerDepth, len(next))
	}
	rep.WallS = time.Since(start).Seconds()
	sort.Slice(rep.Violations, func(i, j int) bool { return rep.Violations[i].Key < rep.Violations[j].Key })
	return rep
}

// ---------------------------------------------------------------- known findings

type Finding struct {
	Property    string   `json:"property"`
	Key         string   `json:"key"`
	Status      string   `json:"status"` // open | fixed
	Commit      string   `json:"commit,omitempty"`
	Description string   `json:"description"`
	MinimalCase []string `json:"minimal_case,omitempty"`
}

type Findings struct {
	Findings []Finding `json:"findings"`
}

func VerifDir() string {
	if d := os.Getenv("VERIF_DIR"); d != "" {
		return d
	}
	return "/verif"
}

func LoadFindings() Findings {
	var f Findings
	b, err := os.ReadFile(filepath.Join(VerifDir(), "known_findings.json"))
	if err == nil {
		_ = json.Unmarshal(b, &f)
	}
	return f
}

// Filter splits violations into new and known (open) ones.
func Filter(vs []Violation, fs Findings) (newV, knownV []Violation) {
	open := map[string]bool{}
	var prefixes []string // a key ending in '*' names a whole call-site class (same root cause, e.g. one per end state)
	for _, f := range fs.Findings {
		if f.Status != "open" {
			continue
		}
		if strings.HasSuffix(f.Key, "*") {
			prefixes = append(prefixes, f.Property+"|"+strings.TrimSuffix(f.Key, "*"))
		} else {
			open[f.Property+"|"+f.Key] = true
		}
	}
	for _, v := range vs {
		k := v.Property + "|" + v.Key
		known := open[k]
		for _, p := range prefixes {
			if strings.HasPrefix(k, p) {
				known = true
			}
		}
		if known {
			knownV = append(knownV, v)
		} else {
			newV = append(newV, v)
		}
	}
	return
}

// ---------------------------------------------------------------- evidence

type Evidence struct {
	PropertyID  string         `json:"property_id"`
	Tier        string         `json:"tier"`
	Seed        int            `json:"seed"`
	Level       string         `json:"level"`
	Coverage    map[string]any `json:"coverage"`
	Assumptions []string       `json:"assumptions"`
	WallS       float64        `json:"wall_s"`
	Violations  int            `json:"violations"`
}

func Tier() string {
	if t := os.Getenv("VERIF_TIER"); t == "thorough" {
		return "thorough"
	}
	return "quick"
}

func Seed() int {
	var s int
	fmt.Sscanf(os.Getenv("VERIF_SEED"), "%d", &s)
	return s
}

func WriteEvidence(ev Evidence) error {
	dir := filepath.Join(VerifDir(), "evidence")
	_ = os.MkdirAll(dir, 0o755)
	b, err := json.MarshalIndent(ev, "", " ")
	if err != nil {
		return err
	}
	return os.WriteFile(filepath.Join(dir, ev.PropertyID+".json"), b, 0o644)
}

// WriteReplay stores a counterexample and returns its path.
func WriteReplay(v Violation) string {
	dir := filepath.Join(VerifDir(), "replay", v.Property)
	_ = os.MkdirAll(dir, 0o755)
	name := sanitize(v.Key)
	if len(name) > 120 {
		name = name[:100] + "-" + hashKey(v.Key)
	}
	p := filepath.Join(dir, name+".json")
	b, _ := json.MarshalIndent(v, "", " ")
	_ = os.WriteFile(p, b, 0o644)
	return p
}

func sanitize(s string) string {
	return strings.Map(func(r rune) rune {
		if r >= 'a' && r <= 'z' || r >= 'A' && r <= 'Z' || r >= '0' && r <= '9' || r == '-' || r == '_' || r == '.' || r == '=' {
			return r
		}
		return '_'
	}, s)
}

var CommonAssumptions = []string{
	"the simulated chain / Lightning node / wallet / messenger (verif/world, verif/node) are faithful at the level the property speaks about",
	"btcd, go-elements and secp256k1 are correct; the peer cannot break SHA-256 or ECDSA",
	"behaviour of the checked packages does not depend on the Go toolchain difference 1.23.5 -> 1.26.8 (needed for testing/synctest)",
}

func DiffKeys(a, b string) string { return diffKeys(a, b) }

func diffKeys(a, b string) string {
	i := 0
	for i < len(a) && i < len(b) && a[i] == b[i] {
		i++
	}
	lo := i - 80
	if lo < 0 {
		lo = 0
	}
	hiA, hiB := i+120, i+120
	if hiA > len(a) {
		hiA = len(a)
	}
	if hiB > len(b) {
		hiB = len(b)
	}
	return fmt.Sprintf("first difference at byte %d:\n   was ...%s\n   now ...%s", i, a[lo:hiA], b[lo:hiB])
}

func containsInt(xs []int, v int) bool {
	for _, x := range xs {
		if x == v {
			return true
		}
	}
	return false
}
