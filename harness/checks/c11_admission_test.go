package checks

// C11 — incoming requests are admitted only when every policy condition holds.
//
// Engine E2: bounded-exhaustive enumeration of (request fields x policy file x
// node configuration) on a fresh REAL swap.SwapService (scn.Init) whose policy is
// a REAL policy.Policy created from a per-case file and whose premium rates come
// from the REAL premium.Setting.  One crafted swap_in_request / swap_out_request
// from peer B is handed to the node's message handler; the messages the node
// sends back for that swap id are compared with a reference admission predicate
// written from the property statement (amount arithmetic in math/big).
//
// Direction of "fits the channel" (decided from the statement + protocol): the
// responder of a swap-in is the taker, it PAYS the amount over Lightning, so the
// channel's spendable balance must carry it; the responder of a swap-out is paid
// over Lightning, so the receivable balance must carry it.  The opposite
// direction is set to zero in every case, so a check of the wrong direction
// shows up as a refusal although all conditions hold.

import (
	"crypto/sha256"
	"encoding/hex"
	"encoding/json"
	"fmt"
	"math/big"
	"os"
	"os/exec"
	"path/filepath"
	"sort"
	"strings"
	"testing"
	"testing/synctest"
	"time"

	"context"

	"github.com/elementsproject/peerswap/policy"
	"github.com/elementsproject/peerswap/premium"
	"verif/mc"
	"verif/node"
	"verif/scn"
)

// ---------------------------------------------------------------- dimensions

const (
	c11dAllowNew = iota
	c11dBtcOn
	c11dLbtcOn
	c11dReqChain
	c11dVersion
	c11dAmount
	c11dAllowlisted
	c11dAcceptAll
	c11dSuspicious
	c11dPremium
	c11dBalance
	c11dScid
	c11dPubkey
	c11dMin
	c11nDims
)

// value 0 of every dimension is the all-valid base.
var c11Names = [c11nDims][]string{
	c11dAllowNew:    {"allow_new_swaps=true", "allow_new_swaps=false"},
	c11dBtcOn:       {"btc_enabled", "btc_disabled"},
	c11dLbtcOn:      {"lbtc_enabled", "lbtc_disabled"},
	c11dReqChain:    {"btc_regtest", "btc_mainnet", "lbtc_own_asset", "lbtc_other_asset", "network_and_asset", "neither"},
	c11dVersion:     {"v7", "v6", "v8"},
	c11dAmount:      {"mid", "zero", "min-1", "min", "channel_exact", "channel+1msat", "channel+1sat", "msat_overflow", "msat_overflow+1", "msat_overflow+min", "near_max_uint64"},
	c11dAllowlisted: {"allowlisted", "not_allowlisted"},
	c11dAcceptAll:   {"accept_all=false", "accept_all=true"},
	c11dSuspicious:  {"not_suspicious", "suspicious"},
	c11dPremium:     {"limit=premium", "limit=premium-1", "limit=premium+1"},
	c11dBalance:     {"balance=amount+fee", "balance=amount+fee-1", "balance=fee", "balance=fee-1", "balance=0"},
	c11dScid:        {"100x1x0", "100:1:0", "abc", "999x9x9"},
	c11dPubkey:      {"33_byte_hex", "32_byte_hex", "non_hex"},
	c11dMin:         {"min=100000000msat", "min=1000msat", "min=100000500msat"},
}

var c11MinMsat = []uint64{100_000_000, 1000, 100_000_500}

const (
	c11CapMsat    = uint64(4_000_000_000) // capacity of the swap channel in the relevant direction
	c11Fee        = uint64(300)           // SimWallet.GetFlatOpeningTXFee
	c11OtherAsset = "01" + "1111111111111111111111111111111111111111111111111111111111111111"
	c11Decoy      = "03dddddddddddddddddddddddddddddddddddddddddddddddddddddddddddddddddd"
)

// rates configured in the real premium.Setting for peer B: [chain][type] ppm.
var c11Rates = map[string]map[string]int64{
	"btc":  {"in": 3000, "out": 2000},
	"lbtc": {"in": 1500, "out": 1000},
}

type c11Case struct {
	Typ string // "in" | "out": swap_in_request | swap_out_request
	D   [c11nDims]int
}

func (c c11Case) devs() int {
	n := 0
	for _, v := range c.D {
		if v != 0 {
			n++
		}
	}
	return n
}

func (c c11Case) describe() map[string]string {
	m := map[string]string{"type": "swap_" + c.Typ + "_request"}
	for d, v := range c.D {
		m[fmt.Sprintf("%02d", d)] = c11Names[d][v]
	}
	return m
}

// c11Concrete are the actual inputs of one case.
type c11Concrete struct {
	MinMsat  uint64
	Amount   uint64
	CapMsat  uint64
	Network  string
	Asset    string
	Chain    string // chain whose rate / enable flag applies: btc | lbtc | "" (ill-formed)
	Version  int
	Premium  *big.Int // reference: what the node would charge
	Limit    int64
	Balance  uint64
	Scid     string
	Pubkey   string
	PolicyTx string
}

var (
	c11Two64   = new(big.Int).Lsh(big.NewInt(1), 64)
	c11Ovf     = uint64(18446744073709552) // ceil(2^64/1000): the smallest amount whose msat value does not fit uint64
	c11MaxU64  = ^uint64(0)
	c11Million = big.NewInt(1_000_000)
)

func c11Big(v uint64) *big.Int { return new(big.Int).SetUint64(v) }

func c11Msat(amount uint64) *big.Int { return new(big.Int).Mul(c11Big(amount), big.NewInt(1000)) }

func (c c11Case) concrete() c11Concrete {
	var k c11Concrete
	k.MinMsat = c11MinMsat[c.D[c11dMin]]
	minSat := (k.MinMsat + 999) / 1000
	k.CapMsat = c11CapMsat
	switch c.D[c11dAmount] {
	case 0:
		k.Amount = 1_000_000
	case 1:
		k.Amount = 0
	case 2:
		k.Amount = minSat - 1
	case 3:
		k.Amount = minSat
	case 4:
		k.Amount = c11CapMsat / 1000
	case 5:
		k.Amount, k.CapMsat = c11CapMsat/1000, c11CapMsat-1
	case 6:
		k.Amount = c11CapMsat/1000 + 1
	case 7:
		k.Amount = c11Ovf
	case 8:
		k.Amount = c11Ovf + 1
	case 9:
		k.Amount = c11Ovf + minSat
	case 10:
		k.Amount = c11MaxU64 - c11Fee + 1 // amount+fee == 2^64
	}
	switch c.D[c11dReqChain] {
	case 0:
		k.Network, k.Chain = "regtest", "btc"
	case 1:
		k.Network, k.Chain = "mainnet", "btc"
	case 2:
		k.Asset, k.Chain = node.AssetField, "lbtc"
	case 3:
		k.Asset, k.Chain = c11OtherAsset, "lbtc"
	case 4:
		k.Network, k.Asset = "regtest", node.AssetField
	case 5:
	}
	k.Version = []int{7, 6, 8}[c.D[c11dVersion]]
	// the premium the node would charge: amount * rate / 10^6 truncated toward
	// zero, rate = the one configured for this peer, chain and swap type.  For
	// ill-formed chain fields (refused anyway) the limit is placed relative to
	// the btc rate when a network is given and to the lbtc rate otherwise.
	rc := k.Chain
	if rc == "" {
		rc = "lbtc"
		if k.Network != "" {
			rc = "btc"
		}
	}
	k.Premium = new(big.Int).Mul(c11Big(k.Amount), big.NewInt(c11Rates[rc][c.Typ]))
	k.Premium.Quo(k.Premium, c11Million)
	k.Limit = k.Premium.Int64() + []int64{0, -1, 1}[c.D[c11dPremium]]
	need := new(big.Int).Add(c11Big(k.Amount), c11Big(c11Fee))
	switch c.D[c11dBalance] {
	case 0, 1:
		if need.IsUint64() {
			k.Balance = need.Uint64() - uint64(c.D[c11dBalance])
		} else {
			k.Balance = c11MaxU64 - uint64(c.D[c11dBalance])
		}
	case 2:
		k.Balance = c11Fee
	case 3:
		k.Balance = c11Fee - 1
	case 4:
		k.Balance = 0
	}
	k.Scid = c11Names[c11dScid][c.D[c11dScid]]
	k.Pubkey = []string{c09Pub, c09Pub[:64], "zz" + c09Pub[2:]}[c.D[c11dPubkey]]
	var pf []string
	pf = append(pf, fmt.Sprintf("allow_new_swaps=%v", c.D[c11dAllowNew] == 0))
	pf = append(pf, fmt.Sprintf("accept_all_peers=%v", c.D[c11dAcceptAll] == 1))
	pf = append(pf, "allowlisted_peers="+scn.IDC) // another peer's entries never matter
	if c.D[c11dAllowlisted] == 0 {
		pf = append(pf, "allowlisted_peers="+scn.IDB)
	}
	pf = append(pf, "suspicious_peers="+c11Decoy)
	if c.D[c11dSuspicious] == 1 {
		pf = append(pf, "suspicious_peers="+scn.IDB)
	}
	pf = append(pf, fmt.Sprintf("min_swap_amount_msat=%d", k.MinMsat))
	k.PolicyTx = strings.Join(pf, "\n") + "\n"
	return k
}

// c11Expect is the reference predicate: the list of conditions of the statement
// that do NOT hold (empty = the request must be answered with an agreement).
func c11Expect(c c11Case, k c11Concrete) []string {
	var f []string
	if c.D[c11dAllowNew] != 0 {
		f = append(f, "new_swaps_disabled")
	}
	switch c.D[c11dReqChain] {
	case 0, 1:
		if c.D[c11dBtcOn] != 0 {
			f = append(f, "chain_disabled")
		}
		if k.Network != "regtest" {
			f = append(f, "network_mismatch")
		}
	case 2, 3:
		if c.D[c11dLbtcOn] != 0 {
			f = append(f, "chain_disabled")
		}
		if k.Asset != node.AssetField {
			f = append(f, "asset_mismatch")
		}
	default:
		f = append(f, "chain_ill_formed")
	}
	if k.Version != 7 {
		f = append(f, "version")
	}
	msat := c11Msat(k.Amount)
	if msat.Cmp(c11Big(k.MinMsat)) < 0 {
		f = append(f, "below_minimum")
	}
	switch c.D[c11dScid] {
	case 2:
		f = append(f, "scid_malformed")
	case 3:
		f = append(f, "unknown_channel")
	default:
		if msat.Cmp(c11Big(k.CapMsat)) > 0 {
			f = append(f, "exceeds_channel")
		}
	}
	if c.D[c11dAllowlisted] != 0 && c.D[c11dAcceptAll] == 0 {
		f = append(f, "peer_not_allowed")
	}
	if c.D[c11dSuspicious] != 0 {
		f = append(f, "peer_suspicious")
	}
	if k.Premium.Cmp(big.NewInt(k.Limit)) > 0 {
		f = append(f, "premium_above_limit")
	}
	if c.Typ == "out" {
		need := new(big.Int).Add(c11Big(k.Amount), c11Big(c11Fee))
		if c11Big(k.Balance).Cmp(need) < 0 {
			f = append(f, "insufficient_balance")
		}
	}
	if c.D[c11dPubkey] != 0 {
		f = append(f, "pubkey_malformed")
	}
	return f
}

// ---------------------------------------------------------------- enumeration

func c11Cases(tier string) []c11Case {
	seen := map[c11Case]bool{}
	var out []c11Case
	add := func(c c11Case) {
		if !seen[c] {
			seen[c] = true
			out = append(out, c)
		}
	}
	groupA := []int{c11dAllowNew, c11dBtcOn, c11dLbtcOn, c11dReqChain, c11dVersion, c11dAmount, c11dAllowlisted, c11dAcceptAll, c11dSuspicious}
	groupB := []int{c11dPremium, c11dBalance, c11dScid, c11dPubkey, c11dMin}
	values := func(d int, full bool) []int {
		v := make([]int, len(c11Names[d]))
		for i := range v {
			v[i] = i
		}
		return v
	}
	var product func(dims []int, i int, cur c11Case, full bool, f func(c11Case))
	product = func(dims []int, i int, cur c11Case, full bool, f func(c11Case)) {
		if i == len(dims) {
			f(cur)
			return
		}
		for _, v := range values(dims[i], full) {
			cur.D[dims[i]] = v
			product(dims, i+1, cur, full, f)
		}
	}
	for _, typ := range []string{"in", "out"} {
		base := c11Case{Typ: typ}
		add(base)
		// (B) full product of the remaining dimensions x (base + every single value of every interacting dimension)
		var singles []c11Case
		singles = append(singles, base)
		for _, d := range groupA {
			for v := 1; v < len(c11Names[d]); v++ {
				c := base
				c.D[d] = v
				singles = append(singles, c)
			}
		}
		for _, s := range singles {
			product(groupB, 0, s, true, add)
		}
		// (A) full product of the interacting dimensions, the remaining ones at
		// the base (quick) / with at most two of them deviating (thorough)
		bs := []c11Case{base}
		if tier == "thorough" {
			for i, d1 := range groupB {
				for v1 := 1; v1 < len(c11Names[d1]); v1++ {
					c := base
					c.D[d1] = v1
					bs = append(bs, c)
					for _, d2 := range groupB[i+1:] {
						for v2 := 1; v2 < len(c11Names[d2]); v2++ {
							c2 := c
							c2.D[d2] = v2
							bs = append(bs, c2)
						}
					}
				}
			}
		}
		for _, b := range bs {
			product(groupA, 0, b, true, add)
		}
	}
	return out
}

// ---------------------------------------------------------------- execution

type c11Obs struct {
	Agreement  bool
	Cancel     bool // a cancel carrying the swap id of the request
	CancelNoID bool // a cancel (42079) to the requester that does not carry the swap id
	CancelMsg  string
	Panic      string
	Err        string
	Stuck      int
}

func (o c11Obs) class() string {
	switch {
	case o.Panic != "":
		return "panic"
	case o.Agreement && o.Cancel:
		return "agreement+cancel"
	case o.Agreement:
		return "agreement"
	case o.Cancel:
		return "cancel"
	case o.CancelNoID:
		return "cancel_without_swap_id"
	}
	return "none"
}

func c11SwapID(i int, c c11Case) string {
	h := sha256.Sum256([]byte(fmt.Sprintf("c11/%d/%v", i, c)))
	return hex.EncodeToString(h[:])
}

func c11Payload(c c11Case, k c11Concrete, id string) []byte {
	m := map[string]any{"protocol_version": k.Version, "swap_id": id, "network": k.Network, "asset": k.Asset,
		"scid": k.Scid, "amount": k.Amount, "pubkey": k.Pubkey, "acceptable_premium": k.Limit}
	b, _ := json.Marshal(m)
	return b
}

// prior: the same peer has, a moment earlier, sent another request for the same channel that is refused whatever the
// configuration (protocol version 99, 1000 sat) while the channel still had plenty of capacity; admission of the judged
// request must depend on the request and the node's state NOW.
func c11Run(t *testing.T, ps *premium.Setting, dir string, idx int, c c11Case, prior bool) (obs c11Obs, k c11Concrete, payload []byte, internal string) {
	k = c.concrete()
	id := c11SwapID(idx, c)
	payload = c11Payload(c, k, id)
	pf := filepath.Join(dir, fmt.Sprintf("policy-%d.conf", idx))
	if err := os.WriteFile(pf, []byte(k.PolicyTx), 0o600); err != nil {
		return obs, k, payload, "policy file: " + err.Error()
	}
	defer os.Remove(pf)
	cfg := &scn.Cfg{Name: "c11", Chain: "btc", SwapType: c.Typ, AInitiates: false, Premium: ps, ScriptedB: true}
	cfg.NodeCfg = func(x *scn.Exec, nid string, nc *node.Cfg) {
		if nid != scn.IDA {
			return
		}
		pol, err := policy.CreateFromFile(pf)
		if err != nil {
			internal = "policy does not load: " + err.Error()
			return
		}
		nc.Policy = pol
		nc.Btc, nc.Lbtc = c.D[c11dBtcOn] == 0, c.D[c11dLbtcOn] == 0
		nc.BtcCfg.Balance, nc.LbtcCfg.Balance = k.Balance, k.Balance
	}
	func() {
		defer func() {
			if r := recover(); r != nil {
				internal = fmt.Sprintf("harness panic: %v", r)
			}
		}()
		synctest.Test(t, func(t *testing.T) {
			x := scn.Init(t, cfg)
			defer x.Finish()
			ch := x.W.LN[scn.IDA].Channels[0] // 100x1x0 with B; the second channel keeps its large default capacity
			if c.Typ == "in" {
				ch.Spendable, ch.Receivable = k.CapMsat, 0
			} else {
				ch.Spendable, ch.Receivable = 0, k.CapMsat
			}
			mt := mtSwapInReq
			if c.Typ == "out" {
				mt = mtSwapOutReq
			}
			if prior {
				capNow := [2]uint64{ch.Spendable, ch.Receivable}
				ch.Spendable, ch.Receivable = 1<<50, 1<<50
				h := sha256.Sum256([]byte("prior/" + id))
				m := map[string]any{"protocol_version": 99, "swap_id": hex.EncodeToString(h[:]), "network": k.Network, "asset": k.Asset,
					"scid": k.Scid, "amount": 1000, "pubkey": k.Pubkey, "acceptable_premium": 1 << 40}
				pb, _ := json.Marshal(m)
				_, pp := x.A.DeliverRaw(scn.IDB, fmt.Sprintf("%x", mt), pb)
				node.Settle()
				if pp != nil {
					obs.Panic = fmt.Sprint(pp)
				}
				ch.Spendable, ch.Receivable = capNow[0], capNow[1]
			}
			n0 := len(x.W.Log)
			err, p := x.A.DeliverRaw(scn.IDB, fmt.Sprintf("%x", mt), payload)
			node.Settle()
			if p != nil {
				obs.Panic = fmt.Sprint(p)
			}
			if err != nil {
				obs.Err = err.Error()
			}
			for _, o := range x.W.Log[n0:] {
				if o.Node != scn.IDA || o.Kind != "send" || o.Peer != scn.IDB {
					continue
				}
				if o.SwapID != id {
					if o.MsgType == mtCancel {
						obs.CancelNoID = true
						obs.CancelMsg = o.Payload
					}
					continue
				}
				switch o.MsgType {
				case mtSwapInAgree, mtSwapOutAgree:
					obs.Agreement = true
				case mtCancel:
					obs.Cancel = true
					var cm struct {
						Message string `json:"message"`
					}
					_ = json.Unmarshal([]byte(o.Payload), &cm)
					obs.CancelMsg = cm.Message
				}
			}
			obs.Stuck = len(x.Finish())
		})
	}()
	return
}

// c11Result is what one worker process reports.
type c11Result struct {
	// Admissible: (type, chain, amount class, scid, configured minimum) of every
	// enumerated case that must be admitted; Refused: those of them that were not.
	Admissible map[string]bool
	Refused    map[string]c11NoCancel
	// NoCancel: refused requests whose requester got no usable cancel, per
	// (reply class, type, set of conditions not holding): smallest example.
	NoCancel    map[string]c11NoCancel
	Transitions int
	Outcomes    map[string]int
	Classes     map[string]int
	Violations  []mc.Violation
	VDevs       map[string]int
	Samples     []any
	Internal    []string
}

type c11NoCancel struct {
	Reply  string
	Typ    string
	Fails  []string
	Devs   int
	Detail string
}

var c11TupleDims = []int{c11dReqChain, c11dAmount, c11dScid, c11dMin}

func c11Tuple(c c11Case) string {
	p := []string{"type=swap_" + c.Typ}
	for _, d := range c11TupleDims {
		p = append(p, c11Names[d][c.D[d]])
	}
	return strings.Join(p, "|")
}

// c11Collapse names refusals of admissible requests by the coordinates that
// matter: a coordinate is dropped from the keys when, for every refused tuple,
// every enumerated admissible tuple that differs only in this coordinate is
// refused as well.
func c11Collapse(refused map[string]c11NoCancel, admissible map[string]bool) map[string]c11NoCancel {
	cur := map[string]c11NoCancel{}
	for k, v := range refused {
		cur[k] = v
	}
	adm := map[string]bool{}
	for k := range admissible {
		adm[k] = true
	}
	for pos := 1; pos <= len(c11TupleDims); pos++ {
		droppable := true
		for r := range cur {
			rp := strings.Split(r, "|")
			for e := range adm {
				ep := strings.Split(e, "|")
				same := true
				for i := range rp {
					if i != pos && rp[i] != ep[i] {
						same = false
					}
				}
				if _, isRefused := cur[e]; same && !isRefused {
					droppable = false
				}
			}
		}
		if !droppable {
			continue
		}
		next := map[string]c11NoCancel{}
		for r, v := range cur {
			rp := strings.Split(r, "|")
			rp[pos] = "*"
			k := strings.Join(rp, "|")
			if old, ok := next[k]; !ok || v.Devs < old.Devs {
				next[k] = v
			}
		}
		nadm := map[string]bool{}
		for e := range adm {
			ep := strings.Split(e, "|")
			ep[pos] = "*"
			nadm[strings.Join(ep, "|")] = true
		}
		cur, adm = next, nadm
	}
	return cur
}

func c11Amountish(f string) bool { return f == "below_minimum" || f == "exceeds_channel" }

func c11Shard(t *testing.T, cases []c11Case, shard, n int) c11Result {
	res := c11Result{Outcomes: map[string]int{}, Classes: map[string]int{}, VDevs: map[string]int{}, NoCancel: map[string]c11NoCancel{},
		Admissible: map[string]bool{}, Refused: map[string]c11NoCancel{}}
	bubbleMode()
	ps := premiumSetting(t, fmt.Sprintf("c11-%d", shard))
	for ch, m := range c11Rates {
		for ty, ppm := range m {
			asset, op := premium.BTC, premium.SwapIn
			if ch == "lbtc" {
				asset = premium.LBTC
			}
			if ty == "out" {
				op = premium.SwapOut
			}
			r, err := premium.NewPremiumRate(asset, op, premium.NewPPM(ppm))
			if err == nil {
				err = ps.SetRate(context.Background(), scn.IDB, r)
			}
			if err != nil {
				res.Internal = append(res.Internal, "set rate: "+err.Error())
				return res
			}
		}
	}
	dir := filepath.Join(workDir, fmt.Sprintf("c11-%d", shard))
	os.MkdirAll(dir, 0o755)
	defer os.RemoveAll(dir)
	vidx := map[string]int{}
	addV := func(c c11Case, key, detail string) {
		if i, ok := vidx[key]; ok {
			if c.devs() >= res.VDevs[key] {
				return
			}
			res.Violations[i].Detail = detail
			res.VDevs[key] = c.devs()
			return
		}
		vidx[key] = len(res.Violations)
		res.VDevs[key] = c.devs()
		res.Violations = append(res.Violations, mc.Violation{Property: "C11", Key: key, Detail: detail})
	}
	for i, c := range cases {
		if i%n != shard {
			continue
		}
		obs, k, payload, internal := c11Run(t, ps, dir, i, c, false)
		if internal != "" {
			res.Internal = append(res.Internal, fmt.Sprintf("case %d %v: %s", i, c.describe(), internal))
			continue
		}
		res.Transitions++
		// the same case after an earlier, refused request of the same peer on the same channel: same verdict
		if obs2, _, _, internal2 := c11Run(t, ps, dir, i, c, true); internal2 != "" {
			res.Internal = append(res.Internal, fmt.Sprintf("case %d %v (after an earlier request): %s", i, c.describe(), internal2))
		} else {
			res.Transitions++
			if obs2.Agreement != obs.Agreement || obs2.Panic != "" {
				b, _ := json.Marshal(c.describe())
				addV(c, fmt.Sprintf("verdict_depends_on_earlier_refused_request:type=swap_%s:alone=%s:after_earlier=%s", c.Typ, obs.class(), obs2.class()),
					fmt.Sprintf("request %s\nalone: %s; after an earlier request of the same peer for the same channel (protocol version 99, 1000 sat, refused; the channel had 2^50 msat of capacity at that moment, now %d msat): %s cancel_message=%q panic=%q\ncase: %s", payload, obs.class(), k.CapMsat, obs2.class(), obs2.CancelMsg, obs2.Panic, b))
			} else {
				res.Outcomes["after_earlier_refused_request:same_verdict"]++
			}
		}
		fails := c11Expect(c, k)
		typ := "swap_" + c.Typ
		detail := func(what string) string {
			b, _ := json.Marshal(c.describe())
			return fmt.Sprintf("%s\nrequest (type %s_request from B): %s\npolicy file: %q\nnode: btc=%v lbtc=%v channel 100x1x0 %s=%d msat, on-chain balance %d sat, fee estimate %d sat, premium the node charges %s sat\nreply: %s cancel_message=%q handler_error=%q\ncase: %s",
				what, typ, payload, k.PolicyTx, c.D[c11dBtcOn] == 0, c.D[c11dLbtcOn] == 0, map[string]string{"in": "spendable", "out": "receivable"}[c.Typ], k.CapMsat, k.Balance, c11Fee, k.Premium, obs.class(), obs.CancelMsg, obs.Err, b)
		}
		amt := c11Names[c11dAmount][c.D[c11dAmount]]
		switch {
		case obs.Panic != "":
			addV(c, "panic_on_request:type="+typ, detail("the message handler panicked: "+obs.Panic))
		case obs.Agreement && len(fails) > 0:
			key := "admitted_although:" + strings.Join(fails, "+")
			for _, f := range fails {
				if c11Amountish(f) {
					if a := c.D[c11dAmount]; a >= 7 && a <= 9 {
						key += ":amount=msat_overflows_uint64" // one root cause whatever the wrapped value is
					} else {
						key += ":amount=" + amt
					}
					break
				}
			}
			addV(c, key+":type="+typ, detail("an agreement was sent although: "+strings.Join(fails, ", ")))
		case !obs.Agreement && len(fails) == 0:
			tk := c11Tuple(c)
			if old, ok := res.Refused[tk]; !ok || c.devs() < old.Devs {
				res.Refused[tk] = c11NoCancel{Reply: obs.class(), Typ: typ, Devs: c.devs(), Detail: detail("every condition of the statement holds but no agreement was sent")}
			}
		case !obs.Agreement && !obs.Cancel:
			nk := obs.class() + "|" + typ + "|" + strings.Join(fails, "+")
			if old, ok := res.NoCancel[nk]; !ok || c.devs() < old.Devs {
				res.NoCancel[nk] = c11NoCancel{Reply: obs.class(), Typ: typ, Fails: fails, Devs: c.devs(),
					Detail: detail("the request was refused (" + strings.Join(fails, ", ") + ") but the requester got no cancel for its swap id")}
			}
		}
		if obs.Stuck > 0 {
			res.Outcomes["stuck_goroutines_at_end"]++
		}
		// verdict classes
		switch {
		case len(fails) == 0:
			res.Admissible[c11Tuple(c)] = true
			res.Outcomes["expected_admission:"+typ+":"+c11Names[c11dReqChain][c.D[c11dReqChain]]]++
			res.Outcomes["expected_admission:"+typ+":amount="+amt]++
			res.Outcomes["expected_admission:"+typ+":scid="+k.Scid]++
		case len(fails) == 1:
			res.Outcomes["expected_refusal_sole_reason:"+fails[0]+":"+typ]++
		default:
			res.Outcomes[fmt.Sprintf("expected_refusal_%d_reasons", min(len(fails), 4))]++
		}
		res.Outcomes["reply:"+obs.class()]++
		for d, v := range c.D {
			res.Outcomes["value:"+c11Names[d][v]]++
		}
		cl := strings.Join(fails, "+") + "|" + typ + "|" + obs.class()
		if res.Classes[cl] == 0 && len(res.Samples) < 4 && len(fails) <= 1 && c.devs() <= 2 {
			res.Samples = append(res.Samples, map[string]any{"case": c.describe(), "request": string(payload), "policy_file": k.PolicyTx,
				"conditions_not_holding": fails, "reply": obs.class(), "cancel_message": obs.CancelMsg})
		}
		res.Classes[cl]++
	}
	return res
}

func c11Workers(nCases int) int {
	if v := os.Getenv("C11_WORKERS"); v != "" {
		var n int
		fmt.Sscanf(v, "%d", &n)
		if n > 0 {
			return n
		}
	}
	if nCases < 2000 {
		return 1
	}
	return 8
}

func TestC11(t *testing.T) {
	tier := mc.Tier()
	cases := c11Cases(tier)
	if spec := os.Getenv("C11_SHARD"); spec != "" {
		// worker process: the vsync bubble mode is process-global, so every worker is its own process
		var shard, n int
		fmt.Sscanf(spec, "%d/%d", &shard, &n)
		res := c11Shard(t, cases, shard, n)
		b, _ := json.Marshal(res)
		if err := os.WriteFile(os.Getenv("C11_OUT"), b, 0o600); err != nil {
			t.Fatal(err)
		}
		return
	}
	rep := EnumReport{ID: "C11", Level: "model_checking", Start: time.Now(), Exhaustive: true, Outcomes: map[string]int{}}
	n := c11Workers(len(cases))
	results := make([]c11Result, n)
	if n == 1 {
		results[0] = c11Shard(t, cases, 0, 1)
	} else {
		type done struct {
			i   int
			err string
		}
		ch := make(chan done, n)
		for i := 0; i < n; i++ {
			go func(i int) {
				out := filepath.Join(workDir, fmt.Sprintf("c11-result-%d.json", i))
				cmd := exec.Command(os.Args[0], "-test.run", "^TestC11$", "-test.timeout", "0")
				cmd.Env = append(os.Environ(), fmt.Sprintf("C11_SHARD=%d/%d", i, n), "C11_OUT="+out, "GOMAXPROCS=2")
				b, err := cmd.CombinedOutput()
				if err != nil {
					ch <- done{i, fmt.Sprintf("worker %d: %v: %s", i, err, tail(string(b), 600))}
					return
				}
				raw, err := os.ReadFile(out)
				if err == nil {
					err = json.Unmarshal(raw, &results[i])
				}
				os.Remove(out)
				if err != nil {
					ch <- done{i, fmt.Sprintf("worker %d result: %v", i, err)}
					return
				}
				ch <- done{i, ""}
			}(i)
		}
		for i := 0; i < n; i++ {
			if d := <-ch; d.err != "" {
				rep.Internal = append(rep.Internal, d.err)
			}
		}
	}
	classes := map[string]int{}
	bestDev := map[string]int{}
	bestIdx := map[string]int{}
	for _, r := range results {
		rep.Transitions += r.Transitions
		rep.Internal = append(rep.Internal, r.Internal...)
		for k, v := range r.Outcomes {
			rep.Outcomes[k] += v
		}
		for k, v := range r.Classes {
			classes[k] += v
		}
		if len(rep.Samples) < 8 {
			rep.Samples = append(rep.Samples, r.Samples...)
		}
		for _, v := range r.Violations {
			d := r.VDevs[v.Key]
			if i, ok := bestIdx[v.Key]; ok {
				if d < bestDev[v.Key] {
					rep.Violations[i] = v
					bestDev[v.Key] = d
				}
				continue
			}
			bestIdx[v.Key] = len(rep.Violations)
			bestDev[v.Key] = d
			rep.Violations = append(rep.Violations, v)
		}
	}
	// requester got no usable cancel: name the cause.  Only the minimal sets
	// of failing conditions get a key (a set that contains a smaller set with
	// the same reply is explained by it).
	noCancel := map[string]c11NoCancel{}
	admissible := map[string]bool{}
	refused := map[string]c11NoCancel{}
	for _, r := range results {
		for k, v := range r.NoCancel {
			if old, ok := noCancel[k]; !ok || v.Devs < old.Devs {
				noCancel[k] = v
			}
		}
		for k := range r.Admissible {
			admissible[k] = true
		}
		for k, v := range r.Refused {
			if old, ok := refused[k]; !ok || v.Devs < old.Devs {
				refused[k] = v
			}
		}
	}
	var nks []string
	for k := range noCancel {
		nks = append(nks, k)
	}
	sort.Strings(nks)
	subset := func(a, b []string) bool { // a strictly inside b
		if len(a) >= len(b) {
			return false
		}
		in := map[string]bool{}
		for _, x := range b {
			in[x] = true
		}
		for _, x := range a {
			if !in[x] {
				return false
			}
		}
		return true
	}
	for _, k := range nks {
		v := noCancel[k]
		explained := false
		for _, k2 := range nks {
			if w := noCancel[k2]; w.Reply == v.Reply && w.Typ == v.Typ && subset(w.Fails, v.Fails) {
				explained = true
			}
		}
		if explained {
			rep.Outcomes["no_usable_cancel_explained_by_smaller_condition_set"]++
			continue
		}
		what := "no_cancel_sent"
		if v.Reply == "cancel_without_swap_id" {
			what = "cancel_without_swap_id"
		}
		rep.Violations = append(rep.Violations, mc.Violation{Property: "C11", Key: what + ":" + strings.Join(v.Fails, "+") + ":type=" + v.Typ, Detail: v.Detail})
	}
	for k, v := range c11Collapse(refused, admissible) {
		p := strings.Split(k, "|")
		key := "refused_although_all_conditions_hold:" + p[0]
		for i, nme := range []string{"chain", "amount", "scid", "min"} {
			if p[i+1] != "*" {
				key += ":" + nme + "=" + strings.TrimPrefix(p[i+1], "min=")
			}
		}
		rep.Violations = append(rep.Violations, mc.Violation{Property: "C11", Key: key + ":reply=" + v.Reply, Detail: v.Detail})
	}
	if rep.Transitions != 2*len(cases) && len(rep.Internal) == 0 {
		rep.Internal = append(rep.Internal, fmt.Sprintf("executed %d of %d runs (every case alone and after an earlier refused request)", rep.Transitions, 2*len(cases)))
	}
	rep.States = len(classes)
	var cl []string
	for k, v := range classes {
		cl = append(cl, fmt.Sprintf("%s = %d", k, v))
	}
	sort.Strings(cl)
	if len(cl) > 60 {
		cl = append(cl[:60], fmt.Sprintf("... %d more", len(cl)-60))
	}
	alph := map[string]any{"swap_type": []string{"swap_in_request (42069)", "swap_out_request (42071)"}}
	for d := 0; d < c11nDims; d++ {
		alph[fmt.Sprintf("dim%02d", d)] = c11Names[d]
	}
	alph["fixed"] = fmt.Sprintf("channel 100x1x0 capacity in the relevant direction %d msat (other direction 0; second channel 200x2x0 5e9 msat both ways), opening fee estimate %d sat, peer rates ppm %v, msat_overflow amount %d sat, near_max_uint64 amount 2^64-%d", c11CapMsat, c11Fee, c11Rates, c11Ovf, c11Fee)
	alph["interacting_dimensions_full_product"] = "allow_new_swaps x btc_enabled x lbtc_enabled x request chain x version x amount class x allowlisted x accept_all x suspicious"
	rep.Alphabets = alph
	amtNote := "remaining dimensions at their all-valid base"
	if tier == "thorough" {
		amtNote = "the whole product repeated with every combination of AT MOST TWO deviating values of the remaining dimensions (limit vs premium, balance, scid, pubkey, configured minimum): 1 + 13 + 66 = 80 settings"
	}
	rep.Rule = "per case a fresh real swap.SwapService with a real policy.Policy loaded from a per-case file and the real premium.Setting; one crafted request from peer B through the node's message handler; verdict = messages sent back for that swap id (agreement 42073/42075, cancel 42079) vs a math/big reference predicate of the statement. " +
		"(A) FULL cartesian product of the interacting dimensions {allow_new_swaps, btc enabled, lbtc enabled, request chain (6), protocol version (3), amount class (11), allowlisted, accept_all, suspicious} for both request types [" + amtNote + "]; " +
		"(B) FULL product of the remaining dimensions {limit vs premium (3), on-chain balance (5: amount+fee, amount+fee-1, fee, fee-1, 0), scid (4), pubkey (3), configured minimum (3)} combined with the base and with every single value of every dimension of (A) (all 11 amount classes) — so every value of every dimension and every pair of deviating dimensions is covered, and all combinations inside (A) and inside (B). " +
		"Channel direction: swap-in responder pays over Lightning -> spendable must carry the amount; swap-out responder is paid -> receivable (the other direction is 0 in every case). Balance/limit are tight in the base (balance = amount+fee, limit = premium)."
	rep.Extra = map[string]any{"cases": len(cases), "worker_processes": n, "verdict_classes": cl}
	rep.Assumptions = []string{"the Lightning node, wallet and chain are the simulations of the harness (SimWallet fee estimate is the constant 300 sat); CLN personality", "requested-swaps statistics are not inspected"}
	for _, typ := range []string{"swap_in", "swap_out"} {
		rep.Need = append(rep.Need, "expected_admission:"+typ+":btc_regtest", "expected_admission:"+typ+":lbtc_own_asset", "expected_admission:"+typ+":scid=100:1:0",
			"expected_admission:"+typ+":amount=min", "expected_admission:"+typ+":amount=channel_exact")
		for _, f := range []string{"new_swaps_disabled", "chain_disabled", "network_mismatch", "asset_mismatch", "chain_ill_formed", "version", "below_minimum", "exceeds_channel",
			"scid_malformed", "unknown_channel", "peer_not_allowed", "peer_suspicious", "premium_above_limit", "pubkey_malformed"} {
			rep.Need = append(rep.Need, "expected_refusal_sole_reason:"+f+":"+typ)
		}
	}
	rep.Need = append(rep.Need, "expected_refusal_sole_reason:insufficient_balance:swap_out", "reply:agreement", "reply:cancel")
	for d := 0; d < c11nDims; d++ {
		for _, nme := range c11Names[d] {
			rep.Need = append(rep.Need, "value:"+nme)
		}
	}
	finishEnum(t, &rep)
}
