package checks

// C24 — swap payments are a single HTLC over the swap channel to the swap peer.
//
// E2 (bounded-exhaustive input enumeration) of the real route / request
// builders of both Lightning backends, plus the real lnd.Client payment entry
// points over small fakes of the lnd gRPC clients.  The reference predicates
// below are written from the property statement, not from the code.

import (
	"context"
	"errors"
	"fmt"
	"math"
	"sort"
	"strconv"
	"strings"
	"testing"
	"time"

	"github.com/elementsproject/glightning/glightning"
	"github.com/elementsproject/peerswap/clightning"
	"github.com/elementsproject/peerswap/lnd"
	"github.com/lightningnetwork/lnd/lnrpc"
	"github.com/lightningnetwork/lnd/lnrpc/routerrpc"
	"google.golang.org/grpc"

	"verif/mc"
	"verif/vsync"
)

const (
	c24Peer  = "03bbbbbbbbbbbbbbbbbbbbbbbbbbbbbbbbbbbbbbbbbbbbbbbbbbbbbbbbbbbbbbbb"
	c24Other = "02cccccccccccccccccccccccccccccccccccccccccccccccccccccccccccccccc"
)

// c24ParseScid is the reference reading of a short channel id in either
// spelling: three decimal numbers (block ≤ 2^24-1, tx ≤ 2^24-1, output ≤ 2^16-1)
// separated by "x" or by ":" (one separator kind per id).
func c24ParseScid(s string) (blk, tx, out uint64, ok bool) {
	var parts []string
	switch {
	case strings.Contains(s, "x") && !strings.Contains(s, ":"):
		parts = strings.Split(s, "x")
	case strings.Contains(s, ":") && !strings.Contains(s, "x"):
		parts = strings.Split(s, ":")
	default:
		return
	}
	if len(parts) != 3 {
		return
	}
	var v [3]uint64
	for i, p := range parts {
		if p == "" || strings.TrimLeft(p, "0123456789") != "" || (len(p) > 1 && p[0] == '0') {
			return
		}
		n, err := strconv.ParseUint(p, 10, 64)
		if err != nil {
			return
		}
		v[i] = n
	}
	if v[0] >= 1<<24 || v[1] >= 1<<24 || v[2] >= 1<<16 {
		return
	}
	return v[0], v[1], v[2], true
}

func c24ChanID(blk, tx, out uint64) uint64 { return blk<<40 | tx<<16 | out }

type c24Acc struct {
	rep     *EnumReport
	classes map[string]bool
}

func (a *c24Acc) viol(key, detail string) {
	a.rep.Violations = append(a.rep.Violations, mc.Violation{Property: "C24", Key: key, Detail: detail})
	a.rep.Outcomes["VIOLATION "+key]++
}
func (a *c24Acc) hit(class string) {
	a.rep.Outcomes[class]++
	a.classes[class] = true
}

// ---------------------------------------------------------------- CLN

func c24CLN(a *c24Acc, thorough bool) {
	amounts := []uint64{0, 1, 999, 1_000_000_000, 1 << 53, 1<<63 - 1}
	cltvs := []int{-1, 0, 1, 9, 29, 30, 31, 32, 503, 504, 1<<31 - 1, 1<<32 - 2, 1<<32 - 1}
	payees := []string{c24Peer, c24Other}
	scids := []string{"100x1x0", "100:1:0", "200x2x0", "200:2:0", "", "100x1", "garbage"}
	limits := []uint32{0, 32, 33}
	if thorough {
		amounts = append(amounts, 1000, 1<<32-1, 1<<32, 1<<63, math.MaxUint64)
		cltvs = append(cltvs, math.MinInt64, -1<<31, -2, 2, 8, 10, 33, 34, 143, 144, 1<<31, 1<<32, 1<<32+30, math.MaxInt64)
		payees = append(payees, "")
		scids = append(scids, "16777215x16777215x65535", "16777215:16777215:65535", "0x0x0", "100x1:0", "100x1x0x7", "x", "::")
		limits = append(limits, 1, 31, 504, 1<<31-1, 1<<31, math.MaxUint32)
	}
	a.rep.Alphabets["cln.amount_msat"] = amounts
	a.rep.Alphabets["cln.min_final_cltv_expiry"] = cltvs
	a.rep.Alphabets["cln.payee"] = []string{"peer", "other", "(thorough) empty"}
	a.rep.Alphabets["cln.scid"] = scids
	a.rep.Alphabets["cln.max_total_cltv_delta"] = limits
	n := 0
	for _, amt := range amounts {
		for _, cltv := range cltvs {
			for _, payee := range payees {
				for _, scid := range scids {
					for _, limit := range limits {
						in := &glightning.DecodedBolt11{Payee: payee, AmountMsat: glightning.AmountFromMSat(amt), MinFinalCltvExpiry: cltv, PaymentHash: strings.Repeat("ab", 32)}
						route, err := clightning.VerifBuildDirectClaimRoute(in, scid, limit)
						a.rep.Transitions++
						desc := fmt.Sprintf("cln amount_msat=%d min_final_cltv_expiry=%d payee=%s scid=%q limit=%d -> route=%+v err=%v", amt, cltv, payee, scid, limit, route, err)
						if n%997 == 0 && len(a.rep.Samples) < 6 {
							a.rep.Samples = append(a.rep.Samples, desc)
						}
						n++
						c24JudgeCLN(a, amt, cltv, payee, scid, limit, route, err, desc)
					}
				}
			}
		}
	}
}

func c24JudgeCLN(a *c24Acc, amt uint64, cltv int, payee, scid string, limit uint32, route []glightning.RouteHop, err error, desc string) {
	blk, tx, out, scidOK := c24ParseScid(scid)
	negative := cltv < 0
	oversized := int64(cltv) > math.MaxUint32-1 // cltv+1 does not fit the 32-bit delay
	if err != nil {
		// a refusal is always safe; but the node must be able to pay ordinary invoices
		if scidOK && cltv >= 0 && cltv <= 9 && (limit == 0 || limit >= 32) {
			a.viol("cln_route:refuses_valid_payment", desc)
			return
		}
		switch {
		case limit != 0 && negative:
			a.hit("cln:refused:negative_cltv_under_limit")
		case limit != 0 && oversized:
			a.hit("cln:refused:oversized_cltv_under_limit")
		case limit != 0 && int64(cltv) >= int64(limit):
			a.hit("cln:refused:cltv_over_limit")
		default:
			a.hit("cln:refused:other")
		}
		return
	}
	bad := false
	v := func(key string) { a.viol(key, desc); bad = true }
	switch {
	case len(route) == 0:
		v("cln_route:empty")
		return
	case len(route) > 1:
		v("cln_route:multi_hop")
	}
	h := route[0]
	if scidOK {
		want := fmt.Sprintf("%dx%dx%d", blk, tx, out)
		if h.ShortChannelId != want {
			v("cln_route:wrong_channel")
		}
	} else if h.ShortChannelId != strings.ReplaceAll(scid, ":", "x") {
		// a malformed id may be passed through for the node to reject, never turned into some other channel
		v("cln_route:wrong_channel:malformed_scid_rewritten")
	}
	if h.AmountMsat.MSat() != amt {
		v("cln_route:amount_differs")
	}
	if h.Id != payee {
		v("cln_route:wrong_destination")
	}
	if limit != 0 {
		if negative {
			v("cln_route:unsafe_cltv_accepted:class=negative")
		} else if oversized {
			v("cln_route:unsafe_cltv_accepted:class=oversized")
		}
		if h.Delay > limit {
			v(fmt.Sprintf("cln_route:delay_exceeds_limit:excess=%d", h.Delay-limit))
		}
	}
	a.classes[fmt.Sprintf("cln:direction=%d", h.Direction)] = true
	if bad {
		return
	}
	switch {
	case !scidOK:
		a.hit("cln:ok:malformed_scid_passed_through")
	case strings.Contains(scid, ":"):
		a.hit("cln:ok:single_hop:scid_colon_form_normalised")
	default:
		a.hit("cln:ok:single_hop:scid_x_form")
	}
	if limit != 0 {
		a.hit("cln:ok:delay_within_limit")
	}
	if payee != c24Peer {
		a.hit("cln:ok:hop_id_follows_invoice_payee")
	}
}

// ---------------------------------------------------------------- LND request predicate

// c24CheckRequest is the statement's predicate on a SendPaymentRequest: one
// HTLC, over exactly the given channel, the invoice untouched.
func c24CheckRequest(prefix string, req *routerrpc.SendPaymentRequest, payreq string, chanID uint64, limit uint32) []string {
	var keys []string
	if req == nil {
		return []string{prefix + ":nil_request"}
	}
	if len(req.OutgoingChanIds) != 1 || req.OutgoingChanIds[0] != chanID {
		switch {
		case len(req.OutgoingChanIds) == 0 && req.OutgoingChanId == chanID && chanID != 0: //nolint:staticcheck
			// the deprecated single-channel field names the same channel: still pinned
		case len(req.OutgoingChanIds) == 0:
			keys = append(keys, prefix+":channel_not_pinned")
		case len(req.OutgoingChanIds) > 1:
			keys = append(keys, fmt.Sprintf("%s:several_outgoing_channels=%d", prefix, len(req.OutgoingChanIds)))
		default:
			keys = append(keys, prefix+":wrong_channel")
		}
	}
	if req.OutgoingChanId != 0 && req.OutgoingChanId != chanID { //nolint:staticcheck
		keys = append(keys, prefix+":wrong_channel:deprecated_field")
	}
	if req.MaxParts != 1 {
		keys = append(keys, fmt.Sprintf("%s:max_parts=%d", prefix, req.MaxParts))
	}
	if req.Amp {
		keys = append(keys, prefix+":amp")
	}
	if req.PaymentRequest != payreq {
		keys = append(keys, prefix+":payment_request_changed")
	}
	if req.Amt != 0 || req.AmtMsat != 0 {
		keys = append(keys, prefix+":amount_override")
	}
	if len(req.Dest) != 0 {
		keys = append(keys, prefix+":dest_override")
	}
	if len(req.PaymentHash) != 0 || len(req.PaymentAddr) != 0 || req.FinalCltvDelta != 0 {
		keys = append(keys, prefix+":invoice_field_override")
	}
	if len(req.LastHopPubkey) != 0 {
		keys = append(keys, prefix+":last_hop_set")
	}
	if limit != 0 && (int64(req.CltvLimit) > int64(limit)+1 || req.CltvLimit <= 0) {
		keys = append(keys, prefix+":cltv_limit_exceeds_limit")
	}
	return keys
}

func c24SameKey(a, b string) bool { return strings.EqualFold(a, b) }

// ---------------------------------------------------------------- LND builder

func c24LNDBuilder(a *c24Acc, thorough bool) {
	dests := []string{c24Peer, c24Other}
	cltvs := []int64{-1, 0, 1, 9, 29, 30, 31, 32, 503, 504, 1<<31 - 1, 1<<32 - 2, 1<<32 - 1}
	msats := []int64{0, 1, 999, 1_000_000_000, 1 << 53, 1<<63 - 1}
	chans := []uint64{c24ChanID(100, 1, 0), c24ChanID(200, 2, 0), 0}
	limits := []uint32{0, 32, 33}
	payreqs := []string{"lnbcrt1claiminvoice"}
	if thorough {
		dests = append(dests, "", strings.ToUpper(c24Peer), c24Peer[:64], c24Peer+"00")
		cltvs = append(cltvs, math.MinInt64, -1<<31, -2, 2, 8, 10, 26, 27, 28, 33, 34, 143, 144, 1<<31, 1<<32, math.MaxInt64-3, math.MaxInt64)
		msats = append(msats, -1, 1000, 1<<32, math.MinInt64)
		chans = append(chans, 1, math.MaxUint64, c24ChanID(1<<24-1, 1<<24-1, 1<<16-1))
		limits = append(limits, 1, 3, 4, 31, 504, 1<<31-2, 1<<31-1, 1<<31, math.MaxUint32)
		payreqs = append(payreqs, "", "LNBCRT1UPPER", "lnbcrt1 with space\n")
	}
	a.rep.Alphabets["lnd.destination"] = []string{"channel peer", "another key", "(thorough) empty, upper-case peer, truncated peer, extended peer"}
	a.rep.Alphabets["lnd.cltv_expiry"] = cltvs
	a.rep.Alphabets["lnd.num_msat"] = msats
	a.rep.Alphabets["lnd.chan_id"] = chans
	a.rep.Alphabets["lnd.max_total_cltv_delta"] = limits
	a.rep.Alphabets["lnd.payreq"] = payreqs
	n := 0
	for _, dest := range dests {
		for _, cltv := range cltvs {
			for _, msat := range msats {
				for _, cid := range chans {
					for _, limit := range limits {
						for _, pr := range payreqs {
							dec := &lnrpc.PayReq{Destination: dest, CltvExpiry: cltv, NumMsat: msat, NumSatoshis: msat / 1000, PaymentHash: strings.Repeat("ab", 32)}
							ch := &lnrpc.Channel{ChanId: cid, RemotePubkey: c24Peer, Active: true, LocalBalance: math.MaxInt64}
							req, err := lnd.VerifBuildDirectClaimPaymentRequest(pr, dec, ch, limit)
							a.rep.Transitions++
							desc := fmt.Sprintf("lnd builder destination=%s cltv_expiry=%d num_msat=%d chan_id=%d remote_pubkey=%s limit=%d payreq=%q -> req={%v} err=%v", dest, cltv, msat, cid, c24Peer, limit, pr, req, err)
							if n%1201 == 0 && len(a.rep.Samples) < 12 {
								a.rep.Samples = append(a.rep.Samples, desc)
							}
							n++
							c24JudgeLNDBuilder(a, dest, cltv, cid, limit, pr, req, err, desc)
						}
					}
				}
			}
		}
	}
}

func c24JudgeLNDBuilder(a *c24Acc, dest string, cltv int64, cid uint64, limit uint32, pr string, req *routerrpc.SendPaymentRequest, err error, desc string) {
	foreign := !c24SameKey(dest, c24Peer)
	exact := dest == c24Peer
	// definitely unsafe under a limit: negative, or the final hop alone needs more than the whole limit
	unsafe := limit != 0 && (cltv < 0 || cltv > int64(limit))
	if err != nil {
		if req != nil {
			a.viol("lnd_request:request_returned_with_error", desc)
		}
		switch {
		case foreign:
			a.hit("lnd:refused:foreign_destination")
		case unsafe:
			a.hit("lnd:refused:unsafe_cltv_under_limit")
		case exact && cltv >= 0 && cltv <= 9 && (limit == 0 || (limit >= 32 && limit < math.MaxInt32)):
			a.viol("lnd_request:refuses_valid_payment", desc)
		default:
			a.hit("lnd:refused:other")
		}
		return
	}
	bad := false
	if foreign {
		a.viol("lnd_request:foreign_destination_accepted", desc)
		bad = true
	}
	if unsafe {
		cl := "over_limit"
		if cltv < 0 {
			cl = "negative"
		}
		a.viol("lnd_request:unsafe_cltv_accepted:class="+cl, desc)
		bad = true
	}
	for _, k := range c24CheckRequest("lnd_request", req, pr, cid, limit) {
		a.viol(k, desc)
		bad = true
	}
	if bad {
		return
	}
	a.hit("lnd:ok:single_part_pinned_to_channel")
	if limit != 0 {
		a.hit("lnd:ok:cltv_limit_within_limit")
	}
	if !exact {
		a.hit("lnd:ok:same_key_other_spelling")
	}
}

// ---------------------------------------------------------------- LND client over fake gRPC

type c24FakeLN struct {
	lnrpc.LightningClient // nil: any other method panics (would be reported as internal error)
	decoded               map[string]*lnrpc.PayReq
	channels              []*lnrpc.Channel
	listCalls             int
}

func (f *c24FakeLN) DecodePayReq(_ context.Context, in *lnrpc.PayReqString, _ ...grpc.CallOption) (*lnrpc.PayReq, error) {
	d, ok := f.decoded[in.PayReq]
	if !ok {
		return nil, errors.New("invalid payment request")
	}
	return d, nil
}

func (f *c24FakeLN) ListChannels(_ context.Context, in *lnrpc.ListChannelsRequest, _ ...grpc.CallOption) (*lnrpc.ListChannelsResponse, error) {
	f.listCalls++
	var out []*lnrpc.Channel
	for _, c := range f.channels {
		if in.ActiveOnly && !c.Active {
			continue
		}
		if in.InactiveOnly && c.Active {
			continue
		}
		out = append(out, c)
	}
	return &lnrpc.ListChannelsResponse{Channels: out}, nil
}

type c24FakeStream struct {
	routerrpc.Router_SendPaymentV2Client
	n int
}

func (s *c24FakeStream) Recv() (*lnrpc.Payment, error) {
	s.n++
	if s.n > 1 {
		return nil, errors.New("stream: end")
	}
	return &lnrpc.Payment{Status: lnrpc.Payment_SUCCEEDED, PaymentPreimage: "preimage-from-fake"}, nil
}

type c24FakeRouter struct {
	routerrpc.RouterClient
	sent []*routerrpc.SendPaymentRequest
}

func (r *c24FakeRouter) SendPaymentV2(_ context.Context, in *routerrpc.SendPaymentRequest, _ ...grpc.CallOption) (routerrpc.Router_SendPaymentV2Client, error) {
	r.sent = append(r.sent, in)
	return &c24FakeStream{}, nil
}

type c24Chan struct {
	blk, tx, out uint64
	peer         string
	balance      int64
	active       bool
}

func (c c24Chan) String() string {
	s := fmt.Sprintf("%d:%d:%d->%s", c.blk, c.tx, c.out, c.peer[:4])
	if c.balance < 1_000_000_000 {
		s += fmt.Sprintf("(bal=%d)", c.balance)
	}
	if !c.active {
		s += "(inactive)"
	}
	return s
}

func c24LNDClient(a *c24Acc, thorough bool) {
	const big = int64(1) << 62
	pool := []c24Chan{
		{100, 1, 0, c24Peer, big, true},
		{200, 2, 0, c24Other, big, true},
		{100, 1, 1, c24Peer, big, true},
	}
	// every ordered selection of 1..3 distinct channels of the pool
	var tables [][]c24Chan
	var rec func(cur []c24Chan, used int)
	rec = func(cur []c24Chan, used int) {
		if len(cur) > 0 {
			tables = append(tables, append([]c24Chan{}, cur...))
		}
		if len(cur) == 3 {
			return
		}
		for i, c := range pool {
			if used&(1<<i) == 0 {
				rec(append(cur, c), used|1<<i)
			}
		}
	}
	rec(nil, 0)
	if thorough {
		// the swap channel with too little balance / inactive next to a healthy sibling of the same peer
		tables = append(tables,
			[]c24Chan{{100, 1, 0, c24Peer, 5, true}, {100, 1, 1, c24Peer, big, true}},
			[]c24Chan{{100, 1, 1, c24Peer, big, true}, {100, 1, 0, c24Peer, 5, true}},
			[]c24Chan{{100, 1, 0, c24Peer, big, false}, {100, 1, 1, c24Peer, big, true}},
			[]c24Chan{{100, 1, 1, c24Peer, big, true}, {100, 1, 0, c24Peer, big, false}},
		)
	}
	scids := []string{"100x1x0", "100:1:0", "200x2x0", "200:2:0", "100x1x1", "300x3x0", "", "100x1",
		// ids that are NOT a channel of the table but collapse onto 100x1x0 when their components are packed into
		// 24 / 24 / 16 bits without a range check (output 2^16, tx index 2^24+1 spilling into the height, height 2^24+100)
		"100x1x65536", "99:16777217:0", "16777316x1x0"}
	dests := []string{c24Peer, c24Other}
	msats := []int64{1, 1_000_000_000}
	cltvs := []int64{-1, 9, 29, 30, 504}
	limits := []uint32{0, 32, 33}
	if thorough {
		scids = append(scids, "100:1:1", "300:3:0", "garbage", "100x1:0", "0x0x0")
		msats = append(msats, 0, 999, 1<<53)
		cltvs = append(cltvs, 0, 1, 31, 32, 503, 1<<31-1, 1<<32-1)
	}
	apis := []string{"RebalancePayment", "PayInvoiceViaChannel"}
	a.rep.Alphabets["lndclient.channel_table"] = fmt.Sprintf("%d tables: every ordered selection of 1..3 of %v (+ thorough: low-balance / inactive swap channel beside a sibling)", len(tables), pool)
	a.rep.Alphabets["lndclient.scid"] = scids
	a.rep.Alphabets["lndclient.invoice_destination"] = []string{"peer", "other"}
	a.rep.Alphabets["lndclient.num_msat"] = msats
	a.rep.Alphabets["lndclient.cltv_expiry"] = cltvs
	a.rep.Alphabets["lndclient.limit"] = limits
	a.rep.Alphabets["lndclient.api"] = apis
	const payreq = "lnbcrt1claiminvoice"
	n := 0
	for _, tbl := range tables {
		for _, scid := range scids {
			for _, dest := range dests {
				for _, msat := range msats {
					for _, cltv := range cltvs {
						for _, limit := range limits {
							for _, api := range apis {
								if api == "PayInvoiceViaChannel" && limit != limits[0] {
									continue // this entry point has no limit parameter
								}
								ln := &c24FakeLN{decoded: map[string]*lnrpc.PayReq{payreq: {Destination: dest, CltvExpiry: cltv, NumMsat: msat, NumSatoshis: msat / 1000, PaymentHash: strings.Repeat("ab", 32)}}}
								for _, c := range tbl {
									ln.channels = append(ln.channels, &lnrpc.Channel{ChanId: c24ChanID(c.blk, c.tx, c.out), RemotePubkey: c.peer, LocalBalance: c.balance, Active: c.active})
								}
								rt := &c24FakeRouter{}
								cl := lnd.VerifNewClient(context.Background(), ln, nil, rt, nil, nil, nil, scnIDA)
								var pre string
								var err error
								var pan any
								func() {
									defer func() { pan = recover() }()
									if api == "RebalancePayment" {
										pre, err = cl.RebalancePayment(payreq, scid, limit)
									} else {
										pre, err = cl.PayInvoiceViaChannel(payreq, scid)
									}
								}()
								a.rep.Transitions++
								var sent []string
								for _, r := range rt.sent {
									sent = append(sent, "{"+r.String()+"}")
								}
								desc := fmt.Sprintf("lnd.Client.%s(payreq, scid=%q, limit=%d) channels=%v invoice{destination=%s num_msat=%d cltv_expiry=%d} -> sent=%v preimage=%q err=%v", api, scid, limit, tbl, dest[:4], msat, cltv, sent, pre, err)
								if pan != nil {
									a.rep.Internal = append(a.rep.Internal, fmt.Sprintf("panic in %s: %v", desc, pan))
									continue
								}
								if n%2503 == 0 && len(a.rep.Samples) < 18 {
									a.rep.Samples = append(a.rep.Samples, desc)
								}
								n++
								c24JudgeLNDClient(a, tbl, scid, dest, cltv, msat, limit, payreq, rt.sent, pre, err, desc)
							}
						}
					}
				}
			}
		}
	}
}

const scnIDA = "02aaaaaaaaaaaaaaaaaaaaaaaaaaaaaaaaaaaaaaaaaaaaaaaaaaaaaaaaaaaaaaaa"

func c24JudgeLNDClient(a *c24Acc, tbl []c24Chan, scid, dest string, cltv, msat int64, limit uint32, payreq string, sent []*routerrpc.SendPaymentRequest, pre string, err error, desc string) {
	blk, tx, out, ok := c24ParseScid(scid)
	var target *c24Chan
	if ok {
		for i := range tbl {
			if tbl[i].blk == blk && tbl[i].tx == tx && tbl[i].out == out {
				target = &tbl[i]
			}
		}
	}
	if len(sent) > 1 {
		a.viol(fmt.Sprintf("lnd_pay:several_payments_sent=%d", len(sent)), desc)
		return
	}
	if len(sent) == 0 {
		if err == nil {
			a.viol("lnd_pay:success_reported_without_payment", desc)
			return
		}
		switch {
		case target == nil:
			a.hit("lndclient:refused:swap_channel_not_in_table")
		case !c24SameKey(dest, target.peer):
			a.hit("lndclient:refused:destination_is_not_channel_peer")
		case limit != 0 && (cltv < 0 || cltv > int64(limit)):
			a.hit("lndclient:refused:unsafe_cltv_under_limit")
		case !target.active:
			a.hit("lndclient:refused:swap_channel_inactive")
		case target.balance < msat/1000:
			a.hit("lndclient:refused:swap_channel_balance_too_low")
		case cltv >= 0 && cltv <= 9 && (limit == 0 || limit >= 32):
			a.viol("lnd_pay:refuses_valid_payment", desc)
		default:
			a.hit("lndclient:refused:other")
		}
		return
	}
	// exactly one payment went out
	bad := false
	v := func(k string) { a.viol(k, desc); bad = true }
	req := sent[0]
	switch {
	case target == nil:
		v("lnd_pay:sent_although_swap_channel_unknown")
	default:
		if !c24SameKey(dest, target.peer) {
			v("lnd_pay:foreign_destination_paid")
		}
		if limit != 0 && (cltv < 0 || cltv > int64(limit)) {
			v("lnd_pay:unsafe_cltv_paid")
		}
		for _, k := range c24CheckRequest("lnd_pay", req, payreq, c24ChanID(target.blk, target.tx, target.out), limit) {
			v(k)
		}
	}
	if err != nil || pre != "preimage-from-fake" {
		// the fake settles every payment: the caller must hear about it
		v("lnd_pay:settled_payment_reported_as_failure")
	}
	if bad {
		return
	}
	sp := "x"
	if strings.Contains(scid, ":") {
		sp = "colon"
	}
	a.hit(fmt.Sprintf("lndclient:ok:paid_over_swap_channel:scid_%s_form:table_size=%d", sp, len(tbl)))
	if len(tbl) > 1 && tbl[0] != *target {
		a.hit("lndclient:ok:swap_channel_is_not_first_in_table")
	}
}

func TestC24(t *testing.T) {
	vsync.SetMode(vsync.Plain)
	thorough := mc.Tier() == "thorough"
	rep := EnumReport{ID: "C24", Level: "model_checking", Exhaustive: true, Start: time.Now(),
		Rule: "cartesian product of the listed per-dimension boundary alphabets, evaluated on the real clightning.buildDirectClaimRoute, lnd.buildDirectClaimPaymentRequest (verif exports) and on the real lnd.Client.RebalancePayment / PayInvoiceViaChannel over fake lnrpc/routerrpc clients that record the SendPaymentV2 request; reference predicates from the statement: one hop / one part, pinned to the swap channel (x form for CLN, numeric id of the scid for LND), invoice amount and payment request untouched, refusal when the invoice destination is not the channel peer (LND), CLTV bounded when a limit is given",
		Alphabets: map[string]any{}, Outcomes: map[string]int{}, Extra: map[string]any{}}
	a := &c24Acc{rep: &rep, classes: map[string]bool{}}
	c24CLN(a, thorough)
	c24LNDBuilder(a, thorough)
	c24LNDClient(a, thorough)
	var dirs []string
	for c := range a.classes {
		if strings.HasPrefix(c, "cln:direction=") {
			dirs = append(dirs, c)
		}
	}
	sort.Strings(dirs)
	rep.Extra["cln_route_direction_values_seen_not_judged"] = dirs
	rep.Extra["not_reached"] = []string{
		"clightning.ClightningClient.payInvoiceViaChannel (DecodeBolt11 + SendPay over the CLN JSON-RPC socket) is not driven; only its pure route builder is",
		"the route hop's Direction is recorded, not judged: the statement does not speak about it",
	}
	rep.States = len(rep.Outcomes)
	rep.Need = []string{
		"cln:ok:single_hop:scid_x_form", "cln:ok:single_hop:scid_colon_form_normalised", "cln:ok:delay_within_limit", "cln:ok:hop_id_follows_invoice_payee",
		"cln:refused:negative_cltv_under_limit", "cln:refused:oversized_cltv_under_limit", "cln:refused:cltv_over_limit",
		"lnd:ok:single_part_pinned_to_channel", "lnd:ok:cltv_limit_within_limit", "lnd:refused:foreign_destination", "lnd:refused:unsafe_cltv_under_limit",
		"lndclient:refused:swap_channel_not_in_table", "lndclient:refused:destination_is_not_channel_peer", "lndclient:refused:unsafe_cltv_under_limit",
		"lndclient:ok:paid_over_swap_channel:scid_x_form:table_size=1", "lndclient:ok:paid_over_swap_channel:scid_colon_form:table_size=1",
		"lndclient:ok:paid_over_swap_channel:scid_x_form:table_size=3", "lndclient:ok:paid_over_swap_channel:scid_colon_form:table_size=3",
		"lndclient:ok:swap_channel_is_not_first_in_table",
	}
	finishEnum(t, &rep)
}
