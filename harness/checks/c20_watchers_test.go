package checks

import (
	"bufio"
	"bytes"
	"context"
	"crypto/sha256"
	"encoding/hex"
	"errors"
	"encoding/json"
	"fmt"
	"os"
	"os/exec"
	"runtime"
	"sort"
	"strings"
	"sync"
	"testing"
	"testing/synctest"
	"time"

	"github.com/btcsuite/btcd/chaincfg"
	"github.com/btcsuite/btcd/chaincfg/chainhash"
	"github.com/btcsuite/btcd/txscript"
	"github.com/btcsuite/btcd/wire"
	goelectrum "github.com/checksum0/go-electrum/electrum"
	"github.com/elementsproject/peerswap/lnd"
	"github.com/elementsproject/peerswap/lwk"
	"github.com/elementsproject/peerswap/txwatcher"
	"github.com/lightningnetwork/lnd/lnrpc"
	"github.com/lightningnetwork/lnd/lnrpc/chainrpc"
	"google.golang.org/grpc"
	"google.golang.org/grpc/codes"
	"google.golang.org/grpc/status"
	"verif/mc"
	"verif/vsync"
	"verif/world"
)

// C20: chain watchers report confirmation and CSV maturity only when true.
//
// Engine E4 ("chainx"): breadth-first search by replay over block histories.
// Every execution builds, inside a fresh testing/synctest bubble, a fresh
// simulated chain (world.Chain) and a fresh REAL watcher on top of it
//
//	rpc      txwatcher.BlockchainRpcTxWatcher (both polling loops, virtual time)
//	         over world.RPCView (bitcoind / elementsd)
//	electrum lwk.electrumTxWatcher + electrum observers over a fake electrum.RPC
//	lnd      lnd.TxWatcher over fake lnrpc / chainrpc gRPC clients
//
// replays a history of chain / RPC events and judges every callback against
// the chain's ground truth recorded inside the callback.

const (
	c20Node = "N"
	// the watchers take window and csv as parameters; small values keep the
	// histories short (the LND watcher hard-codes 504 / 1008 / 144: jumps)
	c20Window = 6
	c20Csv    = 5
)

var (
	c20ConfID  = strings.Repeat("c2", 31) + "01"
	c20CsvID   = strings.Repeat("c2", 31) + "02"
	c20ConfID2 = strings.Repeat("c2", 31) + "03"
	c20ProbeID = strings.Repeat("c2", 31) + "04"
)

type c20Fam struct {
	Name    string
	Watcher string // rpc | electrum | lnd
	Chain   string // btc | lbtc
	Confs   uint32
	Kind    string // conf | csv
	Early   bool   // the transaction was confirmed before startingHeight
	Race    bool   // chain changes in the middle of the watcher's RPC sequence
	Multi   bool   // three watches at once on the same transaction: confirmation, CSV, a second confirmation (in that order)
	TxIndex bool   // lnd only: the notifier finds a confirmation below the height hint (lnd on a txindex-enabled bitcoind looks the transaction up by id)
	Depth   int
	Window  uint32
	Csv     uint32
}

func c20Families(tier string) []c20Fam {
	d := 6
	if tier == "thorough" {
		d = 8
	}
	var out []c20Fam
	add := func(w, chain string, confs uint32, win, csv uint32, depth int) {
		for _, kind := range []string{"conf", "csv"} {
			if w == "rpc" && chain == "lbtc" && kind == "csv" && tier != "thorough" {
				// the CSV path of the RPC watcher does not read requiredConfs:
				// same code, same histories as rpc-btc/csv
				continue
			}
			for _, early := range []bool{false, true} {
				n := fmt.Sprintf("%s-%s/%s", w, chain, kind)
				if early {
					n += "/early"
				}
				out = append(out, c20Fam{Name: n, Watcher: w, Chain: chain, Confs: confs, Kind: kind, Early: early, Depth: depth, Window: win, Csv: csv})
			}
		}
	}
	add("rpc", "btc", 3, c20Window, c20Csv, d)
	add("rpc", "lbtc", 2, c20Window, c20Csv, d)
	add("electrum", "lbtc", 2, c20Window, c20Csv, d)
	add("lnd", "btc", 3, 504, 1008, d)
	for _, kind := range []string{"conf", "csv"} {
		out = append(out, c20Fam{Name: "lnd-btc/" + kind + "/early/txindex", Watcher: "lnd", Chain: "btc", Confs: 3, Kind: kind, Early: true, TxIndex: true, Depth: d, Window: 504, Csv: 1008})
	}
	// several registrations at once (the subscriber / observer lists are walked while entries leave them)
	out = append(out, c20Fam{Name: "electrum-lbtc/conf/multi", Watcher: "electrum", Chain: "lbtc", Confs: 2, Kind: "conf", Multi: true, Depth: d, Window: c20Window, Csv: c20Csv})
	// (no rpc multi family: its observers are independent goroutines that share the injected faults, so which of them
	// meets the k-th failing call depends on the Go scheduler - not explorable by replay)
	// mid-call chain changes (RPC watcher only; see c20View.after)
	out = append(out, c20Fam{Name: "rpc-btc/conf/race", Watcher: "rpc", Chain: "btc", Confs: 3, Kind: "conf", Race: true, Depth: d - 1, Window: c20Window, Csv: c20Csv})
	out = append(out, c20Fam{Name: "rpc-lbtc/conf/race", Watcher: "rpc", Chain: "lbtc", Confs: 2, Kind: "conf", Race: true, Depth: d - 1, Window: c20Window, Csv: c20Csv})
	out = append(out, c20Fam{Name: "rpc-btc/csv/race", Watcher: "rpc", Chain: "btc", Confs: 3, Kind: "csv", Race: true, Depth: d - 1, Window: c20Window, Csv: c20Csv})
	return out
}

func c20FindFam(name string) *c20Fam {
	for _, tier := range []string{mc.Tier(), "quick", "thorough"} {
		for _, f := range c20Families(tier) {
			if f.Name == name {
				ff := f
				return &ff
			}
		}
	}
	return nil
}

// ---------------------------------------------------------------- ground truth

type c20Truth struct {
	Tip    uint32
	Exists bool
	Height uint32 // 0 = mempool
	Spent  bool
}

func (t c20Truth) depth() int {
	if !t.Exists || t.Height == 0 {
		return 0
	}
	return int(t.Tip - t.Height + 1)
}

func (t c20Truth) where() string {
	if !t.Exists {
		return "absent"
	}
	if t.Height == 0 {
		return "mempool"
	}
	return "confirmed"
}

type c20Report struct {
	Kind  string // conf | csv
	OK    bool
	Err   string
	At    c20Truth // ground truth at the instant of the callback
	Read  c20Truth // ground truth at the watcher's most recent read of the chain
	RawOK bool
	Ev    int
}

type c20Snap struct {
	at time.Time
	t  c20Truth
}

type c20Adapter interface {
	start()
	reg(kind string)
	settle(e mc.Event)
	stop()
	obsKey() string
	faults() []mc.Event
}

type c20Exec struct {
	f          *c20Fam
	w          *world.World
	c          *world.Chain
	base       uint32
	S, W, R    uint32
	CSV        uint32
	txHex      string
	txid       string
	script     []byte
	spendHex   string
	spendID    string
	wa         c20Adapter
	waOld      c20Adapter // the watcher of the previous process life (drain with restart)
	cbFail     int        // csv callbacks that will return an error (the swap could not take the event: store fault)
	cbFailed   int        // ... and how many did
	regd       bool
	reports    []c20Report
	viols      []mc.Violation
	flags      map[string]bool // informational classes seen in this execution
	extra      map[string]int  // multi families: reports per additional registration
	probing    bool
	reregs     int  // repeated registrations of the same watch
	regWithFault bool // a fault was pending when the first registration was made
	reregClean   bool // a repeated registration was made with no fault pending
	closed     bool
	ev         int
	evName     string
	reorgs     int
	lastRead   c20Truth
	snaps      []c20Snap
	stalePrev  bool                 // armed: the next gettxout is answered as of before the last chain event
	prevTxOut  *txwatcher.TxOutResp // that answer
	races      []c20Race
	raceFired  int
	internal   string
	csvForConf int
}

func (x *c20Exec) prefix() string {
	if x.f.Watcher == "rpc" {
		return "rpc"
	}
	return x.f.Watcher
}

func (x *c20Exec) truth() c20Truth {
	t := c20Truth{Tip: x.c.Tip()}
	if tx := x.c.Get(x.txid); tx != nil {
		t.Exists = true
		t.Height = tx.Height
	}
	t.Spent = x.c.SpentBy(x.txid, 0) != ""
	return t
}

func (x *c20Exec) add(key, detail string) {
	if x.f.Race && x.moved() {
		// input class: the chain tip moved between the block poller's read
		// and the end of the observer's lookup
		key += ":chain_moved_during_lookup"
	}
	x.viols = append(x.viols, mc.Violation{Property: "C20", Key: x.prefix() + ":" + key, Detail: detail})
}

// moved: the chain changed during the processing of the current notification.
func (x *c20Exec) moved() bool {
	now := time.Now()
	var first *c20Truth
	for i := range x.snaps {
		if now.Sub(x.snaps[i].at) > c20Processing {
			continue
		}
		if first == nil {
			first = &x.snaps[i].t
		} else if *first != x.snaps[i].t {
			return true
		}
	}
	return false
}

func (x *c20Exec) describe(r c20Report) string {
	return fmt.Sprintf("family %s: start=base+%d window=%d required=%d csv=%d; during event #%d %s: callback kind=%s ok=%v err=%q; ground truth at the callback: tip=base+%d tx=%s height=base%+d depth=%d spent=%v (at the watcher's last chain read: tip=base+%d tx=%s depth=%d)",
		x.f.Name, int64(x.S)-int64(x.base), x.W, x.R, x.CSV, r.Ev, x.evName, r.Kind, r.OK, r.Err,
		int64(r.At.Tip)-int64(x.base), r.At.where(), int64(r.At.Height)-int64(x.base), r.At.depth(), r.At.Spent,
		int64(r.Read.Tip)-int64(x.base), r.Read.where(), r.Read.depth())
}

// snap records the ground truth of this instant (race families).
func (x *c20Exec) snap() {
	if !x.f.Race {
		return
	}
	now := time.Now()
	keep := x.snaps[:0]
	for _, s := range x.snaps {
		if now.Sub(s.at) <= c20Processing {
			keep = append(keep, s)
		}
	}
	x.snaps = append(keep, c20Snap{now, x.truth()})
}

// c20Processing bounds the virtual time the RPC watcher needs from the block
// poller's read of the tip to the callback (dispatch loop: at most 100 ms; the
// next poll is 500 ms away).
const c20Processing = 200 * time.Millisecond

// judged truth: the callback instant.  In the race families the chain moves
// in the middle of the watcher's RPC sequence; a report is then accepted if
// the statement held at SOME instant during the processing of the
// notification that triggered it (from the poller's read of the tip to the
// callback) - no watcher can do better than report a state it has seen - and
// otherwise judged against the chain as of the watcher's last read.
func (x *c20Exec) judged(r c20Report, good func(c20Truth) bool) c20Truth {
	if x.f.Race {
		x.snap()
		for i := len(x.snaps) - 1; i >= 0; i-- {
			if good(x.snaps[i].t) {
				return x.snaps[i].t
			}
		}
		return r.Read
	}
	return r.At
}

// c20SlowCallback (only as a sub-check of C18): the swap's handler of a watcher callback takes a while
// (it pays an invoice, broadcasts a transaction ...), so further blocks arrive while it runs.
func c20SlowCallback() {
	if os.Getenv("VERIF_C20_SLOWCB") != "" {
		time.Sleep(2500 * time.Millisecond)
	}
}

func (x *c20Exec) onConf(swapID, txHex string, err error) error {
	if x.closed {
		return nil
	}
	defer c20SlowCallback()
	r := c20Report{Kind: "conf", OK: err == nil, At: x.truth(), Read: x.lastRead, RawOK: txHex == x.txHex, Ev: x.ev}
	if err != nil {
		r.Err = err.Error()
	}
	if x.f.Watcher != "rpc" {
		r.Read = r.At
	}
	if x.f.Multi && swapID == c20ConfID2 && x.regd {
		// the second confirmation watch of the multi families: exactly one report, judged like the first
		x.extra[swapID]++
		if x.extra[swapID] > 1 {
			x.add("reported_twice:second_confirmation_watch", x.describe(r))
		} else if t := x.truth(); r.OK && (!t.Exists || t.Height == 0 || uint32(t.depth()) < x.R) && !x.f.Race {
			x.add("confirmed_too_early:second_confirmation_watch", x.describe(r))
		}
		return nil
	}
	if swapID != c20ConfID || x.f.Kind != "conf" || !x.regd {
		x.add("confirmation_callback_without_registration", x.describe(r))
		return nil
	}
	prev := x.reports
	x.reports = append(x.reports, r)
	if len(prev) > 0 {
		a, b := "failure", "failure"
		if prev[0].OK {
			a = "success"
		}
		if r.OK {
			b = "success"
		}
		x.add("reported_twice:"+a+"_then_"+b, x.describe(r))
	}
	t := x.judged(r, func(t c20Truth) bool {
		if !r.OK {
			return false
		}
		return t.Exists && t.Height != 0 && uint32(t.depth()) >= x.R && t.Tip < x.S+x.W
	})
	closedNow := t.Tip >= x.S+x.W
	if r.OK {
		bad := false
		if !t.Exists || t.Height == 0 {
			x.add("confirmed_but_tx_"+t.where(), x.describe(r))
			bad = true
		} else if uint32(t.depth()) < x.R {
			x.add(fmt.Sprintf("confirmed_with_depth=%d_required=%d", t.depth(), x.R), x.describe(r))
			bad = true
		}
		if closedNow {
			x.add("confirmed_reported_after_window_closed", x.describe(r))
			bad = true
		}
		if !r.RawOK {
			x.add("confirmed_with_wrong_rawtx", x.describe(r)+fmt.Sprintf(" rawtx=%q", txHex))
			bad = true
		}
		if os.Getenv("VERIF_C20_C05") != "" && t.Exists && t.Height != 0 && uint32(t.depth()) >= x.W {
			// only as a sub-check of C05 (never part of C20's own verdict): the taker starts paying on
			// this report, and its HTLC may stay open for up to the window (= CSV/2) from now on; a
			// transaction that is already a whole window deep leaves less than CSV/2 until the refund
			x.add("confirmed_reported_at_depth_ge_window", x.describe(r))
		}
		if !bad {
			x.flags["conf_success_true"] = true
			if t.Height < x.S {
				x.flags["conf_success_tx_before_start"] = true
			}
			if t.Spent {
				x.flags["conf_success_output_spent"] = true
			}
			if x.f.Race {
				a := r.At
				if !a.Exists || a.Height == 0 || uint32(a.depth()) < x.R || a.Tip >= x.S+x.W {
					x.flags["info_true_during_processing_false_at_callback(inherent)"] = true
				}
			}
		}
	} else {
		if closedNow {
			x.flags["conf_failure_window_closed"] = true
		} else {
			x.flags["info_failure_while_window_open:"+c20ErrClass(r.Err)] = true
		}
	}
	return nil
}

func c20ErrClass(s string) string {
	switch {
	case strings.Contains(s, "exceeded csv limit"), strings.Contains(s, "deadline exceeded"):
		return "window"
	case strings.Contains(s, "injected"):
		return "rpc_error"
	case strings.Contains(s, "block hash mismatch"):
		return "block_hash_mismatch"
	}
	return "other"
}

func (x *c20Exec) onCsv(swapID string) error {
	if swapID == c20ProbeID {
		x.extra[swapID]++
		return nil
	}
	defer c20SlowCallback()
	if x.closed {
		return nil
	}
	r := c20Report{Kind: "csv", OK: true, At: x.truth(), Read: x.lastRead, Ev: x.ev}
	if x.f.Watcher != "rpc" {
		r.Read = r.At
	}
	if x.f.Multi && swapID == c20CsvID && x.regd {
		x.extra[swapID]++
		if x.extra[swapID] > 1 {
			x.add("csv_reported_twice:multi", x.describe(r))
		} else if t := x.truth(); !t.Exists || t.Height == 0 || uint32(t.depth()) < x.CSV {
			x.add("csv_reported_too_early:multi", x.describe(r))
		}
		return nil
	}
	if x.f.Kind == "conf" && swapID == c20ConfID && x.regd {
		// the registration asked for the confirmation of the opening
		// transaction and is answered through the CSV callback
		x.csvForConf++
		x.reports = append(x.reports, r)
		if len(x.reports) > 1 {
			x.add("reported_twice:via_csv_callback", x.describe(r))
		}
		x.add("confirmation_registration_answered_through_csv_callback", x.describe(r))
		return nil
	}
	if swapID != c20CsvID || x.f.Kind != "csv" || !x.regd {
		x.add("csv_callback_without_registration", x.describe(r))
		return nil
	}
	if x.cbFail > 0 {
		// the swap could not take the event (e.g. its store write failed): no report; the watcher has to come again
		x.cbFail--
		x.cbFailed++
		return errors.New("swap could not take the csv event (injected)")
	}
	prev := x.reports
	x.reports = append(x.reports, r)
	if len(prev) > x.reregs {
		// at most one report per registration (a repeated registration may be answered once more)
		x.add("csv_reported_twice", x.describe(r))
	}
	t := x.judged(r, func(t c20Truth) bool { return t.Exists && t.Height != 0 && uint32(t.depth()) >= x.CSV })
	if !t.Exists || t.Height == 0 {
		x.add("csv_reported_but_tx_"+t.where(), x.describe(r))
	} else if uint32(t.depth()) < x.CSV {
		x.add(fmt.Sprintf("csv_reported_at_depth=csv-%d", int(x.CSV)-t.depth()), x.describe(r))
	} else {
		x.flags["csv_true"] = true
		if x.evName == "reg" {
			// C18's concern, not C20's: the callback runs inside the registration call
			x.flags["info_csv_callback_inside_registration_call"] = true
		}
		if t.Spent {
			x.flags["csv_true_output_spent"] = true
		}
		if uint32(t.depth()) == x.CSV {
			x.flags["csv_true_at_exact_depth"] = true
		}
	}
	return nil
}

// ---------------------------------------------------------------- transactions

func c20MakeTxs() (txHex, txid string, script []byte, spendHex, spendID string) {
	ws := []byte{txscript.OP_TRUE}
	h := sha256.Sum256(ws)
	script = append([]byte{txscript.OP_0, txscript.OP_DATA_32}, h[:]...)
	tx := wire.NewMsgTx(2)
	var prev chainhash.Hash
	copy(prev[:], bytes.Repeat([]byte{0xc2}, 32))
	tx.AddTxIn(wire.NewTxIn(wire.NewOutPoint(&prev, 1), nil, nil))
	tx.AddTxOut(wire.NewTxOut(100000, script))
	tx.AddTxOut(wire.NewTxOut(4000, []byte{txscript.OP_0, txscript.OP_DATA_20, 1, 2, 3, 4, 5, 6, 7, 8, 9, 10, 11, 12, 13, 14, 15, 16, 17, 18, 19, 20}))
	txHex = world.TxHex(tx)
	id := tx.TxHash()
	txid = id.String()
	sp := wire.NewMsgTx(2)
	in := wire.NewTxIn(wire.NewOutPoint(&id, 0), nil, [][]byte{ws})
	in.Sequence = 0xffffffff
	sp.AddTxIn(in)
	sp.AddTxOut(wire.NewTxOut(99000, []byte{txscript.OP_0, txscript.OP_DATA_20, 20, 19, 18, 17, 16, 15, 14, 13, 12, 11, 10, 9, 8, 7, 6, 5, 4, 3, 2, 1}))
	spendHex = world.TxHex(sp)
	spendID = sp.TxHash().String()
	return
}

// ---------------------------------------------------------------- execution

func c20NewExec(f *c20Fam) *c20Exec {
	vsync.Reset()
	x := &c20Exec{f: f, flags: map[string]bool{}, extra: map[string]int{}}
	x.w = world.New()
	x.c = x.w.Chain(f.Chain)
	x.base = x.c.Tip()
	x.S, x.W, x.R, x.CSV = x.base, f.Window, f.Confs, f.Csv
	x.txHex, x.txid, x.script, x.spendHex, x.spendID = c20MakeTxs()
	if f.Early {
		// the transaction is two blocks deep when the swap "starts"
		if _, err := x.c.Submit(x.txHex, "maker", nil, "opening"); err != nil {
			x.internal = "submit: " + err.Error()
		}
		x.c.Mine(2, false)
		x.S = x.c.Tip() + 1
		x.c.Mine(1, false)
	}
	x.wa = x.newAdapter()
	x.wa.start()
	x.lastRead = x.truth()
	return x
}

func (x *c20Exec) newAdapter() c20Adapter {
	switch x.f.Watcher {
	case "rpc":
		return &c20RPC{x: x}
	case "electrum":
		return &c20El{x: x}
	case "lnd":
		return &c20Lnd{x: x}
	}
	return nil
}

func (x *c20Exec) finish() {
	x.closed = true
	x.w.Faults = map[string][]int{}
	x.c.StaleOnce = false
	x.stalePrev = false
	x.races = nil
	x.wa.stop()
	if x.waOld != nil {
		x.waOld.stop()
	}
	synctest.Wait()
	vsync.Abort()
	synctest.Wait()
}

// drainCsv (only as a sub-check of C07, never part of C20's own verdict): from the state reached,
// with an open CSV registration and the watched output unspent, every service answers correctly
// from now on and the chain grows past CSV maturity; the watcher must then report maturity -
// otherwise the maker's refund is never triggered.
func (x *c20Exec) drainCsv() {
	if x.f.Kind != "csv" || !x.regd || len(x.reports) > 0 || x.internal != "" {
		return
	}
	t := x.truth()
	if !t.Exists || t.Spent {
		return
	}
	x.w.Faults = map[string][]int{}
	x.c.StaleOnce = false
	x.stalePrev = false
	x.races = nil
	x.cbFail = 0
	x.apply(mc.Event{Name: "jump", Arg: "csv"})
	for i := 0; i < 3 && len(x.reports) == 0; i++ {
		x.apply(mc.Event{Name: "block", Arg: "empty"})
		x.apply(mc.Event{Name: "wait"})
	}
	t = x.truth()
	if len(x.reports) == 0 && t.Exists && !t.Spent && t.Height != 0 && uint32(t.depth()) >= x.CSV {
		how := ""
		switch {
		case x.reregClean:
			how = ":although_registered_again"
		case x.regWithFault || x.reregs > 0:
			how = ":registration_failed_silently"
		case x.cbFailed > 0:
			how = ":after_a_callback_that_failed"
		}
		x.add("csv_maturity_never_reported_after_services_recovered"+how, fmt.Sprintf("family %s: CSV registration open, output unspent and %d deep (csv %d), all services healthy for the last %d blocks: no maturity report", x.f.Name, t.depth(), x.CSV, 3))
		if os.Getenv("VERIF_C20_DRAIN") == "restart" {
			// C16 grants restarts "from time to time": the daemon is restarted (a new watcher object in a new process
			// life, services healthy), recovery registers the watch again and the chain goes on growing
			x.waOld = x.wa
			x.wa = x.newAdapter()
			x.wa.start()
			x.wa.reg(x.f.Kind)
			synctest.Wait()
			for i := 0; i < 3 && len(x.reports) == 0; i++ {
				x.apply(mc.Event{Name: "block", Arg: "empty"})
				x.apply(mc.Event{Name: "wait"})
			}
			if len(x.reports) == 0 {
				x.add("csv_maturity_never_reported_even_after_restart", fmt.Sprintf("family %s: after the history, healthy services, a restart of the daemon (new watcher, watch registered again) and 3 more blocks: still no maturity report", x.f.Name))
			}
		}
	}
}

// heightDuringOutage (only as a sub-check of C04 / C05): from the state reached the node's chain backend stops
// answering getblockcount while the chain grows by two blocks; the swap actions decide "still inside the payment
// window?" from GetBlockHeight, so the watcher must then answer with an error or with the true tip - never with an
// older height it remembers.
func (x *c20Exec) heightDuringOutage() {
	a, ok := x.wa.(*c20RPC)
	if !ok || x.internal != "" {
		return
	}
	x.w.Faults = map[string][]int{}
	for k := 0; k < 40; k++ {
		// the whole backend is unreachable
		for _, m := range []string{"getblockcount", "getblockhash", "gettxout", "getrawtransaction"} {
			x.w.AddFault(c20Node, x.f.Chain+"."+m, k)
		}
	}
	x.c.MineQuiet(2)
	time.Sleep(3 * time.Second) // several polls of the block watcher, all failing
	synctest.Wait()
	h, err := a.tw.GetBlockHeight()
	tip := x.c.Tip()
	if err == nil && h != tip {
		x.add(fmt.Sprintf("height_answer_stale_during_outage:behind=%d", int64(tip)-int64(h)), fmt.Sprintf("family %s: getblockcount fails, the chain is at base+%d, GetBlockHeight answers base+%d without an error", x.f.Name, int64(tip)-int64(x.base), int64(h)-int64(x.base)))
	}
	x.w.Faults = map[string][]int{}
}

// dispatcherProbe (C18 sub-check): is the watcher's block dispatcher still alive?  A fresh CSV watch that matures with
// the NEXT block can only be reported through the dispatcher (poller -> dispatcher -> HandleCsvTx); a dispatcher that
// is stuck for good (e.g. in a send to an observer that has finished) never reports it.
func (x *c20Exec) dispatcherProbe() {
	a, ok := x.wa.(*c20RPC)
	if !ok || x.internal != "" {
		return
	}
	t := x.truth()
	if !t.Exists || t.Height == 0 || t.Spent {
		return
	}
	x.w.Faults = map[string][]int{}
	x.c.StaleOnce, x.stalePrev, x.races = false, false, nil
	x.probing = true
	a.tw.AddWaitForCsvTx(c20ProbeID, x.txid, 0, x.S, uint32(t.depth())+1, nil)
	synctest.Wait()
	x.c.Mine(1, true)
	time.Sleep(5 * time.Second)
	synctest.Wait()
	if x.extra[c20ProbeID] == 0 {
		x.add("block_dispatcher_dead:fresh_csv_watch_never_reported", fmt.Sprintf("family %s: after the history a new CSV watch (maturing with the next block) was registered and a block was mined; 5 s later nothing was reported", x.f.Name))
	}
	x.probing = false
}

func (x *c20Exec) pendingFaults() bool {
	return x.w.FaultKey() != "F[] P[]" || x.c.StaleOnce || x.stalePrev || len(x.races) > 0
}

// rememberTxOut keeps what gettxout answers now, before the chain changes.
func (x *c20Exec) rememberTxOut() {
	x.prevTxOut, _ = (&world.RPCView{C: x.c, Node: "-"}).GetTxOut(x.txid, 0)
}

func (x *c20Exec) apply(e mc.Event) {
	x.ev++
	x.evName = e.String()
	clean := !x.pendingFaults()
	openBefore := x.regd && len(x.reports) == 0
	tipBefore := x.c.Tip()
	switch e.Name {
	case "submit", "spend", "block", "reorg", "jump":
		x.rememberTxOut()
	}
	switch e.Name {
	case "submit":
		if _, err := x.c.Submit(x.txHex, "maker", nil, "opening"); err != nil {
			x.internal = "submit: " + err.Error()
		}
		synctest.Wait()
	case "spend":
		if _, err := x.c.Submit(x.spendHex, "other", nil, "spend"); err != nil {
			x.internal = "spend: " + err.Error()
		}
		synctest.Wait()
	case "block":
		x.c.Mine(1, e.Arg == "empty")
		x.wa.settle(e)
	case "reorg":
		x.reorgs++
		x.c.Reorg(uint32(e.N), e.Arg == "drop")
		x.wa.settle(e)
	case "jump":
		if n := x.jumpBlocks(e.Arg); n > 0 {
			x.c.MineQuiet(n)
		}
		x.wa.settle(e)
	case "wait", "resub":
		x.wa.settle(e)
	case "notify":
		x.c.Notify()
		x.wa.settle(e)
	case "fault":
		x.w.AddFault(c20Node, e.Arg, e.N)
	case "stale":
		if e.Arg == "prev" {
			x.stalePrev = true
		} else {
			x.c.StaleOnce = true
		}
	case "race":
		x.races = append(x.races, c20Race{Method: e.Arg[:strings.Index(e.Arg, ">")], Action: e.Arg[strings.Index(e.Arg, ">")+1:], K: e.N})
	case "reg":
		x.regd = true
		x.regWithFault = x.pendingFaults()
		x.wa.reg(x.f.Kind)
		synctest.Wait()
	case "cbfail":
		x.cbFail = 1
	case "rereg":
		// the swap registers the same watch again (a maker does when it moves on to its wait-for-CSV state)
		x.reregs++
		if !x.pendingFaults() {
			x.reregClean = true
		}
		x.wa.reg(x.f.Kind)
		synctest.Wait()
	default:
		x.internal = "unknown event " + e.Name
	}
	// once the tip has reached start+window without a report, the next
	// notification (a new tip height, nothing in the way) yields a failure
	if x.f.Kind == "conf" && openBefore && clean && (e.Name == "block" || e.Name == "jump") && x.c.Tip() > tipBefore && x.c.Tip() >= x.S+x.W {
		if len(x.reports) == 0 {
			t := x.truth()
			x.add("no_failure_after_window_closed", fmt.Sprintf("family %s: start=base+%d window=%d: registration open, tip=base+%d >= start+window after event #%d %s (no fault pending), tx=%s depth=%d: no callback at all",
				x.f.Name, int64(x.S)-int64(x.base), x.W, int64(t.Tip)-int64(x.base), x.ev, x.evName, t.where(), t.depth()))
		}
	}
}

// jumpBlocks: number of blocks to mine so that the named edge is reached.
func (x *c20Exec) jumpBlocks(arg string) int {
	t := x.truth()
	target := int64(0)
	depthOf := func(d uint32) int64 {
		// blocks needed until the transaction is d deep (mempool txs are
		// included in the first block of a jump)
		if !t.Exists {
			return 0
		}
		if t.Height == 0 {
			return int64(d)
		}
		return int64(d) - int64(t.depth())
	}
	switch arg {
	case "win-2":
		target = int64(x.S+x.W-2) - int64(t.Tip)
	case "win-1":
		target = int64(x.S+x.W-1) - int64(t.Tip)
	case "win":
		target = int64(x.S+x.W) - int64(t.Tip)
	case "csv-1":
		target = depthOf(x.CSV - 1)
	case "csv":
		target = depthOf(x.CSV)
	case "d143":
		target = depthOf(143)
	case "d144":
		target = depthOf(144)
	case "half-1": // depth = window-1 (the LND watcher compares the depth with the window)
		target = depthOf(x.W - 1)
	case "half":
		target = depthOf(x.W)
	}
	if target < 0 {
		return 0
	}
	return int(target)
}

func (x *c20Exec) enabled() []mc.Event {
	var out []mc.Event
	t := x.truth()
	sp := x.c.Get(x.spendID)
	mempool := (t.Exists && t.Height == 0) || (sp != nil && sp.Height == 0)
	if !x.regd {
		out = append(out, mc.Event{Name: "reg"})
	} else if x.f.Kind == "csv" && x.reregs == 0 && len(x.reports) == 0 {
		out = append(out, mc.Event{Name: "rereg"})
	}
	if os.Getenv("VERIF_C20_CBFAIL") != "" && x.f.Kind == "csv" && x.f.Watcher == "rpc" && x.cbFail == 0 && x.cbFailed == 0 && len(x.reports) == 0 {
		// only as a sub-check of C07: the next csv callback fails (the rpc watcher is the one that promises to come again)
		out = append(out, mc.Event{Name: "cbfail"})
	}
	if !t.Exists {
		out = append(out, mc.Event{Name: "submit"})
	}
	if t.Exists && !t.Spent && sp == nil {
		out = append(out, mc.Event{Name: "spend"})
	}
	out = append(out, mc.Event{Name: "block"})
	if mempool {
		out = append(out, mc.Event{Name: "block", Arg: "empty"})
	}
	for d := uint32(1); d <= 2; d++ {
		if t.Tip < x.base+d {
			continue
		}
		out = append(out, mc.Event{Name: "reorg", Arg: "keep", N: int(d)})
		hit := (t.Exists && t.Height != 0 && t.Height > t.Tip-d) || (sp != nil && sp.Height != 0 && sp.Height > t.Tip-d)
		if hit {
			out = append(out, mc.Event{Name: "reorg", Arg: "drop", N: int(d)})
		}
	}
	var jumps []string
	if x.f.Kind == "conf" {
		jumps = []string{"win-1", "win"}
		if x.f.Race {
			// two blocks short of the deadline: a mid-call change can then put the tx INTO the deadline block
			jumps = append(jumps, "win-2")
		}
		if x.f.Watcher == "lnd" {
			jumps = append(jumps, "half-1", "half")
		}
	} else {
		jumps = []string{"csv-1", "csv"}
		if x.f.Watcher == "lnd" {
			jumps = append(jumps, "d143", "d144")
		}
	}
	for _, j := range jumps {
		if x.jumpBlocks(j) > 0 {
			out = append(out, mc.Event{Name: "jump", Arg: j})
		}
	}
	nf := 0
	for _, v := range x.w.Faults {
		nf += len(v)
	}
	if x.c.StaleOnce {
		nf++
	}
	if x.stalePrev {
		nf++
	}
	nf += len(x.races)
	if nf < c20MaxPending() {
		for _, fe := range x.wa.faults() {
			dup := false
			if fe.Name == "fault" {
				for _, k := range x.w.Faults[c20Node+"/"+fe.Arg] {
					if k == fe.N {
						dup = true
					}
				}
			}
			if fe.Name == "stale" && ((fe.Arg == "" && x.c.StaleOnce) || (fe.Arg == "prev" && x.stalePrev)) {
				dup = true
			}
			if fe.Name == "race" && len(x.races) > 0 {
				dup = true
			}
			if !dup {
				out = append(out, fe)
			}
		}
	}
	switch x.f.Watcher {
	case "rpc":
		out = append(out, mc.Event{Name: "wait"})
	case "electrum":
		out = append(out, mc.Event{Name: "notify"}, mc.Event{Name: "resub"})
	case "lnd":
		out = append(out, mc.Event{Name: "notify"})
	}
	return out
}

func c20MaxPending() int {
	if mc.Tier() == "thorough" {
		return 2
	}
	return 1
}

func (x *c20Exec) key() string {
	t := x.truth()
	st := func(exists bool, h uint32) string {
		if !exists {
			return "-"
		}
		if h == 0 {
			return "m"
		}
		return fmt.Sprintf("c%d", t.Tip-h+1)
	}
	sp := x.c.Get(x.spendID)
	sps := "-"
	if sp != nil {
		sps = st(true, sp.Height)
	}
	var rs []string
	for _, r := range x.reports {
		rs = append(rs, fmt.Sprintf("%s/%v", r.Kind, r.OK))
	}
	var vk []string
	for _, v := range x.viols {
		vk = append(vk, v.Key)
	}
	sort.Strings(vk)
	var rc []string
	for _, r := range x.races {
		rc = append(rc, fmt.Sprintf("%s#%d>%s", r.Method, r.K, r.Action))
	}
	// the number of reorganisations is not part of the key: it only shows in
	// the block hashes, which the watchers compare with each other and with
	// the poller's last one (hashIsTip in the RPC adapter's part of the key)
	return fmt.Sprintf("%s|tip+%d|tx=%s spent=%v spender=%s|%s stale=%v races=%v|reg=%v reports=%v extra=%d/%d|%s|v=%v",
		x.f.Name, t.Tip-x.base, st(t.Exists, t.Height), t.Spent, sps, x.w.FaultKey(), fmt.Sprint(x.c.StaleOnce, x.stalePrev), rc, x.regd, rs, x.extra[c20CsvID]+10*x.reregs+100*x.cbFail+1000*x.cbFailed, x.extra[c20ConfID2], x.wa.obsKey(), vk)
}

func (x *c20Exec) outcome() string {
	var fl []string
	for k := range x.flags {
		fl = append(fl, k)
	}
	sort.Strings(fl)
	st := "unregistered"
	if x.regd {
		st = "open"
		if len(x.reports) > 0 {
			st = "reported"
		}
	}
	t := x.truth()
	if x.regd && len(x.reports) == 0 {
		// liveness is not part of C20: information only
		if x.f.Kind == "conf" && t.Exists && t.Height != 0 && uint32(t.depth()) >= x.R && t.Tip < x.S+x.W {
			fl = append(fl, "info_true_confirmation_unreported")
		}
		if x.f.Kind == "csv" && t.Exists && t.Height != 0 && uint32(t.depth()) >= x.CSV {
			fl = append(fl, "info_mature_csv_unreported")
		}
	}
	return x.f.Watcher + "/" + x.f.Kind + ":" + st + " " + strings.Join(fl, ",")
}

func c20Runner(t *testing.T, f *c20Fam) mc.Runner {
	return func(history []mc.Event) mc.StepResult {
		var res mc.StepResult
		func() {
			defer func() {
				if r := recover(); r != nil {
					if msg := fmt.Sprint(r); strings.Contains(msg, "blocked goroutines remain") && res.Key != "" {
						// the execution itself completed and was judged; a goroutine of the watcher stayed
						// blocked after stop() (it waits on something that ignores the context).  Counted,
						// and the verdicts of the execution stand.
						res.Outcome += ",info_watcher_goroutine_blocked_after_stop"
						return
					}
					res.Internal = fmt.Sprintf("harness panic: %v", r)
				}
			}()
			synctest.Test(t, func(t *testing.T) {
				x := c20NewExec(f)
				for i, e := range history {
					if i == len(history)-1 {
						res.PrefixKey = x.key()
						res.PrefixDiff = res.PrefixKey
					}
					x.apply(e)
				}
				res.Key = x.key()
				res.KeyText = res.Key
				if len(x.reports) < 2 {
					res.Enabled = x.enabled()
				}
				res.Outcome = x.outcome()
				if os.Getenv("VERIF_C20_DRAIN") != "" {
					x.drainCsv()
				}
				if os.Getenv("VERIF_C20_HEIGHT") != "" {
					x.heightDuringOutage()
				}
				if os.Getenv("VERIF_C20_SLOWCB") != "" {
					// long after the last event every callback has returned: whoever still waits for a
					// lock of the watcher waits for a holder that is itself blocked for good
					time.Sleep(8 * time.Second)
					synctest.Wait()
					if ws := vsync.Waiters(); len(ws) > 0 {
						x.add("goroutine_waits_for_watcher_lock_forever:"+c20LockSite(ws), strings.Join(ws, "\n---\n"))
					} else {
						x.dispatcherProbe()
					}
				}
				res.Violations = x.viols
				res.Internal = x.internal
				x.finish()
			})
		}()
		return res
	}
}

// ---------------------------------------------------------------- RPC watcher

type c20Race struct {
	Method string
	Action string
	K      int
}

// c20View is the BlockchainRpc handed to the real watcher: world.RPCView plus
// bookkeeping (what the watcher has been told) and, in the race families,
// chain changes that happen right after a given call has been answered.
type c20View struct {
	x         *c20Exec
	v         *world.RPCView
	lastCount int64
	maxCount  int64
	lastHash  string
	calls     int
}

func (v *c20View) String() string { return v.x.f.Chain }

func (v *c20View) after(method string) {
	x := v.x
	v.calls++
	x.lastRead = x.truth()
	x.snap()
	if x.closed {
		return
	}
	defer x.snap()
	for i := 0; i < len(x.races); i++ {
		r := &x.races[i]
		if r.Method != method {
			continue
		}
		if r.K > 0 {
			r.K--
			continue
		}
		act := r.Action
		x.races = append(x.races[:i], x.races[i+1:]...)
		x.raceFired++
		switch act {
		case "block":
			x.c.Mine(1, false)
		case "block2":
			x.c.Mine(1, true)
			x.c.Mine(1, false)
		case "block2b":
			// two blocks, the pending transactions go into the FIRST of them
			x.c.Mine(1, false)
			x.c.Mine(1, true)
		case "reorg1drop":
			x.reorgs++
			x.c.Reorg(1, true)
		case "reorg1keep":
			x.reorgs++
			x.c.Reorg(1, false)
		case "reorg2drop":
			x.reorgs++
			x.c.Reorg(2, true)
		case "reorg2keep":
			x.reorgs++
			x.c.Reorg(2, false)
		}
		return
	}
}

func (v *c20View) GetBlockHeight() (uint64, error) {
	h, err := v.v.GetBlockHeight()
	if err == nil {
		v.lastCount = int64(h)
		if int64(h) > v.maxCount {
			v.maxCount = int64(h)
		}
	} else {
		v.lastCount = -1
	}
	v.after("getblockcount")
	return h, err
}

func (v *c20View) GetBlockHash(height uint32) (string, error) {
	h, err := v.v.GetBlockHash(height)
	v.lastHash = h
	v.after("getblockhash")
	return h, err
}

func (v *c20View) GetTxOut(txid string, vout uint32) (*txwatcher.TxOutResp, error) {
	r, err := v.v.GetTxOut(txid, vout)
	if err == nil && v.x.stalePrev && !v.x.closed {
		// a node that has not caught up: the answer describes the chain as
		// it was before the last event (with the best block hash of then)
		v.x.stalePrev = false
		r = v.x.prevTxOut
	}
	v.after("gettxout")
	return r, err
}

func (v *c20View) GetRawtransactionWithBlockHash(txid, blockHash string) (string, error) {
	r, err := v.v.GetRawtransactionWithBlockHash(txid, blockHash)
	v.after("getrawtransaction")
	return r, err
}

type c20RPC struct {
	x      *c20Exec
	tw     *txwatcher.BlockchainRpcTxWatcher
	view   *c20View
	cancel context.CancelFunc
}

func (a *c20RPC) start() {
	x := a.x
	a.view = &c20View{x: x, v: &world.RPCView{C: x.c, Node: c20Node}}
	ctx, cancel := context.WithCancel(context.Background())
	a.cancel = cancel
	a.tw = txwatcher.NewBlockchainRpcTxWatcher(ctx, a.view, x.R)
	a.tw.AddConfirmationCallback(x.onConf)
	a.tw.AddCsvCallback(x.onCsv)
	if err := a.tw.StartWatchingTxs(); err != nil {
		x.internal = "StartWatchingTxs: " + err.Error()
	}
	// the block poller ticks at multiples of 500 ms, the dispatch loop at
	// multiples of 100 ms: events are applied at +250 ms so that nothing is
	// in flight at the quiescence points
	time.Sleep(750 * time.Millisecond)
	synctest.Wait()
}

func (a *c20RPC) reg(kind string) {
	x := a.x
	done := make(chan struct{})
	go func() {
		defer close(done)
		if kind == "conf" {
			a.tw.AddWaitForConfirmationTx(c20ConfID, x.txid, 0, x.S, x.W, nil)
			if x.f.Multi {
				a.tw.AddWaitForCsvTx(c20CsvID, x.txid, 0, x.S, x.CSV, nil)
				a.tw.AddWaitForConfirmationTx(c20ConfID2, x.txid, 0, x.S, x.W, nil)
			}
		} else {
			a.tw.AddWaitForCsvTx(c20CsvID, x.txid, 0, x.S, x.CSV, nil)
		}
	}()
	synctest.Wait()
	select {
	case <-done:
	default:
		x.flags["info_registration_call_blocked"] = true
	}
}

func (a *c20RPC) settle(mc.Event) {
	a.x.snap()
	time.Sleep(time.Second)
	synctest.Wait()
}

func (a *c20RPC) stop() {
	x := a.x
	// the observation loops only end with a report: close the window
	if x.f.Kind == "conf" && x.regd {
		if tip := x.c.Tip(); tip < x.S+x.W+1 {
			x.c.MineQuiet(int(x.S + x.W + 1 - tip))
		} else {
			x.c.MineQuiet(1)
		}
		time.Sleep(time.Second)
		synctest.Wait()
	}
	a.cancel()
	time.Sleep(500 * time.Millisecond)
	synctest.Wait()
}

func (a *c20RPC) obsKey() string {
	v := a.view
	x := a.x
	tipHash, _ := (&world.RPCView{C: x.c}).GetBlockHash(x.c.Tip())
	lc := "err"
	if v.lastCount >= 0 {
		lc = fmt.Sprintf("+%d", v.lastCount-int64(x.base))
	}
	prev := "nil"
	if p := x.prevTxOut; p != nil {
		prev = fmt.Sprintf("c%d/tip=%v", p.Confirmations, p.BestBlockHash == tipHash)
	}
	return fmt.Sprintf("rpc:count=%s max=+%d hashIsTip=%v prevTxOut=%s", lc, v.maxCount-int64(x.base), v.lastHash == tipHash, prev)
}

func (a *c20RPC) faults() []mc.Event {
	x := a.x
	p := x.f.Chain + "."
	if x.f.Race {
		var out []mc.Event
		// k-th next call: the poller calls getblockcount/getblockhash first,
		// the observer calls them again inside IsTxInMempoolOrRange
		for _, act := range []string{"block", "block2", "block2b", "reorg1drop", "reorg1keep", "reorg2drop", "reorg2keep"} {
			if strings.HasPrefix(act, "reorg2") && x.c.Tip() < x.base+2 {
				continue
			}
			for _, m := range []struct {
				m string
				k int
			}{{"getblockhash", 0}, {"getblockhash", 1}, {"gettxout", 0}, {"getrawtransaction", 0}} {
				out = append(out, mc.Event{Name: "race", Arg: m.m + ">" + act, N: m.k})
			}
		}
		return out
	}
	out := []mc.Event{
		{Name: "fault", Arg: p + "getblockcount"}, {Name: "fault", Arg: p + "getblockcount", N: 1},
		{Name: "fault", Arg: p + "getblockhash"}, {Name: "fault", Arg: p + "getblockhash", N: 1}, {Name: "fault", Arg: p + "getblockhash", N: 2},
		{Name: "fault", Arg: p + "gettxout"},
		{Name: "stale"}, {Name: "stale", Arg: "prev"},
	}
	if x.f.Kind == "conf" {
		out = append(out, mc.Event{Name: "fault", Arg: p + "getrawtransaction"})
	}
	return out
}

// ---------------------------------------------------------------- Electrum watcher

type c20ElWatcher interface {
	StartWatchingTxs() error
	AddWaitForConfirmationTx(swapId, txId string, vout, startingHeight, window uint32, script []byte)
	AddWaitForCsvTx(swapId, txId string, vout, startingHeight, csv uint32, script []byte)
	AddConfirmationCallback(func(swapId string, txHex string, err error) error)
	AddCsvCallback(func(swapId string) error)
	GetBlockHeight() (uint32, error)
}

// c20El is the adapter and the fake electrum.RPC (an Electrum server indexing
// the simulated chain).
type c20El struct {
	x      *c20Exec
	tw     c20ElWatcher
	mu     sync.Mutex
	subs   []chan *goelectrum.SubscribeHeadersResult
	hooked bool
	nsubs  int
}

func (a *c20El) push(h uint32) {
	a.mu.Lock()
	defer a.mu.Unlock()
	for _, ch := range a.subs {
		select {
		case ch <- &goelectrum.SubscribeHeadersResult{Height: int32(h)}:
		default:
			a.x.internal = "electrum fake: header channel full"
		}
	}
}

func (a *c20El) SubscribeHeaders(ctx context.Context) (<-chan *goelectrum.SubscribeHeadersResult, error) {
	if a.x.w.ShouldFail(c20Node, "electrum.subscribe") {
		return nil, fmt.Errorf("electrum: subscribe failed (injected)")
	}
	ch := make(chan *goelectrum.SubscribeHeadersResult, 4096)
	// blockchain.headers.subscribe answers with the current tip
	ch <- &goelectrum.SubscribeHeadersResult{Height: int32(a.x.c.Tip())}
	a.mu.Lock()
	a.subs = append(a.subs, ch)
	a.nsubs++
	hook := !a.hooked
	a.hooked = true
	a.mu.Unlock()
	if hook {
		a.x.c.Subscribe(a.push)
	}
	return ch, nil
}

func (a *c20El) scriptHash() string {
	h := sha256.Sum256(a.x.script)
	for i, j := 0, len(h)-1; i < j; i, j = i+1, j-1 {
		h[i], h[j] = h[j], h[i]
	}
	return hex.EncodeToString(h[:])
}

func (a *c20El) GetHistory(ctx context.Context, scripthash string) ([]*goelectrum.GetMempoolResult, error) {
	x := a.x
	if x.w.ShouldFail(c20Node, "electrum.gethistory") {
		return nil, fmt.Errorf("electrum: get_history failed (injected)")
	}
	var out []*goelectrum.GetMempoolResult
	if !strings.EqualFold(scripthash, a.scriptHash()) {
		return out, nil
	}
	// Electrum conventions: height > 0 confirmed; 0 unconfirmed; -1
	// unconfirmed with an unconfirmed parent.  Confirmed entries first, in
	// chain order, then the mempool.
	type ent struct {
		id string
		h  int32
	}
	var ents []ent
	tx := x.c.Get(x.txid)
	if tx != nil {
		ents = append(ents, ent{x.txid, int32(tx.Height)})
	}
	if sp := x.c.Get(x.spendID); sp != nil {
		h := int32(sp.Height)
		if sp.Height == 0 && (tx == nil || tx.Height == 0) {
			h = -1
		}
		ents = append(ents, ent{x.spendID, h})
	}
	sort.SliceStable(ents, func(i, j int) bool {
		ci, cj := ents[i].h > 0, ents[j].h > 0
		if ci != cj {
			return ci
		}
		if ci {
			return ents[i].h < ents[j].h
		}
		return false
	})
	for _, e := range ents {
		out = append(out, &goelectrum.GetMempoolResult{Hash: e.id, Height: e.h})
	}
	return out, nil
}

func (a *c20El) GetRawTransaction(ctx context.Context, txHash string) (string, error) {
	if a.x.w.ShouldFail(c20Node, "electrum.getrawtransaction") {
		return "", fmt.Errorf("electrum: transaction.get failed (injected)")
	}
	if tx := a.x.c.Get(txHash); tx != nil {
		return tx.Hex, nil
	}
	return "", fmt.Errorf("electrum: no such mempool or blockchain transaction")
}

func (a *c20El) BroadcastTransaction(context.Context, string) (string, error) {
	return "", fmt.Errorf("not modelled")
}
func (a *c20El) GetFee(context.Context, uint32) (float32, error) {
	return 0, fmt.Errorf("not modelled")
}
func (a *c20El) Ping(context.Context) error { return nil }
func (a *c20El) Reboot(context.Context) error {
	if a.x.w.ShouldFail(c20Node, "electrum.reboot") {
		return fmt.Errorf("electrum: reboot failed (injected)")
	}
	// the old subscription is gone with the old connection
	a.mu.Lock()
	a.subs = nil
	a.mu.Unlock()
	return nil
}

func (a *c20El) start() {
	x := a.x
	tw, err := lwk.NewElectrumTxWatcher(a)
	if err != nil {
		x.internal = "NewElectrumTxWatcher: " + err.Error()
		return
	}
	a.tw = tw
	a.tw.AddConfirmationCallback(x.onConf)
	a.tw.AddCsvCallback(x.onCsv)
	if err := a.tw.StartWatchingTxs(); err != nil {
		x.internal = "StartWatchingTxs: " + err.Error()
	}
	synctest.Wait()
}

func (a *c20El) reg(kind string) {
	x := a.x
	if kind == "conf" {
		a.tw.AddWaitForConfirmationTx(c20ConfID, x.txid, 0, x.S, x.W, x.script)
		if x.f.Multi {
			a.tw.AddWaitForCsvTx(c20CsvID, x.txid, 0, x.S, x.CSV, x.script)
			a.tw.AddWaitForConfirmationTx(c20ConfID2, x.txid, 0, x.S, x.W, x.script)
		}
	} else {
		a.tw.AddWaitForCsvTx(c20CsvID, x.txid, 0, x.S, x.CSV, x.script)
	}
}

func (a *c20El) settle(e mc.Event) {
	if e.Name == "resub" {
		// the 37 s re-subscription ticker: reboot + subscribe again
		time.Sleep(37 * time.Second)
	}
	synctest.Wait()
}

func (a *c20El) stop() {
	// the watcher's goroutine ends when its header subscription is closed;
	// after a failed re-subscription it may still listen to a dropped channel
	a.mu.Lock()
	subs := a.subs
	a.subs = nil
	a.mu.Unlock()
	for _, ch := range subs {
		close(ch)
	}
	synctest.Wait()
	time.Sleep(40 * time.Second)
	synctest.Wait()
}

func (a *c20El) obsKey() string {
	h, err := a.tw.GetBlockHeight()
	a.mu.Lock()
	n := len(a.subs)
	a.mu.Unlock()
	return fmt.Sprintf("el:height=+%d err=%v subs=%d", int64(h)-int64(a.x.base), err != nil, n)
}

func (a *c20El) faults() []mc.Event {
	out := []mc.Event{{Name: "fault", Arg: "electrum.gethistory"}}
	if a.x.f.Kind == "conf" {
		out = append(out, mc.Event{Name: "fault", Arg: "electrum.getrawtransaction"})
	}
	return out
}

// ---------------------------------------------------------------- LND watcher

type c20LndLightning struct {
	lnrpc.LightningClient // nil: any other method panics (internal error)
	a                     *c20Lnd
}

func (l *c20LndLightning) GetInfo(ctx context.Context, in *lnrpc.GetInfoRequest, opts ...grpc.CallOption) (*lnrpc.GetInfoResponse, error) {
	if l.a.x.w.ShouldFail(c20Node, "lnd.getinfo") {
		return nil, status.Error(codes.Unavailable, "lnd: getinfo failed (injected)")
	}
	return &lnrpc.GetInfoResponse{BlockHeight: l.a.x.c.Tip()}, nil
}

type c20ConfStream struct {
	grpc.ClientStream
	ctx    context.Context
	ch     chan *chainrpc.ConfEvent
	txid   string
	confs  uint32
	hint   uint32
	sentAt uint32 // height of the block reported in the last Conf event (0: none outstanding)
}

func (s *c20ConfStream) Recv() (*chainrpc.ConfEvent, error) {
	select {
	case ev := <-s.ch:
		return ev, nil
	case <-s.ctx.Done():
		return nil, status.FromContextError(s.ctx.Err()).Err()
	}
}

type c20EpochStream struct {
	grpc.ClientStream
	ctx context.Context
	ch  chan *chainrpc.BlockEpoch
}

func (s *c20EpochStream) Recv() (*chainrpc.BlockEpoch, error) {
	select {
	case ev := <-s.ch:
		return ev, nil
	case <-s.ctx.Done():
		return nil, status.FromContextError(s.ctx.Err()).Err()
	}
}

// c20Lnd is the adapter and the fake lnd (GetInfo + chain notifier).
type c20Lnd struct {
	chainrpc.ChainNotifierClient // nil: RegisterSpendNtfn is never used by the watcher
	x                            *c20Exec
	tw                           *lnd.TxWatcher
	cancel                       context.CancelFunc
	mu                           sync.Mutex
	confs                        []*c20ConfStream
	epochs                       []*c20EpochStream
}

// evaluate dispatches what lnd's chain notifier would send for the current
// chain: a Conf event once the transaction has the requested number of
// confirmations (found from the height hint on), a Reorg event when a
// reported transaction leaves that block again.
func (a *c20Lnd) evaluate(uint32) {
	a.evaluateConfs()
	a.mu.Lock()
	defer a.mu.Unlock()
	tip := a.x.c.Tip()
	for _, e := range a.epochs {
		e.ch <- &chainrpc.BlockEpoch{Height: tip}
	}
}

func (a *c20Lnd) evaluateConfs() {
	x := a.x
	a.mu.Lock()
	defer a.mu.Unlock()
	tip := x.c.Tip()
	for _, s := range a.confs {
		tx := x.c.Get(s.txid)
		if s.sentAt != 0 && (tx == nil || tx.Height != s.sentAt) {
			s.sentAt = 0
			s.ch <- &chainrpc.ConfEvent{Event: &chainrpc.ConfEvent_Reorg{Reorg: &chainrpc.Reorg{}}}
		}
		if s.sentAt == 0 && tx != nil && tx.Height != 0 && (tx.Height >= s.hint || x.f.TxIndex) && tip-tx.Height+1 >= s.confs {
			s.sentAt = tx.Height
			raw, _ := hex.DecodeString(tx.Hex)
			s.ch <- &chainrpc.ConfEvent{Event: &chainrpc.ConfEvent_Conf{Conf: &chainrpc.ConfDetails{RawTx: raw, BlockHeight: tx.Height}}}
		}
	}
}

func (a *c20Lnd) RegisterConfirmationsNtfn(ctx context.Context, in *chainrpc.ConfRequest, opts ...grpc.CallOption) (chainrpc.ChainNotifier_RegisterConfirmationsNtfnClient, error) {
	if a.x.w.ShouldFail(c20Node, "lnd.registerconf") {
		return nil, status.Error(codes.Unavailable, "lnd: register failed (injected)")
	}
	h, err := chainhash.NewHash(in.Txid)
	if err != nil {
		return nil, err
	}
	s := &c20ConfStream{ctx: ctx, ch: make(chan *chainrpc.ConfEvent, 4096), txid: h.String(), confs: in.NumConfs, hint: in.HeightHint}
	a.mu.Lock()
	a.confs = append(a.confs, s)
	a.mu.Unlock()
	a.evaluateConfs() // historical dispatch
	return s, nil
}

func (a *c20Lnd) RegisterBlockEpochNtfn(ctx context.Context, in *chainrpc.BlockEpoch, opts ...grpc.CallOption) (chainrpc.ChainNotifier_RegisterBlockEpochNtfnClient, error) {
	s := &c20EpochStream{ctx: ctx, ch: make(chan *chainrpc.BlockEpoch, 4096)}
	// without a best-known block hash lnd answers with the current tip
	s.ch <- &chainrpc.BlockEpoch{Height: a.x.c.Tip()}
	a.mu.Lock()
	a.epochs = append(a.epochs, s)
	a.mu.Unlock()
	return s, nil
}

func (a *c20Lnd) start() {
	x := a.x
	ctx, cancel := context.WithCancel(context.Background())
	a.cancel = cancel
	a.tw = lnd.VerifNewTxWatcher(ctx, &c20LndLightning{a: a}, a, &chaincfg.RegressionNetParams, x.R, x.CSV)
	a.tw.AddConfirmationCallback(x.onConf)
	a.tw.AddCsvCallback(x.onCsv)
	x.c.Subscribe(a.evaluate)
	synctest.Wait()
}

func (a *c20Lnd) reg(kind string) {
	x := a.x
	if kind == "conf" {
		a.tw.AddWaitForConfirmationTx(c20ConfID, x.txid, 0, x.S, x.W, x.script)
	} else {
		a.tw.AddWaitForCsvTx(c20CsvID, x.txid, 0, x.S, x.CSV, x.script)
	}
}

func (a *c20Lnd) settle(mc.Event) { synctest.Wait() }

func (a *c20Lnd) stop() {
	done := make(chan struct{})
	go func() { _ = a.tw.Stop(); close(done) }()
	synctest.Wait()
	select {
	case <-done:
	default:
		a.x.flags["info_stop_blocked"] = true
	}
}

func (a *c20Lnd) obsKey() string {
	a.mu.Lock()
	defer a.mu.Unlock()
	var s []string
	for _, c := range a.confs {
		s = append(s, fmt.Sprintf("n%d sent=%v", c.confs, c.sentAt != 0))
	}
	return fmt.Sprintf("lnd:confs=%v epochs=%d", s, len(a.epochs))
}

func (a *c20Lnd) faults() []mc.Event {
	if a.x.f.Kind == "conf" {
		return []mc.Event{{Name: "fault", Arg: "lnd.getinfo"}}
	}
	// lnd refuses the registration (starting up / unreachable)
	return []mc.Event{{Name: "fault", Arg: "lnd.registerconf"}}
}

// ---------------------------------------------------------------- workers

func TestC20Worker(t *testing.T) {
	name := os.Getenv("VERIF_C20_FAMILY")
	if name == "" {
		t.Skip("worker entry point")
	}
	bubbleMode()
	f := c20FindFam(name)
	if f == nil {
		t.Fatalf("unknown family %s", name)
	}
	run := c20Runner(t, f)
	in := bufio.NewReaderSize(os.NewFile(3, "req"), 1<<20)
	out := bufio.NewWriter(os.NewFile(4, "res"))
	for {
		line, err := in.ReadBytes('\n')
		if err != nil {
			return
		}
		var hs [][]mc.Event
		if err := json.Unmarshal(line, &hs); err != nil {
			t.Fatalf("bad request: %v", err)
		}
		rs := make([]mc.StepResult, len(hs))
		for i, h := range hs {
			rs[i] = run(h)
			rs[i].Compact()
		}
		b, _ := json.Marshal(rs)
		out.Write(b)
		out.WriteByte('\n')
		out.Flush()
	}
}

// c20Call sends one batch of histories to a worker.
func c20Call(wp *workerProc, hs [][]mc.Event) []mc.StepResult {
	fail := func(msg string) []mc.StepResult {
		out := make([]mc.StepResult, len(hs))
		for i := range out {
			out[i] = mc.StepResult{Internal: msg}
		}
		return out
	}
	b, _ := json.Marshal(hs)
	wp.w.Write(b)
	wp.w.WriteByte('\n')
	if err := wp.w.Flush(); err != nil {
		return fail("worker pipe: " + err.Error() + "\n" + tail(wp.log.String(), 3000))
	}
	line, err := wp.r.ReadBytes('\n')
	if err != nil {
		wp.cmd.Wait()
		return fail("worker died: " + err.Error() + "\n" + tail(wp.log.String(), 3000))
	}
	var res []mc.StepResult
	if err := json.Unmarshal(line, &res); err != nil || len(res) != len(hs) {
		return fail(fmt.Sprintf("worker: bad result: %v", err))
	}
	return res
}

func c20StartWorker(fam string) (*workerProc, error) {
	reqR, reqW, err := os.Pipe()
	if err != nil {
		return nil, err
	}
	resR, resW, err := os.Pipe()
	if err != nil {
		return nil, err
	}
	cmd := exec.Command(os.Args[0], "-test.run", "^TestC20Worker$", "-test.timeout", "0")
	cmd.Env = append(os.Environ(), "VERIF_C20_FAMILY="+fam, "GOMAXPROCS=1")
	cmd.ExtraFiles = []*os.File{reqR, resW}
	lg := &bytes.Buffer{}
	cmd.Stdout, cmd.Stderr = lg, lg
	if err := cmd.Start(); err != nil {
		return nil, err
	}
	reqR.Close()
	resW.Close()
	return &workerProc{cmd: cmd, w: bufio.NewWriter(reqW), wf: reqW, r: bufio.NewReaderSize(resR, 1<<20), log: lg}, nil
}

// c20Pool: n worker processes shared by all families (each worker serves one
// family; the bubble mode of the vsync shim is process-global).
func c20Pool(fam string, n int) (mc.BatchRunner, func(), error) {
	var procs []*workerProc
	for i := 0; i < n; i++ {
		wp, err := c20StartWorker(fam)
		if err != nil {
			return nil, nil, err
		}
		procs = append(procs, wp)
	}
	stop := func() {
		for _, p := range procs {
			p.stop()
		}
	}
	run := func(hs [][]mc.Event) []mc.StepResult {
		out := make([]mc.StepResult, len(hs))
		var mu sync.Mutex
		next := 0
		var wg sync.WaitGroup
		for pi := range procs {
			wg.Add(1)
			go func(wp *workerProc) {
				defer wg.Done()
				dead := false
				const batch = 32
				for {
					mu.Lock()
					lo := next
					next += batch
					mu.Unlock()
					if lo >= len(hs) {
						return
					}
					hi := min(lo+batch, len(hs))
					if dead {
						for i := lo; i < hi; i++ {
							out[i] = mc.StepResult{Internal: "worker dead"}
						}
						continue
					}
					copy(out[lo:hi], c20Call(wp, hs[lo:hi]))
					if strings.HasPrefix(out[lo].Internal, "worker died") || strings.HasPrefix(out[lo].Internal, "worker pipe") {
						dead = true
					}
				}
			}(procs[pi])
		}
		wg.Wait()
		return out
	}
	return run, stop, nil
}

// ---------------------------------------------------------------- the check

func TestC20(t *testing.T) {
	bubbleMode()
	runtime.GOMAXPROCS(min(runtime.GOMAXPROCS(0), 4))
	start := time.Now()
	tier := mc.Tier()
	fams := c20Families(tier)
	if only := os.Getenv("VERIF_C20_ONLY"); only != "" {
		var keep []c20Fam
		for _, f := range fams {
			if strings.Contains(f.Name, only) {
				keep = append(keep, f)
			}
		}
		fams = keep
	}
	if skip := os.Getenv("VERIF_C20_SKIP"); skip != "" {
		var keep []c20Fam
		for _, f := range fams {
			if !strings.Contains(f.Name, skip) {
				keep = append(keep, f)
			}
		}
		fams = keep
	}
	if p := os.Getenv("VERIF_C20_REPLAY"); p != "" {
		c20Replay(t, p)
		return
	}
	budget := 150 * time.Second // a cap only: the quick families close in about 12 s on an idle machine
	if tier == "thorough" {
		budget = 9 * time.Minute
	}
	reports := make([]*mc.Report, len(fams))
	errs := make([]string, len(fams))
	nw := workers()
	sem := make(chan struct{}, nw)
	var wg sync.WaitGroup
	for i := range fams {
		wg.Add(1)
		go func(i int) {
			defer wg.Done()
			sem <- struct{}{}
			defer func() { <-sem }()
			per := 1
			if len(fams) < nw {
				per = nw / len(fams)
			}
			run, stop, err := c20Pool(fams[i].Name, per)
			if err != nil {
				errs[i] = fmt.Sprintf("family %s: cannot start workers: %v", fams[i].Name, err)
				return
			}
			defer stop()
			left := budget - time.Since(start)
			if left < time.Second {
				left = time.Second
			}
			reports[i] = mc.BFS(fams[i].Name, run, mc.Bounds{MaxDepth: fams[i].Depth, NoCrash: true, Budget: left})
		}(i)
	}
	wg.Wait()

	rep := EnumReport{ID: "C20", Level: "model_checking", Exhaustive: true, Start: start, Outcomes: map[string]int{}, Extra: map[string]any{}}
	var fsum []map[string]any
	flagSeen := map[string]int{}
	for i, r := range reports {
		if errs[i] != "" {
			rep.Internal = append(rep.Internal, errs[i])
		}
		if r == nil {
			rep.Exhaustive = false
			continue
		}
		rep.States += r.States
		rep.Transitions += r.Executions
		if !r.Exhaustive {
			rep.Exhaustive = false
		}
		for _, e := range r.Internal {
			rep.Internal = append(rep.Internal, r.Scenario+": "+e)
		}
		for k, n := range r.Outcomes {
			rep.Outcomes[k] += n
			if j := strings.Index(k, " "); j >= 0 {
				head := k[:j]
				flagSeen[head] += n
				wk := head[:strings.Index(head, ":")]
				for _, fl := range strings.Split(k[j+1:], ",") {
					if fl != "" {
						flagSeen[wk+" "+fl] += n
					}
				}
			}
		}
		for j, s := range r.Samples {
			if j < 1 {
				rep.Samples = append(rep.Samples, map[string]any{"family": r.Scenario, "history": s})
			}
		}
		rep.Violations = append(rep.Violations, r.Violations...)
		fsum = append(fsum, map[string]any{"family": r.Scenario, "states": r.States, "executions": r.Executions, "depth_bound": fams[i].Depth, "completed_depth": r.CompletedDepth,
			"frontier_per_depth": r.PerDepth, "exhaustive": r.Exhaustive, "cap_hit": r.CapHit, "wall_s": r.WallS, "nondeterministic_replays": r.Nondeterministic, "nondeterministic_samples": r.NondetSamples})
	}
	// class counters for the vacuity guard
	for k, n := range flagSeen {
		rep.Outcomes["class:"+k] = n
	}
	// every violation must reproduce on 5 further replays before it is reported
	runtime.GOMAXPROCS(1)
	var stable []mc.Violation
	for _, v := range rep.Violations {
		f := c20FindFam(v.Scenario)
		ok := f != nil
		if ok {
			run := c20Runner(t, f)
			for i := 0; i < 5 && ok; i++ {
				res := run(v.Events)
				found := false
				for _, rv := range res.Violations {
					if rv.Key == v.Key {
						found = true
					}
				}
				ok = found && res.Internal == ""
			}
		}
		if ok {
			stable = append(stable, v)
		} else {
			rep.Internal = append(rep.Internal, fmt.Sprintf("violation %s did not reproduce on replay of %v in %s", v.Key, v.History, v.Scenario))
		}
	}
	for i := range stable {
		stable[i].Detail += fmt.Sprintf("\nminimal history (%s): %v", stable[i].Scenario, stable[i].History)
	}
	rep.Violations = stable
	rep.Extra["families"] = fsum
	if exp := os.Getenv("VERIF_C20_EXPORT"); exp != "" {
		// another property's check (C01: the depth clause) uses this exploration as a sub-check
		b, _ := json.Marshal(map[string]any{"violations": stable, "states": rep.States, "executions": rep.Transitions, "families": fsum, "internal": rep.Internal, "exhaustive": rep.Exhaustive})
		if err := os.WriteFile(exp, b, 0o644); err != nil {
			t.Fatal(err)
		}
		return
	}
	rep.Rule = "breadth-first search by replay, with state deduplication on a canonical key (tip relative to base, status/depth of the watched tx and of its spender, number of reorgs, pending RPC faults / stale answer / armed mid-call change, registration made, callbacks delivered, what the watcher has been told so far), of ALL histories up to the depth bound over the event alphabet, one family per watcher x chain x {confirmation, csv registration} x {tx appears after startingHeight, tx confirmed before startingHeight}; registration is itself an event, so every registration time (before the tx exists, in mempool, confirmed, deep, after the window closed) is covered. Every execution runs the REAL watcher (txwatcher.BlockchainRpcTxWatcher with both polling loops under virtual time / lwk electrumTxWatcher + electrum observers / lnd.TxWatcher) on a fresh simulated chain in its own synctest bubble. Oracle = property statement evaluated on the chain's ground truth recorded inside each callback: success => tx in best chain, depth >= required, tip < start+window, raw tx is the tx; csv => depth >= csv; at most one report per registration; a new tip >= start+window announced with no fault pending while the registration is open must produce a (failure) callback. Race families: the chain moves right after a chosen RPC answer; reports are then judged against the chain as of the watcher's last read (a later change cannot be noticed by any watcher and is only counted). Liveness (a true confirmation is eventually reported) is not part of C20 and only counted (info_* classes)."
	rep.Alphabets = map[string]any{
		"events":        []string{"reg", "submit", "spend", "block", "block(empty)", "reorg(keep|drop,1|2)", "jump(win-1|win|csv-1|csv; lnd: half-1|half|d143|d144)", "fault(<method>,k-th next call)", "stale (gettxout answers once with the previous best block hash)", "stale(prev) (gettxout answers once as of before the last chain event)", "wait (rpc: 1 s)", "notify (duplicate announcement of the tip: electrum, lnd)", "resub (electrum: 37 s re-subscription)", "race(<method>#k><block|block2|block2b|reorg1drop|reorg1keep|reorg2drop|reorg2keep>) (race families; block2 / block2b: two blocks with the pending transactions in the second / the first)"},
		"rpc_faults":    []string{"getblockcount#0,#1", "getblockhash#0,#1,#2", "gettxout#0", "getrawtransaction#0"},
		"electrum":      []string{"gethistory", "getrawtransaction"},
		"lnd":           []string{"getinfo"},
		"parameters":    map[string]any{"window": c20Window, "csv": c20Csv, "confs": "btc 3 / lbtc 2", "lnd": "window 504, csv 1008, lnd max confs 144 (constants of the watcher; reached by jumps)"},
		"pending_limit": "pending faults / stale answer / armed mid-call change at a time: quick 1, thorough 2",
		"depth":         map[string]int{"quick": 6, "thorough": 8},
	}
	rep.Assumptions = []string{
		"world.Chain / world.RPCView answer like bitcoind/elementsd (gettxout includes the mempool, nil for spent outputs, getrawtransaction needs the right block hash); the fake Electrum server follows the protocol's height conventions (>0 confirmed, 0 / -1 unconfirmed) and announces every new tip; the fake lnd chain notifier dispatches Conf at the requested depth from the height hint on (families .../txindex: also below the hint, as lnd does when its bitcoind has a transaction index) and Reorg when a reported tx leaves its block",
		"state deduplication merges histories that agree on the canonical key; the key contains everything the watchers can still observe plus a summary of what they were told",
	}
	need := []string{}
	for _, w := range []string{"rpc", "electrum", "lnd"} {
		run := false
		for _, f := range fams {
			if f.Watcher == w {
				run = true
			}
		}
		if !run {
			continue
		}
		need = append(need, "class:"+w+"/conf conf_success_true", "class:"+w+"/csv csv_true", "class:"+w+"/conf:open", "class:"+w+"/csv:open")
		if w != "lnd" {
			need = append(need, "class:"+w+"/conf conf_failure_window_closed")
		}
	}
	if os.Getenv("VERIF_C20_ONLY") == "" {
		rep.Need = need
	}
	finishEnum(t, &rep)
}

func c20Replay(t *testing.T, path string) {
	b, err := os.ReadFile(path)
	if err != nil {
		t.Fatal(err)
	}
	var v mc.Violation
	if err := json.Unmarshal(b, &v); err != nil {
		t.Fatal(err)
	}
	f := c20FindFam(v.Scenario)
	if f == nil {
		t.Fatalf("unknown family %q", v.Scenario)
	}
	run := c20Runner(t, f)
	found := 0
	for i := 0; i < 5; i++ {
		res := run(v.Events)
		if res.Internal != "" {
			t.Fatalf("internal: %s", res.Internal)
		}
		for _, rv := range res.Violations {
			if i == 0 {
				fmt.Printf("  %s\n    %s\n", rv.Key, rv.Detail)
			}
			if rv.Key == v.Key {
				found++
			}
		}
		if i == 0 {
			fmt.Printf("  outcome: %s\n", res.Outcome)
		}
	}
	fmt.Printf("replayed %v in %s 5 times: violation %q reproduced %d times\n", v.History, v.Scenario, v.Key, found)
	if found != 5 {
		t.Fatalf("violation did not reproduce on every replay")
	}
}

// c20LockSite names the functions of the watcher package in which the blocked goroutines wait.
func c20LockSite(stacks []string) string {
	seen := map[string]bool{}
	var fns []string
	for _, st := range stacks {
		for _, ln := range strings.Split(st, "\n") {
			ln = strings.TrimSpace(ln)
			if i := strings.Index(ln, "("); i > 0 && (strings.Contains(ln, "/txwatcher.") || strings.Contains(ln, "/lnd.") || strings.Contains(ln, "/electrum.") || strings.Contains(ln, "/lwk.")) {
				fn := ln[:strings.LastIndex(ln, "(")]
				if j := strings.LastIndex(fn, "/"); j >= 0 {
					fn = fn[j+1:]
				}
				if !seen[fn] {
					seen[fn] = true
					fns = append(fns, fn)
				}
				break
			}
		}
	}
	sort.Strings(fns)
	return strings.Join(fns, "+")
}
