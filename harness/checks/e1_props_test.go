package checks

import (
	"fmt"
	"testing"
	"time"

	"verif/mc"
	"verif/scn"
)

var rpcInit = []mc.Event{{Name: "rpc", Arg: scn.Scid}}

// prefixConfirmed is the honest run up to the confirmed opening transaction.
func prefixConfirmed(role string) []mc.Event {
	d := func(w string) mc.Event { return mc.Event{Name: "deliver", Arg: w} }
	// deliveries on an empty queue are no-ops, so one prefix serves all four roles
	return []mc.Event{rpcInit[0], d("B"), d("A"), d("B"), d("A"), d("B"), d("A"), {Name: "block", Arg: "conf"}}
}

// prefixAnnounced is the honest run up to the maker having broadcast and
// announced the opening transaction (the announcement is still in flight).
func prefixAnnounced(role string) []mc.Event {
	d := func(w string) mc.Event { return mc.Event{Name: "deliver", Arg: w} }
	if role == "in_sender" {
		// rpc(A) -> request to B -> agreement to A -> A broadcasts and announces
		return []mc.Event{rpcInit[0], d("B"), d("A")}
	}
	// out_receiver: rpc(B) -> request to A -> agreement (fee invoice) to B -> B pays, A broadcasts and announces
	return []mc.Event{rpcInit[0], d("A"), d("B")}
}

type famOpt struct {
	announced bool
	confirmed bool
	chains    []string
	roles     []string // out_sender, in_receiver, in_sender, out_receiver
	backends  []bool   // ALnd values
	flags     scn.Flags
	bounds    mc.Bounds
	tweak     func(f *Family)
}

func roleCfg(role string) (swapType string, aInit bool) {
	switch role {
	case "out_sender":
		return "out", true
	case "out_receiver":
		return "out", false
	case "in_sender":
		return "in", true
	default:
		return "in", false
	}
}

func mkFamilies(o famOpt) []Family {
	var out []Family
	for _, ch := range o.chains {
		for _, r := range o.roles {
			for _, lnd := range o.backends {
				st, ai := roleCfg(r)
				be := "cln"
				if lnd {
					be = "lnd"
				}
				f := Family{
					Name:    fmt.Sprintf("%s/%s/%s", r, ch, be),
					Cfg:     &scn.Cfg{Chain: ch, SwapType: st, AInitiates: ai, ALnd: lnd, BLnd: !lnd, Flags: o.flags},
					Initial: rpcInit,
					Bounds:  o.bounds,
				}
				if o.confirmed {
					f.Name += "/from-confirmed"
					f.Initial = prefixConfirmed(r)
				}
				if o.announced {
					f.Name += "/from-announced"
					f.Initial = prefixAnnounced(r)
				}
				if o.tweak != nil {
					o.tweak(&f)
				}
				out = append(out, f)
			}
		}
	}
	return out
}

var (
	takers    = []string{"out_sender", "in_receiver"}
	makers    = []string{"in_sender", "out_receiver"}
	allRoles  = []string{"out_sender", "in_receiver", "in_sender", "out_receiver"}
	bothChain = []string{"btc", "lbtc"}
	bothBack  = []bool{false, true}
)

func pick(tier string, quick, thorough mc.Bounds) mc.Bounds {
	if tier == "thorough" {
		return thorough
	}
	return quick
}

func init() {
	register(&PropSpec{
		ID: "C06", Level: "model_checking",
		Rule: "explicit-state BFS by replay over histories of {deliver, drop, block, time, payment outcome, resolve, claim-broadcast fault, inject cancel, restart, crash at every effect op} on two real swap services; a state is distinct by its canonical key (records, active swaps, watcher registrations, chain, LN tables, queues, fault plan, clock)",
		Families: func(tier string) []Family {
			early := mkFamilies(famOpt{chains: bothChain, roles: takers, backends: bothBack,
				flags:  scn.Flags{Blocks: true, Time: true, Restart: true, Inject: true, Drop: true, MaxTime: 3, MaxBlocks: 3, NoCsvJump: true},
				bounds: pick(tier, mc.Bounds{MaxDepth: 5, MaxDev: 2, Budget: 100 * time.Second}, mc.Bounds{MaxDepth: 7, MaxDev: 2, Budget: 14 * time.Minute})})
			late := mkFamilies(famOpt{confirmed: true, chains: bothChain, roles: takers, backends: bothBack,
				flags:  scn.Flags{Blocks: true, Time: true, PayPlan: true, Restart: true, Inject: true, MaxTime: 4, MaxBlocks: 3, NoCsvJump: true},
				bounds: pick(tier, mc.Bounds{MaxDepth: 5, MaxDev: 2, Budget: 100 * time.Second}, mc.Bounds{MaxDepth: 7, MaxDev: 3, Budget: 14 * time.Minute}),
				tweak: func(f *Family) {
					f.Cfg.Flags.Faults = []string{f.Cfg.Chain + ".spend", f.Cfg.Chain + ".spend*25"}
				}})
			return append(early, late...)
		},
		Oracles:      []scn.Oracle{oracleC06},
		Extra:        c06ClnRecover,
		NeedOutcomes: []string{"State_ClaimedPreimage", "State_ClaimedCoop"},
	})
	register(&PropSpec{
		ID: "C13", Level: "model_checking",
		Rule: "explicit-state BFS by replay (crash at every effect op, restart, tip changes between steps; deviation: the persisted record loses its anchor - as a record from a build without the anchor would look - and the node recovers from it) of both Liquid taker roles; oracle walks the ordered log of durable writes and sends",
		Families: func(tier string) []Family {
			return mkFamilies(famOpt{chains: []string{"lbtc"}, roles: takers, backends: bothBack,
				flags:  scn.Flags{Blocks: true, Time: true, Restart: true, Drop: true, MaxTime: 2, MaxBlocks: 3, NoCsvJump: true},
				bounds: pick(tier, mc.Bounds{MaxDepth: 9, MaxDev: 2, Budget: 60 * time.Second}, mc.Bounds{MaxDepth: 12, MaxDev: 3, Budget: 8 * time.Minute}),
				tweak: func(f *Family) {
					f.Cfg.ExtraEnabled, f.Cfg.ExtraApply = c13Enabled, c13Apply
					f.Cfg.ExtraKey = func(x *scn.Exec) string { return fmt.Sprintf("|stripped=%v", x.Ctx["c13strip"] != nil) }
				}})
		},
		Oracles:      []scn.Oracle{oracleC13},
		Extra:        c13Sched,
		NeedOutcomes: []string{"State_ClaimedPreimage"},
	})
	register(&PropSpec{
		ID: "C15", Level: "fault_enumeration",
		Rule: "every effect operation (store write, message send, wallet / Lightning / watcher call) of every handler of the explored histories is a crash point; after the crash the node restarts through NewSwapService/Start/RecoverSwaps and all continuations are explored; distinct = canonical state key",
		Families: func(tier string) []Family {
			// CLN and lnd differ in what a re-run action meets (CLN refuses a second invoice with the same label)
			return mkFamilies(famOpt{chains: bothChain, roles: allRoles, backends: bothBack,
				flags:  scn.Flags{Blocks: true, Time: true, Restart: true, Inject: true, MaxTime: 2, MaxBlocks: 2, NoWinJump: true},
				bounds: pick(tier, mc.Bounds{MaxDepth: 7, MaxDev: 2, Budget: 90 * time.Second}, mc.Bounds{MaxDepth: 11, MaxDev: 3, Budget: 12 * time.Minute})})
		},
		Oracles:      []scn.Oracle{oracleC15},
		NeedOutcomes: []string{"State_ClaimedPreimage", "State_SwapCanceled"},
	})
	register(&PropSpec{
		ID: "C23", Level: "model_checking",
		Rule: "every outgoing payload of both real nodes in every explored history (honest, failing, cancelled, crashed/restarted runs of all four roles on both chains) is searched for every secret the simulation knows, in hex / HEX / base64 / decimal-list encodings",
		Families: func(tier string) []Family {
			return mkFamilies(famOpt{chains: bothChain, roles: allRoles, backends: []bool{false},
				flags:  scn.Flags{Blocks: true, Time: true, Restart: true, Inject: true, PayPlan: true, Drop: true, MaxTime: 3, MaxBlocks: 3, NoWinJump: true},
				bounds: pick(tier, mc.Bounds{MaxDepth: 8, MaxDev: 2, Budget: 80 * time.Second, NoCrash: true}, mc.Bounds{MaxDepth: 11, MaxDev: 2, Budget: 10 * time.Minute}),
				tweak: func(f *Family) {
					// failing services are where error texts (which may embed swap data) are sent to the peer
					ch := f.Cfg.Chain
					f.Cfg.Flags.Faults = []string{ch + ".createopening", ch + ".spend", "ln.invoice", ch + ".getblockcount", "msg.send"}
				}})
		},
		Oracles:      []scn.Oracle{oracleC23},
		Extra:        c23Resend,
		NeedOutcomes: []string{"State_ClaimedPreimage", "State_ClaimedCoop"},
	})
}

func init() {
	register(&PropSpec{
		ID: "C07", Level: "model_checking",
		Rule: "explicit-state BFS by replay of both maker roles on both chains with peer silence (drop), cancel / bad coop_close / invalid message injection, service faults after the wallet broadcast and during recovery (height, label, balance lookups), a wallet that holds little more than the swap, wallet output orderings, restarts and a crash at every effect operation; invariant on the durable record in every state plus a deterministic drain to CSV maturity",
		Families: func(tier string) []Family {
			var out []Family
			for _, idx := range []int{0, 1} {
				idx := idx
				early := mkFamilies(famOpt{chains: bothChain, roles: makers, backends: []bool{false},
					flags:  scn.Flags{Blocks: true, Time: true, Restart: true, Drop: true, MaxTime: 2, MaxBlocks: 2, NoWinJump: true, NoCsvJump: true},
					bounds: pick(tier, mc.Bounds{MaxDepth: 5, MaxDev: 2, Budget: 90 * time.Second}, mc.Bounds{MaxDepth: 7, MaxDev: 3, Budget: 12 * time.Minute}),
					tweak: func(f *Family) {
						f.Name += fmt.Sprintf("/swapout@%d", idx)
						f.Cfg.AWallet.SwapOutIndex, f.Cfg.AWallet.ExtraOuts = idx, 1
						ch := f.Cfg.Chain
						f.Cfg.Flags.Faults = []string{ch + ".getblockcount", ch + ".createopening.after", ch + ".setlabel", ch + ".balance"}
						if idx == 1 {
							// a wallet that holds little more than this one swap: after the opening transaction its balance is below the swap amount
							f.Cfg.AWallet.Balance = scn.Amount * 3 / 2
						}
					}})
				out = append(out, early...)
			}
			late := mkFamilies(famOpt{announced: true, chains: bothChain, roles: makers, backends: []bool{false},
				flags:  scn.Flags{Blocks: true, Time: true, Restart: true, Drop: true, Inject: true, MaxTime: 3, MaxBlocks: 3, NoWinJump: true},
				bounds: pick(tier, mc.Bounds{MaxDepth: 5, MaxDev: 2, Budget: 90 * time.Second}, mc.Bounds{MaxDepth: 7, MaxDev: 3, Budget: 12 * time.Minute}),
				tweak: func(f *Family) {
					f.Cfg.AWallet.SwapOutIndex, f.Cfg.AWallet.ExtraOuts = 1, 1
					f.Cfg.Flags.Faults = []string{f.Cfg.Chain + ".spend"}
				}})
			return append(out, late...)
		},
		Oracles:      []scn.Oracle{oracleC07},
		Extra:        c07Watchers,
		NeedOutcomes: []string{"State_ClaimedCsv", "State_ClaimedCoop", "State_ClaimedPreimage"},
	})
	register(&PropSpec{
		ID: "C16", Level: "model_checking",
		Rule: "every state reached by the explicit-state BFS (all four roles, both chains; deliver / drop / blocks / time / payment outcomes / restart / crash at every effect op) is a start state; from each the peer goes silent and a deterministic fair continuation (time, blocks to CSV maturity, two restarts, healthy services) must end in a terminal state with the channel released",
		Families: func(tier string) []Family {
			return mkFamilies(famOpt{chains: bothChain, roles: allRoles, backends: []bool{false},
				flags:  scn.Flags{Blocks: true, Time: true, Restart: true, Drop: true, PayPlan: true, MaxTime: 2, MaxBlocks: 2, NoWinJump: true, NoCsvJump: true},
				bounds: pick(tier, mc.Bounds{MaxDepth: 6, MaxDev: 1, Budget: 100 * time.Second}, mc.Bounds{MaxDepth: 8, MaxDev: 2, Budget: 14 * time.Minute})})
		},
		Oracles:      []scn.Oracle{oracleC16},
		Extra:        c16Watchers,
		NeedOutcomes: []string{"State_ClaimedPreimage"},
	})
	register(&PropSpec{
		ID: "C17", Level: "model_checking",
		Rule: "explicit-state BFS over delivery orders of request / agreement / cancel, dropped replies (silent peer), answers of the wrong agreement type from the counterparty, virtual-time steps across the 10 min timeout and restarts at any point before the opening transaction, for both requester roles and the swap-out responder",
		Families: func(tier string) []Family {
			return mkFamilies(famOpt{chains: bothChain, roles: []string{"out_sender", "in_sender", "out_receiver"}, backends: []bool{false},
				flags:  scn.Flags{Time: true, Restart: true, Drop: true, MaxTime: 3, TimeAlways: true, Inject: true, InjectKinds: []string{"agreement_other_type"}},
				bounds: pick(tier, mc.Bounds{MaxDepth: 7, MaxDev: 3, Budget: 60 * time.Second}, mc.Bounds{MaxDepth: 9, MaxDev: 3, Budget: 8 * time.Minute})})
		},
		Oracles:      []scn.Oracle{oracleC17},
		NeedOutcomes: []string{"State_SwapCanceled"},
	})
	register(&PropSpec{
		ID: "C22", Level: "model_checking",
		Rule: "explicit-state BFS of both maker roles after the announcement: payment, cancel, coop_close good/bad, invalid message, CSV, a refund broadcast that fails once or for longer than the retry budget, a transport that fails for 25 sends, restart, crash points after durable writes (thorough: everywhere), interleaved with virtual-time steps; the oracle is interval-agnostic (send instants of opening_tx_broadcasted form one arithmetic progression while waiting; at most one already-due copy afterwards)",
		Families: func(tier string) []Family {
			return mkFamilies(famOpt{announced: true, chains: bothChain, roles: makers, backends: []bool{false},
				flags:  scn.Flags{Blocks: true, Time: true, Restart: true, Drop: true, Inject: true, PayPlan: false, MaxTime: 4, MaxBlocks: 2, NoWinJump: true, TimeAlways: true},
				bounds: pick(tier, mc.Bounds{MaxDepth: 6, MaxDev: 2, Budget: 80 * time.Second, CrashAfterStore: true, NoCrashFirst: true}, mc.Bounds{MaxDepth: 8, MaxDev: 3, Budget: 10 * time.Minute}),
				tweak: func(f *Family) {
					// the refund (or claim) broadcast may fail once, or for longer than the retry budget
					f.Cfg.Flags.Faults = []string{f.Cfg.Chain + ".spend", f.Cfg.Chain + ".spend*25", "msg.send*25", "store.update", "store.update#2"} // and a store write (the next one, or the one after it) may fail
				}})
		},
		Oracles:      []scn.Oracle{oracleC22},
		Extra:        c22Sched,
		NeedOutcomes: []string{"State_ClaimedPreimage", "State_WaitCsv"},
	})
}

func TestC07(t *testing.T) { runProp(t, "C07") }
func TestC16(t *testing.T) { runProp(t, "C16") }
func TestC17(t *testing.T) { runProp(t, "C17") }
func TestC22(t *testing.T) { runProp(t, "C22") }
func TestC06(t *testing.T) { runProp(t, "C06") }
func TestC13(t *testing.T) { runProp(t, "C13") }
func TestC15(t *testing.T) { runProp(t, "C15") }
func TestC23(t *testing.T) { runProp(t, "C23") }
