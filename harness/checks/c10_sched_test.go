package checks

import (
	"encoding/json"
	"fmt"
	"os"
	"os/exec"
	"strings"
	"testing"

	"verif/mc"
	"verif/node"
	"verif/sched"
	"verif/scn"
	"verif/vsync"
	"verif/world"
)

// C10 under concurrency: the daemons accept peer messages and RPCs while
// RecoverSwaps is still running (cmd/peerswap-plugin/main.go sets the plugin
// ready before the recovery).  Every schedule (bounded preemptions) of
// {RecoverSwaps of one persisted non-terminal swap} || {a swap request / a local
// initiation for the same channel, either spelling} is explored on the real
// service; afterwards the store must not hold two non-terminal swaps on one
// channel and a non-terminal restored swap must be an active one.

type c10sCase struct {
	Tpl   e5Template
	Maker bool
	Kind  string // reqB-out | reqB-in | rpcA-out | rpcA-in
	Spell string // x | :
	// Pair: no restored swap and no recovery; a local initiation (scid spelled 'x') races
	// with the request / initiation described by Kind and Spell
	Pair bool
}

func (c c10sCase) Name() string {
	if c.Pair {
		return fmt.Sprintf("pair/%s/rpcA-out-vs-%s/scid=%s", c.Tpl.Chain, c.Kind, c.Spell)
	}
	return fmt.Sprintf("%s/%s/%s/scid=%s", c.Tpl.Role, c.Tpl.Chain, c.Kind, c.Spell)
}

func c10sHarness(t testing.TB, c c10sCase) sched.Harness {
	return sched.Harness{Name: c.Name(), Setup: func() ([]sched.NamedFunc, func(e *sched.Exec) []string, func()) {
		w := world.New()
		lnA := w.AddLN(scn.IDA, false)
		lnB := w.AddLN(scn.IDB, true)
		for _, s := range []string{scn.Scid, scn.Scid2} {
			lnA.Channels = append(lnA.Channels, &world.Channel{Scid: s, Peer: scn.IDB, Spendable: 5_000_000_000, Receivable: 5_000_000_000})
			lnB.Channels = append(lnB.Channels, &world.Channel{Scid: s, Peer: scn.IDA, Spendable: 5_000_000_000, Receivable: 5_000_000_000})
		}
		chain := w.Chain(c.Tpl.Chain)
		d := node.NewDurable(w, scn.IDA)
		if !c.Pair {
			owner := scn.IDB
			if c.Maker {
				owner = scn.IDA
			}
			if _, err := chain.Submit(c.Tpl.TxHex, owner, c.Tpl.Annot, "opening"); err != nil {
				t.Fatalf("submit: %v", err)
			}
			chain.MineQuiet(1)
			if c.Maker {
				if _, err := lnA.CreateInvoice(c.Tpl.ClaimSat*1000, c.Tpl.Preimage, c.Tpl.SwapID+"_claim", 86400, 503); err != nil {
					t.Fatalf("invoice: %v", err)
				}
			}
			d.Store.Records[c.Tpl.SwapID] = append([]byte{}, c.Tpl.Record...)
			d.Store.Order = []string{c.Tpl.SwapID}
			d.Store.Writes++
		}
		wc := node.WalletCfg{Balance: 100_000_000}
		wc2 := wc
		n := node.Boot(w, node.Cfg{ID: scn.IDA, Btc: true, Lbtc: true, Premium: e5Prem, BtcCfg: &wc, LbtcCfg: &wc2}, d, 1)
		scid := c10Spelling(c.Spell)
		newID := fmt.Sprintf("%064x", 0xc10)
		th := []sched.NamedFunc{{Name: "recover", F: func() { n.RecoverPlain() }}}
		if c.Pair {
			th = []sched.NamedFunc{{Name: "rpc:swapout", F: func() { _, _ = n.Svc.SwapOut(scn.IDB, c.Tpl.Chain, scn.Scid, scn.IDA, scn.Amount, 10000) }}}
		}
		parts := strings.Split(c.Kind, "-")
		var rpcErr error
		switch parts[0] {
		case "reqB":
			m := map[string]any{"protocol_version": 7, "swap_id": newID, "scid": scid, "amount": scn.Amount, "pubkey": c09Pub, "acceptable_premium": 100000}
			if c.Tpl.Chain == "btc" {
				m["network"], m["asset"] = "regtest", ""
			} else {
				m["network"], m["asset"] = "", node.AssetField
			}
			b, _ := json.Marshal(m)
			ty := mtSwapOutReq
			if parts[1] == "in" {
				ty = mtSwapInReq
			}
			h := n.Handler()
			th = append(th, sched.NamedFunc{Name: "msg:request", F: func() { _ = h(scn.IDB, fmt.Sprintf("%x", ty), b) }})
		case "rpcA":
			th = append(th, sched.NamedFunc{Name: "rpc:swap", F: func() {
				if parts[1] == "out" {
					_, rpcErr = n.Svc.SwapOut(scn.IDB, c.Tpl.Chain, scid, scn.IDA, scn.Amount, 10000)
				} else {
					_, rpcErr = n.Svc.SwapIn(scn.IDB, c.Tpl.Chain, scid, scn.IDA, scn.Amount, 10000)
				}
			}})
		}
		_ = rpcErr
		check := func(e *sched.Exec) []string {
			var problems []string
			norm := world.NormScid(scn.Scid)
			live := 0
			restoredLive := false
			for _, sm := range n.Swaps() {
				if !sm.IsFinished() && world.NormScid(sm.Data.GetScid()) == norm {
					live++
					if sm.SwapId.String() == c.Tpl.SwapID {
						restoredLive = true
					}
				}
			}
			// did the restored swap's recovery run (any effect of the new incarnation for that swap)?
			recovered := "not_recovered"
			for _, o := range w.Log {
				if o.Node == scn.IDA && o.Inc == 1 && o.Effect && o.SwapID == c.Tpl.SwapID {
					recovered = "recovered"
					break
				}
			}
			if c10sDebug {
				for _, o := range w.Log {
					fmt.Printf("   %3d %s inc%d %-12s eff=%v swap=%.8s state=%s res=%s err=%s %s\n", o.Seq, o.Node[:4], o.Inc, o.Kind, o.Effect, o.SwapID, o.State, o.Result, o.Err, o.Extra)
				}
			}
			_, actErr := n.Svc.GetActiveSwap(c.Tpl.SwapID)
			if live > 1 && c.Pair {
				problems = append(problems, "two_active_swaps_on_channel:concurrent_initiations:second="+parts[0])
			} else if live > 1 {
				problems = append(problems, fmt.Sprintf("two_active_swaps_on_channel:during_recovery:by=%s:restored_swap=%s", parts[0], recovered))
			} else if restoredLive && actErr != nil {
				problems = append(problems, "restored_swap_not_active:restored_swap="+recovered)
			}
			return problems
		}
		return th, check, func() { n.Kill() }
	}}
}

func c10sCases(t *testing.T, tier string) []c10sCase {
	var out []c10sCase
	add := func(tp e5Template, maker bool) {
		if tp.Chain != "btc" && tier != "thorough" {
			return
		}
		for _, kind := range []string{"reqB-out", "reqB-in", "rpcA-out", "rpcA-in"} {
			for _, sp := range []string{"x", ":"} {
				if tier != "thorough" && sp == ":" && kind != "reqB-in" {
					continue
				}
				out = append(out, c10sCase{Tpl: tp, Maker: maker, Kind: kind, Spell: sp})
			}
		}
	}
	for _, ch := range []string{"btc", "lbtc"} {
		for _, kind := range []string{"reqB-out", "reqB-in", "rpcA-in"} {
			for _, sp := range []string{"x", ":"} {
				if tier != "thorough" && (ch == "lbtc" || (sp == ":" && kind != "reqB-in")) {
					continue
				}
				out = append(out, c10sCase{Tpl: e5Template{Chain: ch, Role: "pair"}, Kind: kind, Spell: sp, Pair: true})
			}
		}
	}
	for _, tp := range e5TakerTemplates(t) {
		add(tp, false)
	}
	for _, tp := range e5Templates(t) {
		add(tp, true)
	}
	return out
}

type c10sReport struct {
	Cases      []map[string]any `json:"cases"`
	Executions int              `json:"executions"`
	Problems   map[string]string `json:"problems"` // key -> "case, schedule"
	Deadlocks  map[string]string `json:"deadlocks"`
	Internal   []string         `json:"internal"`
	Capped     bool             `json:"capped"`
	Bound      int              `json:"preemption_bound"`
}

// TestC10SchedWorker runs in its own process (the scheduler mode is process-wide).
func TestC10SchedWorker(t *testing.T) {
	out := os.Getenv("VERIF_C10S_OUT")
	if out == "" {
		t.Skip("worker entry point")
	}
	bound, maxExec := 2, 3000
	if mc.Tier() == "thorough" {
		bound, maxExec = 3, 60000
	}
	cases := c10sCases(t, mc.Tier())
	e5SetPremium(premiumSetting(t, "c10s"))
	sched.Install()
	// a new swap arms its 10 minute negotiation timeout (go timer.TimedCallback): beyond the horizon
	sched.TimerSpawnSites = []string{"(*timeOutService).addNewTimeOut"}
	world.YieldHook = sched.Yield
	world.Spawn = vsync.Go
	rep := c10sReport{Problems: map[string]string{}, Deadlocks: map[string]string{}, Bound: bound}
	for _, c := range cases {
		res := sched.Explore(c10sHarness(t, c), bound, maxExec, func(e *sched.Exec) string { return "completed" })
		rep.Executions += res.Executions
		rep.Cases = append(rep.Cases, map[string]any{"case": c.Name(), "schedules": res.Executions, "max_points": res.MaxPoints, "capped": res.Capped, "problems": len(res.Problems)})
		if res.Capped || res.Overflows > 0 {
			rep.Capped = true
		}
		rep.Internal = append(rep.Internal, res.Internal...)
		for k, s := range res.Problems {
			if _, ok := rep.Problems[k]; !ok {
				rep.Problems[k] = fmt.Sprintf("case %s, schedule %v", c.Name(), s)
			}
		}
		for k, d := range res.Deadlocks {
			if _, ok := rep.Deadlocks[k]; !ok {
				rep.Deadlocks[k] = fmt.Sprintf("case %s, schedule %v:\n%s", c.Name(), d.Schedule, strings.Join(d.Waiting, "\n"))
			}
		}
	}
	b, _ := json.Marshal(rep)
	if err := os.WriteFile(out, b, 0o644); err != nil {
		t.Fatal(err)
	}
}

// c10Sched is the coordinator side (PropSpec.Extra of C10).
func c10Sched() ([]mc.Violation, map[string]any) {
	out := fmt.Sprintf("%s/c10s-%d.json", workDir, os.Getpid())
	cmd := exec.Command(os.Args[0], "-test.run", "^TestC10SchedWorker$", "-test.timeout", "0")
	cmd.Env = append(os.Environ(), "VERIF_C10S_OUT="+out)
	ob, err := cmd.CombinedOutput()
	b, rerr := os.ReadFile(out)
	cov := map[string]any{}
	if rerr != nil {
		cov["internal"] = []string{fmt.Sprintf("c10 sched worker failed: %v\n%s", err, tail(string(ob), 3000))}
		return nil, cov
	}
	_ = os.Remove(out)
	var rep c10sReport
	_ = json.Unmarshal(b, &rep)
	var vs []mc.Violation
	for k, d := range rep.Problems {
		vs = append(vs, mc.Violation{Property: "C10", Key: k, Detail: d})
	}
	for k, d := range rep.Deadlocks {
		vs = append(vs, mc.Violation{Property: "C18", Key: "deadlock:" + k, Detail: d})
	}
	if len(rep.Internal) > 0 {
		cov["internal"] = rep.Internal
	}
	cov["sched_rule"] = fmt.Sprintf("stateless depth-first exploration of all schedules with at most %d preemptions of {RecoverSwaps of one persisted non-terminal swap || swap request from the peer / local SwapOut / SwapIn for the same channel in either spelling} on the real swap service", rep.Bound)
	cov["sched_cases"] = rep.Cases
	cov["sched_schedules"] = rep.Executions
	cov["sched_capped"] = rep.Capped
	return vs, cov
}

// TestC10SchedReplay replays one schedule of one case and prints the observation log:
// VERIF_C10S_REPLAY='<case name>|<comma separated choices>'.
func TestC10SchedReplay(t *testing.T) {
	spec := os.Getenv("VERIF_C10S_REPLAY")
	if spec == "" {
		t.Skip("replay entry point")
	}
	p := strings.SplitN(spec, "|", 2)
	var choices []int
	for _, s := range strings.Split(strings.Trim(p[1], "[] "), ",") {
		for _, f := range strings.Fields(s) {
			var v int
			fmt.Sscanf(f, "%d", &v)
			choices = append(choices, v)
		}
	}
	cases := c10sCases(t, "thorough")
	e5SetPremium(premiumSetting(t, "c10s"))
	sched.Install()
	sched.TimerSpawnSites = []string{"(*timeOutService).addNewTimeOut"}
	world.YieldHook = sched.Yield
	world.Spawn = vsync.Go
	for _, c := range cases {
		if c.Name() != p[0] {
			continue
		}
		c10sDebug = true
		for i := 0; i < 2; i++ {
			e, problems := sched.Run(c10sHarness(t, c), choices, 20000)
			fmt.Printf("replay %d: problems=%v internal=%q\n", i, problems, e.Internal)
			for _, pt := range e.Points {
				fmt.Printf("   point enabled=%v chosen=%d at=%s\n", pt.Enabled, pt.Chosen, pt.At)
			}
		}
		return
	}
	t.Fatalf("no case %q", p[0])
}

var c10sDebug bool
