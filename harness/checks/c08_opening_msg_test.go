package checks

// C08 - the opening_tx_broadcasted message describes the broadcast
// transaction exactly.  The real action CreateAndBroadcastOpeningTransaction
// runs for both maker roles over the real wallet adapters (lnd.Client over
// fake gRPC; LiquidOnChain over a fake wallet.Wallet and over the real
// ElementsRpcWallet on a fake elementsd); funding results, amounts, premiums
// and protocol versions are enumerated.

import (
	"bytes"
	"crypto/sha256"
	"encoding/hex"
	"encoding/json"
	"fmt"
	"sync"
	"testing"
	"time"

	"github.com/btcsuite/btcd/btcec/v2"
	"github.com/elementsproject/peerswap/messages"
	"github.com/elementsproject/peerswap/onchain"
	"github.com/elementsproject/peerswap/swap"
	"github.com/elementsproject/peerswap/wallet"
	"github.com/vulpemventures/go-elements/confidential"
	"github.com/vulpemventures/go-elements/transaction"
	"verif/mc"
	"verif/vsync"
)

type c08Case struct {
	Backend  string // btc-lnd | lbtc-wallet | lbtc-elementsd
	Role     string // swap_in_sender | swap_out_receiver
	Layout   string
	NIn      int
	Explicit bool
	Nested   bool // btc-lnd: the last funding input is nested segwit (P2SH-P2WKH)
	Reject   bool // lbtc-elementsd: the first sendrawtransaction is refused (-26), later fundings place the change elsewhere
	Amount   uint64
	Premium  int64
	Version  uint8
	n        int
}

func (c c08Case) String() string {
	return fmt.Sprintf("backend=%s role=%s funding=%s/in%d explicit=%v first_broadcast_refused=%v nested_input=%v amount=%d premium=%d protocol_version=%d", c.Backend, c.Role, c.Layout, c.NIn, c.Explicit, c.Reject, c.Nested, c.Amount, c.Premium, c.Version)
}

func (c c08Case) chain() string {
	if c.Backend == "btc-lnd" {
		return "btc"
	}
	return "lbtc"
}

func c08Sha(b []byte) []byte { h := sha256.Sum256(b); return h[:] }

func c08Run(acc *c03Acc, c c08Case) {
	seed := fmt.Sprintf("c08/%d", c.n)
	taker, maker := c03Key(seed+"/taker"), c03Key(seed+"/maker")
	blind := c03Key(seed + "/blind")
	var id swap.SwapId
	copy(id[:], c03H("swapid", seed))
	ln := &c08Ln{}
	watcher := &c08Watcher{height: 777}
	var rig *c03LndRig
	var lw *c03LqWallet
	var ed *c08Elementsd
	var loc *onchain.LiquidOnChain
	var services *swap.SwapServices
	network, asset := "regtest", ""
	switch c.Backend {
	case "btc-lnd":
		rig = newC03LndRig(seed)
		rig.wk.fund = c03Fund{Layout: c.Layout, NIn: c.NIn, Nested: c.Nested}
		services = swap.NewSwapServices(nil, nil, ln, nil, nil, nil, true, rig.client, rig.chain, watcher, false, nil, nil, nil, nil)
	case "lbtc-wallet":
		lw = &c03LqWallet{tag: seed, fund: c03LqFund{Layout: c.Layout, NIn: c.NIn, Explicit: c.Explicit}, feeMode: "100"}
		loc = onchain.NewLiquidOnChain(lw, c03Net)
	case "lbtc-elementsd":
		lw = &c03LqWallet{tag: seed, fund: c03LqFund{Layout: c.Layout, NIn: c.NIn, Explicit: c.Explicit}, feeMode: "100"}
		ed = &c08Elementsd{w: lw, rejectFirst: c.Reject}
		loc = onchain.NewLiquidOnChain(wallet.VerifNewRpcWallet(ed, "w"), c03Net)
	}
	if loc != nil {
		network, asset = "", loc.GetAsset()
		services = swap.NewSwapServices(nil, nil, ln, nil, nil, nil, false, nil, nil, nil, true, loc, loc, watcher, nil)
	}
	sd := &swap.SwapData{PeerNodeId: c03Pub(c03Key("peer")), PrivkeyBytes: maker.Serialize()}
	var openingAmount, claimAmount uint64
	switch c.Role {
	case "swap_in_sender":
		sd.Role = swap.SWAPROLE_SENDER
		sd.InitiatorNodeId = c03Pub(c03Key("node"))
		sd.SwapInRequest = &swap.SwapInRequestMessage{ProtocolVersion: c.Version, SwapId: &id, Network: network, Asset: asset, Scid: "100x1x0", Amount: c.Amount, Pubkey: c03Pub(maker), PremiumLimit: 1000}
		sd.SwapInAgreement = &swap.SwapInAgreementMessage{ProtocolVersion: c.Version, SwapId: &id, Pubkey: c03Pub(taker), Premium: c.Premium}
		openingAmount, claimAmount = uint64(int64(c.Amount)+c.Premium), c.Amount
	case "swap_out_receiver":
		sd.Role = swap.SWAPROLE_RECEIVER
		sd.InitiatorNodeId = sd.PeerNodeId
		sd.SwapOutRequest = &swap.SwapOutRequestMessage{ProtocolVersion: c.Version, SwapId: &id, Network: network, Asset: asset, Scid: "100x1x0", Amount: c.Amount, Pubkey: c03Pub(taker), PremiumLimit: 1000}
		sd.SwapOutAgreement = &swap.SwapOutAgreementMessage{ProtocolVersion: c.Version, SwapId: &id, Pubkey: c03Pub(maker), Payreq: "lnsim:fee", Premium: c.Premium}
		openingAmount, claimAmount = c.Amount, uint64(int64(c.Amount)+c.Premium)
	}
	if c.chain() == "lbtc" {
		sd.BlindingKeyHex = hex.EncodeToString(blind.Serialize())
	}
	ev := (&swap.CreateAndBroadcastOpeningTransaction{}).Execute(services, sd)
	acc.step(1)
	tag := "chain=" + c.chain()
	if ev != swap.Event_ActionSucceeded && c.Reject && ed != nil && len(ed.sent) == 0 && sd.OpeningTxBroadcasted == nil && len(sd.NextMessage) == 0 {
		// elementsd refused the only broadcast and the node announces nothing: nothing to compare
		acc.out("first_broadcast_refused:nothing_broadcast_nothing_announced")
		return
	}
	if ev != swap.Event_ActionSucceeded {
		acc.fail("C08", "action_failed:"+tag+":backend="+c.Backend, fmt.Sprintf("%s: event %v, error %v", c, ev, sd.LastErr))
		return
	}
	msg := sd.OpeningTxBroadcasted
	if msg == nil {
		acc.fail("C08", "no_message:"+tag, c.String())
		return
	}
	// what goes to the peer is NextMessage
	var wire swap.OpeningTxBroadcastedMessage
	if err := json.Unmarshal(sd.NextMessage, &wire); err != nil || sd.NextMessageType != int(messages.MESSAGETYPE_OPENINGTXBROADCASTED) ||
		wire.TxId != msg.TxId || wire.ScriptOut != msg.ScriptOut || wire.Payreq != msg.Payreq || wire.BlindingKey != msg.BlindingKey || wire.SwapId == nil || *wire.SwapId != id {
		acc.fail("C08", "next_message_differs_from_record:"+tag, fmt.Sprintf("%s: %s vs %+v (type %d, err %v)", c, sd.NextMessage, msg, sd.NextMessageType, err))
	}
	// ---- the invoice
	if len(ln.calls) != 1 {
		acc.fail("C08", "invoice_request_count:"+tag, fmt.Sprintf("%s: %d GetPayreq calls", c, len(ln.calls)))
		return
	}
	inv := ln.calls[0]
	wantPayreq, _ := json.Marshal(inv)
	if wire.Payreq != "lnsim:"+string(wantPayreq) {
		acc.fail("C08", "payreq_is_not_the_requested_invoice:"+tag, c.String())
	}
	if inv.Msat != claimAmount*1000 {
		acc.fail("C08", "invoice_amount_wrong:role="+c.Role, fmt.Sprintf("%s: invoice for %d msat, claim amount %d sat", c, inv.Msat, claimAmount))
	}
	if inv.Type != int(swap.INVOICE_CLAIM) || inv.SwapID != id.String() {
		acc.fail("C08", "invoice_label_wrong:"+tag, fmt.Sprintf("%s: type %d swap id %s", c, inv.Type, inv.SwapID))
	}
	wantExpiry, wantCltv := uint64(86400), uint64(503)
	if c.chain() == "lbtc" {
		wantExpiry, wantCltv = 3600, 29
	}
	if inv.Expiry != wantExpiry {
		acc.fail("C08", "invoice_expiry_wrong:"+tag, fmt.Sprintf("%s: expiry %d s, want %d", c, inv.Expiry, wantExpiry))
	}
	if inv.Cltv != wantCltv {
		acc.fail("C08", "invoice_final_cltv_wrong:"+tag, fmt.Sprintf("%s: final CLTV %d, want %d", c, inv.Cltv, wantCltv))
	}
	pre, err := hex.DecodeString(inv.Preimage)
	if err != nil || len(pre) != 32 {
		acc.fail("C08", "invoice_preimage_malformed:"+tag, c.String())
		return
	}
	if sd.ClaimPreimage != inv.Preimage {
		acc.fail("C08", "recorded_preimage_is_not_the_invoice_preimage:"+tag, c.String())
	}
	hash := c08Sha(pre)
	csv := int64(1008)
	if c.chain() == "lbtc" {
		csv = 10080
		if c.Version == 6 {
			csv = 60
		}
	}
	want := c03P2wsh(c03RefScript(taker.PubKey().SerializeCompressed(), maker.PubKey().SerializeCompressed(), hash, csv))
	// ---- the transaction handed to the chain, and the index of the swap output in it
	var txid, txHex string
	trueIdx, nMatch, firstScript := -1, 0, -1
	earlierEqual := false
	var lqTx *transaction.Transaction
	switch c.Backend {
	case "btc-lnd":
		pubs := rig.wk.takePublished()
		if len(pubs) != 1 {
			acc.fail("C08", "broadcast_count:"+tag, fmt.Sprintf("%s: %d", c, len(pubs)))
			return
		}
		tx, err := c03ParseBtc(pubs[0])
		if err != nil {
			acc.bug("c08: unparsable btc opening")
			return
		}
		txid, txHex = tx.TxHash().String(), hex.EncodeToString(pubs[0])
		for i, o := range tx.TxOut {
			if o.Value == int64(openingAmount) && !bytes.Equal(o.PkScript, want) && trueIdx < 0 {
				earlierEqual = true
			}
			if bytes.Equal(o.PkScript, want) {
				if firstScript < 0 {
					firstScript = i
				}
				if o.Value == int64(openingAmount) {
					nMatch++
					if trueIdx < 0 {
						trueIdx = i
					}
				}
			}
		}
	default:
		var truth *c03LqTxTruth
		var sent []string
		if c.Backend == "lbtc-wallet" {
			sent = lw.takeSent()
			truth = lw.lastOpening()
		} else {
			sent = ed.sent
			if len(ed.sentTrue) == 1 {
				truth = ed.sentTrue[0]
			}
		}
		if len(sent) != 1 || truth == nil || truth.Hex != sent[0] {
			acc.fail("C08", "broadcast_count:"+tag, fmt.Sprintf("%s: %d transactions broadcast", c, len(sent)))
			return
		}
		lqTx = truth.Tx
		txid, txHex = truth.Tx.TxHash().String(), truth.Hex
		for i, o := range truth.Outs {
			if bytes.Equal(o.Script, want) {
				if firstScript < 0 {
					firstScript = i
				}
				if o.Value == openingAmount && bytes.Equal(o.Asset, c03PolicyAsset()) {
					nMatch++
					if trueIdx < 0 {
						trueIdx = i
					}
				}
			}
		}
	}
	if wire.TxId != txid {
		acc.fail("C08", "tx_id_wrong:"+tag, fmt.Sprintf("%s: message %s, broadcast %s", c, wire.TxId, txid))
	}
	if sd.OpeningTxHex != txHex {
		acc.fail("C08", "recorded_tx_hex_differs_from_broadcast:"+tag, c.String())
	}
	if firstScript >= 0 && firstScript != trueIdx {
		acc.note("swap script also on an earlier output with another amount")
	}
	if trueIdx < 0 {
		acc.fail("C08", "invoice_hash_not_locked_in_broadcast_tx:"+tag, fmt.Sprintf("%s: no output pays %d to script(taker, maker, sha256(invoice preimage), csv %d)", c, openingAmount, csv))
		return
	}
	acc.out(fmt.Sprintf("%s:swap_output_index=%d:judged", c.chain(), trueIdx))
	if int(wire.ScriptOut) != trueIdx {
		if nMatch > 1 {
			// several identical swap outputs: any of them is "the index of the swap output"
			acc.bug(fmt.Sprintf("%s: ambiguous swap output", c))
		}
		key := fmt.Sprintf("script_out_wrong:%s:swap_output_index=%d", tag, trueIdx)
		if c.chain() == "btc" && earlierEqual {
			key = "script_out_wrong:chain=btc:earlier_output_has_the_swap_amount"
		}
		acc.fail("C08", key, fmt.Sprintf("%s: message says script_out=%d, the swap output of %s is at index %d", c, wire.ScriptOut, txid, trueIdx))
	} else {
		acc.out(fmt.Sprintf("%s:script_out_right:index=%d", c.chain(), trueIdx))
	}
	// ---- blinding key
	if c.chain() == "btc" {
		if wire.BlindingKey != "" {
			acc.fail("C08", "blinding_key_not_blank:chain=btc", c.String())
		}
	} else {
		kb, err := hex.DecodeString(wire.BlindingKey)
		if err != nil || len(kb) != 32 {
			acc.fail("C08", "blinding_key_malformed:chain=lbtc", fmt.Sprintf("%s: %q", c, wire.BlindingKey))
			return
		}
		k, _ := btcec.PrivKeyFromBytes(kb)
		ub, err := confidential.UnblindOutputWithKey(lqTx.Outputs[trueIdx], k.Serialize())
		if err != nil || ub.Value != openingAmount || !bytes.Equal(ub.Asset, c03PolicyAsset()) {
			acc.fail("C08", "blinding_key_does_not_unblind_swap_output:chain=lbtc", fmt.Sprintf("%s: err=%v result=%+v", c, err, ub))
			return
		}
		if lqTx.Outputs[trueIdx].IsConfidential() {
			acc.out("lbtc:blinding_key_unblinds_confidential_swap_output")
		} else {
			acc.out("lbtc:swap_output_explicit")
		}
	}
	acc.out(fmt.Sprintf("%s:%s:%s:message_checked", c.chain(), c.Backend, c.Role))
	if c.Premium < 0 {
		acc.out("premium_negative")
	} else if c.Premium > 0 {
		acc.out("premium_positive")
	}
}

func c08Cases(tier string) ([]c08Case, map[string]any) {
	var cases []c08Case
	seen := map[string]bool{}
	add := func(c c08Case) {
		k := c.String()
		if seen[k] {
			return
		}
		seen[k] = true
		c.n = len(cases)
		cases = append(cases, c)
	}
	roles := []string{"swap_in_sender", "swap_out_receiver"}
	premiums := []int64{-7, 0, 7}
	// Bitcoin: full product
	for _, l := range c03BtcLayouts {
		for nIn := 1; nIn <= 3; nIn++ {
			for _, a := range c03Amounts {
				for _, p := range premiums {
					for _, r := range roles {
						for _, v := range []uint8{6, 7} {
							add(c08Case{Backend: "btc-lnd", Role: r, Layout: l, NIn: nIn, Amount: a, Premium: p, Version: v})
							add(c08Case{Backend: "btc-lnd", Role: r, Layout: l, NIn: nIn, Nested: true, Amount: a, Premium: p, Version: v})
						}
					}
				}
			}
		}
	}
	lqLayouts := []string{"SCF", "SFC", "CSF", "CFS", "FSC", "FCS", "SF", "FS"}
	lq := func(layouts []string, nIns []int, amounts []uint64, prem []int64, versions []uint8, explicit bool) {
		for _, be := range []string{"lbtc-wallet", "lbtc-elementsd"} {
			for _, l := range layouts {
				for _, n := range nIns {
					for _, a := range amounts {
						for _, p := range prem {
							for _, r := range roles {
								for _, v := range versions {
									add(c08Case{Backend: be, Role: r, Layout: l, NIn: n, Explicit: explicit, Amount: a, Premium: p, Version: v})
								}
							}
						}
					}
				}
			}
		}
	}
	blocks := []string{}
	if tier == "thorough" {
		lq(lqLayouts, []int{1, 2, 3}, c03Amounts, premiums, []uint8{7}, false)
		lq([]string{"SCF", "CSF", "CFS"}, []int{1}, c03Amounts, premiums, []uint8{6}, false)
		lq([]string{"CSF"}, []int{1}, []uint64{1_000_000}, premiums, []uint8{7}, true)
		for _, l := range lqLayouts {
			for _, r := range roles {
				for _, n := range []int{1, 2} {
					add(c08Case{Backend: "lbtc-elementsd", Role: r, Layout: l, NIn: n, Reject: true, Amount: 1_000_000, Premium: 7, Version: 7})
				}
			}
		}
		blocks = []string{"elementsd refuses the first broadcast (-26), later fundings have the change on the other side: 8 layouts x inputs 1..2 x 2 roles", "8 layouts x inputs 1..3 x 3 amounts x 3 premiums x 2 roles x version 7", "3 layouts x 3 amounts x 3 premiums x 2 roles x version 6", "explicit swap output: CSF x 3 premiums x 2 roles"}
	} else {
		lq(lqLayouts, []int{1}, c03Amounts, premiums, []uint8{7}, false)
		lq([]string{"SCF", "CSF"}, []int{1, 2, 3}, c03Amounts, []int64{0}, []uint8{7}, false)
		lq([]string{"CSF"}, []int{1}, []uint64{1_000_000}, []int64{0}, []uint8{7}, true)
		lq([]string{"CSF"}, []int{2}, []uint64{1000}, []int64{-7, 7}, []uint8{6}, false)
		for _, l := range []string{"SCF", "CSF", "CFS", "FSC"} {
			for _, r := range roles {
				add(c08Case{Backend: "lbtc-elementsd", Role: r, Layout: l, NIn: 1, Reject: true, Amount: 1_000_000, Premium: 7, Version: 7})
			}
		}
		blocks = []string{"elementsd refuses the first broadcast (-26), later fundings have the change on the other side: 4 layouts x 2 roles", "8 layouts x 3 amounts x 3 premiums x 2 roles (1 input, version 7)", "layouts SCF,CSF x inputs 1..3 x 3 amounts x 2 roles (premium 0)", "CSF x premium -7,+7 x 2 roles x version 6 (1000 sat, 2 inputs)", "explicit swap output: CSF x 2 roles"}
	}
	return cases, map[string]any{
		"btc(full product)": map[string]any{"layouts(S=swap,C=change,E=wallet output with value==opening amount)": c03BtcLayouts, "inputs": []int{1, 2, 3}, "last_input_kind": []string{"native segwit (P2WKH)", "nested segwit (P2SH-P2WKH: the signed transaction has a scriptSig, so its id differs from the unsigned one)"}, "amounts": c03Amounts, "premiums": premiums, "roles": roles, "protocol_versions": []int{6, 7}},
		"lbtc(each block a full product, for both back-ends)": blocks, "lbtc_layouts(S=swap,C=change,F=fee)": lqLayouts, "lbtc_backends": []string{"LiquidOnChain over fake wallet.Wallet", "LiquidOnChain over real ElementsRpcWallet over fake elementsd"},
	}
}

func TestC08(t *testing.T) {
	vsync.SetMode(vsync.Plain)
	rep := EnumReport{ID: "C08", Level: "model_checking", Start: time.Now(), Exhaustive: true}
	acc := newC03Acc()
	cases, alph := c08Cases(mc.Tier())
	var wg sync.WaitGroup
	ch := make(chan c08Case)
	for i := 0; i < 8; i++ {
		wg.Add(1)
		go func() {
			defer wg.Done()
			for c := range ch {
				c08Run(acc, c)
			}
		}()
	}
	for i, c := range cases {
		if i%97 == 0 {
			acc.sample(c.String())
		}
		ch <- c
	}
	close(ch)
	wg.Wait()
	rep.Transitions = acc.trans
	rep.Outcomes = acc.outcomes
	rep.States = len(acc.outcomes)
	rep.Violations = acc.viol
	rep.Internal = acc.internal
	rep.Samples = acc.samples
	rep.Alphabets = alph
	rep.Need = []string{
		"btc:script_out_right:index=0", "btc:script_out_right:index=1", "btc:script_out_right:index=2",
		"btc:swap_output_index=0:judged", "btc:swap_output_index=1:judged", "btc:swap_output_index=2:judged",
		"lbtc:swap_output_index=0:judged", "lbtc:swap_output_index=1:judged", "lbtc:swap_output_index=2:judged",
		"lbtc:script_out_right:index=0", "lbtc:blinding_key_unblinds_confidential_swap_output",
		"btc:btc-lnd:swap_in_sender:message_checked", "btc:btc-lnd:swap_out_receiver:message_checked",
		"lbtc:lbtc-wallet:swap_in_sender:message_checked", "lbtc:lbtc-wallet:swap_out_receiver:message_checked",
		"lbtc:lbtc-elementsd:swap_in_sender:message_checked", "lbtc:lbtc-elementsd:swap_out_receiver:message_checked",
		"premium_negative", "premium_positive",
	}
	rep.Rule = "for every funding result x amount x premium x protocol version x maker role x back-end: after the real CreateAndBroadcastOpeningTransaction action, the message to send (NextMessage == recorded OpeningTxBroadcasted) has tx_id = id of the one transaction handed to the chain, script_out = index of the output of THAT transaction paying the opening amount to script(taker, maker, sha256(preimage of the requested invoice), CSV), payreq = the invoice requested with claim amount x 1000 msat, type claim, expiry 86400/3600 s, final CLTV 503/29 (Bitcoin/Liquid), and on Liquid a blinding_key that unblinds that output to (opening amount, policy asset)"
	rep.Assumptions = []string{
		"funding results are what the fake wallets produce: lnd's FundPsbt / elementsd's fundrawtransaction may put change before the payment output (both randomise the change position by default); wallet outputs whose value equals the swap amount are possible funding results",
		"clightning.ClightningClient is not reachable without a lightningd socket; its CreateOpeningTransaction post-processes the funded transaction with the same BitcoinOnChain.GetVoutAndVerify as lnd.Client",
		"lwk.LWKRpcWallet is not driven here (needs the LWK JSON-RPC + electrum fakes); LiquidOnChain.CreateOpeningTransaction treats every wallet.Wallet alike",
	}
	rep.Extra = map[string]any{"cases": len(cases)}
	finishEnum(t, &rep)
}
