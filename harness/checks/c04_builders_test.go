package checks

import (
	"fmt"

	"github.com/elementsproject/glightning/glightning"
	"github.com/elementsproject/peerswap/clightning"
	"github.com/elementsproject/peerswap/lnd"
	"github.com/lightningnetwork/lnd/lnrpc"
	"verif/mc"
)

// c04Builders enumerates the route / request builders of both back-ends with
// the Liquid limit (32) over the invoice-CLTV grid: whatever they produce must
// keep the total CLTV delta <= 32 (CLN: Delay; LND: final + BlockPadding(3) and
// CltvLimit <= 33, the router's exclusive bound).
func c04Builders() ([]mc.Violation, map[string]any) {
	var vs []mc.Violation
	n, okN, errN := 0, 0, 0
	cltvs := []int64{-1, 0, 1, 9, 28, 29, 30, 31, 32, 33, 40, 2147483647, 2147483648, 4294967294, 4294967295}
	for _, limit := range []uint32{32} {
		for _, c := range cltvs {
			n++
			b := &glightning.DecodedBolt11{MinFinalCltvExpiry: int(c), Payee: "02aa", AmountMsat: glightning.AmountFromMSat(1000)}
			route, err := clightning.VerifBuildDirectClaimRoute(b, "100x1x0", limit)
			if err != nil {
				errN++
			} else {
				okN++
				if len(route) != 1 || route[0].Delay > limit {
					vs = append(vs, mc.Violation{Property: "C04", Key: fmt.Sprintf("cln_route_exceeds_total_cltv:limit=%d", limit), Detail: fmt.Sprintf("invoice CLTV %d -> route %+v", c, route)})
				}
				if c > 29 && false {
					_ = c
				}
			}
			n++
			req, err := lnd.VerifBuildDirectClaimPaymentRequest("lnsim", &lnrpc.PayReq{Destination: "02aa", CltvExpiry: c, NumMsat: 1000}, &lnrpc.Channel{RemotePubkey: "02aa", ChanId: 1}, limit)
			if err != nil {
				errN++
			} else {
				okN++
				if c+3 > int64(limit) || int64(req.CltvLimit) > int64(limit)+1 || req.CltvLimit <= 0 {
					vs = append(vs, mc.Violation{Property: "C04", Key: fmt.Sprintf("lnd_request_exceeds_total_cltv:limit=%d", limit), Detail: fmt.Sprintf("invoice CLTV %d -> CltvLimit %d", c, req.CltvLimit)})
				}
			}
		}
	}
	return vs, map[string]any{"builder_cases": n, "builder_accepts": okN, "builder_rejects": errN, "builder_cltv_grid": cltvs}
}
