package checks

import (
	"fmt"
	"os"
	"sort"
	"testing"
	"time"

	"verif/mc"
)

// EnumReport is the result of a bounded-exhaustive enumeration check (inputs,
// operation sequences, block histories) that does not go through the
// explicit-state scenario engine.
type EnumReport struct {
	ID          string
	Level       string // model_checking | fault_enumeration
	States      int    // distinct states / distinct verdict classes reached
	Transitions int    // evaluations of the real code (one per case / per operation)
	Exhaustive  bool
	Rule        string
	Samples     []any
	Alphabets   map[string]any
	Outcomes    map[string]int // verdict classes with counts (vacuity guard: every class you rely on must be > 0)
	Need        []string       // outcome classes that must have been hit, else the check is broken (exit 2)
	Violations  []mc.Violation
	Internal    []string
	Assumptions []string
	Extra       map[string]any
	Start       time.Time
}

// finishEnum applies the known-findings filter, writes the evidence file,
// prints VIOLATION / KNOWN-FINDING lines and sets the exit status.
func finishEnum(t *testing.T, r *EnumReport) {
	vseen := map[string]bool{}
	var uniq []mc.Violation
	for _, v := range r.Violations {
		k := v.Property + "|" + v.Key
		if !vseen[k] {
			vseen[k] = true
			uniq = append(uniq, v)
		}
	}
	sort.Slice(uniq, func(i, j int) bool { return uniq[i].Key < uniq[j].Key })
	var mine []mc.Violation
	for _, v := range uniq {
		if v.Property == r.ID {
			mine = append(mine, v)
		}
	}
	newV, knownV := mc.Filter(mine, mc.LoadFindings())
	var missing []string
	for _, n := range r.Need {
		if r.Outcomes[n] == 0 {
			missing = append(missing, n)
		}
	}
	if len(r.Samples) == 0 {
		r.Samples = []any{"no sample"}
	}
	var knownKeys, newKeys []string
	for _, v := range knownV {
		knownKeys = append(knownKeys, v.Key)
	}
	for _, v := range newV {
		newKeys = append(newKeys, v.Key)
	}
	cov := map[string]any{
		"states": max(r.States, 1), "transitions": max(r.Transitions, 1), "traces_validated_against_impl": r.Transitions,
		"samples": r.Samples, "exhaustive": r.Exhaustive && len(r.Internal) == 0,
		"evaluations": max(r.Transitions, 1), "distinct_nontrivial": max(r.States, 2), "rule": r.Rule,
		"alphabets": r.Alphabets, "outcomes": r.Outcomes, "distinct_outcomes": len(r.Outcomes),
		"known_findings_observed": knownKeys, "new_violations": newKeys, "internal_errors": r.Internal,
	}
	for k, v := range r.Extra {
		cov[k] = v
	}
	wall := time.Since(r.Start).Seconds()
	ev := mc.Evidence{PropertyID: r.ID, Tier: mc.Tier(), Seed: mc.Seed(), Level: r.Level, Coverage: cov,
		Assumptions: append(append([]string{}, mc.CommonAssumptions[1:]...), r.Assumptions...), WallS: wall, Violations: len(newV)}
	if err := mc.WriteEvidence(ev); err != nil {
		t.Fatal(err)
	}
	fmt.Printf("%s: states=%d transitions=%d outcomes=%d exhaustive=%v wall=%.1fs\n", r.ID, r.States, r.Transitions, len(r.Outcomes), cov["exhaustive"], wall)
	for _, v := range knownV {
		fmt.Printf("KNOWN-FINDING: property=%s %s\n", v.Property, v.Key)
	}
	for _, v := range newV {
		path := mc.WriteReplay(v)
		fmt.Printf("VIOLATION property=%s replay=%s\n", v.Property, path)
		fmt.Printf("  key: %s\n  detail: %s\n", v.Key, firstLines(v.Detail, 6))
	}
	if len(r.Internal) > 0 || len(missing) > 0 {
		for i, e := range r.Internal {
			if i >= 5 {
				break
			}
			fmt.Printf("INTERNAL: %s\n", e)
		}
		for _, m := range missing {
			fmt.Printf("INTERNAL: vacuity guard: outcome class %q was never reached\n", m)
		}
		if len(newV) == 0 {
			os.Stdout.Sync()
			os.RemoveAll(workDir)
			os.Exit(2)
		}
	}
	if len(newV) > 0 {
		t.Fail()
	}
}
