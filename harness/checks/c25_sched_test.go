package checks

import (
	"encoding/json"
	"fmt"
	"os"
	"os/exec"
	"path/filepath"
	"sort"
	"strings"
	"testing"

	"github.com/elementsproject/peerswap/policy"
	"verif/mc"
	"verif/sched"
	"verif/scn"
)

// C25 under concurrency: both daemons serve the policy RPCs concurrently.  For every pair of
// policy operations on ONE key every schedule (bounded preemptions) is explored on the real
// policy.Policy with a real file; the observable result - the two return values, the policy
// file, the policy re-created from the file and the running policy - must be one that one of
// the two sequential orders produces (linearizability against the implementation itself run
// sequentially; the sequential behaviour is what the rest of C25 judges).

type c25sOp struct {
	Name string
	F    func(p *policy.Policy) error
}

var c25sKey = scn.IDC

func c25sOps() []c25sOp {
	return []c25sOp{
		{"AddToAllowlist", func(p *policy.Policy) error { return p.AddToAllowlist(c25sKey) }},
		{"RemoveFromAllowlist", func(p *policy.Policy) error { return p.RemoveFromAllowlist(c25sKey) }},
		{"AddToSuspiciousPeerList", func(p *policy.Policy) error { return p.AddToSuspiciousPeerList(c25sKey) }},
		{"RemoveFromSuspiciousPeerList", func(p *policy.Policy) error { return p.RemoveFromSuspiciousPeerList(c25sKey) }},
		{"DisableSwaps", func(p *policy.Policy) error { return p.DisableSwaps() }},
		{"EnableSwaps", func(p *policy.Policy) error { return p.EnableSwaps() }},
		{"ReloadFile", func(p *policy.Policy) error { return p.ReloadFile() }},
	}
}

var c25sStarts = map[string]string{
	"empty":  "accept_all_peers=false\n",
	"listed": "allowlisted_peers=" + scn.IDC + "\nsuspicious_peers=" + scn.IDC + "\nallow_new_swaps=false\n",
}

// c25sObserve renders everything an operator can observe after the two operations.
func c25sObserve(path string, pol *policy.Policy, e1, e2 error) string {
	raw, _ := os.ReadFile(path)
	var lines []string
	for _, l := range strings.Split(string(raw), "\n") {
		if strings.TrimSpace(l) != "" {
			lines = append(lines, strings.TrimSpace(l))
		}
	}
	sort.Strings(lines)
	fresh, ferr := policy.CreateFromFile(path)
	view := func(p *policy.Policy) string {
		if p == nil {
			return "-"
		}
		g := p.Get()
		al := append([]string{}, g.PeerAllowlist...)
		su := append([]string{}, g.SuspiciousPeerList...)
		sort.Strings(al)
		sort.Strings(su)
		return fmt.Sprintf("allow=%v susp=%v new=%v", al, su, g.AllowNewSwaps)
	}
	if ferr != nil {
		fresh = nil
	}
	return fmt.Sprintf("ret1=%v ret2=%v | file=%v | fromfile{%s} | running{%s}", e1 == nil, e2 == nil, lines, view(fresh), view(pol))
}

func c25sFresh(t testing.TB, start string) (string, *policy.Policy) {
	p := filepath.Join(workDir, fmt.Sprintf("c25s-%d-%d.conf", os.Getpid(), c26Seq.Add(1)))
	if err := os.WriteFile(p, []byte(c25sStarts[start]), 0o600); err != nil {
		t.Fatal(err)
	}
	pol, err := policy.CreateFromFile(p)
	if err != nil {
		t.Fatalf("policy: %v", err)
	}
	return p, pol
}

// c25sSequential returns the observations of the two sequential orders.
func c25sSequential(t testing.TB, start string, a, b c25sOp) map[string]bool {
	out := map[string]bool{}
	for _, order := range [][2]int{{0, 1}, {1, 0}} {
		p, pol := c25sFresh(t, start)
		var errs [2]error
		ops := [2]c25sOp{a, b}
		for _, i := range order {
			errs[i] = ops[i].F(pol)
		}
		out[c25sObserve(p, pol, errs[0], errs[1])] = true
		os.Remove(p)
	}
	return out
}

func c25sHarness(t testing.TB, start string, a, b c25sOp, allowed map[string]bool) sched.Harness {
	name := fmt.Sprintf("policy/%s/%s||%s", start, a.Name, b.Name)
	return sched.Harness{Name: name, Setup: func() ([]sched.NamedFunc, func(e *sched.Exec) []string, func()) {
		p, pol := c25sFresh(t, start)
		var e1, e2 error
		th := []sched.NamedFunc{
			{Name: "rpc1:" + a.Name, F: func() { e1 = a.F(pol) }},
			{Name: "rpc2:" + b.Name, F: func() { e2 = b.F(pol) }},
		}
		check := func(e *sched.Exec) []string {
			obs := c25sObserve(p, pol, e1, e2)
			if allowed[obs] {
				return nil
			}
			return []string{fmt.Sprintf("concurrent_result_matches_no_sequential_order:ops=%s+%s:start=%s", a.Name, b.Name, start)}
		}
		return th, check, func() { os.Remove(p) }
	}}
}

type c25sReport struct {
	Cases      int               `json:"cases"`
	Executions int               `json:"executions"`
	Problems   map[string]string `json:"problems"`
	Deadlocks  map[string]string `json:"deadlocks"`
	Internal   []string          `json:"internal"`
	Capped     bool              `json:"capped"`
	Bound      int               `json:"preemption_bound"`
}

// TestC25SchedWorker runs in its own process (the scheduler mode is process-wide).
func TestC25SchedWorker(t *testing.T) {
	out := os.Getenv("VERIF_C25S_OUT")
	if out == "" {
		t.Skip("worker entry point")
	}
	bound, maxExec := 2, 2000
	if mc.Tier() == "thorough" {
		bound, maxExec = 3, 40000
	}
	ops := c25sOps()
	type cs struct {
		start   string
		a, b    c25sOp
		allowed map[string]bool
	}
	var cases []cs
	for _, st := range []string{"empty", "listed"} {
		for i, a := range ops {
			for j, b := range ops {
				if j < i {
					continue
				}
				cases = append(cases, cs{st, a, b, c25sSequential(t, st, a, b)})
			}
		}
	}
	sched.Install()
	rep := c25sReport{Problems: map[string]string{}, Deadlocks: map[string]string{}, Bound: bound}
	for _, c := range cases {
		res := sched.Explore(c25sHarness(t, c.start, c.a, c.b, c.allowed), bound, maxExec, func(e *sched.Exec) string { return "completed" })
		rep.Cases++
		rep.Executions += res.Executions
		if res.Capped || res.Overflows > 0 {
			rep.Capped = true
		}
		rep.Internal = append(rep.Internal, res.Internal...)
		for k, s := range res.Problems {
			if _, ok := rep.Problems[k]; !ok {
				rep.Problems[k] = fmt.Sprintf("schedule %v", s)
			}
		}
		for k, d := range res.Deadlocks {
			if _, ok := rep.Deadlocks[k]; !ok {
				rep.Deadlocks[k] = fmt.Sprintf("case %s+%s, schedule %v:\n%s", c.a.Name, c.b.Name, d.Schedule, strings.Join(d.Waiting, "\n"))
			}
		}
	}
	b, _ := json.Marshal(rep)
	if err := os.WriteFile(out, b, 0o644); err != nil {
		t.Fatal(err)
	}
}

// c25Sched is the coordinator side.
func c25Sched() ([]mc.Violation, map[string]any) {
	out := fmt.Sprintf("%s/c25s-%d.json", workDir, os.Getpid())
	cmd := exec.Command(os.Args[0], "-test.run", "^TestC25SchedWorker$", "-test.timeout", "0")
	cmd.Env = append(os.Environ(), "VERIF_C25S_OUT="+out)
	ob, err := cmd.CombinedOutput()
	b, rerr := os.ReadFile(out)
	cov := map[string]any{}
	if rerr != nil {
		cov["internal"] = []string{fmt.Sprintf("c25 sched worker failed: %v\n%s", err, tail(string(ob), 3000))}
		return nil, cov
	}
	_ = os.Remove(out)
	var rep c25sReport
	_ = json.Unmarshal(b, &rep)
	var vs []mc.Violation
	for k, d := range rep.Problems {
		vs = append(vs, mc.Violation{Property: "C25", Key: k, Detail: d})
	}
	for k, d := range rep.Deadlocks {
		vs = append(vs, mc.Violation{Property: "C18", Key: "deadlock:" + k, Detail: d})
	}
	if len(rep.Internal) > 0 {
		cov["internal"] = rep.Internal
	}
	cov["sched_subcheck"] = map[string]any{"rule": fmt.Sprintf("all schedules with at most %d preemptions of every unordered pair of the 7 policy operations on one key, from 2 start files; the observable result (return values, file lines, policy re-created from the file, running policy) must equal that of one of the two sequential orders run on the same code", rep.Bound),
		"pairs": rep.Cases, "schedules": rep.Executions, "capped": rep.Capped}
	return vs, cov
}
