package checks

import (
	"fmt"
	"runtime"
	"runtime/debug"
	"strings"
	"sync"
	"testing"
	"testing/synctest"
	"time"

	"github.com/elementsproject/peerswap/messages"
	"github.com/elementsproject/peerswap/swap"
	"verif/mc"
)

// C23 sub-check: what the retransmitter sends later.  The maker hands the encoded
// opening_tx_broadcasted (any message, in fact) to messages.RedundantMessenger, which keeps the
// byte slice and sends it again every 10 s.  Whatever the node encodes meanwhile for OTHER swaps
// (a coop_close with a taker key, a cancel carrying an error text ...) must not reach that peer
// through the retained slice.  Enumerated: every ordered pair (first message handed to the real
// retransmitter, message encoded afterwards with the real swap.MarshalPeerswapMessage) over the
// seven message types, several encodings of the second message, three retransmissions each.

type c23Rec struct {
	mu   sync.Mutex
	sent []string
}

func (r *c23Rec) SendMessage(_ string, message []byte, _ int) error {
	r.mu.Lock()
	r.sent = append(r.sent, string(message))
	r.mu.Unlock()
	return nil
}

func c23Resend() ([]mc.Violation, map[string]any) {
	vs, _, cov := c23ResendCore(curT)
	return vs, cov
}

// c23ResendCore also returns, per first message type, a description of the first copy that differed from what the
// retransmitter had been given (C21 judges those: a message must be SENT with a payload that decodes to its content).
func c23ResendCore(t *testing.T) ([]mc.Violation, map[string]string, map[string]any) {
	changed := map[string]string{}
	old := runtime.GOMAXPROCS(1) // buffer pools are per P: keep the encoder and the retransmitter on one
	gc := debug.SetGCPercent(-1) // and do not let a collection empty them between two steps
	defer runtime.GOMAXPROCS(old)
	defer debug.SetGCPercent(gc)
	structs := c21Structs()
	secretKey := strings.Repeat("ef", 32) // the privkey of the coop_close in c21Structs
	var vs []mc.Violation
	seen := map[string]bool{}
	pairs, copies, differing := 0, 0, 0
	for _, first := range structs {
		for _, second := range structs {
			pairs++
			func() {
				defer func() {
					if r := recover(); r != nil {
						vs = append(vs, mc.Violation{Property: "C23", Key: "retransmission_subcheck_panic", Detail: fmt.Sprint(r)})
					}
				}()
				synctest.Test(t, func(t *testing.T) {
					m1, ok1 := first.mk().(swap.PeerMessage)
					m2, ok2 := second.mk().(swap.PeerMessage)
					if !ok1 || !ok2 {
						panic("message struct does not implement swap.PeerMessage")
					}
					b1, t1, err := swap.MarshalPeerswapMessage(m1)
					if err != nil {
						panic(err)
					}
					orig := string(b1)
					rec := &c23Rec{}
					rm := messages.NewRedundantMessenger(rec, 10*time.Second)
					_ = rm.SendMessage("peer-of-swap-1", b1, t1)
					for k := 0; k < 3; k++ {
						// the node encodes messages of another swap meanwhile
						for j := 0; j <= k; j++ {
							if _, _, err := swap.MarshalPeerswapMessage(m2); err != nil {
								panic(err)
							}
						}
						time.Sleep(10*time.Second + time.Millisecond)
						synctest.Wait()
					}
					rm.Stop()
					synctest.Wait()
					rec.mu.Lock()
					sent := append([]string{}, rec.sent...)
					rec.mu.Unlock()
					copies += len(sent)
					for i, s := range sent {
						if s == orig {
							continue
						}
						if _, ok := changed[first.wire]; !ok {
							changed[first.wire] = fmt.Sprintf("%s handed to the retransmitter, then %s encoded: copy #%d sent later differs.\nfirst:  %.200s\ncopy:   %.200s", first.wire, second.wire, i, orig, s)
						}
						if !strings.Contains(s, secretKey) || strings.Contains(orig, secretKey) {
							// a changed copy that carries no secret is not C23's subject: counted only
							differing++
							continue
						}
						key := fmt.Sprintf("secret_in_message:taker_swap_key:via_retransmission_of=%s", first.wire)
						if !seen[key] {
							seen[key] = true
							vs = append(vs, mc.Violation{Property: "C23", Key: key,
								Detail: fmt.Sprintf("copy #%d sent by the retransmitter differs from what it was given.\nfirst:  %.200s\ncopy:   %.200s", i, orig, s)})
						}
					}
				})
			}()
		}
	}
	return vs, changed, map[string]any{"retransmission_subcheck": map[string]any{
		"rule":  "every ordered pair (message handed to the real messages.RedundantMessenger, message encoded afterwards with the real swap.MarshalPeerswapMessage) over the 7 message types; 1..3 encodings between two retransmissions; no copy sent later may contain the taker key of the coop_close encoded meanwhile (changed copies without a secret are counted as information)",
		"pairs": pairs, "copies_checked": copies, "copies_changed_without_secret(information)": differing}}
}
