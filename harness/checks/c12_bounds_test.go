package checks

// C12 — neither side pays more than it agreed to.
//
// Engine E2: boundary grids through the REAL code paths of a real
// swap.SwapService (scn.Init, peer B scripted by the check), all arithmetic of
// the reference in math/big:
//
//	(a) swap-out initiator A: SwapOut(amount, limit rate) -> crafted
//	    swap_out_agreement (premium grid, fee-invoice grid, channel spendable
//	    around amount+fee) -> observe the fee payment; if the fee was paid: crafted
//	    opening transaction + announcement whose claim invoice comes from an
//	    invoice-amount alphabet -> confirmation -> observe the claim payment.
//	(b) swap-in initiator A: SwapIn(amount, limit rate) -> crafted
//	    swap_in_agreement (premium grid) -> observe the amount handed to the
//	    wallet's CreateOpeningTransaction and the claim invoice A creates.
//	(c) responder A: peer-specific rate in the real premium.Setting x amount grid
//	    x requester's limit around the premium -> the premium in A's agreement;
//	    swap-out responder continued (B pays the fee invoice): the amount A locks
//	    on-chain and the claim invoice A asks for.
//
// "Pays" is judged at the attempt: a call of PayInvoiceViaChannel /
// RebalancePayment / CreateOpeningTransaction with an amount outside the bound
// is a violation whether or not the simulated node could carry it out.

import (
	"context"
	"crypto/sha256"
	"encoding/hex"
	"encoding/json"
	"fmt"
	"math"
	"math/big"
	"os"
	"os/exec"
	"sort"
	"strings"
	"testing"
	"testing/synctest"
	"time"

	"github.com/btcsuite/btcd/chaincfg/chainhash"
	"github.com/btcsuite/btcd/wire"
	"github.com/elementsproject/peerswap/onchain"
	"github.com/elementsproject/peerswap/premium"
	"github.com/elementsproject/peerswap/swap"
	"verif/mc"
	"verif/node"
	"verif/scn"
	"verif/world"
)

const (
	c12FeeEst  = uint64(300)  // SimWallet.GetFlatOpeningTXFee (constant of the simulation, both chains)
	c12Plenty  = uint64(1e19) // msat: "the channel is not the limiting factor"
	c12Balance = uint64(1) << 60
)

var (
	c12Thousand = big.NewInt(1000)
	c12TwoTo64  = new(big.Int).Lsh(big.NewInt(1), 64)
)

func c12U(v uint64) *big.Int { return new(big.Int).SetUint64(v) }
func c12I(v int64) *big.Int  { return big.NewInt(v) }

// c12Rate is the statement's premium of a rate: amount * ppm / 10^6 truncated toward zero.
func c12Rate(amount uint64, ppm int64) *big.Int {
	p := new(big.Int).Mul(c12U(amount), c12I(ppm))
	return p.Quo(p, big.NewInt(1_000_000))
}

type c12Named struct {
	Name string
	V    int64
}

var c12Wide bool // thorough tier: wider premium / fee grids

func c12Premiums(amount uint64, limit int64) []c12Named {
	all := []c12Named{
		{"min_int64", math.MinInt64},
		{"wraps_claim_to_2x_amount", int64(amount) - (1 << 61)}, // (amount+premium) mod 2^64, times 1000 mod 2^64, equals 2*amount*1000
		{"-amount-1", -int64(amount) - 1},
		{"-amount", -int64(amount)},
		{"-1", -1},
		{"0", 0},
		{"limit", limit},
		{"limit+1", limit + 1},
		{"max_int64", math.MaxInt64},
	}
	if c12Wide {
		all = append(all, c12Named{"min_int64+1", math.MinInt64 + 1}, c12Named{"-amount+1", -int64(amount) + 1}, c12Named{"1", 1},
			c12Named{"limit-1", limit - 1}, c12Named{"wraps_claim_to_amount+limit+1", int64(amount) + limit + 1 - int64(amount) - (1 << 61)})
	}
	seen := map[int64]bool{}
	var out []c12Named
	for _, p := range all {
		if !seen[p.V] {
			seen[p.V] = true
			out = append(out, p)
		}
	}
	return out
}

// c12PremClass is the semantic class of a premium (used in keys).
func c12PremClass(amount uint64, limit *big.Int, p int64) string {
	switch {
	case c12I(p).Cmp(limit) > 0:
		return "above_limit"
	case new(big.Int).Add(c12U(amount), c12I(p)).Sign() < 0:
		return "below_minus_amount"
	}
	return "within_limit"
}

type c12Tally struct {
	rep     *EnumReport
	classes map[string]int
	size    map[string]*big.Int
	idx     map[string]int
}

// viol keeps, per key, the violation with the smallest input (size).
func (ta *c12Tally) viol(key, detail string, size *big.Int) {
	if i, ok := ta.idx[key]; ok {
		if size.CmpAbs(ta.size[key]) < 0 {
			ta.rep.Violations[i].Detail = detail
			ta.size[key] = size
		}
		return
	}
	ta.idx[key] = len(ta.rep.Violations)
	ta.size[key] = size
	ta.rep.Violations = append(ta.rep.Violations, mc.Violation{Property: "C12", Key: key, Detail: detail})
}

func (ta *c12Tally) class(c string) {
	ta.classes[c]++
}

func c12Chains() []string { return []string{"btc", "lbtc"} }

func c12SetCapacity(x *scn.Exec, msat uint64) {
	for _, id := range []string{scn.IDA, scn.IDB} {
		for _, ch := range x.W.LN[id].Channels {
			ch.Spendable, ch.Receivable = msat, msat
		}
	}
}

func c12Adversary(x *scn.Exec) {
	lnB := x.W.LN[scn.IDB]
	lnB.Adversary = true
	lnB.AdvPreimages[hashOf(advPre)] = advPre
	lnB.AdvPreimages[hashOf(advFeePre)] = advFeePre
}

// c12Open builds and submits B's opening transaction paying `amount` to the
// swap script (taker key, maker key, hash) and returns (txid, vout).
func c12Open(x *scn.Exec, taker, maker, hash string, amount uint64) (string, int) {
	rs, err := onchain.ParamsToTxScript(&swap.OpeningParams{TakerPubkey: taker, MakerPubkey: maker, ClaimPaymentHash: hash}, x.CSV())
	if err != nil {
		panic(err)
	}
	hh := sha256.Sum256(rs)
	pk := append([]byte{0x00, 0x20}, hh[:]...)
	prev := chainhash.HashH([]byte("c12funding"))
	tx := wire.NewMsgTx(2)
	tx.AddTxIn(wire.NewTxIn(wire.NewOutPoint(&prev, 0), nil, [][]byte{{1}}))
	tx.AddTxOut(wire.NewTxOut(int64(amount), pk))
	var annot []world.OutAnnot
	if x.Cfg.Chain != "btc" {
		annot = []world.OutAnnot{{Asset: node.LbtcAsset, BlindPub: hex.EncodeToString(advBlind.PubKey().SerializeCompressed())}}
	} else {
		annot = []world.OutAnnot{{}}
	}
	id, err := x.W.Chain(x.Cfg.Chain).Submit(world.TxHex(tx), scn.IDB, annot, "opening")
	if err != nil {
		panic(err)
	}
	return id, 0
}

func c12Announce(x *scn.Exec, id, txid string, vout int, msat uint64) {
	inv := world.EncodeInvoice(world.Invoice{Hash: hashOf(advPre), Msat: msat, CLTV: advMaxCltv(x), Dest: scn.IDB})
	m := map[string]any{"swap_id": id, "payreq": inv, "tx_id": txid, "script_out": vout, "blinding_key": ""}
	if x.Cfg.Chain != "btc" {
		m["blinding_key"] = hex.EncodeToString(advBlind.Serialize())
	}
	advSend(x, mtOpening, m)
}

type c12Pay struct {
	Msat   uint64
	Result string
}

func c12Payments(x *scn.Exec, kind string) []c12Pay {
	var out []c12Pay
	for _, o := range x.W.Log {
		if o.Node != scn.IDA || o.Kind != kind {
			continue
		}
		if o.Result == "join-pending" || o.Result == "complete" || o.Result == "already-paid" || o.Result == "in-transition" {
			continue // no new payment
		}
		inv, err := world.DecodeInvoice(o.Payreq)
		if err != nil {
			continue
		}
		out = append(out, c12Pay{Msat: inv.Msat, Result: o.Result})
	}
	return out
}

func c12State(x *scn.Exec) string {
	if sm := x.SwapOf(x.A); sm != nil {
		return stateSuffix(string(sm.Current))
	}
	return "-"
}

// ---------------------------------------------------------------- (a) swap-out initiator

type c12OutCase struct {
	Chain    string
	Amount   uint64
	Rate     int64
	Prem     c12Named
	FeeName  string
	FeeMsat  uint64
	Spend    string // "required-1" | "required" | "plenty"
	Claim    string // "" = stop after the fee stage
	ClaimMsa uint64
}

type c12OutObs struct {
	RPCErr    string
	LimitSent int64
	Spendable uint64 // what the channel could send when the agreement arrived
	Fee       []c12Pay
	Claim     []c12Pay
	State     string
	Internal  string
}

func c12RunOut(t *testing.T, ps *premium.Setting, c c12OutCase) (o c12OutObs) {
	cfg := &scn.Cfg{Name: "c12a", Chain: c.Chain, SwapType: "out", AInitiates: true, ScriptedB: true, Premium: ps}
	cfg.AWallet.Balance = c12Balance
	func() {
		defer func() {
			if r := recover(); r != nil {
				o.Internal = fmt.Sprintf("harness panic: %v", r)
			}
		}()
		synctest.Test(t, func(t *testing.T) {
			x := scn.Init(t, cfg)
			defer x.Finish()
			c12SetCapacity(x, c12Plenty)
			c12Adversary(x)
			node.Run(func() {
				x.A.Life.Op(false)
				if _, err := x.A.Svc.SwapOut(scn.IDB, c.Chain, scn.Scid, scn.IDA, c.Amount, c.Rate); err != nil {
					o.RPCErr = err.Error()
				}
			})
			sm := x.SwapOf(x.A)
			if sm == nil || o.RPCErr != "" {
				return
			}
			o.LimitSent = sm.Data.SwapOutRequest.PremiumLimit
			id := sm.SwapId.String()
			taker := sm.Data.GetTakerPubkey()
			required := new(big.Int).Add(new(big.Int).Mul(c12U(c.Amount), c12Thousand), c12U(c.FeeMsat))
			chA := x.W.LN[scn.IDA].Channels[0]
			switch c.Spend {
			case "required-1":
				r := new(big.Int).Sub(required, big.NewInt(1))
				if r.IsUint64() {
					chA.Spendable = r.Uint64()
				} else {
					chA.Spendable = math.MaxUint64
				}
			case "required":
				if required.IsUint64() {
					chA.Spendable = required.Uint64()
				} else {
					chA.Spendable = math.MaxUint64
				}
			}
			o.Spendable = chA.Spendable
			fee := world.EncodeInvoice(world.Invoice{Hash: hashOf(advFeePre), Msat: c.FeeMsat, CLTV: 10, Dest: scn.IDB})
			advSend(x, mtSwapOutAgree, map[string]any{"protocol_version": 7, "swap_id": id, "pubkey": advPub(advKey), "Payreq": fee, "premium": c.Prem.V})
			node.Settle()
			o.Fee = c12Payments(x, "ln.payfee")
			paid := false
			for _, p := range o.Fee {
				if p.Result == "succeeded" {
					paid = true
				}
			}
			if c.Claim != "" && paid {
				chA.Spendable = c12Plenty
				txid, vout := c12Open(x, taker, advPub(advKey), hashOf(advPre), c.Amount)
				c12Announce(x, id, txid, vout, c.ClaimMsa)
				node.Settle()
				x.Apply(mc.Event{Name: "block", Arg: "conf"})
				x.Apply(mc.Event{Name: "time", Arg: "11s"})
				x.Apply(mc.Event{Name: "time", Arg: "11s"})
				o.Claim = c12Payments(x, "ln.payclaim")
			}
			o.State = c12State(x)
		})
	}()
	return
}

func c12Fees(amount uint64, thorough bool) []struct {
	Name string
	Msat uint64
} {
	f := c12FeeEst
	out := []struct {
		Name string
		Msat uint64
	}{
		{"0", 0}, {"3f*1000", 3 * f * 1000}, {"3f*1000+999", 3*f*1000 + 999}, {"(3f+1)*1000", (3*f + 1) * 1000}, {"2^62", 1 << 62},
		{"2^64-amount_msat", math.MaxUint64 - amount*1000 + 1}, // amount*1000 + fee wraps to 0
	}
	if c12Wide {
		out = append(out, []struct {
			Name string
			Msat uint64
		}{{"1", 1}, {"3f*1000-1", 3*f*1000 - 1}, {"2^63", 1 << 63}}...)
	}
	return out
}

// c12ClaimInvoices is the adversary's menu of claim-invoice amounts (msat).
func c12ClaimInvoices(amount uint64, limit *big.Int, p int64) []struct {
	Name string
	Msat uint64
} {
	type nv = struct {
		Name string
		Msat uint64
	}
	var out []nv
	seen := map[uint64]bool{}
	add := func(name string, v *big.Int) {
		if v.Sign() < 0 || !v.IsUint64() || seen[v.Uint64()] {
			return
		}
		seen[v.Uint64()] = true
		out = append(out, nv{name, v.Uint64()})
	}
	sum := new(big.Int).Add(c12U(amount), c12I(p))
	exact := new(big.Int).Mul(sum, c12Thousand)
	add("(amount+premium)*1000", exact)
	add("(amount+premium)*1000+1", new(big.Int).Add(exact, big.NewInt(1)))
	add("amount*1000", new(big.Int).Mul(c12U(amount), c12Thousand))
	add("(amount+limit+1)*1000", new(big.Int).Mul(new(big.Int).Add(new(big.Int).Add(c12U(amount), limit), big.NewInt(1)), c12Thousand))
	add("2*amount*1000", new(big.Int).Mul(c12U(amount), big.NewInt(2000)))
	// what arithmetic modulo 2^64 makes of (amount+premium)*1000
	w := new(big.Int).Mod(sum, c12TwoTo64)
	w.Mul(w, c12Thousand).Mod(w, c12TwoTo64)
	add("((amount+premium) mod 2^64)*1000 mod 2^64", w)
	return out
}

func c12CheckOut(ta *c12Tally, c c12OutCase, o c12OutObs) {
	limit := c12Rate(c.Amount, c.Rate)
	pc := c12PremClass(c.Amount, limit, c.Prem.V)
	desc := func() string {
		return fmt.Sprintf("swap-out initiator, chain=%s: SwapOut(amount=%d sat, premium limit rate=%d ppm => limit %s sat, limit sent %d); crafted swap_out_agreement{premium=%d (%s), fee invoice=%d msat (%s)}; channel spendable at that time=%d msat (%s); own fee estimate=%d sat; claim invoice offered=%s (%d msat); fee payments=%v claim payments=%v final state=%s",
			c.Chain, c.Amount, c.Rate, limit, o.LimitSent, c.Prem.V, c.Prem.Name, c.FeeMsat, c.FeeName, o.Spendable, c.Spend, c12FeeEst, c.Claim, c.ClaimMsa, o.Fee, o.Claim, o.State)
	}
	size := c12U(c.Amount)
	if c12I(o.LimitSent).Cmp(limit) != 0 {
		ta.viol("limit_sent_differs_from_rate:role=swap_out_initiator", desc(), size)
	}
	// fee invoice paid => fee_sat <= 3f  and  spendable >= amount*1000 + fee_msat
	feeSat := c.FeeMsat / 1000 // satoshi granularity (DESIGN §5 C12)
	required := new(big.Int).Add(new(big.Int).Mul(c12U(c.Amount), c12Thousand), c12U(c.FeeMsat))
	feeOK := feeSat <= 3*c12FeeEst
	chanOK := c12U(o.Spendable).Cmp(required) >= 0
	if len(o.Fee) > 0 {
		if !feeOK {
			ta.viol("fee_invoice_paid_above_3x_estimate:fee="+c.FeeName, desc(), size)
		}
		if !chanOK {
			ta.viol("fee_invoice_paid_although_channel_cannot_carry_amount_plus_fee:fee="+c.FeeName+":spendable="+c.Spend, desc(), size)
		}
		if feeOK && chanOK {
			ta.class("a:fee_paid:premium=" + pc)
			if c.FeeMsat > 3*c12FeeEst*1000 {
				ta.class("a:fee_paid_within_3x_only_at_satoshi_granularity")
			}
			if c.Spend == "required" {
				ta.class("a:fee_paid_with_spendable_exactly_amount_plus_fee")
			}
		}
	} else {
		switch {
		case !feeOK:
			ta.class("a:fee_refused:above_3x")
		case !chanOK:
			ta.class("a:fee_refused:channel_cannot_carry")
		case pc == "above_limit":
			ta.class("a:fee_refused:premium_above_limit")
		case pc == "below_minus_amount":
			ta.class("a:fee_refused:premium_below_minus_amount")
		default:
			ta.class("a:fee_refused_although_within_bounds:premium=" + pc + ":fee=" + c.FeeName)
		}
	}
	if c.Claim == "" {
		return
	}
	// claim invoice paid => premium <= limit  and  msat == (amount+premium)*1000, hence <= (amount+limit)*1000
	sum := new(big.Int).Add(c12U(c.Amount), c12I(c.Prem.V))
	exact := new(big.Int).Mul(sum, c12Thousand)
	bound := new(big.Int).Mul(new(big.Int).Add(c12U(c.Amount), limit), c12Thousand)
	invKey := "" // the invoice class names the cause only when the premium itself is acceptable
	if pc == "within_limit" {
		invKey = ":invoice=" + c.Claim
	}
	for _, p := range o.Claim {
		m := c12U(p.Msat)
		ok := true
		if pc == "above_limit" {
			ok = false
			ta.viol("claim_paid_although_premium_above_limit:role=swap_out_initiator", desc(), size)
		}
		if sum.Sign() < 0 || m.Cmp(exact) != 0 {
			ok = false
			ta.viol("claim_paid_is_not_amount_plus_premium:role=swap_out_initiator:premium_class="+pc+invKey, desc(), size)
		}
		if m.Cmp(bound) > 0 {
			ok = false
			ta.viol("outflow_exceeds_bound:role=swap_out_initiator:premium_class="+pc+invKey, desc(), size)
		}
		if ok {
			ta.class("a:claim_paid_exact:" + p.Result + ":premium_sign=" + fmt.Sprint(c12I(c.Prem.V).Sign()))
		}
	}
	if len(o.Claim) == 0 && len(o.Fee) > 0 {
		if pc == "within_limit" && c.Claim == "(amount+premium)*1000" {
			ta.class("a:claim_refused_although_exact")
		} else {
			ta.class("a:claim_refused")
		}
	}
}

// ---------------------------------------------------------------- (b) swap-in initiator

type c12InObs struct {
	RPCErr    string
	LimitSent int64
	Opens     []string // "amount=<n>" of every CreateOpeningTransaction call that reached the wallet
	OpenErr   []string
	Invoices  []uint64 // msat of claim invoices created
	State     string
	Internal  string
}

func c12RunIn(t *testing.T, ps *premium.Setting, chain string, amount uint64, rate int64, prem int64) (o c12InObs) {
	cfg := &scn.Cfg{Name: "c12b", Chain: chain, SwapType: "in", AInitiates: true, ScriptedB: true, Premium: ps}
	cfg.AWallet.Balance = c12Balance
	func() {
		defer func() {
			if r := recover(); r != nil {
				o.Internal = fmt.Sprintf("harness panic: %v", r)
			}
		}()
		synctest.Test(t, func(t *testing.T) {
			x := scn.Init(t, cfg)
			defer x.Finish()
			c12SetCapacity(x, c12Plenty)
			node.Run(func() {
				x.A.Life.Op(false)
				if _, err := x.A.Svc.SwapIn(scn.IDB, chain, scn.Scid, scn.IDA, amount, rate); err != nil {
					o.RPCErr = err.Error()
				}
			})
			sm := x.SwapOf(x.A)
			if sm == nil || o.RPCErr != "" {
				return
			}
			o.LimitSent = sm.Data.SwapInRequest.PremiumLimit
			advSend(x, mtSwapInAgree, map[string]any{"protocol_version": 7, "swap_id": sm.SwapId.String(), "pubkey": advPub(advKey), "premium": prem})
			node.Settle()
			for _, ob := range x.W.Log {
				if ob.Node != scn.IDA {
					continue
				}
				switch ob.Kind {
				case "wallet.open":
					if ob.Extra != "" {
						o.Opens = append(o.Opens, ob.Extra)
					}
					if ob.Err != "" {
						o.OpenErr = append(o.OpenErr, ob.Err)
					}
				case "ln.invoice":
					if strings.Contains(ob.Extra, "type=claim") {
						var ty string
						var msat uint64
						fmt.Sscanf(ob.Extra, "type=%s msat=%d", &ty, &msat)
						o.Invoices = append(o.Invoices, msat)
					}
				}
			}
			o.State = c12State(x)
		})
	}()
	return
}

func c12CheckIn(ta *c12Tally, chain string, amount uint64, rate int64, prem c12Named, o c12InObs) {
	limit := c12Rate(amount, rate)
	pc := c12PremClass(amount, limit, prem.V)
	desc := fmt.Sprintf("swap-in initiator, chain=%s: SwapIn(amount=%d sat, premium limit rate=%d ppm => limit %s sat, limit sent %d); crafted swap_in_agreement{premium=%d (%s)}; CreateOpeningTransaction calls=%v errors=%v; claim invoices created (msat)=%v; final state=%s",
		chain, amount, rate, limit, o.LimitSent, prem.V, prem.Name, o.Opens, o.OpenErr, o.Invoices, o.State)
	size := c12U(amount)
	if c12I(o.LimitSent).Cmp(limit) != 0 {
		ta.viol("limit_sent_differs_from_rate:role=swap_in_initiator", desc, size)
	}
	sum := new(big.Int).Add(c12U(amount), c12I(prem.V))
	bound := new(big.Int).Add(c12U(amount), limit)
	for _, e := range o.Opens {
		var v uint64
		fmt.Sscanf(e, "amount=%d", &v)
		ok := true
		if pc == "above_limit" {
			ok = false
			ta.viol("opening_locked_although_premium_above_limit:role=swap_in_initiator", desc, size)
		}
		if sum.Sign() < 0 || c12U(v).Cmp(sum) != 0 {
			ok = false
			ta.viol("opening_amount_is_not_amount_plus_premium:role=swap_in_initiator:premium_class="+pc, desc, size)
		}
		if c12U(v).Cmp(bound) > 0 {
			ok = false
			ta.viol("outflow_exceeds_bound:role=swap_in_initiator:premium_class="+pc, desc, size)
		}
		if ok {
			ta.class("b:opening_exact:premium_sign=" + fmt.Sprint(c12I(prem.V).Sign()))
		}
	}
	for _, m := range o.Invoices {
		if c12U(m).Cmp(new(big.Int).Mul(c12U(amount), c12Thousand)) != 0 {
			ta.viol("claim_invoice_created_is_not_amount:role=swap_in_initiator:premium_class="+pc, desc, size)
		} else {
			ta.class("b:claim_invoice_exactly_amount")
		}
	}
	if len(o.Opens) == 0 {
		if pc == "within_limit" {
			ta.class("b:refused_although_within_limit:premium=" + prem.Name)
		} else {
			ta.class("b:refused:premium_" + pc)
		}
	}
}

// ---------------------------------------------------------------- (c) responder

type c12RespObs struct {
	Agreement bool
	Premium   int64
	Cancel    bool
	Opens     []string
	Invoices  []uint64 // claim invoices (msat)
	FeeInv    []uint64
	State     string
	Internal  string
	Panic     string
}

func c12RunResp(t *testing.T, ps *premium.Setting, chain, typ string, amount uint64, limit int64, idx int) (o c12RespObs) {
	cfg := &scn.Cfg{Name: "c12c", Chain: chain, SwapType: typ, AInitiates: false, ScriptedB: true, Premium: ps}
	cfg.AWallet.Balance = c12Balance
	h := sha256.Sum256([]byte(fmt.Sprintf("c12c/%d", idx)))
	id := hex.EncodeToString(h[:])
	func() {
		defer func() {
			if r := recover(); r != nil {
				o.Internal = fmt.Sprintf("harness panic: %v", r)
			}
		}()
		synctest.Test(t, func(t *testing.T) {
			x := scn.Init(t, cfg)
			defer x.Finish()
			c12SetCapacity(x, c12Plenty)
			m := map[string]any{"protocol_version": 7, "swap_id": id, "scid": scn.Scid, "amount": amount, "pubkey": advPub(advKey), "acceptable_premium": limit}
			advNetAsset(x, m)
			b, _ := json.Marshal(m)
			mt := mtSwapInReq
			if typ == "out" {
				mt = mtSwapOutReq
			}
			_, p := x.A.DeliverRaw(scn.IDB, fmt.Sprintf("%x", mt), b)
			node.Settle()
			if p != nil {
				o.Panic = fmt.Sprint(p)
			}
			var feePayreq string
			for _, ob := range x.W.Log {
				if ob.Node != scn.IDA || ob.Kind != "send" || ob.SwapID != id {
					continue
				}
				switch ob.MsgType {
				case mtSwapInAgree, mtSwapOutAgree:
					var a struct {
						Premium int64 `json:"premium"`
						Payreq  string
					}
					if err := json.Unmarshal([]byte(ob.Payload), &a); err != nil {
						o.Internal = "agreement does not parse: " + err.Error()
					}
					o.Agreement, o.Premium, feePayreq = true, a.Premium, a.Payreq
				case mtCancel:
					o.Cancel = true
				}
			}
			if typ == "out" && o.Agreement && feePayreq != "" {
				// B pays the fee invoice; A (maker) then locks the funds and asks for the claim payment
				x.W.LN[scn.IDB].Pay(nil, feePayreq, scn.Scid, 0, "ln.payfee")
				node.Settle()
			}
			for _, ob := range x.W.Log {
				if ob.Node != scn.IDA {
					continue
				}
				switch ob.Kind {
				case "wallet.open":
					if ob.Extra != "" {
						o.Opens = append(o.Opens, ob.Extra)
					}
				case "ln.invoice":
					var ty string
					var msat uint64
					fmt.Sscanf(ob.Extra, "type=%s msat=%d", &ty, &msat)
					if ty == "claim" {
						o.Invoices = append(o.Invoices, msat)
					} else {
						o.FeeInv = append(o.FeeInv, msat)
					}
				}
			}
			o.State = c12State(x)
		})
	}()
	return
}

func c12CheckResp(ta *c12Tally, chain, typ string, amount uint64, rate int64, limName string, limit int64, o c12RespObs) {
	ref := c12Rate(amount, rate)
	desc := fmt.Sprintf("responder of swap_%s_request, chain=%s: peer rate=%d ppm, request{amount=%d sat, acceptable_premium=%d (%s)}; premium by the statement=%s; reply: agreement=%v premium=%d cancel=%v; fee invoices=%v opening calls=%v claim invoices=%v state=%s panic=%q",
		typ, chain, rate, amount, limit, limName, ref, o.Agreement, o.Premium, o.Cancel, o.FeeInv, o.Opens, o.Invoices, o.State, o.Panic)
	size := c12U(amount)
	role := "swap_" + typ + "_responder"
	sign := fmt.Sprint(ref.Sign())
	if o.Panic != "" {
		ta.viol("panic:role="+role, desc, size)
		return
	}
	within := ref.Cmp(c12I(limit)) <= 0
	switch {
	case o.Agreement && c12I(o.Premium).Cmp(ref) != 0:
		ta.viol("premium_charged_differs_from_rate:role="+role+":rate_sign="+fmt.Sprint(c12I(rate).Sign()), desc, size)
	case o.Agreement && !within:
		ta.viol("agreement_although_premium_above_requesters_limit:role="+role, desc, size)
	case !o.Agreement && !within && !o.Cancel:
		ta.viol("premium_above_limit_but_no_cancel:role="+role, desc, size)
	case o.Agreement:
		ta.class("c:premium_exact:" + role + ":sign=" + sign + ":" + limName)
	case !within:
		ta.class("c:cancelled_premium_above_limit:" + role)
	default:
		ta.class("c:refused_although_within_limit:" + role)
	}
	if typ != "out" || !o.Agreement {
		return
	}
	// swap-out responder = maker: fee invoice of exactly its estimate, locks exactly amount, asks exactly amount+premium
	for _, m := range o.FeeInv {
		if m != c12FeeEst*1000 {
			ta.viol("fee_invoice_created_differs_from_estimate:role="+role, desc, size)
		}
	}
	for _, e := range o.Opens {
		var v uint64
		fmt.Sscanf(e, "amount=%d", &v)
		if v != amount {
			ta.viol("opening_amount_is_not_amount:role="+role, desc, size)
		} else {
			ta.class("c:maker_locks_exactly_amount")
		}
	}
	want := new(big.Int).Mul(new(big.Int).Add(c12U(amount), ref), c12Thousand)
	for _, m := range o.Invoices {
		if c12U(m).Cmp(want) != 0 {
			ta.viol("claim_invoice_created_is_not_amount_plus_premium:role="+role+":rate_sign="+fmt.Sprint(c12I(rate).Sign()), desc, size)
		} else {
			ta.class("c:maker_asks_exactly_amount_plus_premium:sign=" + sign)
		}
	}
}

// ---------------------------------------------------------------- driver

func TestC12(t *testing.T) {
	bubbleMode()
	tier := mc.Tier()
	thorough := tier == "thorough"
	c12Wide = thorough
	rep := EnumReport{ID: "C12", Level: "model_checking", Start: time.Now(), Exhaustive: true, Outcomes: map[string]int{}}
	ta := &c12Tally{rep: &rep, classes: map[string]int{}, size: map[string]*big.Int{}, idx: map[string]int{}}
	ps := premiumSetting(t, "c12")
	amounts := []uint64{1, 100_000, 100_000_000, 1 << 32}
	limitRates := []int64{-1_000_000, 0, 1, 2000, 1_000_000}
	if thorough {
		amounts = []uint64{1, 999, 100_000, 1_000_000, 100_000_000, 1 << 32, 9_223_372_036_854, 9_223_372_036_855, 2_100_000_000_000_000, 9_223_372_036_854_775}
		limitRates = []int64{-1_000_000, -2000, -1, 0, 1, 2000, 999_999, 1_000_000}
	}
	internal := func(s string) {
		if s != "" && len(rep.Internal) < 20 {
			rep.Internal = append(rep.Internal, s)
		}
	}
	var samples []any
	// (a)
	nA1, nA2 := 0, 0
	for _, chain := range c12Chains() {
		for _, amount := range amounts {
			for _, rate := range limitRates {
				limit := c12Rate(amount, rate)
				for _, prem := range c12Premiums(amount, limit.Int64()) {
					for _, fee := range c12Fees(amount, thorough) {
						for _, spend := range []string{"required-1", "required", "plenty"} {
							c := c12OutCase{Chain: chain, Amount: amount, Rate: rate, Prem: prem, FeeName: fee.Name, FeeMsat: fee.Msat, Spend: spend}
							o := c12RunOut(t, ps, c)
							internal(o.Internal)
							if o.RPCErr != "" {
								internal("SwapOut refused in the harness: " + o.RPCErr)
								continue
							}
							nA1++
							c12CheckOut(ta, c, o)
						}
					}
					// claim stage: valid fee invoice, channel not limiting
					for _, inv := range c12ClaimInvoices(amount, limit, prem.V) {
						c := c12OutCase{Chain: chain, Amount: amount, Rate: rate, Prem: prem, FeeName: "3f*1000", FeeMsat: 3 * c12FeeEst * 1000, Spend: "plenty", Claim: inv.Name, ClaimMsa: inv.Msat}
						o := c12RunOut(t, ps, c)
						internal(o.Internal)
						if o.RPCErr != "" {
							continue
						}
						nA2++
						c12CheckOut(ta, c, o)
						if len(samples) < 2 && len(o.Claim) > 0 {
							samples = append(samples, map[string]any{"part": "a", "case": c, "observed": o})
						}
					}
				}
			}
		}
	}
	// (b)
	nB := 0
	for _, chain := range c12Chains() {
		for _, amount := range amounts {
			for _, rate := range limitRates {
				limit := c12Rate(amount, rate)
				for _, prem := range c12Premiums(amount, limit.Int64()) {
					o := c12RunIn(t, ps, chain, amount, rate, prem.V)
					internal(o.Internal)
					if o.RPCErr != "" {
						internal("SwapIn refused in the harness: " + o.RPCErr)
						continue
					}
					nB++
					c12CheckIn(ta, chain, amount, rate, prem, o)
					if len(samples) < 4 && len(o.Opens) > 0 && prem.V < 0 {
						samples = append(samples, map[string]any{"part": "b", "chain": chain, "amount": amount, "limit_rate_ppm": rate, "premium": prem, "observed": o})
					}
				}
			}
		}
	}
	// (c)
	nC := 0
	peerRates := []int64{-1_000_000, -1, 0, 1, 2000, 1_000_000}
	if thorough {
		peerRates = []int64{-1_000_000, -999_999, -2000, -1, 0, 1, 999, 2000, 999_999, 1_000_000}
	}
	for _, chain := range c12Chains() {
		for _, typ := range []string{"in", "out"} {
			asset, op := premium.BTC, premium.SwapIn
			if chain == "lbtc" {
				asset = premium.LBTC
			}
			if typ == "out" {
				op = premium.SwapOut
			}
			for _, rate := range peerRates {
				r, err := premium.NewPremiumRate(asset, op, premium.NewPPM(rate))
				if err == nil {
					err = ps.SetRate(context.Background(), scn.IDB, r)
				}
				if err != nil {
					internal("set rate: " + err.Error())
					continue
				}
				for _, amount := range amounts {
					ref := c12Rate(amount, rate)
					for _, lim := range []c12Named{{"limit=premium-1", ref.Int64() - 1}, {"limit=premium", ref.Int64()}, {"limit=premium+1", ref.Int64() + 1}} {
						o := c12RunResp(t, ps, chain, typ, amount, lim.V, nC)
						internal(o.Internal)
						nC++
						c12CheckResp(ta, chain, typ, amount, rate, lim.Name, lim.V, o)
						if len(samples) < 6 && o.Agreement && rate < 0 {
							samples = append(samples, map[string]any{"part": "c", "chain": chain, "type": typ, "amount": amount, "peer_rate_ppm": rate, "limit": lim, "observed": o})
						}
					}
				}
				_ = ps.DeleteRate(context.Background(), scn.IDB, asset, op)
			}
		}
	}
	rep.Transitions = nA1 + nA2 + nB + nC
	rep.States = len(ta.classes)
	for k, v := range ta.classes {
		rep.Outcomes[k] = v
	}
	rep.Samples = samples
	var feeNames []string
	for _, f := range c12Fees(1, thorough) {
		feeNames = append(feeNames, f.Name)
	}
	rep.Alphabets = map[string]any{
		"chains": c12Chains(), "amount_sat": amounts, "premium_limit_rate_ppm": limitRates,
		"premium_in_crafted_agreement": []string{"min_int64", "amount-2^61 (makes (amount+premium)*1000 wrap to 2*amount*1000 modulo 2^64)", "-amount-1", "-amount", "-1", "0", "limit", "limit+1", "max_int64"},
		"fee_invoice_msat":             feeNames, "own_fee_estimate_sat": []uint64{c12FeeEst},
		"channel_spendable_msat":  []string{"amount*1000+fee-1", "amount*1000+fee", "1e19"},
		"claim_invoice_msat":      []string{"(amount+premium)*1000", "(amount+premium)*1000+1", "amount*1000", "(amount+limit+1)*1000", "2*amount*1000", "((amount+premium) mod 2^64)*1000 mod 2^64"},
		"responder_peer_rate_ppm": peerRates, "requester_limit": []string{"premium-1", "premium", "premium+1"},
	}
	rep.Rule = "full grids, every execution a fresh real swap.SwapService with scripted peer: " +
		"(a) chains x amounts x limit rates x premiums x fee invoices x channel spendable {required-1, required, plenty} (fee stage), and chains x amounts x limit rates x premiums x claim-invoice menu with a valid fee invoice (claim stage: crafted opening tx of exactly `amount`, announcement, confirmation, 2 x 11 s); " +
		"(b) chains x amounts x limit rates x premiums; (c) chains x {swap-in, swap-out} x peer rates (set in the real premium.Setting) x amounts x requester limit {premium-1, premium, premium+1}, swap-out continued by paying the fee invoice. " +
		"Oracles (math/big): fee paid => floor(fee_msat/1000) <= 3*estimate and spendable >= amount*1000+fee_msat; claim paid => premium <= limit and invoice == (amount+premium)*1000 (so <= (amount+limit)*1000); opening locked => premium <= limit and amount == amount+premium; claim invoice created by the swap-in initiator == amount*1000; responder's premium == amount*rate/10^6 truncated toward zero and agreement only if <= requester's limit, else cancel; swap-out responder locks exactly amount and asks exactly (amount+premium)*1000."
	rep.Extra = map[string]any{"executions": map[string]int{"a_fee_stage": nA1, "a_claim_stage": nA2, "b": nB, "c": nC}}
	rep.Assumptions = []string{
		"the opening-fee estimate of the simulated wallet is the constant 300 sat on both chains (node.SimWallet.GetFlatOpeningTXFee is not configurable; the float conversion in `uint64(float64(fee)*3)` is exact for it), so the estimate dimension {0,1,253,10^4} of DESIGN §5 is not varied",
		"the 3x fee bound is compared at satoshi granularity (fee_msat/1000 truncated), as documented in DESIGN §5: an invoice of 3f*1000+999 msat is within the bound",
		"a payment / funding ATTEMPT outside the bound counts as a violation even where the simulated (or a real) node could not carry it out for lack of funds",
		"CLN personality of the simulated Lightning node; SimWallet does not check its balance when funding",
	}
	rep.Need = []string{
		"a:fee_paid:premium=within_limit", "a:fee_paid_within_3x_only_at_satoshi_granularity", "a:fee_paid_with_spendable_exactly_amount_plus_fee",
		"a:fee_refused:above_3x", "a:fee_refused:channel_cannot_carry", "a:fee_refused:premium_above_limit",
		"a:claim_paid_exact:succeeded:premium_sign=1", "a:claim_paid_exact:succeeded:premium_sign=-1", "a:claim_paid_exact:succeeded:premium_sign=0", "a:claim_refused",
		"b:opening_exact:premium_sign=1", "b:opening_exact:premium_sign=-1", "b:opening_exact:premium_sign=0", "b:claim_invoice_exactly_amount", "b:refused:premium_above_limit",
		"c:premium_exact:swap_in_responder:sign=1:limit=premium", "c:premium_exact:swap_out_responder:sign=-1:limit=premium", "c:premium_exact:swap_out_responder:sign=0:limit=premium+1",
		"c:cancelled_premium_above_limit:swap_in_responder", "c:cancelled_premium_above_limit:swap_out_responder",
		"c:maker_locks_exactly_amount", "c:maker_asks_exactly_amount_plus_premium:sign=1", "c:maker_asks_exactly_amount_plus_premium:sign=-1",
	}
	var cl []string
	for k := range ta.classes {
		cl = append(cl, k)
	}
	sort.Strings(cl)
	rep.Extra["verdict_classes"] = cl
	// "a responder charges exactly the premium of its configured rate for that peer": which rate the real
	// premium.Setting hands out after any sequence of rate operations and lookups is explored by C27's
	// operation-sequence search; a wrong effective rate is a wrong premium in the agreement
	rv, rcov := c12Rates()
	rep.Violations = append(rep.Violations, rv...)
	xv, xcov := c12Recovery()
	rep.Violations = append(rep.Violations, xv...)
	for k, v := range xcov {
		if k == "internal" {
			if l, ok := v.([]string); ok {
				rep.Internal = append(rep.Internal, l...)
			}
			continue
		}
		rep.Extra[k] = v
	}
	if l, ok := rcov["internal"].([]string); ok {
		rep.Internal = append(rep.Internal, l...)
		delete(rcov, "internal")
	}
	for k, v := range rcov {
		rep.Extra[k] = v
	}
	finishEnum(t, &rep)
}

func c12Rates() ([]mc.Violation, map[string]any) {
	out := fmt.Sprintf("%s/c12r-%d.json", workDir, os.Getpid())
	cmd := exec.Command(os.Args[0], "-test.run", "^TestC27$", "-test.timeout", "0")
	cmd.Env = append(os.Environ(), "VERIF_C27_EXPORT="+out)
	ob, err := cmd.CombinedOutput()
	b, rerr := os.ReadFile(out)
	cov := map[string]any{}
	if rerr != nil {
		cov["internal"] = []string{fmt.Sprintf("c12 rate sub-check failed: %v\n%s", err, tail(string(ob), 3000))}
		return nil, cov
	}
	_ = os.Remove(out)
	var rep struct {
		Violations []mc.Violation `json:"violations"`
		States     int            `json:"states"`
		Executions int            `json:"executions"`
		Internal   []string       `json:"internal"`
		Exhaustive bool           `json:"exhaustive"`
	}
	_ = json.Unmarshal(b, &rep)
	var vs []mc.Violation
	seen := map[string]bool{}
	for _, v := range rep.Violations {
		if strings.HasPrefix(v.Key, "getrate_mismatch") || strings.HasPrefix(v.Key, "premium_not_from_effective_rate") || strings.HasPrefix(v.Key, "compute_mismatch") {
			k := "responder_premium_not_from_configured_rate:" + v.Key
			if !seen[k] {
				seen[k] = true
				vs = append(vs, mc.Violation{Property: "C12", Key: k, Detail: v.Detail})
			}
		}
	}
	if len(rep.Internal) > 0 {
		cov["internal"] = rep.Internal
	}
	cov["rate_subcheck"] = map[string]any{"rule": "operation sequences on the real premium.Setting (SetRate / DeleteRate / SetDefaultRate / lookup / reopen, see C27) followed by GetRate and Compute for every (peer, asset, direction) against the persistent-map reference", "states": rep.States, "executions": rep.Executions, "exhaustive": rep.Exhaustive}
	return vs, cov
}
