//go:debug randseednop=0
package checks

import (
	"os"
	"path/filepath"
	"testing"

	"github.com/elementsproject/peerswap/log"
	"github.com/elementsproject/peerswap/premium"
	"go.etcd.io/bbolt"
	"verif/vsync"
)

type quiet struct{}

func (quiet) Infof(string, ...any)  {}
func (quiet) Debugf(string, ...any) {}

var workDir string

func TestMain(m *testing.M) {
	if os.Getenv("VERIF_LOG") == "" {
		log.SetLogger(quiet{})
	}
	d, err := os.MkdirTemp("/dev/shm", "verif-")
	if err != nil {
		d, _ = os.MkdirTemp("", "verif-")
	}
	workDir = d
	code := m.Run()
	os.RemoveAll(d)
	os.Exit(code)
}

// premiumSetting opens a real premium.Setting on a NoSync bbolt file (outside any bubble).
func premiumSetting(t testing.TB, name string) *premium.Setting {
	db, err := bbolt.Open(filepath.Join(workDir, name+".db"), 0o600, &bbolt.Options{NoSync: true, NoFreelistSync: true})
	if err != nil {
		t.Fatal(err)
	}
	ps, err := premium.NewSetting(db)
	if err != nil {
		t.Fatal(err)
	}
	return ps
}

func bubbleMode() { vsync.SetMode(vsync.Bubble) }
