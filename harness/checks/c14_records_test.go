package checks

// C14 — persisted swap records reload to identical swap data.
//
// (a) every record the real swap.SwapService persists (both nodes) in honest
//     and failing two-node histories (honest script + one deviation at every
//     position, four roles, two chains) is reloaded with the store's decoder
//     and re-encoded: byte-identical.
// (b) every exported, persisted field of swap.SwapStateMachine / swap.SwapData /
//     the message structs over its boundary alphabet, one and two fields at a
//     time, on top of real records: reload(encode(x)) equals x field by field
//     and re-encodes to the same bytes.
// (c) E3 on the real swap.NewBboltStore: every operation sequence of length ≤ 4
//     against a plain map model.

import (
	"bytes"
	"encoding/hex"
	"encoding/json"
	"errors"
	"fmt"
	"math"
	"os"
	"path/filepath"
	"reflect"
	"sort"
	"strings"
	"sync"
	"testing"
	"testing/synctest"
	"time"

	"github.com/elementsproject/peerswap/swap"
	"go.etcd.io/bbolt"

	"verif/mc"
	"verif/node"
	"verif/scn"
	"verif/vsync"
)

type c14Acc struct {
	mu  sync.Mutex
	rep *EnumReport
}

func (a *c14Acc) viol(key, detail string) {
	a.mu.Lock()
	defer a.mu.Unlock()
	if a.rep.Outcomes["VIOLATION "+key] < 3 {
		a.rep.Violations = append(a.rep.Violations, mc.Violation{Property: "C14", Key: key, Detail: detail})
	}
	a.rep.Outcomes["VIOLATION "+key]++
}
func (a *c14Acc) hit(c string, n int) {
	a.mu.Lock()
	a.rep.Outcomes[c] += n
	a.mu.Unlock()
}

// ---------------------------------------------------------------- (a) collect real records

type c14Rec struct {
	raw    string
	origin string
}

// c14Shape: the record with every value replaced by its class; state / role / type stay verbatim.
func c14Shape(raw string) string {
	var v any
	d := json.NewDecoder(strings.NewReader(raw))
	d.UseNumber()
	if err := d.Decode(&v); err != nil {
		return "undecodable"
	}
	var walk func(k string, v any) any
	walk = func(k string, v any) any {
		switch t := v.(type) {
		case map[string]any:
			o := map[string]any{}
			for kk, vv := range t {
				o[kk] = walk(kk, vv)
			}
			return o
		case string:
			if k == "current" || k == "previous" || k == "fsm_state" || k == "network" {
				return t
			}
			if t == "" {
				return "s:empty"
			}
			return "s"
		case json.Number:
			if k == "type" || k == "role" || k == "next_message_type" || k == "protocol_version" {
				return t
			}
			switch {
			case t.String() == "0":
				return "n:0"
			case strings.HasPrefix(t.String(), "-"):
				return "n:neg"
			}
			return "n"
		default:
			return t
		}
	}
	b, _ := json.Marshal(walk("", v))
	return string(b)
}

var c14Deviations = [][]mc.Event{
	nil,
	{{Name: "inject", Arg: "cancel"}},
	{{Name: "inject", Arg: "coop_bad"}},
	{{Name: "inject", Arg: "invalid"}},
	{{Name: "time", Arg: "11m"}},
	{{Name: "restart", Arg: "A"}},
	{{Name: "restart", Arg: "B"}},
	{{Name: "drop", Arg: "A"}},
	{{Name: "drop", Arg: "B"}},
	{{Name: "block", Arg: "csv"}},
	{{Name: "block", Arg: "win"}},
	c14Repeat(mc.Event{Name: "payplan", Arg: "fail", N: 1}, 15),        // claim / fee payment fails for good: coop close
	c14Repeat(mc.Event{Name: "payplan", Arg: "err-pending", N: 2}, 15), // payment calls error while the HTLC is out
	{{Name: "fault", Arg: "store.update"}},
}

func c14Repeat(e mc.Event, n int) []mc.Event {
	var out []mc.Event
	for i := 0; i < n; i++ {
		out = append(out, e)
	}
	return out
}

var c14Drain = []mc.Event{{Name: "time", Arg: "125s"}, {Name: "time", Arg: "11m"}, {Name: "block", Arg: "csv"}, {Name: "time", Arg: "11m"}, {Name: "restart", Arg: "A"}, {Name: "time", Arg: "11m"}}

func c14Collect(t *testing.T, a *c14Acc, thorough bool) []c14Rec {
	bubbleMode()
	ps := premiumSetting(t, "c14")
	var recs []c14Rec
	seen := map[string]bool{}
	runs, finalStates := 0, map[string]int{}
	var histories []string
	for _, chain := range bothChain {
		for _, role := range allRoles {
			st, ai := roleCfg(role)
			for _, lnd := range []bool{false, true} {
				if lnd && !thorough {
					continue
				}
				cfg := &scn.Cfg{Name: "c14", Chain: chain, SwapType: st, AInitiates: ai, ALnd: lnd, BLnd: !lnd && thorough, Premium: ps}
				for di, dev := range c14Deviations {
					for pos := 0; pos <= len(c21Honest); pos++ {
						if dev == nil && pos > 0 {
							continue
						}
						var h []mc.Event
						h = append(h, c21Honest[:pos]...)
						h = append(h, dev...)
						h = append(h, c21Honest[pos:]...)
						h = append(h, c14Drain...)
						name := fmt.Sprintf("%s/%s/lnd=%v: honest script with deviation #%d %v before step %d, then drain", role, chain, lnd, di, mc.HistoryString(dev[:min(len(dev), 1)]), pos)
						var internal string
						func() {
							defer func() {
								if r := recover(); r != nil {
									internal = fmt.Sprintf("harness panic in %s: %v", name, r)
								}
							}()
							synctest.Test(t, func(t *testing.T) {
								x := scn.Init(t, cfg)
								defer x.Finish()
								for _, e := range h {
									if e.Name == "fault" && x.A.Life.Dead() {
										continue
									}
									x.Apply(e)
								}
								for _, o := range x.W.Log {
									if o.Kind == "store" && !seen[o.Payload] {
										seen[o.Payload] = true
										recs = append(recs, c14Rec{raw: o.Payload, origin: fmt.Sprintf("%s; node %s, state %s", name, o.Node[:4], o.State)})
									}
								}
								for _, n := range []*node.Node{x.A, x.B} {
									if s := x.SwapOf(n); s != nil {
										finalStates[string(s.Current)]++
									}
								}
							})
						}()
						runs++
						if internal != "" {
							a.rep.Internal = append(a.rep.Internal, internal)
						}
						if len(histories) < 3 && di > 0 && pos == 3 {
							histories = append(histories, name+": "+strings.Join(mc.HistoryString(h), " "))
						}
					}
				}
			}
		}
	}
	a.rep.Extra["collect_histories_run"] = runs
	a.rep.Extra["collect_final_states_of_both_nodes"] = finalStates
	a.rep.Extra["collect_distinct_record_bytes"] = len(recs)
	for _, h := range histories {
		a.rep.Samples = append(a.rep.Samples, h)
	}
	return recs
}

// ---------------------------------------------------------------- reload

// c14Reload is what the store does with a record.
func c14Reload(b []byte) (*swap.SwapStateMachine, error) {
	sm := &swap.SwapStateMachine{}
	if err := json.Unmarshal(b, sm); err != nil {
		return nil, err
	}
	return sm, nil
}

// ---------------------------------------------------------------- (b) field paths and alphabets

// A leaf is one persisted field, addressed by its index path from SwapStateMachine.
type c14Leaf struct {
	path  string
	index [][]int // FieldByIndex steps; a new step after every pointer dereference
	typ   reflect.Type
	what  string // the statement's category
}

// c14Category maps field names to the statement's list ("messages, keys,
// preimages, heights, anchor flag, transaction ids, cancel reasons, role, type
// and state", + next message, ids and bookkeeping the record also holds).
func c14Category(path string) string {
	p := path
	switch {
	case strings.HasSuffix(p, "PrivkeyBytes") || strings.HasSuffix(p, "BlindingKeyHex"):
		return "keys"
	case strings.HasSuffix(p, "Preimage") || strings.HasSuffix(p, "ClaimPaymentHash"):
		return "preimages"
	case strings.HasSuffix(p, "StartingBlockHeight"):
		return "heights"
	case strings.HasSuffix(p, "StartingBlockHeightSet"):
		return "anchor flag"
	case strings.HasSuffix(p, "ClaimTxId") || strings.HasSuffix(p, "OpeningTxHex") || strings.HasSuffix(p, "OpeningTxFee"):
		return "transaction ids"
	case p == "Data.CancelMessage" || p == "Data.LastErrString":
		return "cancel reasons"
	case strings.HasSuffix(p, "Role"):
		return "role"
	case p == "Type":
		return "type"
	case p == "Current" || p == "Previous" || p == "Data.FSMState":
		return "state"
	case strings.HasPrefix(p, "Data.NextMessage"):
		return "next message"
	case strings.HasPrefix(p, "Data.SwapIn") || strings.HasPrefix(p, "Data.SwapOut") || strings.HasPrefix(p, "Data.OpeningTxBroadcasted") || strings.HasPrefix(p, "Data.CoopClose") || strings.HasPrefix(p, "Data.Cancel"):
		return "messages"
	}
	return "ids and bookkeeping"
}

var c14Skipped []string

// The only exported fields a record need not hold.
var c14NotPersisted = map[string]string{
	"States":           "the state table: configuration, rebuilt from role and type on load",
	"Data.LastErr":     "the Go error value; its text is held as LastErrString (cancel reason)",
	"Data.LastMessage": "interface-typed and never assigned by the code: always null",
}

func c14Leaves() []c14Leaf {
	var out []c14Leaf
	var walk func(t reflect.Type, prefix string, idx [][]int)
	walk = func(t reflect.Type, prefix string, idx [][]int) {
		for i := 0; i < t.NumField(); i++ {
			f := t.Field(i)
			name := prefix + f.Name
			if !f.IsExported() {
				continue
			}
			// which fields the record must hold is decided here, from the statement — not by the code's json tags
			if why, ok := c14NotPersisted[name]; ok {
				c14Skipped = append(c14Skipped, name+" ("+why+")")
				continue
			}
			cur := append(append([][]int{}, idx[:len(idx)-1]...), append(append([]int{}, idx[len(idx)-1]...), i))
			if f.Type.Kind() == reflect.Pointer && f.Type.Elem().Kind() == reflect.Struct {
				// a message / the data: the pointer itself (nil or not) is a leaf, and its fields
				out = append(out, c14Leaf{path: name, index: cur, typ: f.Type, what: c14Category(name)})
				walk(f.Type.Elem(), name+".", append(append([][]int{}, cur...), []int{}))
				continue
			}
			out = append(out, c14Leaf{path: name, index: cur, typ: f.Type, what: c14Category(name)})
		}
	}
	walk(reflect.TypeOf(swap.SwapStateMachine{}), "", [][]int{{}})
	return out
}

// c14Field resolves a leaf in sm; ok=false when a pointer on the way is nil.
func c14Field(sm *swap.SwapStateMachine, l c14Leaf) (reflect.Value, bool) {
	v := reflect.ValueOf(sm).Elem()
	for si, step := range l.index {
		if si > 0 {
			if v.IsNil() {
				return reflect.Value{}, false
			}
			v = v.Elem()
		}
		v = v.FieldByIndex(step)
	}
	return v, true
}

var c14LongStr = strings.Repeat("long-", 2048)

func c14TypicalMsg(t reflect.Type) reflect.Value {
	id := c21ID(0x22)
	switch t.Elem().Name() {
	case "SwapInRequestMessage":
		return reflect.ValueOf(&swap.SwapInRequestMessage{ProtocolVersion: 7, SwapId: id, Network: "regtest", Scid: "100x1x0", Amount: 1_000_000, Pubkey: c21Pubkey, PremiumLimit: 1000})
	case "SwapInAgreementMessage":
		return reflect.ValueOf(&swap.SwapInAgreementMessage{ProtocolVersion: 7, SwapId: id, Pubkey: c21Pubkey, Premium: -5})
	case "SwapOutRequestMessage":
		return reflect.ValueOf(&swap.SwapOutRequestMessage{ProtocolVersion: 7, SwapId: id, Asset: node.AssetField, Scid: "100:1:0", Amount: 1_000_000, Pubkey: c21Pubkey, PremiumLimit: 1000})
	case "SwapOutAgreementMessage":
		return reflect.ValueOf(&swap.SwapOutAgreementMessage{ProtocolVersion: 7, SwapId: id, Pubkey: c21Pubkey, Payreq: "lnbcrt1fee", Premium: 1000})
	case "OpeningTxBroadcastedMessage":
		return reflect.ValueOf(&swap.OpeningTxBroadcastedMessage{SwapId: id, Payreq: "lnbcrt1claim", TxId: strings.Repeat("ab", 32), ScriptOut: 1, BlindingKey: strings.Repeat("cd", 32)})
	case "CoopCloseMessage":
		return reflect.ValueOf(&swap.CoopCloseMessage{SwapId: id, Message: "coop", Privkey: strings.Repeat("ef", 32)})
	case "CancelMessage":
		return reflect.ValueOf(&swap.CancelMessage{SwapId: id, Message: "cancelled by peer"})
	case "SwapData":
		return reflect.ValueOf(&swap.SwapData{PeerNodeId: scn.IDB, InitiatorNodeId: scn.IDA, Role: swap.SWAPROLE_SENDER})
	}
	panic("c14: no typical value for " + t.String())
}

// c14Alphabet: boundary values of a leaf; the first entry is always "keep the base's value".
func c14Alphabet(l c14Leaf) []func(cur reflect.Value) (reflect.Value, string) {
	var out []func(reflect.Value) (reflect.Value, string)
	out = append(out, func(cur reflect.Value) (reflect.Value, string) { return cur, "unchanged" })
	lit := func(v any, name string) {
		rv := reflect.ValueOf(v).Convert(l.typ)
		out = append(out, func(reflect.Value) (reflect.Value, string) { return rv, name })
	}
	switch l.typ.Kind() {
	case reflect.String:
		lit("", "empty")
		lit(c14LongStr, "10KiB")
		lit("⚡スワップ ü\u2028\U0001F600", "unicode")
		lit("\x00\x01\n\r\t\x7f\"'\\</script>&", "control+quotes")
		if l.what == "state" {
			lit("State_SwapOutSender_AwaitTxConfirmation", "a state")
			lit("State_NoSuchState", "unknown state")
		}
	case reflect.Bool:
		lit(false, "false")
		lit(true, "true")
	case reflect.Uint8:
		lit(uint8(0), "0")
		lit(uint8(255), "255")
	case reflect.Uint32:
		lit(uint32(0), "0")
		lit(uint32(1), "1")
		lit(uint32(math.MaxUint32), "max")
	case reflect.Uint64:
		lit(uint64(0), "0")
		lit(uint64(1<<53+1), "2^53+1")
		lit(uint64(math.MaxUint64), "max")
	case reflect.Int64, reflect.Int:
		lit(int64(0), "0")
		lit(int64(-1), "-1")
		lit(int64(2), "2")
		lit(int64(math.MinInt64), "min")
		lit(int64(math.MaxInt64), "max")
	case reflect.Slice: // []byte
		lit([]byte(nil), "nil")
		lit([]byte{}, "empty")
		lit(bytes.Repeat([]byte{1}, 32), "32 bytes")
		lit(bytes.Repeat([]byte{0xff}, 1024), "1KiB of ff")
	case reflect.Pointer:
		if l.typ.Elem().Kind() == reflect.Array { // *SwapId
			out = append(out,
				func(reflect.Value) (reflect.Value, string) { return reflect.Zero(l.typ), "nil" },
				func(reflect.Value) (reflect.Value, string) { return reflect.ValueOf(c21ID(0)), "zero id" },
				func(reflect.Value) (reflect.Value, string) { return reflect.ValueOf(c21ID(0xff)), "ff id" })
		} else if l.path != "Data" {
			out = append(out,
				func(reflect.Value) (reflect.Value, string) { return reflect.Zero(l.typ), "nil" },
				func(reflect.Value) (reflect.Value, string) { return c14TypicalMsg(l.typ), "typical message" })
		}
	default:
		panic("c14: unexpected kind " + l.typ.String() + " at " + l.path)
	}
	return out
}

// c14Check encodes x as the store does, reloads, compares field by field and re-encodes.
// Returns the outcome class ("" = violation already recorded).
func c14Check(a *c14Acc, leaves []c14Leaf, x *swap.SwapStateMachine, what func() string) bool {
	b1, err := json.Marshal(x)
	if err != nil {
		a.viol("encode_error", what()+": "+err.Error())
		return false
	}
	y, err := c14Reload(b1)
	if err != nil {
		a.viol("reload_error", what()+": "+err.Error()+" record="+c14Short(string(b1)))
		return false
	}
	ok := true
	for _, l := range leaves {
		fx, okx := c14Field(x, l)
		fy, oky := c14Field(y, l)
		if okx != oky {
			a.viol("roundtrip_differs:field="+l.path[:strings.LastIndex(l.path, ".")], fmt.Sprintf("%s: %s present before=%v after=%v (%s)", what(), l.path, okx, oky, l.what))
			ok = false
			break
		}
		if !okx {
			continue
		}
		if l.typ.Kind() == reflect.Pointer && l.typ.Elem().Kind() == reflect.Struct {
			if fx.IsNil() != fy.IsNil() {
				a.viol("roundtrip_differs:field="+l.path, fmt.Sprintf("%s: %s nil before=%v after=%v (%s)", what(), l.path, fx.IsNil(), fy.IsNil(), l.what))
				ok = false
			}
			continue
		}
		if l.typ.Kind() == reflect.Slice && bytes.Equal(fx.Bytes(), fy.Bytes()) {
			continue // the only normalisation: a nil and an empty byte string are the same value
		}
		if !reflect.DeepEqual(fx.Interface(), fy.Interface()) {
			a.viol("roundtrip_differs:field="+l.path, fmt.Sprintf("%s: %s (%s) before=%s after=%s", what(), l.path, l.what, c14Short(fmt.Sprintf("%#v", fx.Interface())), c14Short(fmt.Sprintf("%#v", fy.Interface()))))
			ok = false
		}
	}
	b2, err := json.Marshal(y)
	if err != nil || !bytes.Equal(b1, b2) {
		a.viol("remarshal_differs", fmt.Sprintf("%s: first=%s second=%s err=%v", what(), c14Short(string(b1)), c14Short(string(b2)), err))
		ok = false
	}
	return ok
}

func c14Short(s string) string {
	if len(s) > 600 {
		return fmt.Sprintf("%s…(%d bytes)", s[:600], len(s))
	}
	return s
}

func c14Mutate(a *c14Acc, leaves []c14Leaf, alph [][]func(reflect.Value) (reflect.Value, string), baseRaw, origin string, pairs bool) (evals int) {
	mk := func() *swap.SwapStateMachine {
		sm, err := c14Reload([]byte(baseRaw))
		if err != nil {
			panic(err)
		}
		return sm
	}
	apply := func(sm *swap.SwapStateMachine, li, vi int) (string, bool) {
		f, ok := c14Field(sm, leaves[li])
		if !ok {
			return "", false
		}
		v, name := alph[li][vi](f)
		f.Set(v)
		return leaves[li].path + "=" + name, true
	}
	okCount := 0
	for i := range leaves {
		for vi := 1; vi < len(alph[i]); vi++ {
			sm := mk()
			d1, ok := apply(sm, i, vi)
			if !ok {
				continue
			}
			evals++
			if c14Check(a, leaves, sm, func() string { return "record [" + origin + "] with " + d1 }) {
				okCount++
			}
			if !pairs {
				continue
			}
			for j := i + 1; j < len(leaves); j++ {
				for vj := 1; vj < len(alph[j]); vj++ {
					sm := mk()
					d1, ok1 := apply(sm, i, vi)
					d2, ok2 := apply(sm, j, vj)
					if !ok1 || !ok2 {
						continue
					}
					evals++
					if c14Check(a, leaves, sm, func() string { return "record [" + origin + "] with " + d1 + ", " + d2 }) {
						okCount++
					}
				}
			}
		}
	}
	if pairs {
		a.hit("mutation:two_fields:roundtrip_identical", okCount)
	} else {
		a.hit("mutation:one_field:roundtrip_identical", okCount)
	}
	return evals
}

// ---------------------------------------------------------------- (c) bbolt store vs map model

type c14Op struct {
	kind string // U G L P R
	id   int    // U, G
	st   int    // U
	peer string // P
}

func (o c14Op) String() string {
	switch o.kind {
	case "U":
		return fmt.Sprintf("UpdateData(id%d,s%d)", o.id, o.st)
	case "G":
		return fmt.Sprintf("GetData(id%d)", o.id)
	case "L":
		return "ListAll"
	case "P":
		return "ListAllByPeer(" + o.peer[:4] + ")"
	}
	return "reopen"
}

func c14OpName(o c14Op) string {
	return map[string]string{"U": "UpdateData", "G": "GetData", "L": "ListAll", "P": "ListAllByPeer", "R": "reopen"}[o.kind]
}

type c14StoreCase struct {
	ids    [3]*swap.SwapId
	states [3]string // record JSON templates, index 1 and 2
}

func (c *c14StoreCase) record(id, st int) *swap.SwapStateMachine {
	sm, err := c14Reload([]byte(c.states[st]))
	if err != nil {
		panic(err)
	}
	sm.SwapId = c.ids[id]
	return sm
}

func c14OpenStore(path string) (*bbolt.DB, swap.Store, error) {
	db, err := bbolt.Open(path, 0o600, &bbolt.Options{NoSync: true, NoFreelistSync: true})
	if err != nil {
		return nil, nil, err
	}
	st, err := swap.NewBboltStore(db)
	if err != nil {
		db.Close()
		return nil, nil, err
	}
	return db, st, nil
}

// c14Walk explores the operation tree depth-first on one real store.  Every
// tree node executes its operation once on the real store and is compared with
// the model; before the next sibling is tried the effect of an UpdateData is
// taken back by restoring the bucket entry directly through bbolt (the store
// object holds nothing but the *bbolt.DB, so the bucket contents are its whole
// state).  Reopen is an ordinary operation.
type c14Walk struct {
	a      *c14Acc
	c      *c14StoreCase
	ops    []c14Op
	depth  int
	path   string
	db     *bbolt.DB
	st     swap.Store
	model  map[string][]byte // hex id -> record bytes
	peerOf map[string]string
	seq    []c14Op
	nodes  int
	opens  int
	fail   string // internal error
}

func (w *c14Walk) desc() string {
	var s []string
	for _, o := range w.seq {
		s = append(s, o.String())
	}
	return "fresh store; " + strings.Join(s, "; ")
}

func c14Enc(sm *swap.SwapStateMachine) string {
	b, _ := json.Marshal(sm)
	return string(b)
}

func (w *c14Walk) cmpList(op c14Op, got []*swap.SwapStateMachine, err error, want map[string][]byte) bool {
	a := w.a
	if err != nil {
		a.viol("store_model_mismatch:op="+c14OpName(op)+":error", w.desc()+": "+err.Error())
		return false
	}
	gm := map[string]string{}
	for _, sm := range got {
		if _, dup := gm[sm.SwapId.String()]; dup {
			a.viol("store_model_mismatch:op="+c14OpName(op)+":duplicate", w.desc())
			return false
		}
		gm[sm.SwapId.String()] = c14Enc(sm)
	}
	if len(gm) != len(want) {
		a.viol("store_model_mismatch:op="+c14OpName(op)+":count", fmt.Sprintf("%s: got %d records, model has %d", w.desc(), len(gm), len(want)))
		return false
	}
	for id, wv := range want {
		if gm[id] != string(wv) {
			a.viol("store_model_mismatch:op="+c14OpName(op)+":contents", fmt.Sprintf("%s: id %s got %s want %s", w.desc(), id[:8], c14Short(gm[id]), c14Short(string(wv))))
			return false
		}
	}
	return true
}

// step executes one operation and compares; returns false when the branch must not be continued.
func (w *c14Walk) step(op c14Op) bool {
	a, c := w.a, w.c
	good := true
	switch op.kind {
	case "U":
		sm := c.record(op.id, op.st)
		want, _ := json.Marshal(sm)
		if err := w.st.UpdateData(sm); err != nil {
			a.viol("store_model_mismatch:op=UpdateData:error", w.desc()+": "+err.Error())
			return false
		}
		w.model[sm.SwapId.String()] = want
		w.peerOf[sm.SwapId.String()] = sm.Data.PeerNodeId
	case "G":
		id := c.ids[op.id].String()
		got, err := w.st.GetData(id)
		want, exists := w.model[id]
		switch {
		case !exists && !errors.Is(err, swap.ErrDataNotAvailable):
			a.viol("store_model_mismatch:op=GetData:absent_id", fmt.Sprintf("%s: got %v, %v; want ErrDataNotAvailable", w.desc(), got, err))
			good = false
		case exists && (err != nil || got == nil || c14Enc(got) != string(want)):
			g := "<nil>"
			if got != nil {
				g = c14Enc(got)
			}
			a.viol("store_model_mismatch:op=GetData:contents", fmt.Sprintf("%s: err=%v got %s want %s", w.desc(), err, c14Short(g), c14Short(string(want))))
			good = false
		}
	case "L":
		got, err := w.st.ListAll()
		good = w.cmpList(op, got, err, w.model)
	case "P":
		want := map[string][]byte{}
		for id, b := range w.model {
			if w.peerOf[id] == op.peer {
				want[id] = b
			}
		}
		got, err := w.st.ListAllByPeer(op.peer)
		good = w.cmpList(op, got, err, want)
	case "R":
		if err := w.db.Close(); err != nil {
			w.fail = "close: " + err.Error()
			return false
		}
		var err error
		w.db, w.st, err = c14OpenStore(w.path)
		w.opens++
		if err != nil {
			w.fail = "reopen: " + err.Error()
			a.viol("store_model_mismatch:op=reopen:error", w.desc()+": "+err.Error())
			return false
		}
	}
	// after every operation: the bucket holds exactly the model, keyed by the 32-byte id
	raw := map[string]string{}
	var badKey string
	_ = w.db.View(func(tx *bbolt.Tx) error {
		b := tx.Bucket([]byte("swaps"))
		if b == nil {
			badKey = "bucket missing"
			return nil
		}
		return b.ForEach(func(k, v []byte) error {
			if len(k) != 32 {
				badKey = fmt.Sprintf("key of %d bytes", len(k))
			}
			raw[hex.EncodeToString(k)] = string(v)
			return nil
		})
	})
	if badKey != "" {
		a.viol("store_model_mismatch:op="+c14OpName(op)+":key_is_not_the_32_byte_id", w.desc()+": "+badKey)
		good = false
	}
	if len(raw) != len(w.model) {
		a.viol("store_model_mismatch:op="+c14OpName(op)+":bucket_count", fmt.Sprintf("%s: bucket has %d keys, model %d", w.desc(), len(raw), len(w.model)))
		good = false
	} else {
		for id, wv := range w.model {
			if raw[id] != string(wv) {
				a.viol("store_model_mismatch:op="+c14OpName(op)+":bucket_contents", fmt.Sprintf("%s: id %s bucket %s model %s", w.desc(), id[:8], c14Short(raw[id]), c14Short(string(wv))))
				good = false
				break
			}
		}
	}
	if !good {
		return false
	}
	a.hit("store:"+c14OpName(op)+":matches_model", 1)
	if op.kind == "U" && len(w.model) == 2 {
		a.hit("store:UpdateData:two_ids_coexist", 1)
	}
	if op.kind == "G" && w.model[c.ids[op.id].String()] == nil {
		a.hit("store:GetData:absent_id_reported", 1)
	}
	return true
}

// restore puts the bucket (all buckets of the file) and the model back to the given snapshot.
func (w *c14Walk) restore(model map[string][]byte, peerOf map[string]string) {
	err := w.db.Update(func(tx *bbolt.Tx) error {
		b := tx.Bucket([]byte("swaps"))
		if b == nil {
			var e error
			if b, e = tx.CreateBucket([]byte("swaps")); e != nil {
				return e
			}
		}
		var del [][]byte
		_ = b.ForEach(func(k, v []byte) error {
			if _, ok := model[hex.EncodeToString(k)]; !ok || len(k) != 32 {
				del = append(del, append([]byte{}, k...))
			}
			return nil
		})
		for _, k := range del {
			if e := b.Delete(k); e != nil {
				return e
			}
		}
		for id, v := range model {
			k, _ := hex.DecodeString(id)
			if e := b.Put(k, v); e != nil {
				return e
			}
		}
		return nil
	})
	if err != nil {
		w.fail = "restore: " + err.Error()
	}
	w.model, w.peerOf = model, peerOf
}

func (w *c14Walk) walk(d int, only *c14Op) {
	if d == w.depth || w.fail != "" {
		return
	}
	for _, op := range w.ops {
		if only != nil && op != *only {
			continue
		}
		model0, peer0 := map[string][]byte{}, map[string]string{}
		for k, v := range w.model {
			model0[k] = v
		}
		for k, v := range w.peerOf {
			peer0[k] = v
		}
		w.seq = append(w.seq, op)
		w.nodes++
		if w.step(op) {
			w.walk(d+1, nil)
		}
		w.seq = w.seq[:len(w.seq)-1]
		if w.fail != "" {
			return
		}
		if op.kind == "U" || len(w.model) != len(model0) {
			w.restore(model0, peer0)
		} else {
			w.model, w.peerOf = model0, peer0
		}
	}
}

func c14Store(a *c14Acc, early, late string, depth int) {
	const p1, p2, p3 = scn.IDB, scn.IDC, scn.IDA
	setPeer := func(raw, peer string) string {
		sm, err := c14Reload([]byte(raw))
		if err != nil {
			panic(err)
		}
		sm.Data.PeerNodeId = peer
		b, _ := json.Marshal(sm)
		return string(b)
	}
	c := &c14StoreCase{ids: [3]*swap.SwapId{c21ID(0x01), c21ID(0x02), c21ID(0x03)}}
	c.states[1] = setPeer(early, p1)
	c.states[2] = setPeer(late, p2)
	// ids: index 0 and 1 are written, index 2 is only ever read (absent)
	ops := []c14Op{
		{kind: "U", id: 0, st: 1}, {kind: "U", id: 0, st: 2}, {kind: "U", id: 1, st: 1}, {kind: "U", id: 1, st: 2},
		{kind: "G", id: 0}, {kind: "G", id: 1}, {kind: "G", id: 2},
		{kind: "L"}, {kind: "P", peer: p1}, {kind: "P", peer: p2}, {kind: "P", peer: p3}, {kind: "R"},
	}
	var names []string
	for _, o := range ops {
		names = append(names, o.String())
	}
	a.rep.Alphabets["store.ops"] = names
	a.rep.Alphabets["store.depth"] = depth
	a.rep.Alphabets["store.record_states"] = []string{fmt.Sprintf("s1 = an early real record (%d bytes, peer P1)", len(c.states[1])), fmt.Sprintf("s2 = a final real record (%d bytes, peer P2)", len(c.states[2]))}
	// one real store (its own bbolt file) per first operation; the sub-trees run in parallel
	var wg sync.WaitGroup
	var mu sync.Mutex
	nodes, opens := 0, 0
	sem := make(chan struct{}, 4)
	for i := range ops {
		wg.Add(1)
		sem <- struct{}{}
		go func(i int) {
			defer func() { <-sem; wg.Done() }()
			dir := filepath.Join(workDir, fmt.Sprintf("c14-store-%d", i))
			_ = os.MkdirAll(dir, 0o755)
			defer os.RemoveAll(dir)
			w := &c14Walk{a: a, c: c, ops: ops, depth: depth, path: filepath.Join(dir, "swaps.db"), model: map[string][]byte{}, peerOf: map[string]string{}}
			var err error
			w.db, w.st, err = c14OpenStore(w.path)
			w.opens++
			if err != nil {
				w.fail = "open: " + err.Error()
			} else {
				w.walk(0, &ops[i])
				w.db.Close()
			}
			mu.Lock()
			nodes += w.nodes
			opens += w.opens
			if w.fail != "" {
				a.rep.Internal = append(a.rep.Internal, "store: "+w.fail)
			}
			mu.Unlock()
		}(i)
	}
	wg.Wait()
	a.mu.Lock()
	a.rep.Transitions += nodes
	a.rep.Extra["store_operation_tree_nodes(= sequences of length 1..depth)"] = nodes
	a.rep.Extra["store_bbolt_opens"] = opens
	a.rep.Samples = append(a.rep.Samples, "store: e.g. fresh store; UpdateData(id0,s1); reopen; UpdateData(id1,s2); ListAllByPeer(P2) — compared with the map model after every operation")
	a.mu.Unlock()
	// information: a record without id cannot be stored (bbolt refuses the empty key)
	dir := filepath.Join(workDir, "c14-nilid")
	_ = os.MkdirAll(dir, 0o755)
	if db, st, err := c14OpenStore(filepath.Join(dir, "swaps.db")); err == nil {
		sm := c.record(0, 1)
		sm.SwapId = nil
		a.rep.Extra["store_info_UpdateData_with_nil_SwapId"] = fmt.Sprint(st.UpdateData(sm))
		db.Close()
	}
	os.RemoveAll(dir)
}

// ---------------------------------------------------------------- the check

func TestC14(t *testing.T) {
	thorough := mc.Tier() == "thorough"
	rep := EnumReport{ID: "C14", Level: "model_checking", Exhaustive: true, Start: time.Now(),
		Rule: "(a) every record persisted by either node in: honest script, and honest script with one deviation block inserted at every position, followed by a fair drain — 4 roles × 2 chains (thorough: both Lightning backends); (b) every persisted field × boundary alphabet, one field at a time on one record per distinct record shape, two fields at a time on the selected base records; (c) every sequence of 1..4 operations on the real bbolt store (operation tree walked depth-first, compared with the map model after every operation)",
		Alphabets: map[string]any{}, Outcomes: map[string]int{}, Extra: map[string]any{}}
	a := &c14Acc{rep: &rep}
	var devs []string
	for _, d := range c14Deviations {
		if len(d) == 0 {
			devs = append(devs, "none")
		} else {
			devs = append(devs, fmt.Sprintf("%s×%d", d[0], len(d)))
		}
	}
	rep.Alphabets["collect.deviation"] = devs
	rep.Alphabets["collect.honest_script"] = mc.HistoryString(c21Honest)
	rep.Alphabets["collect.drain"] = mc.HistoryString(c14Drain)

	// (a)
	phase := map[string]float64{}
	t0 := time.Now()
	recs := c14Collect(t, a, thorough)
	phase["collect_s"] = time.Since(t0).Seconds()
	t0 = time.Now()
	vsync.SetMode(vsync.Plain)
	leaves := c14Leaves()
	shapes := map[string]c14Rec{}
	var shapeOrder []string
	cancelInfo := map[string]int{}
	for _, r := range recs {
		rep.Transitions++
		sm, err := c14Reload([]byte(r.raw))
		if err != nil {
			a.viol("reload_error:real_record", r.origin+": "+err.Error()+" record="+c14Short(r.raw))
			continue
		}
		b1, err := json.Marshal(sm)
		if err != nil || string(b1) != r.raw {
			a.viol("remarshal_differs:real_record", fmt.Sprintf("%s: persisted=%s reloaded+encoded=%s err=%v", r.origin, c14Short(r.raw), c14Short(string(b1)), err))
			continue
		}
		if sm.SwapId == nil || sm.Data == nil {
			a.viol("roundtrip_differs:real_record_without_id_or_data", r.origin+": "+c14Short(r.raw))
			continue
		}
		a.hit("real_record:reload_reencode_byte_identical", 1)
		// information only: the derived accessor prefers LastErr, which the record does not hold
		if sm.Data.LastErrString != "" {
			live, _ := c14Reload([]byte(r.raw))
			live.Data.LastErr = errors.New(live.Data.LastErrString) // what the writing process had in memory
			if live.Data.GetCancelMessage() != sm.Data.GetCancelMessage() {
				cancelInfo["GetCancelMessage differs after reload (process had LastErr): state "+string(sm.Current)]++
			} else {
				cancelInfo["GetCancelMessage same after reload although LastErr is lost"]++
			}
		}
		sh := c14Shape(r.raw)
		if _, ok := shapes[sh]; !ok {
			shapes[sh] = r
			shapeOrder = append(shapeOrder, sh)
		}
	}
	rep.Extra["info_not_judged_GetCancelMessage"] = cancelInfo
	rep.Extra["distinct_record_shapes"] = len(shapes)
	rep.Extra["fields_not_enumerated"] = c14Skipped
	if len(recs) > 0 {
		rep.Samples = append(rep.Samples, "real record: "+c14Short(recs[len(recs)/2].raw))
	}

	phase["reload_real_records_s"] = time.Since(t0).Seconds()
	t0 = time.Now()
	// (b)
	alph := make([][]func(reflect.Value) (reflect.Value, string), len(leaves))
	var leafNames []string
	cats := map[string]int{}
	for i, l := range leaves {
		alph[i] = c14Alphabet(l)
		leafNames = append(leafNames, fmt.Sprintf("%s (%s, %d values)", l.path, l.what, len(alph[i])-1))
		cats[l.what]++
	}
	rep.Alphabets["mutation.fields"] = leafNames
	rep.Alphabets["mutation.string"] = []string{"empty", "10 KiB", "unicode", "control characters + quotes", "(state fields) a valid state, an unknown state"}
	rep.Alphabets["mutation.integers"] = "0, 1 / -1 / 2, 2^53+1, min, max of the field's type"
	rep.Alphabets["mutation.bytes"] = []string{"nil", "empty", "32 bytes", "1 KiB of ff"}
	rep.Alphabets["mutation.pointers"] = []string{"nil", "typical message / zero id / ff id"}
	rep.Extra["statement_categories_covered(fields)"] = cats
	for _, c := range []string{"messages", "keys", "preimages", "heights", "anchor flag", "transaction ids", "cancel reasons", "role", "type", "state", "next message"} {
		if cats[c] == 0 {
			rep.Internal = append(rep.Internal, "no field found for the statement's category "+c+" (fields renamed? update c14Category)")
		}
	}
	// a synthetic record in which every message is present, so that every nested field is reachable
	full := &swap.SwapStateMachine{SwapId: c21ID(0x33), Type: swap.SWAPTYPE_OUT, Role: swap.SWAPROLE_SENDER, Previous: "State_SwapOutSender_AwaitTxConfirmation", Current: "State_SwapOutSender_ClaimSwap"}
	full.Data = &swap.SwapData{PeerNodeId: scn.IDB, InitiatorNodeId: scn.IDA, CreatedAt: 1_700_000_000, Role: swap.SWAPROLE_SENDER, FSMState: full.Current,
		PrivkeyBytes: bytes.Repeat([]byte{7}, 32), FeePreimage: strings.Repeat("aa", 32), OpeningTxFee: 300, OpeningTxHex: "0200", StartingBlockHeight: 101, StartingBlockHeightSet: true,
		ClaimTxId: strings.Repeat("bb", 32), ClaimPaymentHash: strings.Repeat("cc", 32), ClaimPreimage: strings.Repeat("dd", 32), BlindingKeyHex: strings.Repeat("ee", 32),
		NextMessage: []byte(`{"swap_id":"x"}`), NextMessageType: 42077, CancelMessage: "reason", LastErrString: "last error"}
	for _, l := range leaves {
		if l.typ.Kind() == reflect.Pointer && l.typ.Elem().Kind() == reflect.Struct && l.path != "Data" {
			f, _ := c14Field(full, l)
			f.Set(c14TypicalMsg(l.typ))
		}
	}
	fullRaw, _ := json.Marshal(full)
	type base struct{ raw, origin string }
	singles := []base{{string(fullRaw), "synthetic: all messages present"}}
	for _, sh := range shapeOrder {
		singles = append(singles, base{shapes[sh].raw, shapes[sh].origin})
	}
	// pairs: the synthetic record + the richest real records (most bytes) of distinct final states
	var pairBases []base
	pairBases = append(pairBases, singles[0])
	byState := map[string]base{}
	for _, sh := range shapeOrder {
		r := shapes[sh]
		sm, _ := c14Reload([]byte(r.raw))
		k := fmt.Sprintf("%d/%d/%s", sm.Type, sm.Role, sm.Current)
		if cur, ok := byState[k]; !ok || len(r.raw) > len(cur.raw) {
			byState[k] = base{r.raw, r.origin}
		}
	}
	var stateKeys []string
	for k := range byState {
		stateKeys = append(stateKeys, k)
	}
	sort.Slice(stateKeys, func(i, j int) bool { return len(byState[stateKeys[i]].raw) > len(byState[stateKeys[j]].raw) })
	nPairs := 3
	if thorough {
		nPairs = 24
	}
	for _, k := range stateKeys[:min(nPairs, len(stateKeys))] {
		pairBases = append(pairBases, byState[k])
	}
	rep.Extra["mutation_one_field_bases"] = len(singles)
	rep.Extra["mutation_two_field_bases"] = len(pairBases)
	rep.Extra["mutation_two_field_bases_available(type/role/state classes)"] = len(stateKeys)
	var wg sync.WaitGroup
	var evalMu sync.Mutex
	sem := make(chan struct{}, 8)
	run := func(b base, pairs bool) {
		wg.Add(1)
		sem <- struct{}{}
		go func() {
			defer func() { <-sem; wg.Done() }()
			n := c14Mutate(a, leaves, alph, b.raw, b.origin, pairs)
			evalMu.Lock()
			rep.Transitions += n
			evalMu.Unlock()
		}()
	}
	for _, b := range singles {
		run(b, false)
	}
	for _, b := range pairBases {
		run(b, true)
	}
	wg.Wait()
	phase["mutations_s"] = time.Since(t0).Seconds()
	t0 = time.Now()

	// (c)
	if len(recs) >= 2 {
		early, late := recs[0].raw, recs[0].raw
		for _, r := range recs {
			sm, err := c14Reload([]byte(r.raw))
			if err != nil {
				continue
			}
			if sm.IsFinished() && len(r.raw) > len(late) {
				late = r.raw
			}
			if !sm.IsFinished() && len(r.raw) < len(early) {
				early = r.raw
			}
		}
		c14Store(a, early, late, 4)
	} else {
		rep.Internal = append(rep.Internal, "no records collected")
	}
	phase["store_s"] = time.Since(t0).Seconds()
	rep.Extra["phase_wall_seconds"] = phase
	rep.Extra["not_reached"] = []string{
		"records are compared as the store sees them (encode, decode); what a restarted node then does with the reloaded swap is C15/C16's subject",
		"Data.LastMessage (interface-typed) is never assigned by the code and therefore always persisted as null; not enumerated",
		"strings that are not valid UTF-8 are outside the alphabet (JSON cannot carry them)",
	}
	rep.Assumptions = append(rep.Assumptions, "the collecting histories contain same-instant races the scenario engine does not order (e.g. a restart or a 11-minute jump while messages and timers are pending), so the set of collected records / shapes varies slightly between runs; every collected record is judged, the verdict does not depend on which ones were collected")
	rep.States = len(shapes) + len(rep.Outcomes)
	rep.Need = []string{
		"real_record:reload_reencode_byte_identical", "mutation:one_field:roundtrip_identical", "mutation:two_fields:roundtrip_identical",
		"store:UpdateData:matches_model", "store:UpdateData:two_ids_coexist", "store:GetData:matches_model", "store:GetData:absent_id_reported",
		"store:ListAll:matches_model", "store:ListAllByPeer:matches_model", "store:reopen:matches_model",
	}
	finishEnum(t, &rep)
}
