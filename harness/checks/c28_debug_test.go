package checks

import (
	"fmt"
	"os"
	"path/filepath"
	"testing"
	"time"

	"verif/vsync"
)

var c28DebugSends bool

// TestC28Debug runs one hard-wired sequence and prints every message the node sent (development aid).
func TestC28Debug(t *testing.T) {
	if os.Getenv("VERIF_C28_DEBUG") == "" {
		t.Skip("debug entry point")
	}
	vsync.SetMode(vsync.Plain)
	seq := []c28Op{{Kind: "connect", Peer: 0}, {Kind: "poll", Peer: 0}, {Kind: "clock", D: 31 * time.Minute}, {Kind: "clock", D: 10 * time.Second},
		{Kind: "disconnect", Peer: 0}, {Kind: "clock", D: 40 * time.Second}, {Kind: "clock", D: 10 * time.Second, SweepFirst: true}, {Kind: "connect", Peer: 0}, {Kind: "clock", D: 10 * time.Second}}
	w := &c28Worker{dir: filepath.Join(workDir, "c28-debug")}
	c28DebugSends = true
	r := c28Exec(t, w, seq)
	fmt.Println("violations:", r.Viol, "internal:", r.Intern)
}
