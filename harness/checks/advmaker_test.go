package checks

import (
	"bytes"
	"crypto/sha256"
	"encoding/hex"
	"encoding/json"
	"fmt"
	"strings"

	"github.com/btcsuite/btcd/btcec/v2"
	"github.com/btcsuite/btcd/chaincfg/chainhash"
	"github.com/btcsuite/btcd/wire"
	"github.com/elementsproject/peerswap/onchain"
	"github.com/elementsproject/peerswap/swap"
	"verif/mc"
	"verif/node"
	"verif/scn"
	"verif/world"
)

// The scripted adversarial maker: the taker A is a real swap service; its
// peer is a menu of crafted messages, invoices and on-chain transactions.

var (
	advKey, _   = btcec.PrivKeyFromBytes(bytes.Repeat([]byte{0x33}, 32))
	advKey2, _  = btcec.PrivKeyFromBytes(bytes.Repeat([]byte{0x44}, 32))
	advBlind, _ = btcec.PrivKeyFromBytes(bytes.Repeat([]byte{0x55}, 32))
	advPre      = strings.Repeat("a1", 32)
	advPre2     = strings.Repeat("b2", 32)
	advFeePre   = strings.Repeat("c3", 32)
	advSwapID   = strings.Repeat("5a", 32)
)

const advPremium = 1000

func hashOf(preHex string) string {
	b, _ := hex.DecodeString(preHex)
	h := sha256.Sum256(b)
	return hex.EncodeToString(h[:])
}

func advPub(k *btcec.PrivateKey) string { return hex.EncodeToString(k.PubKey().SerializeCompressed()) }

type advState struct {
	agreed    bool
	opened    string // tx variant used ("" = not yet)
	announced string
	txid      string
	vout      int
	otherTx   string
	requested bool
}

func advOf(x *scn.Exec) *advState {
	if s, ok := x.Ctx["adv"].(*advState); ok {
		return s
	}
	s := &advState{}
	x.Ctx["adv"] = s
	return s
}

var advTxVariants = []string{"ok", "amount-1", "amount+1", "keys_swapped", "other_maker_key", "other_hash", "csv-1", "decoy_before", "dup", "wrong_asset", "unblindable", "explicit"}
var advAnnVariants = []string{"ok", "txid_other", "txid_nonexistent", "vout_wrong", "vout_oob", "inv_amount+1msat", "inv_amount-1sat", "inv_hash_other", "inv_cltv_max+1", "inv_cltv_neg", "bk_wrong", "bk_malformed"}

type advCfg struct {
	txVariants  []string
	annVariants []string
	cltvs       []int64 // additional invoice CLTV values offered as "cltv=<n>" announcement variants
}

func (x2 advCfg) lbtcOnly(v string) bool {
	return v == "wrong_asset" || v == "unblindable" || v == "explicit" || v == "bk_wrong" || v == "bk_malformed"
}

func advTakerPub(x *scn.Exec) string {
	sm := x.SwapOf(x.A)
	if sm == nil {
		return ""
	}
	return sm.Data.GetTakerPubkey()
}

// advAmounts: the negotiated amounts, read from the messages exchanged
// (swap-out: the maker's premium is on the invoice; swap-in: the taker's
// premium, from its own agreement, is on the opening output).
func advAmounts(x *scn.Exec) (opening, claimSat uint64) {
	if x.Cfg.SwapType == "out" {
		return scn.Amount, scn.Amount + advPremium
	}
	prem := int64(0)
	if sm := x.SwapOf(x.A); sm != nil && sm.Data.SwapInAgreement != nil {
		prem = sm.Data.SwapInAgreement.Premium
	}
	return uint64(int64(scn.Amount) + prem), scn.Amount
}

func advCSV(x *scn.Exec) uint32 { return x.CSV() }

func advMaxCltv(x *scn.Exec) int64 {
	if x.Cfg.Chain == "btc" {
		return 503
	}
	return 29
}

func advEnabled(c advCfg) func(x *scn.Exec) []mc.Event {
	return func(x *scn.Exec) []mc.Event {
		st := advOf(x)
		var out []mc.Event
		dev := func(v string) int {
			if v == "ok" {
				return 0
			}
			return 1
		}
		if x.Cfg.SwapType == "in" && !st.requested && !x.A.Life.Dead() {
			out = append(out, mc.Event{Name: "adv_request"})
		}
		// the adversary can answer once A's request / agreement is visible
		sm := x.SwapOf(x.A)
		if sm == nil {
			return out
		}
		haveTakerKey := advTakerPub(x) != ""
		if x.Cfg.SwapType == "out" && !st.agreed && sm.Data.SwapOutRequest != nil && !x.A.Life.Dead() {
			out = append(out, mc.Event{Name: "adv_agree"})
		}
		if haveTakerKey && st.opened == "" {
			for _, v := range c.txVariants {
				if c.lbtcOnly(v) && x.Cfg.Chain == "btc" {
					continue
				}
				out = append(out, mc.Event{Name: "adv_open", Arg: v, Dev: dev(v)})
			}
		}
		ready := st.opened != "" && st.announced == "" && !x.A.Life.Dead()
		if x.Cfg.SwapType == "out" {
			ready = ready && st.agreed
		}
		if ready {
			for _, v := range c.annVariants {
				if c.lbtcOnly(v) && x.Cfg.Chain == "btc" {
					continue
				}
				out = append(out, mc.Event{Name: "adv_announce", Arg: v, Dev: dev(v)})
			}
			for _, cl := range c.cltvs {
				d := 1
				if cl == advMaxCltv(x) {
					continue
				}
				out = append(out, mc.Event{Name: "adv_announce", Arg: fmt.Sprintf("cltv=%d", cl), Dev: d})
			}
		}
		if st.announced != "" && !x.A.Life.Dead() {
			if n, _ := x.Ctx["adv_re"].(int); n < 1 {
				out = append(out, mc.Event{Name: "adv_reannounce", Arg: "same", Dev: 1}, mc.Event{Name: "adv_reannounce", Arg: "other", Dev: 1})
			}
		}
		return out
	}
}

func advNetAsset(x *scn.Exec, m map[string]any) {
	if x.Cfg.Chain == "btc" {
		m["network"], m["asset"] = "regtest", ""
	} else {
		m["network"], m["asset"] = "", node.AssetField
	}
}

func advSend(x *scn.Exec, t int, m map[string]any) {
	b, _ := json.Marshal(m)
	x.DeliverTo(scn.Msg{From: scn.IDB, To: scn.IDA, Type: t, Payload: b})
}

func advSwapIDOf(x *scn.Exec) string {
	if sm := x.SwapOf(x.A); sm != nil {
		return sm.SwapId.String()
	}
	return advSwapID
}

// advBuildOpening builds and submits the opening transaction variant.
func advBuildOpening(x *scn.Exec, variant string) (txid string, vout int, other string) {
	opening, _ := advAmounts(x)
	taker, maker, hash, csv := advTakerPub(x), advPub(advKey), hashOf(advPre), advCSV(x)
	amount := opening
	switch variant {
	case "amount-1":
		amount--
	case "amount+1":
		amount++
	case "keys_swapped":
		taker, maker = maker, taker
	case "other_maker_key":
		maker = advPub(advKey2)
	case "other_hash":
		hash = hashOf(advPre2)
	case "csv-1":
		csv--
	}
	script := func(tk, mk, h string, c uint32) []byte {
		rs, err := onchain.ParamsToTxScript(&swap.OpeningParams{TakerPubkey: tk, MakerPubkey: mk, ClaimPaymentHash: h}, c)
		if err != nil {
			panic(err)
		}
		hh := sha256.Sum256(rs)
		return append([]byte{0x00, 0x20}, hh[:]...)
	}
	good := script(taker, maker, hash, csv)
	bad := script(advPub(advKey2), advPub(advKey2), hashOf(advPre2), csv)
	n, _ := x.Ctx["adv_fund"].(int)
	x.Ctx["adv_fund"] = n + 1
	prev := chainhash.HashH([]byte(fmt.Sprintf("advfunding/%d", n)))
	tx := wire.NewMsgTx(2)
	tx.AddTxIn(wire.NewTxIn(wire.NewOutPoint(&prev, 0), nil, [][]byte{{1}}))
	var annot []world.OutAnnot
	blindPub := hex.EncodeToString(advBlind.PubKey().SerializeCompressed())
	addOut := func(val uint64, pk []byte, asset, blind string) {
		tx.AddTxOut(wire.NewTxOut(int64(val), pk))
		a := world.OutAnnot{}
		if x.Cfg.Chain != "btc" {
			a.Asset, a.BlindPub = asset, blind
		}
		annot = append(annot, a)
	}
	asset, blind := node.LbtcAsset, blindPub
	switch variant {
	case "wrong_asset":
		asset = strings.Repeat("77", 32)
	case "unblindable":
		blind = advPub(advKey2)
	case "explicit":
		blind = ""
	}
	vout = 0
	switch variant {
	case "decoy_before":
		addOut(amount, bad, node.LbtcAsset, blindPub)
		addOut(amount, good, asset, blind)
		vout = 1
	case "dup":
		addOut(amount, good, asset, blind)
		addOut(amount, good, asset, blind)
	default:
		addOut(7777, bad, node.LbtcAsset, blindPub) // change-like output first
		addOut(amount, good, asset, blind)
		vout = 1
	}
	id, err := x.W.Chain(x.Cfg.Chain).Submit(world.TxHex(tx), scn.IDB, annot, "opening")
	if err != nil {
		panic(err)
	}
	// a second, unrelated transaction whose id can be announced instead
	prev2 := chainhash.HashH([]byte(fmt.Sprintf("advfunding-other/%d", n)))
	tx2 := wire.NewMsgTx(2)
	tx2.AddTxIn(wire.NewTxIn(wire.NewOutPoint(&prev2, 0), nil, [][]byte{{1}}))
	tx2.AddTxOut(wire.NewTxOut(int64(opening), bad))
	oid, _ := x.W.Chain(x.Cfg.Chain).Submit(world.TxHex(tx2), scn.IDB, []world.OutAnnot{{Asset: node.LbtcAsset, BlindPub: blindPub}}, "other")
	return id, vout, oid
}

func advInvoice(x *scn.Exec, variant string) string {
	_, claimSat := advAmounts(x)
	inv := world.Invoice{Hash: hashOf(advPre), Msat: claimSat * 1000, CLTV: advMaxCltv(x), Dest: scn.IDB}
	switch {
	case variant == "inv_amount+1msat":
		inv.Msat++
	case variant == "inv_amount-1sat":
		inv.Msat -= 1000
	case variant == "inv_hash_other":
		inv.Hash = hashOf(advPre2)
	case variant == "inv_cltv_max+1":
		inv.CLTV++
	case variant == "inv_cltv_neg":
		inv.CLTV = -1
	case strings.HasPrefix(variant, "cltv="):
		fmt.Sscanf(variant, "cltv=%d", &inv.CLTV)
	}
	return world.EncodeInvoice(inv)
}

func advApply(x *scn.Exec, e mc.Event) bool {
	st := advOf(x)
	lnB := x.W.LN[scn.IDB]
	lnB.Adversary = true
	lnB.AdvPreimages[hashOf(advPre)] = advPre
	lnB.AdvPreimages[hashOf(advPre2)] = advPre2
	lnB.AdvPreimages[hashOf(advFeePre)] = advFeePre
	switch e.Name {
	case "adv_request":
		st.requested = true
		m := map[string]any{"protocol_version": 7, "swap_id": advSwapID, "scid": scn.Scid, "amount": scn.Amount, "pubkey": advPub(advKey), "acceptable_premium": 100000}
		advNetAsset(x, m)
		advSend(x, mtSwapInReq, m)
	case "adv_agree":
		st.agreed = true
		fee := world.EncodeInvoice(world.Invoice{Hash: hashOf(advFeePre), Msat: 300_000, CLTV: 10, Dest: scn.IDB})
		advSend(x, mtSwapOutAgree, map[string]any{"protocol_version": 7, "swap_id": advSwapIDOf(x), "pubkey": advPub(advKey), "Payreq": fee, "premium": advPremium})
	case "adv_open":
		st.opened = e.Arg
		st.txid, st.vout, st.otherTx = advBuildOpening(x, e.Arg)
	case "adv_announce", "adv_reannounce":
		variant := e.Arg
		if e.Name == "adv_reannounce" {
			n, _ := x.Ctx["adv_re"].(int)
			x.Ctx["adv_re"] = n + 1
			if e.Arg == "same" {
				variant = st.announced
			} else {
				variant = "inv_hash_other"
			}
		} else {
			st.announced = variant
		}
		m := map[string]any{"swap_id": advSwapIDOf(x), "payreq": advInvoice(x, variant), "tx_id": st.txid, "script_out": st.vout, "blinding_key": ""}
		if x.Cfg.Chain != "btc" {
			m["blinding_key"] = hex.EncodeToString(advBlind.Serialize())
		}
		switch variant {
		case "txid_other":
			m["tx_id"] = st.otherTx
		case "txid_nonexistent":
			m["tx_id"] = strings.Repeat("9e", 32)
		case "vout_wrong":
			m["script_out"] = 1 - st.vout
		case "vout_oob":
			m["script_out"] = 7
		case "bk_wrong":
			m["blinding_key"] = hex.EncodeToString(advKey2.Serialize())
		case "bk_malformed":
			m["blinding_key"] = "zz"
		}
		advSend(x, mtOpening, m)
	default:
		return false
	}
	return true
}

func advKey3(x *scn.Exec) string {
	st := advOf(x)
	re, _ := x.Ctx["adv_re"].(int)
	return fmt.Sprintf("|adv agreed=%v opened=%s ann=%s req=%v re=%d", st.agreed, st.opened, st.announced, st.requested, re)
}

// ---------------------------------------------------------------- C01 oracle

// c01Truth evaluates the statement's predicate for a claim payment attempt
// recorded in o, from ground truth (chain at that instant, A's negotiated
// parameters), independently of the validators.
func c01Truth(x *scn.Exec, o world.Obs) (ok bool, why string) {
	sm := x.SwapOf(x.A)
	if sm == nil || sm.Data.OpeningTxBroadcasted == nil {
		return false, "no_announcement"
	}
	ann := sm.Data.OpeningTxBroadcasted
	opening, claimSat := advAmounts(x)
	inv, err := world.DecodeInvoice(o.Payreq)
	if err != nil {
		return false, "undecodable_invoice"
	}
	if o.Payreq != ann.Payreq {
		return false, "paid_invoice_is_not_the_announced_one"
	}
	if inv.Msat != claimSat*1000 {
		return false, "invoice_amount"
	}
	c := x.W.Chain(x.Cfg.Chain)
	ct := c.Get(ann.TxId)
	if ct == nil {
		return false, "announced_tx_unknown"
	}
	tip := o.BtcTip
	if x.Cfg.Chain != "btc" {
		tip = o.LbtcTip
	}
	if ct.Height == 0 || tip < ct.Height || tip-ct.Height+1 < c.MinConf {
		return false, "not_confirmed_deep_enough"
	}
	// the output paying exactly the amount, policy asset, to the script of
	// (taker key, negotiated maker key, hash OF THE PAID INVOICE, chain CSV)
	rs, err := onchain.ParamsToTxScript(&swap.OpeningParams{TakerPubkey: advTakerPub(x), MakerPubkey: sm.Data.GetMakerPubkey(), ClaimPaymentHash: inv.Hash}, advCSV(x))
	if err != nil {
		return false, "script_params"
	}
	h := sha256.Sum256(rs)
	want := append([]byte{0x00, 0x20}, h[:]...)
	for i, out := range ct.Msg.TxOut {
		if !bytes.Equal(out.PkScript, want) || out.Value != int64(opening) {
			continue
		}
		if x.Cfg.Chain != "btc" {
			a := ct.Annot[i]
			if a.Asset != node.LbtcAsset {
				continue
			}
			if a.BlindPub != "" {
				bk, _ := hex.DecodeString(ann.BlindingKey)
				if len(bk) != 32 {
					continue
				}
				k, _ := btcec.PrivKeyFromBytes(bk)
				if hex.EncodeToString(k.PubKey().SerializeCompressed()) != a.BlindPub {
					continue
				}
			}
		}
		return true, ""
	}
	return false, "no_output_with_amount_asset_script"
}

func oracleC01(x *scn.Exec) []mc.Violation {
	var out []mc.Violation
	st := advOf(x)
	for _, o := range x.W.Log {
		if o.Node != scn.IDA || o.Kind != "ln.payclaim" {
			continue
		}
		if o.Result == "join-pending" || o.Result == "complete" || o.Result == "already-paid" || o.Result == "in-transition" {
			continue // no new payment is created
		}
		if ok, why := c01Truth(x, o); !ok {
			out = append(out, mc.Violation{Property: "C01", Key: fmt.Sprintf("paid_without_valid_confirmed_opening:%s:tx=%s:ann=%s", why, st.opened, st.announced),
				Detail: fmt.Sprintf("role=%s chain=%s backend=%s: claim payment attempt (%s) at seq %d although: %s", x.Cfg.ARole(), x.Cfg.Chain, backend(x), o.Result, o.Seq, why)})
		}
	}
	return out
}

func advOutcome(x *scn.Exec) string {
	st := advOf(x)
	paid := "unpaid"
	for _, o := range x.W.Log {
		if o.Node == scn.IDA && o.Kind == "ln.payclaim" && o.Result == "succeeded" {
			paid = "paid"
		}
	}
	s := "-"
	if sm := x.SwapOf(x.A); sm != nil {
		s = stateSuffix(string(sm.Current))
	}
	return fmt.Sprintf("%s tx=%s ann=%s %s", paid, st.opened, st.announced, s)
}
