package checks

import (
	"encoding/json"
	"fmt"
	"strings"
	"testing"
	"time"

	"verif/mc"
	"verif/node"
	"verif/scn"
	"verif/world"
)

// C10: at most one non-terminal swap per Lightning channel, whoever initiated
// it and whichever separator the channel id was written with.

func c10Spelling(s string) string {
	if s == ":" {
		return scn.ScidL
	}
	return scn.Scid
}

func c10Enabled(x *scn.Exec) []mc.Event {
	if x.A.Life.Dead() {
		return nil
	}
	n, _ := x.Ctx["c10n"].(int)
	var out []mc.Event
	if n < 3 {
		for _, who := range []string{"rpcA", "reqB"} {
			for _, ty := range []string{"out", "in"} {
				for _, sp := range []string{"x", ":"} {
					out = append(out, mc.Event{Name: "c10", Arg: who + "|" + ty + "|" + sp})
				}
			}
		}
		// control: another channel
		out = append(out, mc.Event{Name: "c10", Arg: "rpcA|out|other"})
	}
	return out
}

func c10Busy(x *scn.Exec, norm string) bool {
	for _, sm := range x.A.Swaps() {
		if !sm.IsFinished() && world.NormScid(sm.Data.GetScid()) == norm {
			return true
		}
	}
	return false
}

func c10Apply(x *scn.Exec, e mc.Event) bool {
	if e.Name != "c10" {
		return false
	}
	n, _ := x.Ctx["c10n"].(int)
	x.Ctx["c10n"] = n + 1
	time.Sleep(time.Second) // keep timers of different swaps apart
	p := strings.Split(e.Arg, "|")
	scid := c10Spelling(p[2])
	if p[2] == "other" {
		scid = scn.Scid2
	}
	busy := c10Busy(x, world.NormScid(scid))
	which := c10Which(x, scid)
	nLog := len(x.W.Log)
	var vs []mc.Violation
	switch p[0] {
	case "rpcA":
		var err error
		node.Run(func() {
			x.A.Life.Op(false)
			if p[1] == "out" {
				_, err = x.A.Svc.SwapOut(scn.IDB, x.Cfg.Chain, scid, scn.IDA, scn.Amount, 10000)
			} else {
				_, err = x.A.Svc.SwapIn(scn.IDB, x.Cfg.Chain, scid, scn.IDA, scn.Amount, 10000)
			}
		})
		if busy && err == nil {
			vs = append(vs, mc.Violation{Property: "C10", Key: "local_initiation_on_busy_channel:" + which,
				Detail: fmt.Sprintf("Swap%s(%s) succeeded although the channel already has an active swap", p[1], scid)})
		}
	case "reqB":
		id := fmt.Sprintf("%064x", 0xb0+n)
		m := map[string]any{"protocol_version": 7, "swap_id": id, "scid": scid, "amount": scn.Amount, "pubkey": c09Pub, "acceptable_premium": 100000}
		if x.Cfg.Chain == "btc" {
			m["network"], m["asset"] = "regtest", ""
		} else {
			m["network"], m["asset"] = "", node.AssetField
		}
		b, _ := json.Marshal(m)
		t := mtSwapOutReq
		if p[1] == "in" {
			t = mtSwapInReq
		}
		x.A.DeliverRaw(scn.IDB, fmt.Sprintf("%x", t), b)
		node.Settle()
		if busy {
			gotCancel, gotAgreement := false, false
			for _, o := range x.W.Log[nLog:] {
				if o.Node == scn.IDA && o.Kind == "send" && o.SwapID == id {
					if o.MsgType == mtCancel {
						gotCancel = true
					}
					if o.MsgType == mtSwapInAgree || o.MsgType == mtSwapOutAgree {
						gotAgreement = true
					}
				}
			}
			if gotAgreement {
				vs = append(vs, mc.Violation{Property: "C10", Key: "request_on_busy_channel_agreed:" + which, Detail: fmt.Sprintf("incoming swap-%s request for %s was answered with an agreement although the channel is busy", p[1], scid)})
			} else if !gotCancel {
				vs = append(vs, mc.Violation{Property: "C10", Key: "request_on_busy_channel_not_cancelled", Detail: fmt.Sprintf("incoming swap-%s request for busy channel %s was not answered with cancel", p[1], scid)})
			}
		}
	}
	prev, _ := x.Ctx["c10v"].([]mc.Violation)
	x.Ctx["c10v"] = append(prev, vs...)
	return true
}

// c10Which describes how the existing swap and the new one spell the channel.
func c10Which(x *scn.Exec, newScid string) string {
	old := "?"
	for _, sm := range x.A.Swaps() {
		if !sm.IsFinished() && world.NormScid(sm.Data.GetScid()) == world.NormScid(newScid) {
			old = sm.Data.GetScid()
		}
	}
	sp := func(s string) string {
		if strings.Contains(s, ":") {
			return "colon"
		}
		return "x"
	}
	if sp(old) == sp(newScid) {
		return "same_spelling"
	}
	return "existing=" + sp(old) + ":new=" + sp(newScid)
}

func oracleC10(x *scn.Exec) []mc.Violation {
	v, _ := x.Ctx["c10v"].([]mc.Violation)
	out := append([]mc.Violation{}, v...)
	per := map[string][]string{}
	for _, sm := range x.A.Swaps() {
		if !sm.IsFinished() {
			k := world.NormScid(sm.Data.GetScid())
			per[k] = append(per[k], sm.Data.GetScid())
		}
	}
	for k, l := range per {
		if len(l) > 1 && k != "" {
			mixed := "same_spelling"
			for _, s := range l {
				if s != l[0] {
					mixed = "mixed_spelling"
				}
			}
			restarted := ""
			if x.A.Inc > 0 {
				restarted = ":after_restart"
			}
			out = append(out, mc.Violation{Property: "C10", Key: "two_active_swaps_on_channel:" + mixed + restarted, Detail: fmt.Sprintf("channel %s has %d non-terminal swaps: %v", k, len(l), l)})
		}
	}
	return out
}

func init() {
	register(&PropSpec{
		ID: "C10", Level: "model_checking",
		Rule: "explicit-state BFS over sequences of local initiations (SwapOut/SwapIn) and incoming requests on one channel written with 'x' or ':' (plus a second channel as control), deliveries, time-outs (swaps finishing), restarts with recovery and a store write that fails once (the next one, or the 3rd / 4th next one: in the middle of an initiation or a recovery); after every event the number of non-terminal swaps per normalised channel id is counted in the store",
		Families: func(tier string) []Family {
			var out []Family
			for _, ch := range []string{"btc", "lbtc"} {
				for _, lnd := range []bool{false, true} {
					be := "cln"
					if lnd {
						be = "lnd"
					}
					f := Family{Name: ch + "/" + be,
						Cfg:    &scn.Cfg{Chain: ch, SwapType: "out", AInitiates: true, ALnd: lnd, BLnd: !lnd, Flags: scn.Flags{Time: true, Restart: true, MaxTime: 1, Drop: false, Faults: []string{"store.update", "store.update#2", "store.update#3"}}},
						Bounds: pick(tier, mc.Bounds{MaxDepth: 5, MaxDev: 2, Budget: 80 * time.Second, NoCrash: true}, mc.Bounds{MaxDepth: 6, MaxDev: 2, Budget: 10 * time.Minute, NoCrash: true})}
					f.Cfg.ExtraEnabled, f.Cfg.ExtraApply = c10Enabled, c10Apply
					f.Cfg.ExtraKey = func(x *scn.Exec) string { n, _ := x.Ctx["c10n"].(int); return fmt.Sprintf("|c10n=%d", n) }
					out = append(out, f)
				}
			}
			return out
		},
		Oracles: []scn.Oracle{oracleC10},
		Outcome: func(x *scn.Exec) string {
			n := 0
			for _, sm := range x.A.Swaps() {
				if !sm.IsFinished() {
					n++
				}
			}
			return fmt.Sprintf("active=%d total=%d", n, len(x.A.Swaps()))
		},
		NeedOutcomes: []string{"active=1", "active=2"},
		Extra:        c10Sched,
	})
}

func TestC10(t *testing.T) { runProp(t, "C10") }
