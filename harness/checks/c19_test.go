package checks

import (
	"context"
	"errors"
	"fmt"
	"os"
	"os/exec"
	"path/filepath"
	"sort"
	"strings"
	"sync"
	"testing"
	"testing/synctest"
	"time"

	"encoding/json"

	"github.com/elementsproject/peerswap/messages"
	"github.com/elementsproject/peerswap/peersync"
	"github.com/elementsproject/peerswap/policy"
	"verif/mc"
	"verif/node"
	"verif/sched"
	"verif/scn"
	"verif/vsync"
	"verif/world"
)

// C19: the same scheduler-based exploration, built with -race.  Hand-offs
// between threads are raw pipe system calls (invisible to the detector), the
// shim locks wrap the real sync primitives, so the detector sees exactly the
// program's own happens-before edges in every explored schedule.

// e5TakerTemplates: the taker's record in AwaitTxConfirmation.
func e5TakerTemplates(t *testing.T) []e5Template {
	bubbleMode()
	ps := premiumSetting(t, "e5tpl2")
	var out []e5Template
	for _, ch := range []string{"btc"} {
		for _, role := range takers {
			st, ai := roleCfg(role)
			cfg := &scn.Cfg{Name: "tpl", Chain: ch, SwapType: st, AInitiates: ai, Premium: ps}
			synctest.Test(t, func(t *testing.T) {
				x := scn.Init(t, cfg)
				defer x.Finish()
				pre := prefixConfirmed(role)
				for _, e := range pre[:len(pre)-1] { // stop before the confirming blocks
					x.Apply(e)
				}
				sm := x.SwapOf(x.A)
				if sm == nil || sm.Data.OpeningTxBroadcasted == nil {
					t.Fatalf("taker template %s: not announced (%v)", role, curState(sm))
				}
				ot := x.W.Chain(ch).Get(sm.Data.OpeningTxBroadcasted.TxId)
				out = append(out, e5Template{Role: role, Chain: ch, SwapID: sm.SwapId.String(), Record: []byte(x.A.D.Store.Raw()[sm.SwapId.String()]), TxHex: ot.Hex, Annot: ot.Annot})
			})
		}
	}
	return out
}

func e5TakerHarness(t testing.TB, tp e5Template, withMsg, withRpc, recover bool) sched.Harness {
	name := fmt.Sprintf("taker/%s/%s/msg=%v/rpc=%v/recover=%v", tp.Role, tp.Chain, withMsg, withRpc, recover)
	return sched.Harness{Name: name, Setup: func() ([]sched.NamedFunc, func(e *sched.Exec) []string, func()) {
		w := world.New()
		lnA := w.AddLN(scn.IDA, false)
		lnB := w.AddLN(scn.IDB, true)
		for _, s := range []string{scn.Scid, scn.Scid2} {
			lnA.Channels = append(lnA.Channels, &world.Channel{Scid: s, Peer: scn.IDB, Spendable: 5_000_000_000, Receivable: 5_000_000_000})
			lnB.Channels = append(lnB.Channels, &world.Channel{Scid: s, Peer: scn.IDA, Spendable: 5_000_000_000, Receivable: 5_000_000_000})
		}
		chain := w.Chain(tp.Chain)
		if _, err := chain.Submit(tp.TxHex, scn.IDB, tp.Annot, "opening"); err != nil {
			t.Fatalf("submit: %v", err)
		}
		chain.MineQuiet(1)
		d := node.NewDurable(w, scn.IDA)
		d.Store.Records[tp.SwapID] = append([]byte{}, tp.Record...)
		d.Store.Order = []string{tp.SwapID}
		d.Store.Writes++
		wc := node.WalletCfg{Balance: 100_000_000}
		wc2 := wc
		n := node.Boot(w, node.Cfg{ID: scn.IDA, Btc: true, Lbtc: true, Premium: e5Prem, BtcCfg: &wc, LbtcCfg: &wc2}, d, 1)
		if !recover {
			n.RecoverPlain()
			sched.WaitSetupIdle()
		}
		var th []sched.NamedFunc
		if recover {
			th = append(th, sched.NamedFunc{Name: "recover", F: func() { n.RecoverPlain() }})
		}
		// the watcher reports that the payment window closed (no pay loop, which would need real time)
		th = append(th, sched.NamedFunc{Name: "txwatcher-callback", F: func() { _ = n.Svc.OnTxConfirmed(tp.SwapID, tp.TxHex, errors.New("exceeded csv limit")) }})
		if withMsg {
			h := n.Handler()
			b, _ := json.Marshal(map[string]any{"swap_id": tp.SwapID, "message": "cancel"})
			th = append(th, sched.NamedFunc{Name: "msg:cancel", F: func() { _ = h(scn.IDB, "a45f", b) }})
		}
		if withRpc {
			th = append(th, sched.NamedFunc{Name: "rpc", F: func() {
				_, _ = n.Svc.ListActiveSwaps()
				if a, err := n.Svc.GetActiveSwap(tp.SwapID); err == nil {
					_ = a.Data.GetCancelMessage()
				}
			}})
		}
		return th, nil, func() { n.Kill() }
	}}
}

func e5PolicyHarness(t testing.TB, variant string) sched.Harness {
	return sched.Harness{Name: "policy/" + variant, Setup: func() ([]sched.NamedFunc, func(e *sched.Exec) []string, func()) {
		p := filepath.Join(workDir, fmt.Sprintf("c19-pol-%d-%d.conf", os.Getpid(), c26Seq.Add(1)))
		_ = os.WriteFile(p, []byte("allowlisted_peers="+scn.IDB+"\nallow_new_swaps=true\n"), 0o600)
		pol, err := policy.CreateFromFile(p)
		if err != nil {
			t.Fatalf("policy: %v", err)
		}
		th := []sched.NamedFunc{
			{Name: "getters", F: func() {
				_ = pol.NewSwapsAllowed()
				_ = pol.IsPeerAllowed(scn.IDB)
				_ = pol.IsPeerSuspicious(scn.IDB)
				_ = pol.GetMinSwapAmountMsat()
			}},
		}
		switch variant {
		case "reload":
			th = append(th, sched.NamedFunc{Name: "reload", F: func() { _ = pol.ReloadFile() }})
		case "add":
			th = append(th, sched.NamedFunc{Name: "add", F: func() { _ = pol.AddToAllowlist(scn.IDC) }})
		case "disable":
			th = append(th, sched.NamedFunc{Name: "disable", F: func() { _ = pol.DisableSwaps() }})
		case "reload+add":
			th = append(th, sched.NamedFunc{Name: "reload", F: func() { _ = pol.ReloadFile() }}, sched.NamedFunc{Name: "add", F: func() { _ = pol.AddToAllowlist(scn.IDC) }})
		}
		return th, nil, func() { os.Remove(p) }
	}}
}

// TestE5RaceWorker explores a shard of the race-mode harnesses.
func TestE5RaceWorker(t *testing.T) {
	spec := os.Getenv("VERIF_E5R")
	if spec == "" {
		t.Skip("worker entry point")
	}
	var shard, of, bound, maxExec int
	fmt.Sscanf(spec, "%d/%d/%d/%d", &shard, &of, &bound, &maxExec)
	makerT := e5Templates(t)
	takerT := e5TakerTemplates(t)
	e5SetPremium(premiumSetting(t, "e5r"))
	sched.Install()
	world.YieldHook = sched.Yield
	world.Spawn = vsync.Go
	var hs []sched.Harness
	for _, c := range e5Cases(makerT, "quick") {
		if c.Msg == "coop_good" && c.Pay {
			continue
		}
		cc := c
		hs = append(hs, e5Harness(t, cc))
	}
	for _, tp := range takerT {
		for _, v := range [][3]bool{{true, false, false}, {true, true, false}, {false, true, false}, {true, false, true}} {
			hs = append(hs, e5TakerHarness(t, tp, v[0], v[1], v[2]))
		}
	}
	for _, v := range []string{"reload", "add", "disable", "reload+add"} {
		hs = append(hs, e5PolicyHarness(t, v))
	}
	for _, v := range []string{"poll+force", "poll+sweep", "poll+force+sweep", "poll+twice"} {
		hs = append(hs, e5PeersyncHarness(t, v))
	}
	var reps []e5Report
	for i, h := range hs {
		if i%of != shard {
			continue
		}
		if f := os.Getenv("VERIF_E5_CASE"); f != "" && !strings.Contains(h.Name, f) {
			continue
		}
		res := sched.Explore(h, bound, maxExec, func(e *sched.Exec) string { return "completed" })
		reps = append(reps, e5Report{Case: h.Name, Executions: res.Executions, MaxPoints: res.MaxPoints, Outcomes: res.Outcomes, Deadlocks: res.Deadlocks,
			Problems: res.Problems, Internal: res.Internal, Capped: res.Capped, Overflows: res.Overflows, Samples: res.SampleScheds})
	}
	b, _ := json.Marshal(reps)
	if err := os.WriteFile(os.Getenv("VERIF_E5_OUT"), b, 0o644); err != nil {
		t.Fatal(err)
	}
}

type raceReport struct {
	Key     string
	Harness bool
	Text    string
}

// stdlibFrame: the function belongs to the standard library / runtime or a
// third-party dependency (its import path's first element has no dot, or it
// is not peerswap / the harness).
func stdlibFrame(fn string) bool {
	if strings.HasPrefix(fn, "verif/") || strings.HasPrefix(fn, "github.com/elementsproject/peerswap/") {
		return false
	}
	return true
}

// accessSite maps one access stack of a race report to a stable site name.
func accessSite(frames []string) (string, bool) {
	for i, fn := range frames {
		if stdlibFrame(fn) {
			continue
		}
		if strings.HasPrefix(fn, "github.com/elementsproject/peerswap/") {
			return strings.TrimPrefix(fn, "github.com/elementsproject/peerswap/"), false
		}
		if strings.HasPrefix(fn, "verif/node.(*storeView).") {
			// the simulated store serialises the swap exactly like bboltStore does
			for _, up := range frames[i+1:] {
				if strings.HasPrefix(up, "github.com/elementsproject/peerswap/") {
					return "store(json of swap record) < " + strings.TrimPrefix(up, "github.com/elementsproject/peerswap/"), false
				}
			}
		}
		return fn, true // harness-owned
	}
	return "?", true
}

// viaUnlockedRecover: the access happens in code that SwapStateMachine.Recover
// runs directly, i.e. not inside a SendEvent called by Recover (which locks).
func viaUnlockedRecover(frames []string) bool {
	for _, fn := range frames {
		if strings.HasSuffix(fn, "(*SwapStateMachine).SendEvent") {
			return false
		}
		if strings.HasSuffix(fn, "(*SwapStateMachine).Recover") {
			return true
		}
	}
	return false
}

// raceClass names the root cause a report belongs to (known-finding classes);
// anything else is "other".
func raceClass(stacks [][]string, kinds []string, a, b string) string {
	switch {
	case viaUnlockedRecover(stacks[0]) || viaUnlockedRecover(stacks[1]):
		return "recover_runs_actions_and_store_writes_without_the_swap_lock"
	case strings.Contains(a, "(*SwapService).OnTxConfirmed") && !strings.Contains(a, "<") || strings.Contains(b, "(*SwapService).OnTxConfirmed") && !strings.Contains(b, "<"):
		return "OnTxConfirmed_writes_swap_data_outside_the_swap_lock"
	case strings.Contains(a, "(*SwapData).GetCancelMessage") || strings.Contains(b, "(*SwapData).GetCancelMessage"):
		return "rpc_layer_reads_live_swap_data_without_the_swap_lock"
	}
	return "other"
}

func parseRaceLog(text string) []raceReport {
	var out []raceReport
	for _, blk := range strings.Split(text, "==================") {
		if !strings.Contains(blk, "WARNING: DATA RACE") {
			continue
		}
		lines := strings.Split(blk, "\n")
		var stacks [][]string
		var kinds []string
		var cur []string
		in := false
		for _, l := range lines {
			tl := strings.TrimSpace(l)
			switch {
			case strings.HasPrefix(tl, "Write at") || strings.HasPrefix(tl, "Read at") || strings.HasPrefix(tl, "Previous write at") || strings.HasPrefix(tl, "Previous read at"):
				if in {
					stacks = append(stacks, cur)
				}
				cur, in = nil, true
				k := "read"
				if strings.Contains(strings.ToLower(tl), "write") {
					k = "write"
				}
				kinds = append(kinds, k)
			case tl == "" || strings.HasPrefix(tl, "Goroutine "):
				if in {
					stacks = append(stacks, cur)
					cur, in = nil, false
				}
			default:
				if in && !strings.HasPrefix(tl, "/") && !strings.HasPrefix(tl, "<") {
					fn := tl
					if i := strings.LastIndex(fn, "("); i > 0 && strings.HasSuffix(fn, ")") {
						fn = fn[:i]
					}
					// strip closure suffixes like .func1.2
					cur = append(cur, fn)
				}
			}
		}
		if in {
			stacks = append(stacks, cur)
		}
		if len(stacks) < 2 {
			continue
		}
		a, ha := accessSite(stacks[0])
		b, hb := accessSite(stacks[1])
		sa, sb := kinds[0]+" "+a, kinds[1]+" "+b
		if sb < sa {
			sa, sb = sb, sa
		}
		out = append(out, raceReport{Key: "race:" + raceClass(stacks, kinds, a, b) + ":" + sa + " | " + sb, Harness: ha || hb, Text: strings.TrimSpace(blk)})
	}
	return out
}

func TestC19(t *testing.T) {
	start := time.Now()
	bound, maxExec := 2, 250
	if mc.Tier() == "thorough" {
		bound, maxExec = 2, 4000
	}
	nw := workers()
	reps := make([][]e5Report, nw)
	errs := make([]string, nw)
	logs := make([]string, nw)
	var wg sync.WaitGroup
	for i := 0; i < nw; i++ {
		wg.Add(1)
		go func(i int) {
			defer wg.Done()
			out := fmt.Sprintf("%s/e5r-%d.json", workDir, i)
			logp := fmt.Sprintf("%s/race-%d", workDir, i)
			cmd := exec.Command(os.Args[0], "-test.run", "^TestE5RaceWorker$", "-test.timeout", "0")
			cmd.Env = append(os.Environ(), fmt.Sprintf("VERIF_E5R=%d/%d/%d/%d", i, nw, bound, maxExec), "VERIF_E5_OUT="+out, "GORACE=log_path="+logp+" halt_on_error=0 history_size=3")
			ob, err := cmd.CombinedOutput()
			b, rerr := os.ReadFile(out)
			if rerr != nil {
				errs[i] = fmt.Sprintf("worker %d failed: %v\n%s", i, err, tail(string(ob), 3000))
			} else {
				_ = json.Unmarshal(b, &reps[i])
			}
			files, _ := filepath.Glob(logp + ".*")
			for _, f := range files {
				lb, _ := os.ReadFile(f)
				logs[i] += string(lb)
			}
		}(i)
	}
	wg.Wait()
	rep := &EnumReport{ID: "C19", Level: "model_checking", Start: start, Exhaustive: true, Outcomes: map[string]int{}, Extra: map[string]any{}}
	rep.Rule = fmt.Sprintf("stateless depth-first exploration of all thread schedules with at most %d preemptions of the C18 harnesses plus {watcher failure callback || cancel message || RPC reads || RecoverSwaps} on a taker and {policy getters || ReloadFile || AddToAllowlist || DisableSwaps}, the test binary built with -race; thread hand-off through raw pipe system calls so that the detector sees only the program's own happens-before edges; oracle: zero race reports whose access sites are in peerswap code", bound)
	distinct := map[string]bool{}
	var caseSummaries []map[string]any
	raceEnabled := false
	for i, rs := range reps {
		if errs[i] != "" {
			rep.Internal = append(rep.Internal, errs[i])
		}
		for _, r := range rs {
			rep.Transitions += r.Executions
			for k, v := range r.Outcomes {
				rep.Outcomes[k] += v
				distinct[r.Case+"|"+k] = true
			}
			rep.Internal = append(rep.Internal, r.Internal...)
			if r.Capped || r.Overflows > 0 {
				rep.Exhaustive = false
			}
			caseSummaries = append(caseSummaries, map[string]any{"case": r.Case, "schedules": r.Executions, "capped": r.Capped})
			if len(rep.Samples) < 4 && len(r.Samples) > 0 {
				rep.Samples = append(rep.Samples, map[string]any{"case": r.Case, "schedule_choices": r.Samples[len(r.Samples)-1]})
			}
			for k, d := range r.Deadlocks {
				rep.Internal = append(rep.Internal, "deadlock in race mode (see C18): "+k+" "+strings.Join(d.Waiting, "; "))
			}
		}
	}
	harnessOwned := map[string]bool{}
	for _, l := range logs {
		for _, rr := range parseRaceLog(l) {
			raceEnabled = true
			if rr.Harness {
				harnessOwned[rr.Key] = true
				continue
			}
			rep.Outcomes["race_report"]++
			rep.Violations = append(rep.Violations, mc.Violation{Property: "C19", Key: rr.Key, Detail: firstLines(rr.Text, 40)})
		}
	}
	_ = raceEnabled
	var ho []string
	for k := range harnessOwned {
		ho = append(ho, k)
	}
	sort.Strings(ho)
	sort.Slice(caseSummaries, func(i, j int) bool { return caseSummaries[i]["case"].(string) < caseSummaries[j]["case"].(string) })
	rep.States = len(distinct)
	rep.Extra["cases"] = caseSummaries
	rep.Extra["preemption_bound"] = bound
	rep.Extra["max_schedules_per_case"] = maxExec
	rep.Extra["reports_on_harness_memory_ignored"] = ho
	rep.Extra["race_detector_selftest"] = raceSelfTest()
	if !raceSelfTestOK {
		rep.Internal = append(rep.Internal, "race detector self-test failed: the binary is not built with -race or the hand-off hides races")
	}
	rep.Need = []string{"completed"}
	rep.Assumptions = []string{"races that need more preemptions than the bound, or weak-memory effects below Go's happens-before, are out of reach",
		"the simulated environment adds happens-before edges only inside environment calls, each of which is preceded by a scheduling point: for every conflicting pair the bounded exploration contains the schedule in which the first thread is preempted before its next environment call",
		"the pay-retry loop (real-time ticker) and the rpc watcher's channel-based observation loop are not part of these harnesses", mc.CommonAssumptions[0]}
	finishEnum(t, rep)
}

var raceSelfTestOK bool

// raceSelfTest runs a tiny harness with a deliberate unsynchronised pair in
// a worker and expects a report: proves that detection works end to end.
func raceSelfTest() string {
	logp := fmt.Sprintf("%s/race-self", workDir)
	cmd := exec.Command(os.Args[0], "-test.run", "^TestE5RaceSelf$", "-test.timeout", "0")
	cmd.Env = append(os.Environ(), "VERIF_E5_SELF=1", "GORACE=log_path="+logp+" halt_on_error=0")
	_, _ = cmd.CombinedOutput()
	files, _ := filepath.Glob(logp + ".*")
	text := ""
	for _, f := range files {
		b, _ := os.ReadFile(f)
		text += string(b)
	}
	unsync, syncd := false, false
	for _, rr := range parseRaceLog(text) {
		if strings.Contains(rr.Key, "raceSelfUnsync") {
			unsync = true
		}
		if strings.Contains(rr.Key, "raceSelfSynced") || strings.Contains(rr.Key, "verif/sched") || strings.Contains(rr.Key, "verif/vsync") {
			syncd = true
		}
	}
	raceSelfTestOK = unsync && !syncd
	return fmt.Sprintf("unsynchronised pair reported=%v, mutex-protected pair reported=%v", unsync, syncd)
}

var raceSelfA, raceSelfB int
var raceSelfMu vsync.Mutex

//go:noinline
func raceSelfUnsync(v int) { raceSelfA += v }

//go:noinline
func raceSelfSynced(v int) { raceSelfMu.Lock(); raceSelfB += v; raceSelfMu.Unlock() }

func TestE5RaceSelf(t *testing.T) {
	if os.Getenv("VERIF_E5_SELF") == "" {
		t.Skip("self-test entry point")
	}
	sched.Install()
	h := sched.Harness{Name: "self", Setup: func() ([]sched.NamedFunc, func(e *sched.Exec) []string, func()) {
		return []sched.NamedFunc{{Name: "a", F: func() { raceSelfUnsync(1); raceSelfSynced(1) }}, {Name: "b", F: func() { raceSelfUnsync(2); raceSelfSynced(2) }}}, nil, nil
	}}
	sched.Explore(h, 2, 50, nil)
}

// e5PsLn is the Lightning port of the peer-sync harness: every call is a scheduling point.
type e5PsLn struct {
	peers []peersync.PeerID
}

func (l *e5PsLn) SendCustomMessage(context.Context, peersync.PeerID, messages.MessageType, []byte) error {
	sched.Yield("ln.send")
	return nil
}
func (l *e5PsLn) SubscribeCustomMessages(context.Context) (<-chan peersync.CustomMessage, error) {
	return make(chan peersync.CustomMessage), nil
}
func (l *e5PsLn) Stop() error { return nil }
func (l *e5PsLn) ListPeers(context.Context) ([]peersync.PeerID, error) {
	sched.Yield("ln.listpeers")
	return append([]peersync.PeerID{}, l.peers...), nil
}

// e5PeersyncHarness: the entry points of the real peersync.PeerSync that the daemons run
// concurrently - the poll ticker's pass, an operator-forced pass (RPC) and the cleanup sweep -
// against a real bbolt store with two connected peers that have no record yet.
func e5PeersyncHarness(t testing.TB, variant string) sched.Harness {
	return sched.Harness{Name: "peersync/" + variant, Setup: func() ([]sched.NamedFunc, func(e *sched.Exec) []string, func()) {
		p := filepath.Join(workDir, fmt.Sprintf("c19-ps-%d-%d.db", os.Getpid(), c26Seq.Add(1)))
		store, err := peersync.NewStore(p)
		if err != nil {
			t.Fatalf("peersync store: %v", err)
		}
		self, _ := peersync.NewPeerID(scn.IDA)
		q, _ := peersync.NewPeerID(scn.IDB)
		r, _ := peersync.NewPeerID("03" + strings.Repeat("cd", 32))
		ln := &e5PsLn{peers: []peersync.PeerID{q, r}}
		ps := peersync.NewPeerSync(self, store, ln, nil, []string{"btc", "lbtc"}, e5Prem)
		ctx := context.Background()
		var th []sched.NamedFunc
		if strings.Contains(variant, "poll") {
			th = append(th, sched.NamedFunc{Name: "poll-ticker", F: func() { ps.PollAllPeers(ctx) }})
		}
		if strings.Contains(variant, "force") {
			th = append(th, sched.NamedFunc{Name: "rpc:forcepoll", F: func() { ps.ForcePollAllPeers(ctx) }})
		}
		if strings.Contains(variant, "sweep") {
			th = append(th, sched.NamedFunc{Name: "cleanup-ticker", F: func() { _ = ps.VerifCleanupExpired(ctx) }})
		}
		if strings.Contains(variant, "twice") {
			th = append(th, sched.NamedFunc{Name: "poll-ticker-2", F: func() { ps.PollAllPeers(ctx) }})
		}
		return th, nil, func() { store.Close(); os.Remove(p) }
	}}
}
