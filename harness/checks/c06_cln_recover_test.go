package checks

import (
	"encoding/json"
	"fmt"
	"net"
	"os"
	"path/filepath"
	"strings"
	"sync"

	"github.com/elementsproject/glightning/glightning"
	"github.com/elementsproject/peerswap/clightning"
	"verif/mc"
)

// C06 sub-check (CLN adapter): "... including payments started before a crash or restart".  A
// legacy swap never creates a payment; after a restart it asks lightningd what became of the one
// it may have started (ClightningClient.RecoverClaimPayment: listsendpays, waitsendpay).  If that
// lookup says "failed" although an attempt is settled or still in flight, the state machine goes
// on to SendPrivkey and discloses the key.  The real adapter runs against a fake lightningd socket;
// enumerated: every list of 0..3 attempts over {failed, pending, complete} x what waitsendpay
// answers for a pending one.

const (
	c06Hash     = "1111111111111111111111111111111111111111111111111111111111111111"
	c06Preimage = "2222222222222222222222222222222222222222222222222222222222222222"
)

type c06Lightningd struct {
	mu       sync.Mutex
	sendpays []string // statuses in creation order
	waitOK   bool
	calls    []string
}

func (f *c06Lightningd) serve(conn net.Conn) {
	defer conn.Close()
	dec := json.NewDecoder(conn)
	for {
		var req struct {
			Id     json.RawMessage `json:"id"`
			Method string          `json:"method"`
		}
		if err := dec.Decode(&req); err != nil {
			return
		}
		f.mu.Lock()
		f.calls = append(f.calls, req.Method)
		var result any
		var rpcErr any
		switch req.Method {
		case "decode", "decodepay":
			result = map[string]any{"type": "bolt11 invoice", "valid": true, "currency": "lnbcrt", "payee": "02" + strings.Repeat("ab", 32),
				"amount_msat": 100000000, "payment_hash": c06Hash, "min_final_cltv_expiry": 20, "payment_secret": strings.Repeat("cd", 32)}
		case "listsendpays":
			var ps []map[string]any
			for i, st := range f.sendpays {
				m := map[string]any{"id": i + 1, "payment_hash": c06Hash, "status": st, "amount_msat": 100000000, "created_at": 1700000000 + i}
				if st == "complete" {
					m["payment_preimage"] = c06Preimage
				}
				ps = append(ps, m)
			}
			result = map[string]any{"payments": ps}
		case "waitsendpay":
			if f.waitOK {
				result = map[string]any{"id": 9, "payment_hash": c06Hash, "status": "complete", "payment_preimage": c06Preimage, "amount_msat": 100000000}
			} else {
				rpcErr = map[string]any{"code": 204, "message": "failed: WIRE_TEMPORARY_CHANNEL_FAILURE (injected)"}
			}
		default:
			result = map[string]any{}
		}
		f.mu.Unlock()
		m := map[string]any{"jsonrpc": "2.0", "id": req.Id}
		if rpcErr != nil {
			m["error"] = rpcErr
		} else {
			m["result"] = result
		}
		resp, _ := json.Marshal(m)
		conn.Write(append(resp, '\n', '\n'))
	}
}

func c06ClnRecover() ([]mc.Violation, map[string]any) {
	cov := map[string]any{}
	dir, err := os.MkdirTemp("", "c06cln") // unix socket paths are short
	if err != nil {
		cov["internal"] = []string{"c06 cln sub-check: " + err.Error()}
		return nil, cov
	}
	defer os.RemoveAll(dir)
	ln, err := net.Listen("unix", filepath.Join(dir, "lightning-rpc"))
	if err != nil {
		cov["internal"] = []string{"c06 cln sub-check: " + err.Error()}
		return nil, cov
	}
	defer ln.Close()
	f := &c06Lightningd{}
	go func() {
		for {
			conn, err := ln.Accept()
			if err != nil {
				return
			}
			go f.serve(conn)
		}
	}()
	gl := glightning.NewLightning()
	if err := gl.StartUp("lightning-rpc", dir); err != nil {
		cov["internal"] = []string{"c06 cln sub-check: connect: " + err.Error()}
		return nil, cov
	}
	defer gl.Shutdown()
	cl := clightning.VerifNewClient(gl)

	statuses := []string{"failed", "pending", "complete"}
	var lists [][]string
	lists = append(lists, nil)
	for n := 1; n <= 3; n++ {
		idx := make([]int, n)
		for {
			l := make([]string, n)
			for i, v := range idx {
				l[i] = statuses[v]
			}
			lists = append(lists, l)
			k := n - 1
			for k >= 0 {
				idx[k]++
				if idx[k] < len(statuses) {
					break
				}
				idx[k] = 0
				k--
			}
			if k < 0 {
				break
			}
		}
	}
	var vs []mc.Violation
	seen := map[string]bool{}
	outcomes := map[string]int{}
	cases := 0
	for _, l := range lists {
		for _, waitOK := range []bool{true, false} {
			cases++
			f.mu.Lock()
			f.sendpays, f.waitOK, f.calls = l, waitOK, nil
			f.mu.Unlock()
			pre, err := cl.RecoverClaimPayment("lnbcrt1claim")
			hasComplete, hasPending := false, false
			for _, s := range l {
				hasComplete = hasComplete || s == "complete"
				hasPending = hasPending || s == "pending"
			}
			// reference, from the statement: a settled attempt => its preimage; else an attempt in flight => its
			// outcome, whatever it turns out to be; else (none / all failed) => an error, nothing else may be concluded
			want := "error"
			switch {
			case hasComplete:
				want = "preimage"
			case hasPending && waitOK:
				want = "preimage"
			}
			got := "error"
			if err == nil && pre == c06Preimage {
				got = "preimage"
			} else if err == nil {
				got = "other:" + pre
			}
			first := "none"
			if len(l) > 0 {
				first = l[0]
			}
			class := fmt.Sprintf("settled=%v:inflight=%v:first_attempt=%s", hasComplete, hasPending, first)
			outcomes[fmt.Sprintf("%s:want=%s:got=%s", class, want, got)]++
			if got != want {
				key := fmt.Sprintf("legacy_recovery_misjudges_existing_payment:backend=cln:%s:says=%s", class, got)
				if !seen[key] {
					seen[key] = true
					vs = append(vs, mc.Violation{Property: "C06", Key: key,
						Detail: fmt.Sprintf("listsendpays answers %v (waitsendpay would %s): RecoverClaimPayment returned (%q, %v); the statement needs %s - an error here sends a taker whose claim payment is settled or in flight on to SendPrivkey", l, map[bool]string{true: "settle", false: "fail"}[waitOK], pre, err, want)})
				}
			}
		}
	}
	cov["cln_recover_subcheck"] = map[string]any{"rule": "real clightning.ClightningClient.RecoverClaimPayment over a fake lightningd unix socket: every list of 0..3 sendpay attempts over {failed, pending, complete} x waitsendpay {settles, fails}", "cases": cases, "verdict_classes": outcomes}
	return vs, cov
}
