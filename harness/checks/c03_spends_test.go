package checks

// C03 - claim, coop and CSV-refund transactions the node builds are valid and
// pay it.  Bounded-exhaustive enumeration of opening transactions x amounts x
// spending paths x fee answers x secrets through the REAL wallet adapters
// (lnd.Client over fake gRPC clients; onchain.LiquidOnChain over a fake
// wallet.Wallet building real confidential transactions); every transaction
// handed to the (fake) node for broadcast is judged by consensus rules.

import (
	"bytes"
	"encoding/hex"
	"fmt"
	"sort"
	"strings"
	"sync"
	"testing"
	"time"

	"github.com/btcsuite/btcd/btcec/v2"
	"github.com/btcsuite/btcd/btcutil"
	"github.com/btcsuite/btcd/chaincfg"
	"github.com/btcsuite/btcd/txscript"
	"github.com/btcsuite/btcd/wire"
	"github.com/elementsproject/peerswap/swap"
	"verif/mc"
	"verif/vsync"
	"verif/world"
)

func c03MustHex(s string) []byte {
	b, err := hex.DecodeString(s)
	if err != nil {
		panic(err)
	}
	return b
}

// c03Acc collects outcomes, violations and information (goroutine safe).
type c03Acc struct {
	mu       sync.Mutex
	outcomes map[string]int
	viol     []mc.Violation
	vseen    map[string]bool
	internal []string
	samples  []any
	trans    int
	info     map[string]any
	infoCnt  map[string]int
}

func newC03Acc() *c03Acc {
	return &c03Acc{outcomes: map[string]int{}, vseen: map[string]bool{}, info: map[string]any{}, infoCnt: map[string]int{}}
}

func (a *c03Acc) out(class string) { a.mu.Lock(); a.outcomes[class]++; a.mu.Unlock() }
func (a *c03Acc) step(n int)       { a.mu.Lock(); a.trans += n; a.mu.Unlock() }
func (a *c03Acc) note(k string)    { a.mu.Lock(); a.infoCnt[k]++; a.mu.Unlock() }
func (a *c03Acc) noteOnce(k string, v any) {
	a.mu.Lock()
	if _, ok := a.info[k]; !ok {
		a.info[k] = v
	}
	a.mu.Unlock()
}
func (a *c03Acc) sample(v any) {
	a.mu.Lock()
	if len(a.samples) < 10 {
		a.samples = append(a.samples, v)
	}
	a.mu.Unlock()
}
func (a *c03Acc) fail(prop, key, detail string) {
	a.mu.Lock()
	defer a.mu.Unlock()
	a.outcomes["VIOLATION:"+prop+":"+key]++
	if a.vseen[prop+"|"+key] {
		return
	}
	a.vseen[prop+"|"+key] = true
	a.viol = append(a.viol, mc.Violation{Property: prop, Key: key, Detail: detail})
}
func (a *c03Acc) bug(msg string) {
	a.mu.Lock()
	if len(a.internal) < 20 {
		a.internal = append(a.internal, msg)
	}
	a.mu.Unlock()
}

// ---------------------------------------------------------------- Bitcoin

var (
	c03Amounts    = []uint64{1000, 1_000_000, 2_100_000_000_000_000}
	c03BtcLayouts = []string{"S", "SC", "CS", "SCC", "CSC", "CCS", "SE", "ES", "CES", "SD", "DS", "DCS"}
	c03Paths      = []string{"preimage", "coop", "csv"}
)

func c03Secrets(path string) []string {
	switch path {
	case "preimage":
		return []string{"right", "wrong_preimage"}
	case "coop":
		return []string{"right", "wrong_taker_key"}
	}
	return []string{"right", "wrong_maker_key"}
}

type c03BtcOpening struct {
	fund     c03Fund
	amount   uint64
	params   swap.OpeningParams
	hex      string
	tx       *wire.MsgTx
	trueIdx  int
	vout     uint32
	taker    *btcec.PrivateKey
	maker    *btcec.PrivateKey
	preHex   string
	excluded bool
}

func (o *c03BtcOpening) String() string {
	return fmt.Sprintf("opening{btc layout=%s inputs=%d amount=%d swap_output_index=%d}", o.fund.Layout, o.fund.NIn, o.amount, o.trueIdx)
}

// c03BtcOpen drives the real adapter's CreateOpeningTransaction.
func c03BtcOpen(rig *c03LndRig, acc *c03Acc, fund c03Fund, amount uint64, seed string) *c03BtcOpening {
	o := &c03BtcOpening{fund: fund, amount: amount, taker: c03Key(seed + "/taker"), maker: c03Key(seed + "/maker")}
	var hashHex string
	o.preHex, hashHex = c03Preimage(seed)
	o.params = swap.OpeningParams{TakerPubkey: c03Pub(o.taker), MakerPubkey: c03Pub(o.maker), ClaimPaymentHash: hashHex, Amount: amount, CSV: 1008}
	rig.wk.mu.Lock()
	rig.wk.fund = fund
	rig.wk.mu.Unlock()
	rig.est.set("253")
	rig.wk.takePublished()
	p := o.params
	rawHex, _, txid, _, vout, err := rig.client.CreateOpeningTransaction(&p)
	acc.step(1)
	if err != nil {
		acc.bug(fmt.Sprintf("btc CreateOpeningTransaction(%s, %d): %v", fund, amount, err))
		return nil
	}
	pubs := rig.wk.takePublished()
	if len(pubs) != 1 || hex.EncodeToString(pubs[0]) != rawHex {
		acc.bug(fmt.Sprintf("btc opening: %d transactions published / hex differs", len(pubs)))
		return nil
	}
	tx, err := c03ParseBtc(pubs[0])
	if err != nil || tx.TxHash().String() != txid {
		acc.bug(fmt.Sprintf("btc opening: unparsable or txid differs: %v", err))
		return nil
	}
	o.hex, o.tx, o.vout = rawHex, tx, vout
	want := c03P2wsh(c03RefScript(o.taker.PubKey().SerializeCompressed(), o.maker.PubKey().SerializeCompressed(), c03MustHex(hashHex), 1008))
	if code, err := rig.client.GetOutputScript(&p); err != nil || !bytes.Equal(code, want) {
		acc.bug(fmt.Sprintf("btc opening: reference script differs from the code's script (err=%v)", err))
		return nil
	}
	o.trueIdx = -1
	for i, out := range tx.TxOut {
		if bytes.Equal(out.PkScript, want) && out.Value == int64(amount) {
			if o.trueIdx >= 0 {
				acc.bug("btc opening: two swap outputs")
			}
			o.trueIdx = i
		}
	}
	if o.trueIdx != fund.swapIndex() {
		acc.bug(fmt.Sprintf("btc opening: swap output at %d, scenario says %d", o.trueIdx, fund.swapIndex()))
		return nil
	}
	ok, verr := rig.chain.ValidateTx(&p, rawHex)
	if !ok {
		// outside the quantifier of C03 ("opening transactions the validator accepts")
		o.excluded = true
		acc.note(fmt.Sprintf("btc:valid_opening_rejected_by_validator:layout=%s", fund.Layout))
		_ = verr
	}
	return o
}

// c03ChainVerdict submits opening (unconfirmed inputs are not modelled) and,
// after confs confirmations of the opening, the spend to a fresh simulated
// chain (world.Chain.Submit: btcd engine with standard flags, BIP68, value
// conservation).
func c03ChainVerdict(openingHex, spendHex string, confs int) error {
	w := world.New()
	if _, err := w.Btc.Submit(openingHex, "maker", nil, "opening"); err != nil {
		return fmt.Errorf("INTERNAL opening refused: %v", err)
	}
	if confs > 0 {
		w.Btc.MineQuiet(confs)
	}
	_, err := w.Btc.Submit(spendHex, "spender", nil, "spend")
	return err
}

func c03Engine(spend *wire.MsgTx, prev *wire.TxOut) error {
	fetcher := txscript.NewCannedPrevOutputFetcher(prev.PkScript, prev.Value)
	hashes := txscript.NewTxSigHashes(spend, fetcher)
	vm, err := txscript.NewEngine(prev.PkScript, spend, 0, txscript.StandardVerifyFlags, nil, hashes, prev.Value, fetcher)
	if err != nil {
		return err
	}
	return vm.Execute()
}

func c03ErrClass(err error) string {
	if err == nil {
		return "accepted"
	}
	s := err.Error()
	switch {
	case strings.Contains(s, "non-BIP68-final"):
		return "non-BIP68-final"
	case strings.Contains(s, "bad-txns-vout-negative"):
		return "negative-output"
	case strings.Contains(s, "bad-txns-in-belowout"):
		return "in-below-out"
	case strings.Contains(s, "mandatory-script-verify-flag-failed"):
		return "script"
	}
	return "other"
}

type c03BtcCase struct {
	o      *c03BtcOpening
	path   string
	fee    string
	secret string
}

func (c c03BtcCase) String() string {
	return fmt.Sprintf("%s path=%s fee_answer=%s secrets=%s", c.o, c.path, c.fee, c.secret)
}

// c03BtcSpend runs one spend through the real adapter and judges it.
func c03BtcSpend(rig *c03LndRig, acc *c03Acc, c c03BtcCase, judge bool) {
	o := c.o
	rig.est.set(c.fee)
	mark := rig.ln.mark()
	rig.wk.takePublished()
	p := o.params
	claim := &swap.ClaimParams{OpeningTxHex: o.hex}
	wrongKey := c03Key("wrong")
	var txid, txHex, addr string
	var err error
	switch c.path {
	case "preimage":
		claim.Signer = c03Signer(o.taker)
		claim.Preimage = o.preHex
		if c.secret == "wrong_preimage" {
			b := c03MustHex(o.preHex)
			b[31] ^= 0x80
			claim.Preimage = hex.EncodeToString(b)
		}
		txid, txHex, addr, err = rig.client.CreatePreimageSpendingTransaction(&p, claim)
	case "csv":
		claim.Signer = c03Signer(o.maker)
		if c.secret == "wrong_maker_key" {
			claim.Signer = c03Signer(wrongKey)
		}
		txid, txHex, addr, err = rig.client.CreateCsvSpendingTransaction(&p, claim)
	case "coop":
		claim.Signer = c03Signer(o.maker)
		ts := c03Signer(o.taker)
		if c.secret == "wrong_taker_key" {
			ts = c03Signer(wrongKey)
		}
		txid, txHex, addr, err = rig.client.CreateCoopSpendingTransaction(&p, claim, ts)
	}
	acc.step(1)
	pubs := rig.wk.takePublished()
	handed := rig.ln.handedSince(mark)
	tag := "chain=btc:path=" + c.path
	bound := c03FeeBound(c.fee)
	feasible := int64(o.amount) > bound
	if !judge {
		// information only (opening outside the quantifier)
		verdict := "no_tx"
		if err == nil && len(pubs) == 1 {
			confs := 0
			if c.path == "csv" {
				confs = 1008
			}
			verdict = c03ErrClass(c03ChainVerdict(o.hex, hex.EncodeToString(pubs[0]), confs))
			if tx, e := c03ParseBtc(pubs[0]); e == nil && len(tx.TxIn) == 1 {
				verdict += fmt.Sprintf(":spends_index=%d(swap_output_is_%d)", tx.TxIn[0].PreviousOutPoint.Index, o.trueIdx)
			}
		}
		acc.note(fmt.Sprintf("btc:excluded_opening:layout=%s:path=%s:%s", o.fund.Layout, c.path, verdict))
		acc.out("btc:excluded:validator_rejects_opening")
		return
	}
	if err != nil {
		if feasible {
			acc.fail("C03", "no_transaction_built:"+tag, fmt.Sprintf("%s: adapter error %v", c, err))
		} else {
			acc.out("btc:infeasible_amount_le_fee:error")
		}
		return
	}
	if len(pubs) != 1 {
		acc.fail("C03", "publish_count:"+tag, fmt.Sprintf("%s: %d transactions handed to PublishTransaction", c, len(pubs)))
		return
	}
	tx, perr := c03ParseBtc(pubs[0])
	if perr != nil {
		acc.fail("C03", "published_tx_unparsable:"+tag, fmt.Sprintf("%s: %v", c, perr))
		return
	}
	if tx.TxHash().String() != txid || hex.EncodeToString(pubs[0]) != txHex {
		acc.fail("C03", "returned_tx_differs_from_published:"+tag, fmt.Sprintf("%s: returned txid %s, published %s", c, txid, tx.TxHash()))
	}
	if len(tx.TxIn) != 1 || tx.TxIn[0].PreviousOutPoint.Hash != o.tx.TxHash() || int(tx.TxIn[0].PreviousOutPoint.Index) != o.trueIdx {
		acc.fail("C03", "spends_wrong_outpoint:"+tag, fmt.Sprintf("%s: inputs %v, want %s:%d", c, tx.TxIn[0].PreviousOutPoint, o.tx.TxHash(), o.trueIdx))
		return
	}
	if len(tx.TxOut) != 1 {
		acc.fail("C03", "outputs_not_single:"+tag, fmt.Sprintf("%s: %d outputs", c, len(tx.TxOut)))
		return
	}
	paysOwn := false
	for _, h := range handed {
		a, e := btcutil.DecodeAddress(h, &chaincfg.RegressionNetParams)
		if e != nil {
			continue
		}
		if s, e := txscript.PayToAddrScript(a); e == nil && bytes.Equal(s, tx.TxOut[0].PkScript) {
			paysOwn = true
		}
	}
	if !paysOwn {
		acc.fail("C03", "pays_foreign_address:"+tag, fmt.Sprintf("%s: output script %x is not of an address handed out in this call %v", c, tx.TxOut[0].PkScript, handed))
	}
	if addr == "" || !strings.Contains(strings.Join(handed, ","), addr) {
		acc.note("btc:returned_address_not_the_paid_one:path=" + c.path)
	}
	prev := o.tx.TxOut[o.trueIdx]
	out := tx.TxOut[0].Value
	fee := prev.Value - out
	if fee > bound {
		acc.fail("C03", "fee_exceeds_bound:"+tag, fmt.Sprintf("%s: in-out=%d > bound %d (rate %d sat/kW x 250 vB + 200)", c, fee, bound, c03RefRate(c.fee)))
	}
	spendHex := hex.EncodeToString(pubs[0])
	if out <= 0 {
		// amount <= fee + cushion: no correct implementation can produce a payout
		if v := c03ChainVerdict(o.hex, spendHex, 1008); v == nil && out < 0 {
			acc.bug(fmt.Sprintf("%s: chain accepted a negative output", c))
		}
		if feasible {
			acc.fail("C03", "output_not_positive:"+tag, fmt.Sprintf("%s: output %d although amount %d > fee bound %d", c, out, o.amount, bound))
		} else {
			acc.out("btc:infeasible_amount_le_fee:nonpositive_output_published")
			acc.noteOnce("btc:nonpositive_output_example", c.String()+fmt.Sprintf(" -> output value %d handed to PublishTransaction (the node would refuse it)", out))
		}
		return
	}
	if c.secret != "right" {
		confs := 0
		if c.path == "csv" {
			confs = 1008
		}
		v := c03ChainVerdict(o.hex, spendHex, confs)
		if v == nil {
			acc.fail("C03", "wrong_secret_spend_valid:"+tag, fmt.Sprintf("%s: chain accepts %s", c, spendHex))
		} else if c03ErrClass(v) != "script" {
			acc.bug(fmt.Sprintf("%s: rejected for an unexpected reason: %v", c, v))
		} else {
			acc.out("btc:" + c.path + ":" + c.secret + ":rejected")
		}
		return
	}
	switch c.path {
	case "preimage", "coop":
		if v := c03ChainVerdict(o.hex, spendHex, 0); v != nil {
			cls := c03ErrClass(v)
			if cls == "non-BIP68-final" {
				acc.fail("C03", "not_final_immediately:"+tag, fmt.Sprintf("%s: sequence %#x: %v", c, tx.TxIn[0].Sequence, v))
			} else {
				acc.fail("C03", "script_rejects_spend:"+tag+":cause="+cls, fmt.Sprintf("%s: %v; tx %s", c, v, spendHex))
			}
			return
		}
		acc.out("btc:" + c.path + ":right:valid_immediately")
	case "csv":
		early := c03ChainVerdict(o.hex, spendHex, 1007)
		late := c03ChainVerdict(o.hex, spendHex, 1008)
		if early == nil {
			acc.fail("C03", "csv_refund_final_too_early:chain=btc", fmt.Sprintf("%s: accepted with 1007 confirmations, sequence %#x", c, tx.TxIn[0].Sequence))
			return
		}
		if late != nil {
			cls := c03ErrClass(late)
			if cls == "non-BIP68-final" {
				acc.fail("C03", "csv_refund_not_final_at_csv:chain=btc", fmt.Sprintf("%s: refused with 1008 confirmations, sequence %#x: %v", c, tx.TxIn[0].Sequence, late))
			} else {
				acc.fail("C03", "script_rejects_spend:"+tag+":cause="+cls, fmt.Sprintf("%s: %v; tx %s", c, late, spendHex))
			}
			return
		}
		if c03ErrClass(early) != "non-BIP68-final" {
			acc.bug(fmt.Sprintf("%s: at 1007 confirmations rejected for %v", c, early))
		}
		acc.out("btc:csv:right:valid_at_1008_not_1007")
	}
	// the signatures commit to the amount of the spent output
	if e := c03Engine(tx, prev); e != nil {
		acc.bug(fmt.Sprintf("%s: direct engine run disagrees with chain: %v", c, e))
	}
	if e := c03Engine(tx, wire.NewTxOut(prev.Value+1, prev.PkScript)); e == nil {
		acc.fail("C03", "signature_does_not_commit_to_amount:"+tag, fmt.Sprintf("%s: still valid with previous amount %d", c, prev.Value+1))
	} else {
		acc.out("btc:amount_mutation_breaks_signature")
	}
}

func c03RunBtc(acc *c03Acc) {
	rig := newC03LndRig("c03")
	n := 0
	for _, layout := range c03BtcLayouts {
		for nIn := 1; nIn <= 3; nIn++ {
			for _, amount := range c03Amounts {
				n++
				o := c03BtcOpen(rig, acc, c03Fund{Layout: layout, NIn: nIn}, amount, fmt.Sprintf("btc/%d", n))
				if o == nil {
					continue
				}
				for _, path := range c03Paths {
					for _, fee := range c03FeeModes {
						for _, secret := range c03Secrets(path) {
							c := c03BtcCase{o: o, path: path, fee: fee, secret: secret}
							if o.excluded {
								if fee == "253" && secret == "right" {
									c03BtcSpend(rig, acc, c, false)
								}
								continue
							}
							c03BtcSpend(rig, acc, c, true)
							if n == 2 && fee == "253" {
								acc.sample(c.String())
							}
						}
					}
				}
			}
		}
	}
}

// ---------------------------------------------------------------- test

func TestC03(t *testing.T) {
	vsync.SetMode(vsync.Plain)
	rep := EnumReport{ID: "C03", Level: "model_checking", Start: time.Now(), Exhaustive: true}
	acc := newC03Acc()

	// 1. the Elements mini evaluator agrees with btcd on the swap script
	maxLen := 4
	if mc.Tier() == "thorough" {
		maxLen = 5
	}
	x := c03CrossCheck(maxLen)
	if len(x.Mismatches) > 0 || x.Unsupp > 0 {
		for _, m := range x.Mismatches {
			acc.bug("mini-evaluator disagrees with btcd: " + m)
		}
		if x.Unsupp > 0 {
			acc.bug(fmt.Sprintf("mini-evaluator hit %d unsupported constructs", x.Unsupp))
		}
	}
	acc.step(x.Evals)

	// 2. Bitcoin through the real lnd.Client
	c03RunBtc(acc)

	// 3. Liquid through the real LiquidOnChain (+ validator comparison for C01)
	lq := c03RunLiquid(acc, mc.Tier())

	rep.Transitions = acc.trans
	rep.Outcomes = acc.outcomes
	rep.States = len(acc.outcomes)
	rep.Violations = acc.viol
	rep.Internal = acc.internal
	rep.Samples = acc.samples
	rep.Need = []string{
		"btc:preimage:right:valid_immediately", "btc:coop:right:valid_immediately", "btc:csv:right:valid_at_1008_not_1007",
		"btc:preimage:wrong_preimage:rejected", "btc:coop:wrong_taker_key:rejected", "btc:csv:wrong_maker_key:rejected",
		"btc:amount_mutation_breaks_signature", "btc:infeasible_amount_le_fee:nonpositive_output_published",
		"lbtc:preimage:right:valid_immediately", "lbtc:coop:right:valid_immediately", "lbtc:csv:right:valid_at_csv_not_before",
		"lbtc:preimage:wrong_preimage:rejected", "lbtc:coop:wrong_taker_key:rejected", "lbtc:csv:wrong_maker_key:rejected",
		"lbtc:amount_mutation_breaks_signature", "lbtc:fee_answer_0:refused", "lbtc:infeasible_amount_le_fee",
		"c01:liquid_validator:accepts_valid", "c01:liquid_validator:rejects_invalid",
	}
	rep.Rule = "for every opening transaction (swap output index 0..2, extra / equal-valued outputs, 1..3 inputs; Liquid: every position of swap / change / fee output, blinded or explicit or duplicated swap output, CSV 60 and 10080) x amount x path {preimage, coop, csv} x fee answer x secrets {right, wrong}: the transaction the real wallet adapter hands to the node for broadcast spends (opening txid, index of the swap output), is accepted by consensus rules with the right secrets (CSV path exactly from CSV confirmations on, the others immediately) and rejected with wrong ones, has exactly one non-fee output paying an address handed out by the wallet in that call, conserves value with 0 < out and in-out <= bound, and its signatures stop verifying when the spent amount is changed"
	rep.Alphabets = map[string]any{
		"amounts_sat": c03Amounts, "btc_layouts(S=swap,C=change,E=wallet output with value==amount,D=decoy output with the swap script and another value)": c03BtcLayouts, "btc_inputs": []int{1, 2, 3},
		"paths": c03Paths, "btc_fee_answers_sat_per_kw": c03FeeModes, "secrets": map[string][]string{"preimage": c03Secrets("preimage"), "coop": c03Secrets("coop"), "csv": c03Secrets("csv")},
		"liquid": lq["alphabets"],
		"minieval_crosscheck": map[string]any{"max_stack_len": maxLen, "items": 10, "sequences": 8, "versions": 2, "csv": []int{1008, 60, 10080}},
	}
	info := map[string]int{}
	for k, v := range acc.infoCnt {
		info[k] = v
	}
	rep.Extra = map[string]any{
		"minieval_vs_btcd": map[string]any{"evaluations": x.Evals, "accepts": x.Accepts, "rejects": x.Rejects, "mismatches": len(x.Mismatches)},
		"information":      info, "information_examples": acc.info,
		"liquid":           lq,
		"cln_adapter":      "clightning.ClightningClient cannot be constructed outside its package without a lightningd socket (no verif constructor); its Create*SpendingTransaction functions are line-for-line the lnd ones over the same onchain.BitcoinOnChain functions (GetVoutAndVerify, PrepareSpendingTransaction, GetFee, Get*Witness), which are covered here through lnd.Client",
		"c01_liquid_validator_violations": c03C01Keys(acc),
	}
	rep.Assumptions = []string{
		"fee bound: effective rate (estimator answer; fallback 12500 sat/kW when it has none; never below the 253 sat/kW floor) x 250 vB (the flat size the adapters assume for a refund, an upper bound for all three spends) + the fixed 200 sat cushion BitcoinOnChain.PrepareSpendingTransaction subtracts; Liquid: the wallet's GetFee answer, or the 500 sat placeholder the code uses when the wallet has no estimate",
		"amounts not larger than fee + cushion cannot be claimed by any implementation: for those only 'no valid payout is faked' is required (the adapter hands a transaction with a non-positive output to the node, which refuses it)",
		"openings the node's own validator rejects (an earlier output with exactly the swap amount) are outside the statement's quantifier; what the adapters do with them is reported as information",
		"Elements consensus for the spend = witness-v0 script evaluation (mini evaluator cross-validated against btcd) over go-elements' HashForWitnessV0 + BIP68 + range / surjection proof verification + Pedersen balance recomputed from unblinded data",
	}
	for _, v := range acc.viol {
		if v.Property != "C03" {
			fmt.Printf("NOTE: finding for another property: property=%s key=%s\n  detail: %s\n", v.Property, v.Key, firstLines(v.Detail, 4))
		}
	}
	finishEnum(t, &rep)
}

func c03C01Keys(acc *c03Acc) []string {
	var ks []string
	for _, v := range acc.viol {
		if v.Property == "C01" {
			ks = append(ks, v.Key)
		}
	}
	sort.Strings(ks)
	return ks
}
