package checks

import (
	"bytes"
	"encoding/base64"
	"encoding/hex"
	"encoding/json"
	"fmt"
	"regexp"
	"strings"
	"sync"

	"github.com/elementsproject/peerswap/swap"
	"verif/mc"
	"verif/node"
	"verif/scn"
	"verif/world"
)

const (
	mtSwapInReq    = 42069
	mtSwapOutReq   = 42071
	mtSwapInAgree  = 42073
	mtSwapOutAgree = 42075
	mtOpening      = 42077
	mtCancel       = 42079
	mtCoopClose    = 42081
)

func backend(x *scn.Exec) string {
	if x.Cfg.ALnd {
		return "lnd"
	}
	return "cln"
}

var (
	recCache   = map[string]*swap.SwapStateMachine{}
	recCacheMu sync.Mutex
)

// decodeRecord decodes a persisted record (memoised: the same bytes recur in
// every replay of a prefix).  The result must be treated as read-only.
func decodeRecord(payload string) *swap.SwapStateMachine {
	recCacheMu.Lock()
	if sm, ok := recCache[payload]; ok {
		recCacheMu.Unlock()
		return sm
	}
	recCacheMu.Unlock()
	sm := &swap.SwapStateMachine{}
	if err := json.Unmarshal([]byte(payload), sm); err != nil {
		sm = nil
	}
	recCacheMu.Lock()
	if len(recCache) > 200000 {
		recCache = map[string]*swap.SwapStateMachine{}
	}
	recCache[payload] = sm
	recCacheMu.Unlock()
	return sm
}

// lastStoreBefore returns A's latest durable record of swap id before seq.
func lastStoreBefore(x *scn.Exec, node, id string, seq int) *swap.SwapStateMachine {
	for i := seq - 1; i >= 0; i-- {
		o := x.W.Log[i]
		if o.Kind == "store" && o.Node == node && o.SwapID == id {
			return decodeRecord(o.Payload)
		}
	}
	return nil
}

func claimHash(sm *swap.SwapStateMachine) string {
	if sm == nil || sm.Data == nil || sm.Data.OpeningTxBroadcasted == nil {
		return ""
	}
	inv, err := world.DecodeInvoice(sm.Data.OpeningTxBroadcasted.Payreq)
	if err != nil {
		return ""
	}
	return inv.Hash
}

func snapshotState(snap, hash string) string {
	for _, kv := range strings.Split(snap, ",") {
		if strings.HasPrefix(kv, hash+"=") {
			return kv[len(hash)+1:]
		}
	}
	return "none"
}

func lastPayResult(x *scn.Exec, node string, seq int) string {
	for i := seq - 1; i >= 0; i-- {
		o := x.W.Log[i]
		if o.Node == node && (o.Kind == "ln.payclaim" || o.Kind == "ln.resolve" || o.Kind == "ln.track") {
			return o.Kind[3:] + "=" + o.Result
		}
	}
	return "nopay"
}

// ---------------------------------------------------------------- C06

func stateSuffix(st string) string {
	for _, p := range []string{"State_SwapOutSender_", "State_SwapInReceiver_", "State_SwapInSender_", "State_SwapOutReceiver_", "State_"} {
		if strings.HasPrefix(st, p) {
			return st[len(p):]
		}
	}
	return st
}

// claimedOnChain: a preimage claim by A spends the opening output.
func claimedOnChain(x *scn.Exec, sm *swap.SwapStateMachine) bool {
	if sm == nil || sm.Data.OpeningTxBroadcasted == nil {
		return false
	}
	c := x.W.Chain(x.Cfg.Chain)
	ot := c.Get(sm.Data.OpeningTxBroadcasted.TxId)
	if ot == nil {
		return false
	}
	for i := range ot.Msg.TxOut {
		if sp := c.SpentBy(ot.ID, uint32(i)); sp != "" {
			if t := c.Get(sp); t != nil && t.By == scn.IDA && t.Kind == "claim_preimage" {
				return true
			}
		}
	}
	return false
}

// coopDisclosures reports every coop_close of A's swap sent at or after log
// position fromSeq while the claim payment was in flight or had succeeded.
func coopDisclosures(x *scn.Exec, id, h string, fromSeq int) []mc.Violation {
	var out []mc.Violation
	for _, o := range x.W.Log[fromSeq:] {
		if o.Kind != "send" || o.Node != scn.IDA || o.MsgType != mtCoopClose || o.SwapID != id {
			continue
		}
		st := "none"
		if h != "" {
			st = snapshotState(o.Extra, h)
		}
		if st != "inflight" && st != "succeeded" {
			continue
		}
		prev, cause := "?", "?"
		for i := o.Seq - 1; i >= 0; i-- {
			q := x.W.Log[i]
			if q.Kind == "store" && q.Node == scn.IDA && strings.HasSuffix(q.State, "SendPrivkey") {
				if r := decodeRecord(q.Payload); r != nil {
					prev = stateSuffix(string(r.Previous))
					le := r.Data.LastErrString + " " + r.Data.CancelMessage
					// the window cause is established from ground truth (tip at that
					// moment vs the swap's anchor), not from error texts
					tip, win := uint64(q.BtcTip), uint64(504)
					if x.Cfg.Chain != "btc" {
						tip, win = uint64(q.LbtcTip), 60
					}
					start := uint64(r.Data.StartingBlockHeight)
					windowClosed := start != 0 && (tip >= start+win || tip < start)
					// ground truth: is a payment call of this incarnation still blocked inside the Lightning
					// client (it was started and has not returned)?
					outstanding := 0
					returnedSuccess := false // a payment call of this incarnation has RETURNED success to the node
					for _, p := range x.W.Log[:q.Seq] {
						if p.Node != scn.IDA || p.Inc != q.Inc || p.Hash != h {
							continue
						}
						if (p.Kind == "ln.payclaim" && (p.Result == "succeeded" || p.Result == "complete")) || (p.Kind == "ln.payclaim.ret" && strings.HasSuffix(p.Result, ":ok")) {
							returnedSuccess = true
						}
						if p.Kind == "ln.payclaim" && (p.Result == "hold" || p.Result == "join-pending") {
							outstanding++
						}
						if p.Kind == "ln.payclaim.ret" {
							outstanding--
						}
					}
					switch {
					case outstanding > 0:
						cause = "payment_call_still_outstanding"
					case returnedSuccess:
						cause = "payment_call_had_returned_success"
					case strings.Contains(le, "could not pay invoice"):
						cause = "payment_errors"
					case prev == "ClaimSwap":
						cause = "negotiation_timeout"
					case windowClosed && (prev == "ValidateTxAndPayClaimInvoice" || prev == "AwaitTxConfirmation"):
						cause = "window_closed"
					default:
						cause = "no_apparent_reason"
					}
				}
				break
			}
		}
		out = append(out, mc.Violation{Property: "C06",
			Key:    fmt.Sprintf("coop_close_while_%s:from=%s:cause=%s", st, prev, cause),
			Detail: fmt.Sprintf("role=%s backend=%s: coop_close (discloses the taker key) sent at log seq %d while the claim payment %s is %s; last payment observation: %s", x.Cfg.ARole(), backend(x), o.Seq, h[:8], st, lastPayResult(x, scn.IDA, o.Seq))})
	}
	return out
}

func oracleC06(x *scn.Exec) []mc.Violation {
	if !x.Cfg.ATaker() {
		return nil
	}
	final := x.SwapOf(x.A)
	if final == nil {
		return nil
	}
	id := final.SwapId.String()
	h := claimHash(final)
	out := coopDisclosures(x, id, h, 0)
	// clause 2: once paid, the node keeps trying until the output is claimed
	if len(out) == 0 && h != "" && x.W.LN[scn.IDA].PayStateOf(h) == world.PaySucceeded {
		cur := x.SwapOf(x.A)
		if cur.IsFinished() {
			if cur.Current != swap.State_ClaimedPreimage {
				out = append(out, mc.Violation{Property: "C06",
					Key:    fmt.Sprintf("paid_but_ended:%s", stateSuffix(string(cur.Current))),
					Detail: fmt.Sprintf("role=%s backend=%s: claim payment succeeded but the swap finished in %s", x.Cfg.ARole(), backend(x), cur.Current)})
			}
		} else if !claimedOnChain(x, cur) {
			n0 := len(x.W.Log)
			// first WITHOUT a restart: services healthy from now on, time passes - "keeps trying ... until it succeeds"
			if !x.A.Life.Dead() {
				x.W.Faults = map[string][]int{}
				for i := 0; i < 2; i++ {
					x.Apply(mc.Event{Name: "time", Arg: "11m"})
				}
				mid := x.SwapOf(x.A)
				if d := coopDisclosures(x, id, h, n0); len(d) == 0 && !mid.IsFinished() && !claimedOnChain(x, mid) && !x.A.Life.Dead() {
					attempts := 0
					for _, o := range x.W.Log {
						if o.Node == scn.IDA && o.Inc == x.A.Inc && o.Kind == "wallet.spend" && o.Extra == "preimage" {
							attempts++
						}
					}
					bucket := "1"
					switch {
					case attempts == 0:
						bucket = "0"
					case attempts > 20:
						bucket = "more_than_20"
					case attempts > 1:
						bucket = "2_to_20"
					}
					out = append(out, mc.Violation{Property: "C06",
						Key:    fmt.Sprintf("paid_but_stopped_claiming_without_restart:state=%s:claim_attempts_in_this_run=%s", stateSuffix(string(mid.Current)), bucket),
						Detail: fmt.Sprintf("role=%s backend=%s: claim payment succeeded; the wallet has been healthy for 22 min without a restart, the swap rests in %s after %d claim attempt(s) of this process and no claim spends the output", x.Cfg.ARole(), backend(x), mid.Current, attempts)})
				}
			}
			end := drainTaker(x)
			after := x.SwapOf(x.A)
			if d := coopDisclosures(x, id, h, n0); len(d) > 0 {
				out = append(out, d...)
			} else if end != string(swap.State_ClaimedPreimage) && !claimedOnChain(x, after) {
				out = append(out, mc.Violation{Property: "C06",
					Key:    fmt.Sprintf("paid_but_not_claimed:start=%s:end=%s", stateSuffix(string(cur.Current)), stateSuffix(end)),
					Detail: fmt.Sprintf("role=%s backend=%s: claim payment succeeded; after a fair continuation (time, restart, healthy wallet) the swap is in %s and no claim spends the output", x.Cfg.ARole(), backend(x), end)})
			}
		}
	}
	return out
}

// drainTaker applies the deterministic fair continuation for a taker that has
// paid: services healthy, time passes, the node is restarted, time passes.
func drainTaker(x *scn.Exec) string {
	x.W.Faults = map[string][]int{}
	steps := []mc.Event{{Name: "time", Arg: "11m"}, {Name: "restart", Arg: "A"}, {Name: "time", Arg: "11m"}, {Name: "restart", Arg: "A"}, {Name: "time", Arg: "11m"}}
	for _, e := range steps {
		x.Apply(e)
		if s := x.SwapOf(x.A); s != nil && s.IsFinished() {
			break
		}
	}
	return string(x.SwapOf(x.A).Current)
}

// ---------------------------------------------------------------- C13

var c13AnchorRe = regexp.MustCompile(`"opening_block_height":\d+`)

// c13Enabled / c13Apply: "a swap without a stored anchor never pays" needs such a swap: a protocol-7
// record without anchor can only exist as a persisted record, so the node is stopped, the anchor is
// removed from its record and it is started again (once per history, after the pubkey has left).
func c13Enabled(x *scn.Exec) []mc.Event {
	sm := x.SwapOf(x.A)
	if sm == nil || sm.IsFinished() || x.Ctx["c13strip"] != nil || !sm.Data.StartingBlockHeightSet {
		return nil
	}
	return []mc.Event{{Name: "strip_anchor", Dev: 1, NoCrash: true}}
}

func c13Apply(x *scn.Exec, e mc.Event) bool {
	if e.Name != "strip_anchor" {
		return false
	}
	x.A.Kill()
	node.Settle()
	x.Ctx["c13strip"] = len(x.W.Log)
	st := x.A.D.Store
	for id, b := range st.Records {
		b = c13AnchorRe.ReplaceAll(b, []byte(`"opening_block_height":0`))
		b = bytes.ReplaceAll(b, []byte(`,"opening_block_height_set":true`), nil)
		b = bytes.ReplaceAll(b, []byte(`"opening_block_height_set":true,`), nil)
		st.Records[id] = b
	}
	st.Writes++
	x.RebootA(true)
	return true
}

func oracleC13(x *scn.Exec) []mc.Violation {
	if x.Cfg.Chain != "lbtc" || !x.Cfg.ATaker() {
		return nil
	}
	stripAt, stripped := -1, false
	if n, ok := x.Ctx["c13strip"].(int); ok {
		stripAt = n
	}
	var out []mc.Violation
	type anchor struct {
		set bool
		h   uint32
	}
	var first *anchor
	revealed := false
	for i, o := range x.W.Log {
		if stripAt >= 0 && i >= stripAt && !stripped {
			// from here on the durable record has no anchor
			stripped = true
			first = nil
		}
		if o.Node != scn.IDA {
			continue
		}
		switch o.Kind {
		case "send":
			if o.MsgType == mtSwapOutReq || o.MsgType == mtSwapInAgree {
				if !revealed {
					revealed = true
					sm := lastStoreBefore(x, scn.IDA, o.SwapID, o.Seq)
					if sm == nil || !sm.Data.StartingBlockHeightSet {
						out = append(out, mc.Violation{Property: "C13", Key: fmt.Sprintf("pubkey_sent_before_anchor_durable:role=%s", x.Cfg.ARole()),
							Detail: fmt.Sprintf("message type %d carrying the swap pubkey sent at seq %d; latest durable record has no anchor", o.MsgType, o.Seq)})
					}
				}
			}
		case "store":
			sm := decodeRecord(o.Payload)
			if sm == nil || sm.Data == nil {
				continue
			}
			if first == nil {
				if sm.Data.StartingBlockHeightSet {
					first = &anchor{true, sm.Data.StartingBlockHeight}
					if stripped && revealed {
						out = append(out, mc.Violation{Property: "C13", Key: fmt.Sprintf("anchor_first_stored_after_pubkey_sent:role=%s:state=%s", x.Cfg.ARole(), o.State),
							Detail: fmt.Sprintf("the record had no anchor when the node started; the record written at seq %d carries anchor %d although the pubkey left long ago", o.Seq, sm.Data.StartingBlockHeight)})
					}
				}
			} else if !sm.Data.StartingBlockHeightSet || sm.Data.StartingBlockHeight != first.h {
				out = append(out, mc.Violation{Property: "C13", Key: fmt.Sprintf("anchor_changed:role=%s:state=%s", x.Cfg.ARole(), o.State),
					Detail: fmt.Sprintf("anchor was %d, record at seq %d has set=%v height=%d", first.h, o.Seq, sm.Data.StartingBlockHeightSet, sm.Data.StartingBlockHeight)})
			}
		case "ln.payclaim":
			if first == nil {
				out = append(out, mc.Violation{Property: "C13", Key: fmt.Sprintf("payment_without_anchor:role=%s", x.Cfg.ARole()), Detail: fmt.Sprintf("claim payment at seq %d without a stored anchor", o.Seq)})
			}
		}
	}
	// in-memory value equals the durable one
	if s := x.SwapOf(x.A); s != nil && first != nil {
		if a := x.A.Active(s.SwapId.String()); a != nil && (a.Data.StartingBlockHeight != first.h || !a.Data.StartingBlockHeightSet) {
			out = append(out, mc.Violation{Property: "C13", Key: "anchor_changed_in_memory:role=" + x.Cfg.ARole(), Detail: "in-memory anchor differs from the first durable one"})
		}
	}
	return out
}

// ---------------------------------------------------------------- C15

func oracleC15(x *scn.Exec) []mc.Violation {
	var out []mc.Violation
	openings := map[string]int{}
	firstPayload := map[string]string{}
	canceledAt := map[string]int{}
	for _, o := range x.W.Log {
		if o.Node != scn.IDA {
			continue
		}
		switch o.Kind {
		case "wallet.open":
			if o.Err == "" {
				openings[o.Chain]++
				if openings[o.Chain] == 2 {
					out = append(out, mc.Violation{Property: "C15", Key: fmt.Sprintf("second_opening_tx:role=%s", x.Cfg.ARole()), Detail: fmt.Sprintf("second opening transaction broadcast at seq %d", o.Seq)})
				}
			}
		case "store":
			if o.State == string(swap.State_SwapCanceled) {
				if _, ok := canceledAt[o.SwapID]; !ok {
					canceledAt[o.SwapID] = o.Seq
				}
			}
		case "ln.payclaim", "ln.payfee":
			for id, seq := range canceledAt {
				if o.Seq > seq && (o.Result == "succeeded" || o.Result == "err-pending" || o.Result == "err-settled" || o.Result == "hold") {
					out = append(out, mc.Violation{Property: "C15", Key: fmt.Sprintf("payment_after_cancel:%s:role=%s", o.Kind, x.Cfg.ARole()), Detail: fmt.Sprintf("swap %s cancelled at seq %d, payment attempt at seq %d", id[:8], seq, o.Seq)})
				}
			}
		case "send":
			if o.MsgType == mtSwapInReq || o.MsgType == mtSwapOutReq || o.MsgType == mtSwapInAgree || o.MsgType == mtSwapOutAgree {
				k := fmt.Sprintf("%s/%d", o.SwapID, o.MsgType)
				if p, ok := firstPayload[k]; ok {
					if p != o.Payload {
						out = append(out, mc.Violation{Property: "C15", Key: fmt.Sprintf("resent_message_differs:type=%d:role=%s", o.MsgType, x.Cfg.ARole()), Detail: fmt.Sprintf("first: %s\nlater: %s", p, o.Payload)})
					}
				} else {
					firstPayload[k] = o.Payload
				}
			}
		}
	}
	// at most one completed payment per invoice (ground truth)
	for h, p := range x.W.LN[scn.IDA].Payments {
		succ := 0
		for _, o := range x.W.Log {
			if o.Node == scn.IDA && o.Hash == h && (o.Result == "succeeded" || o.Result == "err-settled") && strings.HasPrefix(o.Kind, "ln.pay") {
				succ++
			}
		}
		if succ > 1 {
			out = append(out, mc.Violation{Property: "C15", Key: "double_payment:role=" + x.Cfg.ARole(), Detail: "invoice " + h[:8] + " settled twice; payment " + p.State.String()})
		}
	}
	return out
}

// ---------------------------------------------------------------- C23

func secretForms(b []byte) []string {
	if len(b) == 0 {
		return nil
	}
	h := hex.EncodeToString(b)
	var dec []string
	for _, c := range b {
		dec = append(dec, fmt.Sprintf("%d", c))
	}
	return []string{h, strings.ToUpper(h), base64.StdEncoding.EncodeToString(b), strings.Join(dec, " "), strings.Join(dec, ",")}
}

func oracleC23(x *scn.Exec) []mc.Violation {
	var out []mc.Violation
	for _, n := range []string{scn.IDA, scn.IDB} {
		nd := x.NodeByID(n)
		type secret struct {
			name  string
			forms []string
			swap  string
			taker bool
		}
		var secrets []secret
		for _, sm := range nd.Swaps() {
			taker := (sm.Type == swap.SWAPTYPE_OUT && sm.Role == swap.SWAPROLE_SENDER) || (sm.Type == swap.SWAPTYPE_IN && sm.Role == swap.SWAPROLE_RECEIVER)
			nm := "maker_swap_key"
			if taker {
				nm = "taker_swap_key"
			}
			secrets = append(secrets, secret{nm, secretForms(sm.Data.PrivkeyBytes), sm.SwapId.String(), taker})
		}
		for _, li := range x.W.LN[n].Invoices {
			pre, _ := hex.DecodeString(li.Preimage)
			secrets = append(secrets, secret{"invoice_preimage", secretForms(pre), "", false})
		}
		for _, p := range x.W.LN[n].Payments {
			if p.Preimage != "" {
				pre, _ := hex.DecodeString(p.Preimage)
				secrets = append(secrets, secret{"learned_preimage", secretForms(pre), "", false})
			}
		}
		for _, ws := range []*struct{ k []byte }{{nd.D.BtcWallet.Key.Serialize()}, {nd.D.LbtcWall.Key.Serialize()}} {
			secrets = append(secrets, secret{"wallet_key", secretForms(ws.k), "", false})
		}
		for _, o := range x.W.Log {
			if (o.Kind != "send" && o.Kind != "send-failed") || o.Node != n {
				continue
			}
			for _, s := range secrets {
				for fi, f := range s.forms {
					if !strings.Contains(o.Payload, f) {
						continue
					}
					if s.name == "taker_swap_key" && o.MsgType == mtCoopClose && o.SwapID == s.swap {
						continue // the one disclosure the protocol allows
					}
					out = append(out, mc.Violation{Property: "C23", Key: fmt.Sprintf("secret_in_message:%s:msgtype=%d:form=%d", s.name, o.MsgType, fi),
						Detail: fmt.Sprintf("node %s sent %s in message type %d at seq %d", n[:4], s.name, o.MsgType, o.Seq)})
				}
			}
		}
	}
	return out
}
