package checks

// A small witness-v0 P2WSH interpreter covering exactly the opcodes of the
// swap opening script.  It is needed for Elements transactions (btcd cannot
// compute Elements signature hashes); the signature hash comes from a callback
// (go-elements' HashForWitnessV0 for Liquid, btcd's CalcWitnessSigHash in the
// cross-check).  Standard verification flags are modelled: MINIMALIF,
// NULLFAIL, CLEANSTACK, strict DER / low S / defined hash type, compressed
// keys, CHECKSEQUENCEVERIFY (BIP112).

import (
	"bytes"
	"crypto/sha256"
	"errors"
	"fmt"

	"github.com/btcsuite/btcd/btcec/v2"
	"github.com/btcsuite/btcd/btcec/v2/ecdsa"
	"github.com/btcsuite/btcd/txscript"
)

type c03SigCtx struct {
	SigHash  func(ht txscript.SigHashType) []byte
	Version  int32
	Sequence uint32
}

var errC03Unsupported = errors.New("mini-evaluator: unsupported construct")

func c03CastBool(b []byte) bool {
	for i, c := range b {
		if c != 0 {
			if i == len(b)-1 && c == 0x80 {
				return false
			}
			return true
		}
	}
	return false
}

func c03ScriptNum(b []byte, maxLen int) (int64, error) {
	if len(b) > maxLen {
		return 0, errors.New("script number overflow")
	}
	if len(b) == 0 {
		return 0, nil
	}
	// minimal encoding
	if b[len(b)-1]&0x7f == 0 {
		if len(b) == 1 || b[len(b)-2]&0x80 == 0 {
			return 0, errors.New("non-minimal script number")
		}
	}
	var v int64
	for i, c := range b {
		v |= int64(c) << (8 * uint(i))
	}
	if b[len(b)-1]&0x80 != 0 {
		v &= ^(int64(0x80) << (8 * uint(len(b)-1)))
		v = -v
	}
	return v, nil
}

func c03NumBytes(n int64) []byte {
	if n == 0 {
		return nil
	}
	neg := n < 0
	if neg {
		n = -n
	}
	var out []byte
	for n > 0 {
		out = append(out, byte(n&0xff))
		n >>= 8
	}
	if out[len(out)-1]&0x80 != 0 {
		if neg {
			out = append(out, 0x80)
		} else {
			out = append(out, 0)
		}
	} else if neg {
		out[len(out)-1] |= 0x80
	}
	return out
}

func c03CheckSig(sig, pub []byte, c *c03SigCtx) (bool, error) {
	if len(pub) != 33 || (pub[0] != 2 && pub[0] != 3) {
		return false, errors.New("witness pubkey type")
	}
	if len(sig) == 0 {
		return false, nil
	}
	ht := txscript.SigHashType(sig[len(sig)-1])
	base := ht & ^txscript.SigHashAnyOneCanPay
	if base < txscript.SigHashAll || base > txscript.SigHashSingle {
		return false, errors.New("invalid hash type")
	}
	s, err := ecdsa.ParseDERSignature(sig[:len(sig)-1])
	if err != nil {
		return false, fmt.Errorf("signature encoding: %v", err)
	}
	sc := s.S()
	if sc.IsOverHalfOrder() {
		return false, errors.New("high S")
	}
	pk, err := btcec.ParsePubKey(pub)
	if err != nil {
		return false, err
	}
	ok := s.Verify(c.SigHash(ht), pk)
	if !ok {
		return false, errors.New("NULLFAIL: non-empty signature failed")
	}
	return true, nil
}

// c03MiniEval executes a P2WSH spend: witness = stack items + witness script.
func c03MiniEval(witness [][]byte, program []byte, c *c03SigCtx) error {
	if len(witness) == 0 {
		return errors.New("empty witness")
	}
	script := witness[len(witness)-1]
	h := sha256.Sum256(script)
	if !bytes.Equal(h[:], program) {
		return errors.New("witness program mismatch")
	}
	if len(script) > 10000 {
		return errors.New("script too large")
	}
	var stack [][]byte
	for _, it := range witness[:len(witness)-1] {
		if len(it) > 520 {
			return errors.New("push size")
		}
		stack = append(stack, it)
	}
	var cond []bool
	executing := func() bool {
		for _, b := range cond {
			if !b {
				return false
			}
		}
		return true
	}
	pop := func() ([]byte, error) {
		if len(stack) == 0 {
			return nil, errors.New("stack underflow")
		}
		v := stack[len(stack)-1]
		stack = stack[:len(stack)-1]
		return v, nil
	}
	for pc := 0; pc < len(script); {
		op := script[pc]
		pc++
		// pushes
		if op >= 0x01 && op <= 0x4b || op == txscript.OP_PUSHDATA1 {
			n := int(op)
			if op == txscript.OP_PUSHDATA1 {
				if pc >= len(script) {
					return errors.New("malformed push")
				}
				n = int(script[pc])
				pc++
			}
			if pc+n > len(script) {
				return errors.New("malformed push")
			}
			if executing() {
				stack = append(stack, script[pc:pc+n])
			}
			pc += n
			continue
		}
		switch {
		case op == txscript.OP_0:
			if executing() {
				stack = append(stack, nil)
			}
		case op >= txscript.OP_1 && op <= txscript.OP_16:
			if executing() {
				stack = append(stack, []byte{op - txscript.OP_1 + 1})
			}
		case op == txscript.OP_IF || op == txscript.OP_NOTIF:
			v := false
			if executing() {
				top, err := pop()
				if err != nil {
					return err
				}
				if len(top) > 1 || (len(top) == 1 && top[0] != 1) {
					return errors.New("MINIMALIF")
				}
				v = len(top) == 1
				if op == txscript.OP_NOTIF {
					v = !v
				}
			}
			cond = append(cond, v)
		case op == txscript.OP_ELSE:
			if len(cond) == 0 {
				return errors.New("unbalanced conditional")
			}
			cond[len(cond)-1] = !cond[len(cond)-1]
		case op == txscript.OP_ENDIF:
			if len(cond) == 0 {
				return errors.New("unbalanced conditional")
			}
			cond = cond[:len(cond)-1]
		default:
			if !executing() {
				switch op {
				case txscript.OP_SIZE, txscript.OP_EQUALVERIFY, txscript.OP_EQUAL, txscript.OP_SHA256, txscript.OP_CHECKSIG, txscript.OP_CHECKSEQUENCEVERIFY:
					continue
				}
				return errC03Unsupported
			}
			switch op {
			case txscript.OP_SIZE:
				if len(stack) == 0 {
					return errors.New("stack underflow")
				}
				stack = append(stack, c03NumBytes(int64(len(stack[len(stack)-1]))))
			case txscript.OP_EQUAL, txscript.OP_EQUALVERIFY:
				a, err := pop()
				if err != nil {
					return err
				}
				b, err := pop()
				if err != nil {
					return err
				}
				eq := bytes.Equal(a, b)
				if op == txscript.OP_EQUALVERIFY {
					if !eq {
						return errors.New("EQUALVERIFY failed")
					}
				} else if eq {
					stack = append(stack, []byte{1})
				} else {
					stack = append(stack, nil)
				}
			case txscript.OP_SHA256:
				a, err := pop()
				if err != nil {
					return err
				}
				d := sha256.Sum256(a)
				stack = append(stack, d[:])
			case txscript.OP_CHECKSIG:
				pub, err := pop()
				if err != nil {
					return err
				}
				sig, err := pop()
				if err != nil {
					return err
				}
				ok, err := c03CheckSig(sig, pub, c)
				if err != nil {
					return err
				}
				if ok {
					stack = append(stack, []byte{1})
				} else {
					stack = append(stack, nil)
				}
			case txscript.OP_CHECKSEQUENCEVERIFY:
				if len(stack) == 0 {
					return errors.New("stack underflow")
				}
				n, err := c03ScriptNum(stack[len(stack)-1], 5)
				if err != nil {
					return err
				}
				if n < 0 {
					return errors.New("negative sequence")
				}
				if n&(1<<31) != 0 {
					break
				}
				if uint32(c.Version) < 2 {
					return errors.New("CSV: tx version < 2")
				}
				if c.Sequence&(1<<31) != 0 {
					return errors.New("CSV: input sequence has the disable flag")
				}
				const typeFlag = 1 << 22
				const mask = typeFlag | 0xffff
				if (n&typeFlag != 0) != (int64(c.Sequence)&typeFlag != 0) {
					return errors.New("CSV: lock type mismatch")
				}
				if n&mask > int64(c.Sequence)&mask {
					return errors.New("CSV: sequence not satisfied")
				}
			default:
				return errC03Unsupported
			}
		}
		if len(stack) > 1000 {
			return errors.New("stack size")
		}
	}
	if len(cond) != 0 {
		return errors.New("unbalanced conditional")
	}
	if len(stack) != 1 {
		return fmt.Errorf("CLEANSTACK: %d items left", len(stack))
	}
	if !c03CastBool(stack[0]) {
		return errors.New("script evaluated to false")
	}
	return nil
}
