package checks

// Cross-validation of the mini evaluator (c03_minieval_test.go) against
// btcd's script engine on Bitcoin-format dummy transactions spending the
// real opening script.

import (
	"fmt"
	"sync"

	"github.com/btcsuite/btcd/btcec/v2"
	"github.com/btcsuite/btcd/btcec/v2/ecdsa"
	"github.com/btcsuite/btcd/chaincfg/chainhash"
	"github.com/btcsuite/btcd/txscript"
	"github.com/btcsuite/btcd/wire"
	"github.com/elementsproject/peerswap/onchain"
)

type c03XResult struct {
	Evals      int
	Accepts    int
	Rejects    int
	Mismatches []string
	Unsupp     int
}

func c03XSig(k *btcec.PrivateKey, digest []byte, ht byte, highS bool) []byte {
	s := ecdsa.Sign(k, digest)
	if highS {
		r, sv := s.R(), s.S()
		sv.Negate()
		s = ecdsa.NewSignature(&r, &sv)
	}
	return append(s.Serialize(), ht)
}

// c03CrossCheck enumerates all witness stacks of length 0..maxLen over a
// 10-item alphabet x input sequences x tx versions and compares verdicts.
func c03CrossCheck(maxLen int) c03XResult {
	var res c03XResult
	var mu sync.Mutex
	taker, maker, third := c03Key("x/taker"), c03Key("x/maker"), c03Key("x/third")
	preHex, hashHex := c03Preimage("x")
	pre := c03MustHex(preHex)
	hash := c03MustHex(hashHex)
	wrongPre := append([]byte{}, pre...)
	wrongPre[0] ^= 1
	type job struct {
		csv     uint32
		seq     uint32
		version int32
		full    bool
	}
	var jobs []job
	for _, csv := range []uint32{1008, 60, 10080} {
		for _, seq := range []uint32{0, csv - 1, csv, csv + 1, 0xffffffff, csv | 1<<22, csv | 1<<31, 0xffff} {
			for _, v := range []int32{1, 2} {
				jobs = append(jobs, job{csv, seq, v, csv == 1008})
			}
		}
	}
	var wg sync.WaitGroup
	sem := make(chan struct{}, 8)
	for _, j := range jobs {
		wg.Add(1)
		sem <- struct{}{}
		go func(j job) {
			defer wg.Done()
			defer func() { <-sem }()
			script, err := onchain.GetOpeningTxScript(taker.PubKey().SerializeCompressed(), maker.PubKey().SerializeCompressed(), hash, j.csv)
			if err != nil {
				mu.Lock()
				res.Mismatches = append(res.Mismatches, "script: "+err.Error())
				mu.Unlock()
				return
			}
			pk := c03P2wsh(script)
			const amount = int64(100000)
			tx := wire.NewMsgTx(j.version)
			prev := chainhash.HashH([]byte("x/prev"))
			in := wire.NewTxIn(wire.NewOutPoint(&prev, 1), nil, nil)
			in.Sequence = j.seq
			tx.AddTxIn(in)
			tx.AddTxOut(wire.NewTxOut(amount-500, c03ChangeScript()))
			fetcher := txscript.NewCannedPrevOutputFetcher(pk, amount)
			hashes := txscript.NewTxSigHashes(tx, fetcher)
			digest := func(ht txscript.SigHashType) []byte {
				d, _ := txscript.CalcWitnessSigHash(script, hashes, ht, tx, 0, amount)
				return d
			}
			all := digest(txscript.SigHashAll)
			items := [][]byte{
				c03XSig(taker, all, 1, false),                       // 0 taker sig
				c03XSig(maker, all, 1, false),                       // 1 maker sig
				c03XSig(third, all, 1, false),                       // 2 foreign sig
				c03XSig(taker, digest(txscript.SigHashNone), 2, false), // 3 taker sig, SIGHASH_NONE (valid)
				pre,      // 4
				wrongPre, // 5
				{},       // 6
				{1},      // 7
				{0},      // 8
				c03XSig(maker, all, 1, true), // 9 high-S maker sig
			}
			alphabet := len(items)
			maxL := maxLen
			if !j.full {
				maxL = 0 // only the shaped stacks below
			}
			var local c03XResult
			run := func(idx []int) {
				w := make(wire.TxWitness, 0, len(idx)+1)
				for _, i := range idx {
					w = append(w, items[i])
				}
				w = append(w, script)
				tx.TxIn[0].Witness = w
				vm, err := txscript.NewEngine(pk, tx, 0, txscript.StandardVerifyFlags, nil, hashes, amount, fetcher)
				var berr error
				if err != nil {
					berr = err
				} else {
					berr = vm.Execute()
				}
				merr := c03MiniEval(w, pk[2:], &c03SigCtx{SigHash: digest, Version: tx.Version, Sequence: j.seq})
				local.Evals++
				if merr == errC03Unsupported {
					local.Unsupp++
				}
				if (berr == nil) != (merr == nil) {
					if len(local.Mismatches) < 5 {
						local.Mismatches = append(local.Mismatches, fmt.Sprintf("csv=%d seq=%#x v=%d stack=%v btcd=%v mini=%v", j.csv, j.seq, j.version, idx, berr, merr))
					}
				}
				if berr == nil {
					local.Accepts++
				} else {
					local.Rejects++
				}
			}
			var rec func(idx []int)
			rec = func(idx []int) {
				run(idx)
				if len(idx) >= maxL {
					return
				}
				for i := 0; i < alphabet; i++ {
					rec(append(idx, i))
				}
			}
			if j.full {
				rec(nil)
			} else {
				for _, shape := range [][]int{{0, 4, 6, 6}, {0, 1, 6}, {1}, {0, 5, 6, 6}, {2, 1, 6}, {0}, {9}, {1, 6}, {0, 4, 8, 6}} {
					run(shape)
				}
			}
			mu.Lock()
			res.Evals += local.Evals
			res.Accepts += local.Accepts
			res.Rejects += local.Rejects
			res.Unsupp += local.Unsupp
			res.Mismatches = append(res.Mismatches, local.Mismatches...)
			mu.Unlock()
		}(j)
	}
	wg.Wait()
	return res
}
