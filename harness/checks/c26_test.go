package checks

import (
	"context"
	"encoding/json"
	"fmt"
	"os"
	"path/filepath"
	"strings"
	"sync"
	"sync/atomic"
	"testing"
	"testing/synctest"
	"time"

	"github.com/elementsproject/peerswap/messages"
	"github.com/elementsproject/peerswap/peersync"
	"github.com/elementsproject/peerswap/policy"
	"github.com/elementsproject/peerswap/swap"
	"verif/mc"
	"verif/node"
	"verif/scn"
)

// C26: a peer that forced a CSV refund is quarantined: recorded as suspicious
// in the policy FILE, refused as requester, refused as partner of local
// initiations, ignored by peer-sync.  Real policy.Policy on a real file, real
// peersync.PeerSync with the real guard.

var c26Seq atomic.Int64

type c26Ln struct {
	mu   sync.Mutex
	ch   chan peersync.CustomMessage
	sent []string
}

func (l *c26Ln) SendCustomMessage(_ context.Context, to peersync.PeerID, typ messages.MessageType, _ []byte) error {
	l.mu.Lock()
	l.sent = append(l.sent, fmt.Sprintf("%s:%d", to.String(), typ))
	l.mu.Unlock()
	return nil
}
func (l *c26Ln) SubscribeCustomMessages(context.Context) (<-chan peersync.CustomMessage, error) {
	return l.ch, nil
}
func (l *c26Ln) Stop() error { return nil }
func (l *c26Ln) ListPeers(context.Context) ([]peersync.PeerID, error) {
	id, _ := peersync.NewPeerID(scn.IDB)
	return []peersync.PeerID{id}, nil
}

func c26PolicyPath(x *scn.Exec) string { return x.Ctx["c26file"].(string) }

func c26Setup(x *scn.Exec) {
	p := filepath.Join(workDir, fmt.Sprintf("c26-%d-%d.conf", os.Getpid(), c26Seq.Add(1)))
	_ = os.WriteFile(p, []byte("accept_all_peers=true\n"), 0o600)
	x.Ctx["c26file"] = p
}

func c26NodeCfg(x *scn.Exec, id string, c *node.Cfg) {
	if id != scn.IDA {
		return
	}
	pol, err := policy.CreateFromFile(c26PolicyPath(x))
	if err != nil {
		x.Ctx["c26err"] = "policy file does not load: " + err.Error()
		pol = policy.DefaultPolicy()
	}
	x.Ctx["c26pol"] = pol
	c.Policy = pol
	// the daemon's peer-sync runs next to the swap service for the whole life of the process, on the same policy object
	c26StopPeersync(x)
	dbPath := filepath.Join(workDir, fmt.Sprintf("c26-ps-%d-%d.db", os.Getpid(), c26Seq.Add(1)))
	if store, err := peersync.NewStore(dbPath); err == nil {
		ln := &c26Ln{ch: make(chan peersync.CustomMessage)}
		self, _ := peersync.NewPeerID(scn.IDA)
		ps := peersync.NewPeerSync(self, store, ln, pol, []string{"btc", "lbtc"}, x.Cfg.Premium)
		ctx, cancel := context.WithCancel(context.Background())
		go ps.Start(ctx)
		x.Ctx["c26ps"] = &c26Ps{store: store, ln: ln, cancel: cancel, path: dbPath}
	}
}

type c26Ps struct {
	store  *peersync.Store
	ln     *c26Ln
	cancel context.CancelFunc
	path   string
}

func c26StopPeersync(x *scn.Exec) {
	if p, ok := x.Ctx["c26ps"].(*c26Ps); ok && p != nil {
		p.cancel()
		synctest.Wait()
		p.store.Close()
		os.Remove(p.path)
		x.Ctx["c26ps"] = (*c26Ps)(nil)
	}
}

var c26GoodPayload, _ = json.Marshal(map[string]any{"version": 7, "assets": []string{"btc", "lbtc"}, "peer_allowed": true, "btc_swap_out_premium_rate_ppm": 1234})

// c26Send hands one peer-sync message of the peer to the running instance.
func c26Send(p *c26Ps, mt messages.MessageType, payload []byte) {
	bID, _ := peersync.NewPeerID(scn.IDB)
	select {
	case p.ln.ch <- peersync.CustomMessage{From: bID, Type: mt, Payload: payload}:
	case <-time.After(time.Second):
	}
	synctest.Wait()
}

// operator actions on the running policy (the reloadpolicy / allow-list RPCs) before the refund
// (suspect_greater / suspect_smaller: another peer, with a pubkey sorting after / before this one, has been quarantined earlier)
var c26OperatorOps = []string{"reload", "allow_other", "remove_other", "disable_enable", "suspect_greater", "suspect_smaller"}

const c26Other = "03cccccccccccccccccccccccccccccccccccccccccccccccccccccccccccccccc"

func c26Enabled(x *scn.Exec) []mc.Event {
	sm := x.SwapOf(x.A)
	if sm != nil && sm.Current != swap.State_ClaimedCsv && !sm.IsFinished() && !x.A.Life.Dead() {
		done, _ := x.Ctx["c26ops"].(string)
		if strings.Count(done, ",") < 2 {
			var out []mc.Event
			for _, op := range c26OperatorOps {
				if !strings.Contains(done, op+",") {
					out = append(out, mc.Event{Name: "c26op", Arg: op, Dev: 1, NoCrash: true})
				}
			}
			if x.Ctx["c26contact"] == nil {
				// the peer talks to our peer-sync before it misbehaves
				out = append(out, mc.Event{Name: "c26contact", Dev: 1, NoCrash: true})
			}
			return out
		}
		return nil
	}
	if sm == nil || sm.Current != swap.State_ClaimedCsv || x.A.Life.Dead() {
		return nil
	}
	if done, _ := x.Ctx["c26probed"].(int); done >= 2 {
		return nil
	}
	out := []mc.Event{{Name: "c26probe", NoCrash: true}}
	if x.Ctx["c26unallow"] == nil {
		// the operator takes the (formerly trusted) peer off the allow-list after the refund: the quarantine must stay
		out = append(out, mc.Event{Name: "c26unallow", Dev: 1, NoCrash: true})
	}
	return out
}

func c26Apply(x *scn.Exec, e mc.Event) bool {
	if e.Name == "c26contact" {
		x.Ctx["c26contact"] = true
		if p, ok := x.Ctx["c26ps"].(*c26Ps); ok && p != nil {
			c26Send(p, messages.MESSAGETYPE_POLL, c26GoodPayload)
			c26Send(p, messages.MESSAGETYPE_REQUEST_POLL, c26GoodPayload)
		}
		return true
	}
	if e.Name == "c26unallow" {
		x.Ctx["c26unallow"] = true
		if pol, _ := x.Ctx["c26pol"].(*policy.Policy); pol != nil {
			_ = pol.AddToAllowlist(scn.IDB)
			_ = pol.RemoveFromAllowlist(scn.IDB)
		}
		return true
	}
	if e.Name == "c26op" {
		pol, _ := x.Ctx["c26pol"].(*policy.Policy)
		done, _ := x.Ctx["c26ops"].(string)
		x.Ctx["c26ops"] = done + e.Arg + ","
		if pol == nil {
			return true
		}
		var err error
		switch e.Arg {
		case "reload":
			err = pol.ReloadFile()
		case "allow_other":
			err = pol.AddToAllowlist(c26Other)
		case "remove_other":
			_ = pol.AddToAllowlist(c26Other)
			err = pol.RemoveFromAllowlist(c26Other)
		case "disable_enable":
			if err = pol.DisableSwaps(); err == nil {
				err = pol.EnableSwaps()
			}
		case "suspect_greater":
			err = pol.AddToSuspiciousPeerList(c26Other) // 03cc.. > 03bb..
		case "suspect_smaller":
			err = pol.AddToSuspiciousPeerList(scn.IDC) // 02cc.. < 03bb..
		}
		// whether the operator action itself works is C25's business; here only the quarantine is judged
		_ = err
		return true
	}
	if e.Name != "c26probe" {
		return false
	}
	done, _ := x.Ctx["c26probed"].(int)
	x.Ctx["c26probed"] = done + 1
	when := "same_process"
	if x.A.Inc > 0 {
		when = "after_restart"
	}
	var vs []mc.Violation
	add := func(key, detail string) {
		vs = append(vs, mc.Violation{Property: "C26", Key: key + ":" + when, Detail: fmt.Sprintf("role=%s chain=%s: %s", x.Cfg.ARole(), x.Cfg.Chain, detail)})
	}
	if s, ok := x.Ctx["c26err"].(string); ok {
		add("policy_file_unreadable", s)
	}
	// 1. the policy FILE lists the peer
	raw, _ := os.ReadFile(c26PolicyPath(x))
	if !strings.Contains(string(raw), "suspicious_peers="+scn.IDB) {
		add("peer_not_in_policy_file", fmt.Sprintf("file content: %q", string(raw)))
	}
	if fresh, err := policy.CreateFromFile(c26PolicyPath(x)); err != nil || !fresh.IsPeerSuspicious(scn.IDB) {
		add("reloaded_policy_does_not_list_peer", fmt.Sprintf("err=%v", err))
	}
	// 2. incoming requests from that peer are refused
	for i, ty := range []int{mtSwapInReq, mtSwapOutReq} {
		id := fmt.Sprintf("%064x", 0xc260+done*4+i)
		m := map[string]any{"protocol_version": 7, "swap_id": id, "scid": scn.Scid2, "amount": scn.Amount, "pubkey": c09Pub, "acceptable_premium": 100000}
		if x.Cfg.Chain == "btc" {
			m["network"], m["asset"] = "regtest", ""
		} else {
			m["network"], m["asset"] = "", node.AssetField
		}
		b, _ := json.Marshal(m)
		n0 := len(x.W.Log)
		x.A.DeliverRaw(scn.IDB, fmt.Sprintf("%x", ty), b)
		node.Settle()
		cancel, agree := false, false
		for _, o := range x.W.Log[n0:] {
			if o.Node == scn.IDA && o.Kind == "send" && o.SwapID == id {
				if o.MsgType == mtCancel {
					cancel = true
				}
				if o.MsgType == mtSwapInAgree || o.MsgType == mtSwapOutAgree {
					agree = true
				}
			}
		}
		if agree {
			add(fmt.Sprintf("request_from_quarantined_peer_agreed:type=%d", ty), "agreement sent")
		} else if !cancel {
			add(fmt.Sprintf("request_from_quarantined_peer_not_cancelled:type=%d", ty), "no cancel sent")
		}
	}
	// 3. local initiations towards that peer are refused
	for _, ty := range []string{"out", "in"} {
		var err error
		node.Run(func() {
			x.A.Life.Op(false)
			if ty == "out" {
				_, err = x.A.Svc.SwapOut(scn.IDB, x.Cfg.Chain, scn.Scid2, scn.IDA, scn.Amount, 10000)
			} else {
				_, err = x.A.Svc.SwapIn(scn.IDB, x.Cfg.Chain, scn.Scid2, scn.IDA, scn.Amount, 10000)
			}
		})
		if err == nil {
			add("local_initiation_to_quarantined_peer_started:swap_"+ty, "no error")
		}
	}
	// 4. peer-sync (the instance that has been running all along in this process) neither answers the peer nor
	// stores what it sends from now on
	if p, ok := x.Ctx["c26ps"].(*c26Ps); ok && p != nil {
		bID, _ := peersync.NewPeerID(scn.IDB)
		capOf := func() string {
			if st, err := p.store.GetPeerState(bID); err == nil && st != nil && st.Capability() != nil {
				b, _ := json.Marshal(peersync.SnapshotFromCapability(st.Capability())) // by value: the struct holds pointers
				return string(b)
			}
			return ""
		}
		before := capOf()
		p.ln.mu.Lock()
		p.ln.sent = nil // only answers to the peer's messages from here on are judged
		p.ln.mu.Unlock()
		newer, _ := json.Marshal(map[string]any{"version": 7, "assets": []string{"btc"}, "peer_allowed": true, "btc_swap_out_premium_rate_ppm": 4321})
		unknownAsset, _ := json.Marshal(map[string]any{"version": 7, "assets": []string{"doge"}, "peer_allowed": true})
		futureVersion, _ := json.Marshal(map[string]any{"version": 99, "assets": []string{"btc"}, "peer_allowed": true})
		// well-formed and unparseable capability payloads: a quarantined peer gets no answer to any of them
		for _, pl := range [][]byte{newer, unknownAsset, futureVersion, []byte("not json"), []byte("null"), {}} {
			for _, mt := range []messages.MessageType{messages.MESSAGETYPE_POLL, messages.MESSAGETYPE_REQUEST_POLL} {
				c26Send(p, mt, pl)
			}
		}
		p.ln.mu.Lock()
		sent := append([]string{}, p.ln.sent...)
		p.ln.mu.Unlock()
		for _, s := range sent {
			if strings.HasPrefix(s, scn.IDB) && strings.HasSuffix(s, fmt.Sprintf(":%d", messages.MESSAGETYPE_POLL)) {
				// (the poll ticker may still ASK a connected peer without record; what must not happen is an ANSWER with our capabilities)
				add("peersync_answered_quarantined_peer", "sent "+s)
				break
			}
		}
		if after := capOf(); after != before {
			add("peersync_stored_capability_of_quarantined_peer", fmt.Sprintf("capability stored or replaced after the quarantine: before %s, after %s", before, after))
		}
	}
	prev, _ := x.Ctx["c26v"].([]mc.Violation)
	x.Ctx["c26v"] = append(prev, vs...)
	return true
}

func oracleC26(x *scn.Exec) []mc.Violation {
	v, _ := x.Ctx["c26v"].([]mc.Violation)
	c26StopPeersync(x)
	// clean up the per-execution policy file
	if p, ok := x.Ctx["c26file"].(string); ok {
		os.Remove(p)
	}
	return v
}

func init() {
	register(&PropSpec{
		ID: "C26", Level: "model_checking",
		Rule: "explicit-state BFS of both maker roles from the announcement with a silent / cancelling / misbehaving peer and up to two operator actions on the running policy (reload, allow-list add / remove of another peer, disable+enable) to every history ending in a CSV refund (real policy.Policy on a real file as the swap service's policy); in each such state, also after a restart that re-reads the file: the file content, a policy re-created from it, incoming swap-in/out requests, local SwapIn/SwapOut and poll / request_poll (well-formed and unparseable payloads) through a real peersync.PeerSync are probed; crash points right after every durable store write (thorough: at every effect operation)",
		Families: func(tier string) []Family {
			return mkFamilies(famOpt{announced: true, chains: bothChain, roles: makers, backends: []bool{false},
				flags:  scn.Flags{Blocks: true, Time: true, Restart: true, Drop: true, Inject: true, MaxTime: 2, MaxBlocks: 2, NoWinJump: true},
				bounds: pick(tier, mc.Bounds{MaxDepth: 5, MaxDev: 2, Budget: 80 * time.Second, CrashAfterStore: true, NoCrashFirst: true}, mc.Bounds{MaxDepth: 7, MaxDev: 3, Budget: 10 * time.Minute}),
				tweak: func(f *Family) {
					f.Cfg.Setup = c26Setup
					f.Cfg.NodeCfg = c26NodeCfg
					f.Cfg.ExtraEnabled, f.Cfg.ExtraApply = c26Enabled, c26Apply
					f.Cfg.ExtraKey = func(x *scn.Exec) string {
						n, _ := x.Ctx["c26probed"].(int)
						raw, _ := os.ReadFile(c26PolicyPath(x))
						ops, _ := x.Ctx["c26ops"].(string)
						return fmt.Sprintf("|probed=%d ops=%s contact=%v unallow=%v file=%q", n, ops, x.Ctx["c26contact"] != nil, x.Ctx["c26unallow"] != nil, string(raw))
					}
				}})
		},
		Oracles: []scn.Oracle{oracleC26},
		Outcome: func(x *scn.Exec) string {
			n, _ := x.Ctx["c26probed"].(int)
			return fmt.Sprintf("%s probed=%d inc=%d", defaultOutcome(x), n, x.A.Inc)
		},
		NeedOutcomes: []string{"State_ClaimedCsv", "probed=1 inc=0", "probed=1 inc=1"},
	})
}

func TestC26(t *testing.T) { runProp(t, "C26") }
