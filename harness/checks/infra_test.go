package checks

import (
	"bufio"
	"bytes"
	"encoding/json"
	"fmt"
	"os"
	"os/exec"
	"path/filepath"
	"runtime"
	"sort"
	"strconv"
	"strings"
	"sync"
	"sync/atomic"
	"testing"
	"time"

	"verif/mc"
	"verif/scn"
)

// Family is one scenario instance explored by one worker process.
type Family struct {
	Name    string
	Cfg     *scn.Cfg
	Initial []mc.Event
	Bounds  mc.Bounds
}

// PropSpec describes an explicit-state check.
type PropSpec struct {
	ID          string
	Level       string
	Families    func(tier string) []Family
	Oracles     []scn.Oracle
	Outcome     func(x *scn.Exec) string
	Rule        string
	Assumptions []string
	// NeedOutcomes lists outcome substrings that must each be seen at least
	// once (vacuity guard); a miss makes the check broken (exit 2), not a violation.
	NeedOutcomes []string
	// Extra runs once in the coordinator (plain enumeration that belongs to
	// the property); its violations and coverage are merged into the report.
	Extra func() ([]mc.Violation, map[string]any)
}

var props = map[string]*PropSpec{}

func register(p *PropSpec) { props[p.ID] = p }

func defaultOutcome(x *scn.Exec) string {
	st := func(n interface{ Current() string }) string { return n.Current() }
	_ = st
	a, b := "-", "-"
	if s := x.SwapOf(x.A); s != nil {
		a = string(s.Current)
	}
	if s := x.SwapOf(x.B); s != nil {
		b = string(s.Current)
	}
	return a + "|" + b
}

// findFamily resolves VERIF_FAMILY="<prop>:<family name>".
func findFamily(t testing.TB, spec string) (*PropSpec, *Family) {
	i := strings.Index(spec, ":")
	p := props[spec[:i]]
	if p == nil {
		t.Fatalf("unknown property %s", spec[:i])
	}
	for _, f := range p.Families(mc.Tier()) {
		if f.Name == spec[i+1:] {
			ff := f
			ff.Cfg.Name = ff.Name
			return p, &ff
		}
	}
	t.Fatalf("unknown family %s", spec)
	return nil, nil
}

func familyRunner(t *testing.T, p *PropSpec, fam *Family) mc.Runner {
	fam.Cfg.Premium = premiumSetting(t, "fam")
	out := p.Outcome
	if out == nil {
		out = defaultOutcome
	}
	return scn.Runner(t, fam.Cfg, fam.Initial, p.Oracles, out)
}

// TestFamilyWorker is the worker entry point: it serves executions of one
// family over fd 3 (requests: one JSON history per line) / fd 4 (results).
func TestFamilyWorker(t *testing.T) {
	spec := os.Getenv("VERIF_FAMILY")
	if spec == "" {
		t.Skip("worker entry point")
	}
	bubbleMode()
	p, fam := findFamily(t, spec)
	run := familyRunner(t, p, fam)
	in := bufio.NewReaderSize(os.NewFile(3, "req"), 1<<20)
	out := bufio.NewWriter(os.NewFile(4, "res"))
	for {
		line, err := in.ReadBytes('\n')
		if err != nil {
			return
		}
		var h []mc.Event
		if err := json.Unmarshal(line, &h); err != nil {
			t.Fatalf("bad request: %v", err)
		}
		res := run(h)
		res.Compact()
		b, _ := json.Marshal(res)
		out.Write(b)
		out.WriteByte('\n')
		out.Flush()
	}
}

type workerProc struct {
	cmd *exec.Cmd
	w   *bufio.Writer
	r   *bufio.Reader
	wf  *os.File
	log *bytes.Buffer
}

func startWorker(spec string) (*workerProc, error) {
	reqR, reqW, err := os.Pipe()
	if err != nil {
		return nil, err
	}
	resR, resW, err := os.Pipe()
	if err != nil {
		return nil, err
	}
	cmd := exec.Command(os.Args[0], "-test.run", "^TestFamilyWorker$", "-test.timeout", "0")
	cmd.Env = append(os.Environ(), "VERIF_FAMILY="+spec, "GOMAXPROCS=1")
	cmd.ExtraFiles = []*os.File{reqR, resW}
	lg := &bytes.Buffer{}
	cmd.Stdout, cmd.Stderr = lg, lg
	if err := cmd.Start(); err != nil {
		return nil, err
	}
	reqR.Close()
	resW.Close()
	return &workerProc{cmd: cmd, w: bufio.NewWriter(reqW), wf: reqW, r: bufio.NewReaderSize(resR, 1<<20), log: lg}, nil
}

func (wp *workerProc) call(h []mc.Event) mc.StepResult {
	b, _ := json.Marshal(h)
	if h == nil {
		b = []byte("[]")
	}
	wp.w.Write(b)
	wp.w.WriteByte('\n')
	if err := wp.w.Flush(); err != nil {
		return mc.StepResult{Internal: "worker pipe: " + err.Error() + "\n" + tail(wp.log.String(), 3000)}
	}
	line, err := wp.r.ReadBytes('\n')
	if err != nil {
		wp.cmd.Wait()
		return mc.StepResult{Internal: "worker died: " + err.Error() + "\n" + tail(wp.log.String(), 3000)}
	}
	var res mc.StepResult
	if err := json.Unmarshal(line, &res); err != nil {
		return mc.StepResult{Internal: "worker: bad result: " + err.Error()}
	}
	return res
}

func (wp *workerProc) stop() {
	wp.wf.Close()
	wp.cmd.Wait()
}

// poolRunner distributes a batch over n worker processes of one family.
// procCPU reads utime+stime of a process from /proc (clock ticks of 10 ms); ok=false where that is not available.
func procCPU(pid int) (time.Duration, bool) {
	b, err := os.ReadFile(fmt.Sprintf("/proc/%d/stat", pid))
	if err != nil {
		return 0, false
	}
	s := string(b)
	i := strings.LastIndexByte(s, ')') // the command name may contain spaces
	if i < 0 {
		return 0, false
	}
	f := strings.Fields(s[i+1:])
	if len(f) < 13 {
		return 0, false
	}
	ut, err1 := strconv.ParseInt(f[11], 10, 64)
	st, err2 := strconv.ParseInt(f[12], 10, 64)
	if err1 != nil || err2 != nil {
		return 0, false
	}
	return time.Duration(ut+st) * 10 * time.Millisecond, true
}

func poolRunner(spec string, n int) (mc.BatchRunner, func(), error) {
	run, stop, _, err := poolRunnerCPU(spec, n)
	return run, stop, err
}

// poolRunnerCPU also returns the average CPU time consumed per worker process so far (nil if /proc is not readable).
func poolRunnerCPU(spec string, n int) (mc.BatchRunner, func(), func() time.Duration, error) {
	run, stop, procs, err := poolRunner0(spec, n)
	if err != nil {
		return nil, nil, nil, err
	}
	var cpu func() time.Duration
	if _, ok := procCPU(procs[0].cmd.Process.Pid); ok {
		var last time.Duration
		cpu = func() time.Duration {
			var sum time.Duration
			for _, p := range procs {
				c, ok := procCPU(p.cmd.Process.Pid)
				if !ok {
					return last // a worker that has gone: keep the clock where it was
				}
				sum += c
			}
			last = sum / time.Duration(len(procs))
			return last
		}
	}
	return run, stop, cpu, nil
}

func poolRunner0(spec string, n int) (mc.BatchRunner, func(), []*workerProc, error) {
	var procs []*workerProc
	for i := 0; i < n; i++ {
		wp, err := startWorker(spec)
		if err != nil {
			return nil, nil, nil, err
		}
		procs = append(procs, wp)
	}
	stop := func() {
		for _, p := range procs {
			p.stop()
		}
	}
	run := func(hs [][]mc.Event) []mc.StepResult {
		out := make([]mc.StepResult, len(hs))
		var next int64 = -1
		var wg sync.WaitGroup
		for pi := range procs {
			wg.Add(1)
			go func(wp *workerProc) {
				defer wg.Done()
				for {
					i := int(atomic.AddInt64(&next, 1))
					if i >= len(hs) {
						return
					}
					out[i] = wp.call(hs[i])
					if strings.HasPrefix(out[i].Internal, "worker died") || strings.HasPrefix(out[i].Internal, "worker pipe") {
						// do not keep feeding a dead worker
						for {
							j := int(atomic.AddInt64(&next, 1))
							if j >= len(hs) {
								return
							}
							out[j] = mc.StepResult{Internal: "worker dead"}
						}
					}
				}
			}(procs[pi])
		}
		wg.Wait()
		return out
	}
	return run, stop, procs, nil
}

func workers() int {
	// measured on the 16-core sandbox: worker processes stop scaling at ~8-10
	// (memory-bound executions), so more would only burn CPU
	n := runtime.NumCPU() * 5 / 8
	if n > 10 {
		n = 10
	}
	if n < 1 {
		n = 1
	}
	return n
}

// runProp is the coordinator: a pool of worker processes per family, merged
// report, known-findings filter, evidence, VIOLATION / KNOWN-FINDING lines.
// curT is the test of the running property check (for Extra sub-checks that need a testing.T).
var curT *testing.T

func runProp(t *testing.T, id string) {
	p := props[id]
	if p == nil {
		t.Fatalf("unknown property %s", id)
	}
	start := time.Now()
	curT = t
	fams := p.Families(mc.Tier())
	reports := make([]*mc.Report, 2*len(fams))
	errs := make([]string, len(fams))
	per := workers() / len(fams)
	if per < 1 {
		per = 1
	}
	sem := make(chan struct{}, max(1, workers()/per))
	var wg sync.WaitGroup
	for i, f := range fams {
		wg.Add(1)
		go func(i int, f Family) {
			defer wg.Done()
			sem <- struct{}{}
			defer func() { <-sem }()
			run, stop, cpu, err := poolRunnerCPU(id+":"+f.Name, per)
			if err != nil {
				errs[i] = fmt.Sprintf("family %s: cannot start workers: %v", f.Name, err)
				return
			}
			defer stop()
			f.Bounds.CPUNow = cpu
			if f.Bounds.NoCrashFirst && !f.Bounds.NoCrash {
				b1 := f.Bounds
				b1.NoCrash, b1.CrashAfterStore = true, false
				reports[len(fams)+i] = mc.BFS(f.Name+"#plain-pass", run, b1)
			}
			reports[i] = mc.BFS(f.Name, run, f.Bounds)
		}(i, f)
	}
	wg.Wait()
	var all []*mc.Report
	for _, r := range reports {
		if r != nil {
			all = append(all, r)
		}
	}
	finish(t, p, all, errs, time.Since(start))
}

func tail(s string, n int) string {
	if len(s) > n {
		return s[len(s)-n:]
	}
	return s
}

type famSummary struct {
	Scenario       string         `json:"scenario"`
	States         int            `json:"states"`
	Transitions    int            `json:"transitions"`
	MaxDepth       int            `json:"max_depth"`
	CompletedDepth int            `json:"completed_depth"`
	PerDepth       []int          `json:"frontier_per_depth"`
	Exhaustive     bool           `json:"exhaustive"`
	CapHit         string         `json:"cap_hit,omitempty"`
	CrashRuns      int            `json:"crash_runs"`
	WallS          float64        `json:"wall_s"`
	Bounds         mc.Bounds      `json:"bounds"`
	Outcomes       map[string]int `json:"outcomes"`
}

func finish(t *testing.T, p *PropSpec, reports []*mc.Report, errs []string, wall time.Duration) {
	var internal []string
	for _, e := range errs {
		if e != "" {
			internal = append(internal, e)
		}
	}
	states, trans, execs, crashRuns, nondet := 0, 0, 0, 0, 0
	var nondetSamples []string
	exhaustive := true
	outcomes := map[string]int{}
	var samples []any
	var fsum []famSummary
	var all []mc.Violation
	vseen := map[string]bool{}
	for _, r := range reports {
		if r == nil {
			exhaustive = false
			continue
		}
		states += r.States
		trans += r.Transitions
		execs += r.Executions
		crashRuns += r.CrashRuns
		nondet += r.Nondeterministic
		if len(nondetSamples) < 3 {
			nondetSamples = append(nondetSamples, r.NondetSamples...)
		}
		if !r.Exhaustive {
			exhaustive = false
		}
		for k, v := range r.Outcomes {
			outcomes[k] += v
		}
		for i, s := range r.Samples {
			if i < 2 {
				samples = append(samples, map[string]any{"scenario": r.Scenario, "history": s})
			}
		}
		internal = append(internal, r.Internal...)
		fsum = append(fsum, famSummary{r.Scenario, r.States, r.Transitions, r.MaxDepth, r.CompletedDepth, r.PerDepth, r.Exhaustive, r.CapHit, r.CrashRuns, r.WallS, r.Bounds, r.Outcomes})
		for _, v := range r.Violations {
			k := v.Property + "|" + v.Key
			if vseen[k] {
				continue
			}
			vseen[k] = true
			all = append(all, v)
		}
	}
	var extraCov map[string]any
	if p.Extra != nil {
		ev, cov := p.Extra()
		extraCov = cov
		if l, ok := cov["internal"].([]string); ok {
			internal = append(internal, l...)
			delete(cov, "internal")
		}
		for _, v := range ev {
			k := v.Property + "|" + v.Key
			if !vseen[k] {
				vseen[k] = true
				all = append(all, v)
			}
		}
	}
	// only this property's violations are judged here; others (e.g. C18
	// deadlocks noticed by the shim) are reported as information
	var mine, other []mc.Violation
	for _, v := range all {
		if v.Property == p.ID {
			mine = append(mine, v)
		} else {
			other = append(other, v)
		}
	}
	if exp := os.Getenv("VERIF_PROP_EXPORT"); exp != "" {
		// this exploration runs as a sub-check of another property's check: hand over what was found, write no evidence
		st, tr := 0, 0
		for _, r := range reports {
			if r != nil {
				st += r.States
				tr += r.Executions
			}
		}
		b, _ := json.Marshal(map[string]any{"violations": all, "states": st, "executions": tr, "internal": internal})
		if err := os.WriteFile(exp, b, 0o644); err != nil {
			t.Fatal(err)
		}
		return
	}
	newV, knownV := mc.Filter(mine, mc.LoadFindings())
	var missing []string
	for _, need := range p.NeedOutcomes {
		ok := false
		for k := range outcomes {
			if strings.Contains(k, need) {
				ok = true
			}
		}
		if !ok {
			missing = append(missing, need)
		}
	}
	if len(samples) == 0 {
		samples = append(samples, "no sample")
	}
	var otherKeys []string
	for _, v := range other {
		otherKeys = append(otherKeys, v.Property+":"+v.Key)
	}
	sort.Strings(otherKeys)
	var knownKeys, newKeys []string
	for _, v := range knownV {
		knownKeys = append(knownKeys, v.Key)
	}
	for _, v := range newV {
		newKeys = append(newKeys, v.Key)
	}
	ev := mc.Evidence{
		PropertyID: p.ID, Tier: mc.Tier(), Seed: mc.Seed(), Level: p.Level,
		Coverage: map[string]any{
			"states": max(states, 1), "transitions": max(trans, 1), "traces_validated_against_impl": execs,
			"samples": samples, "exhaustive": exhaustive && len(internal) == 0,
			"evaluations": execs, "distinct_nontrivial": max(states, 2),
			"rule": p.Rule, "families": fsum, "distinct_outcomes": len(outcomes), "outcomes": outcomes,
			"crash_point_runs": crashRuns, "known_findings_observed": knownKeys, "new_violations": newKeys,
			"other_property_observations": otherKeys, "internal_errors": internal,
			"overlay": overlayReport(), "nondeterministic_replays": nondet, "nondeterministic_samples": nondetSamples,
		},
		Assumptions: append(append([]string{}, mc.CommonAssumptions...), p.Assumptions...),
		WallS:       wall.Seconds(), Violations: len(newV),
	}
	for k, v := range extraCov {
		ev.Coverage[k] = v
	}
	if err := mc.WriteEvidence(ev); err != nil {
		t.Fatal(err)
	}
	fmt.Printf("%s: states=%d transitions=%d executions=%d crash_runs=%d outcomes=%d exhaustive=%v nondeterministic_replays=%d wall=%.1fs\n", p.ID, states, trans, execs, crashRuns, len(outcomes), ev.Coverage["exhaustive"], nondet, wall.Seconds())
	for _, v := range knownV {
		fmt.Printf("KNOWN-FINDING: property=%s %s\n", v.Property, v.Key)
	}
	for _, v := range newV {
		path := mc.WriteReplay(v)
		fmt.Printf("VIOLATION property=%s replay=%s\n", v.Property, path)
		fmt.Printf("  key: %s\n  detail: %s\n  history: %v\n", v.Key, firstLines(v.Detail, 6), v.History)
	}
	if len(internal) > 0 || len(missing) > 0 {
		for i, e := range internal {
			if i >= 5 {
				fmt.Printf("INTERNAL: ... %d more\n", len(internal)-5)
				break
			}
			fmt.Printf("INTERNAL: %s\n", e)
		}
		for _, m := range missing {
			fmt.Printf("INTERNAL: vacuity guard: no outcome containing %q was reached\n", m)
		}
		if len(newV) == 0 {
			os.Stdout.Sync()
			os.RemoveAll(workDir)
			os.Exit(2)
		}
	}
	if len(newV) > 0 {
		t.Fail()
	}
}

func firstLines(s string, n int) string {
	l := strings.Split(s, "\n")
	if len(l) > n {
		l = l[:n]
	}
	return strings.Join(l, "\n          ")
}

func overlayReport() any {
	b, err := os.ReadFile(filepath.Join(os.Getenv("VERIF_WORK"), "overlay", "report.json"))
	if err != nil {
		return nil
	}
	var v any
	_ = json.Unmarshal(b, &v)
	return v
}

// TestFamilySolo explores one family in-process (debugging / profiling).
func TestFamilySolo(t *testing.T) {
	spec := os.Getenv("VERIF_FAMILY")
	if spec == "" {
		t.Skip("debug entry point")
	}
	bubbleMode()
	p, fam := findFamily(t, spec)
	run := familyRunner(t, p, fam)
	rep := mc.BFS(fam.Name, mc.Sequential(run), fam.Bounds)
	fmt.Printf("states=%d transitions=%d completed_depth=%d per_depth=%v wall=%.1fs cap=%s\n", rep.States, rep.Transitions, rep.CompletedDepth, rep.PerDepth, rep.WallS, rep.CapHit)
	for _, e := range rep.Internal {
		fmt.Println("INTERNAL:", e)
		break
	}
	for _, v := range rep.Violations {
		fmt.Printf("V %s %s\n   %v\n", v.Property, v.Key, v.History)
	}
}

// TestReplay re-executes one recorded history without the explorer:
// VERIF_REPLAY=<file written by a check> (fields scenario, property, events).
func TestReplay(t *testing.T) {
	path := os.Getenv("VERIF_REPLAY")
	if path == "" {
		t.Skip("replay entry point")
	}
	b, err := os.ReadFile(path)
	if err != nil {
		t.Fatal(err)
	}
	var v mc.Violation
	if err := json.Unmarshal(b, &v); err != nil {
		t.Fatal(err)
	}
	bubbleMode()
	p, fam := findFamily(t, v.Property+":"+v.Scenario)
	run := familyRunner(t, p, fam)
	verbose := os.Getenv("VERIF_REPLAY_VERBOSE") != ""
	if verbose {
		scn.TraceLog = true
	}
	keys := map[string]bool{}
	found := 0
	const n = 5
	var firstKey string
	for i := 0; i < n; i++ {
		res := run(v.Events)
		if i == 0 {
			firstKey = res.Key
		} else if res.Key != firstKey && len(keys) == 1 {
			fmt.Println("NONDETERMINISTIC:", mc.DiffKeys(firstKey, res.Key))
		}
		keys[res.Key] = true
		for _, rv := range res.Violations {
			if rv.Property == v.Property && rv.Key == v.Key {
				found++
			}
		}
		if res.Internal != "" {
			t.Fatalf("internal: %s", res.Internal)
		}
	}
	fmt.Printf("replayed %v %d times: violation %q reproduced %d times, distinct final keys %d\n", v.History, n, v.Key, found, len(keys))
	if found != n && v.Key != "" {
		t.Fatalf("violation did not reproduce on every replay")
	}
}
