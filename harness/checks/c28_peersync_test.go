package checks

// C28 — peer-sync keeps an accurate, persistent view of peers.
//
// Part A: every peer record of a field grid goes through the real Store (save, close,
// re-open, load) and must come back with the same observable fields.
//
// Part B: breadth-first exploration (by replay, with state de-duplication) of operation
// sequences on the REAL peersync.PeerSync (store on a bbolt file + message handler + poller
// loops started by Start) with a recording Lightning port.  peersync reads time.Now directly,
// so every execution runs inside a testing/synctest bubble; the 10 s poll ticker and the
// 1 min cleanup ticker are the real ones and fire as the virtual clock advances.
// The reference model is written from the property statement.

import (
	"context"
	"encoding/json"
	"errors"
	"fmt"
	"io"
	stdlog "log"
	"os"
	"path/filepath"
	"reflect"
	"runtime"
	"sort"
	"strings"
	"sync"
	"testing"
	"testing/synctest"
	"time"

	"github.com/elementsproject/peerswap/messages"
	"github.com/elementsproject/peerswap/peersync"
	"github.com/elementsproject/peerswap/premium"
	"github.com/elementsproject/peerswap/swap"
	"verif/mc"
	"verif/vsync"
)

// constants of the statement, with the values the code uses
const (
	c28Expiry          = 30 * time.Minute // a peer not heard from for longer than this is expired
	c28RequestInterval = 10 * time.Minute // request_poll to an unknown connected peer at most once per this
	c28CleanupEvery    = time.Minute      // cleanup tick
	c28TickStep        = 10 * time.Second // poll tick; the driver stops the clock at every multiple
)

var c28PeerIDs = []string{
	"02aaaaaaaaaaaaaaaaaaaaaaaaaaaaaaaaaaaaaaaaaaaaaaaaaaaaaaaaaaaaaaaaaa",
	"03bbbbbbbbbbbbbbbbbbbbbbbbbbbbbbbbbbbbbbbbbbbbbbbbbbbbbbbbbbbbbbbbbb",
	"02cccccccccccccccccccccccccccccccccccccccccccccccccccccccccccccccc",
}
var c28PeerNames = []string{"P", "Q", "R"}

func c28PeerIndex(id string) int {
	for i, p := range c28PeerIDs {
		if p == id {
			return i
		}
	}
	return -1
}

// ---------------------------------------------------------------- capability values

type c28Cap struct {
	Ver     uint64
	Assets  []string
	Allowed bool
	Rates   [4]int64 // btc in, btc out, lbtc in, lbtc out
}

func (c *c28Cap) String() string {
	if c == nil {
		return "none"
	}
	return fmt.Sprintf("v%d/%s/allowed=%v/%v", c.Ver, strings.Join(c.Assets, "+"), c.Allowed, c.Rates)
}

// c28CapDiff names the first differing field ("" = equal); nil means "no capability".
func c28CapDiff(a, b *c28Cap) string {
	switch {
	case a == nil && b == nil:
		return ""
	case a == nil || b == nil:
		return "presence"
	case a.Ver != b.Ver:
		return "version"
	case strings.Join(a.Assets, ",") != strings.Join(b.Assets, ","):
		return "assets"
	case a.Allowed != b.Allowed:
		return "peer_allowed"
	}
	for i, n := range []string{"btc_swap_in_rate", "btc_swap_out_rate", "lbtc_swap_in_rate", "lbtc_swap_out_rate"} {
		if a.Rates[i] != b.Rates[i] {
			return n
		}
	}
	return ""
}

// wire layout of poll / request_poll
type c28Wire struct {
	Version     uint64   `json:"version,omitempty"`
	Assets      []string `json:"assets,omitempty"`
	PeerAllowed bool     `json:"peer_allowed,omitempty"`
	BTCIn       int64    `json:"btc_swap_in_premium_rate_ppm,omitempty"`
	BTCOut      int64    `json:"btc_swap_out_premium_rate_ppm,omitempty"`
	LBTCIn      int64    `json:"lbtc_swap_in_premium_rate_ppm,omitempty"`
	LBTCOut     int64    `json:"lbtc_swap_out_premium_rate_ppm,omitempty"`
}

func (c *c28Cap) wire() []byte {
	b, _ := json.Marshal(c28Wire{c.Ver, c.Assets, c.Allowed, c.Rates[0], c.Rates[1], c.Rates[2], c.Rates[3]})
	return b
}

var (
	c28AssetSets = [][]string{{"BTC", "LBTC"}, {"LBTC"}}
	c28RateSets  = [][4]int64{{0, 2000, 0, 1000}, {-1_000_000, 7777, 1, 0}}
)

// variant: bit0 = asset set (and peer_allowed = first set), bit1 = rate set
func c28Payload(own uint64, verOff, variant int) *c28Cap {
	return &c28Cap{Ver: uint64(int(own) + verOff), Assets: c28AssetSets[variant&1], Allowed: variant&1 == 0, Rates: c28RateSets[(variant>>1)&1]}
}

func c28CapOfPeer(p *peersync.Peer) *c28Cap {
	if p == nil || p.Capability() == nil {
		return nil
	}
	c := p.Capability()
	return &c28Cap{Ver: c.Version().Value(), Assets: c.SupportedAssetStrings(), Allowed: c.IsAllowed(), Rates: [4]int64{
		c.PremiumRateValue(premium.BTC, premium.SwapIn), c.PremiumRateValue(premium.BTC, premium.SwapOut),
		c.PremiumRateValue(premium.LBTC, premium.SwapIn), c.PremiumRateValue(premium.LBTC, premium.SwapOut)}}
}

// c28Snap is every observable field of a stored peer record.
type c28Snap struct {
	ID, Address, Status string
	LastPoll, LastObs   time.Time
	Cap                 *c28Cap
}

func c28SnapOf(p *peersync.Peer) c28Snap {
	return c28Snap{ID: p.ID().String(), Address: p.Address(), Status: string(p.Status()),
		LastPoll: p.LastPollAt(), LastObs: p.LastObservedAt(), Cap: c28CapOfPeer(p)}
}

// zeroCap: a capability whose every field is the zero value carries no information; the
// accessors of a record without capability return the same values.
func c28Normalize(c *c28Cap) *c28Cap {
	if c == nil || (c.Ver == 0 && len(c.Assets) == 0 && !c.Allowed && c.Rates == [4]int64{}) {
		return nil
	}
	return c
}

func c28SnapDiff(a, b c28Snap) string {
	switch {
	case a.ID != b.ID:
		return "id"
	case a.Address != b.Address:
		return "address"
	case a.Status != b.Status:
		return "status"
	case !a.LastPoll.Equal(b.LastPoll):
		return "last_poll_at"
	case !a.LastObs.Equal(b.LastObs):
		return "last_observed_at"
	}
	return c28CapDiff(c28Normalize(a.Cap), c28Normalize(b.Cap))
}

// ---------------------------------------------------------------- part A: store round trip grid

func c28StoreGrid(rep *EnumReport, dir string) {
	os.MkdirAll(dir, 0o755)
	defer os.RemoveAll(dir)
	own := uint64(swap.PEERSWAP_PROTOCOL_VERSION)
	t1 := time.Date(2026, 9, 21, 12, 34, 56, 123456789, time.UTC)
	t2 := t1.In(time.FixedZone("JST", 9*3600)).Add(-40 * time.Minute)
	times := []time.Time{{}, t1, t2}
	statuses := []peersync.PeerStatus{peersync.StatusActive, peersync.StatusInactive, peersync.StatusUnknown, peersync.StatusExpired}
	assetSets := [][]peersync.Asset{nil, {peersync.AssetBTC}, {peersync.AssetLBTC}, {peersync.AssetBTC, peersync.AssetLBTC}, {peersync.AssetLBTC, peersync.AssetBTC}}
	rateSets := [][4]int64{{0, 0, 0, 0}, {0, 2000, 0, 1000}, {-1_000_000, 1_000_000, -1, 1}, {1, 0, 7777, 0}}
	versions := []uint64{0, own - 1, own, own + 1}
	type caseT struct {
		hasCap  bool
		ver     uint64
		assets  int
		allowed bool
		rates   int
		status  int
		poll    int
		obs     int
		addr    string
	}
	var cases []caseT
	for _, st := range []int{0, 1, 2, 3} {
		for _, pl := range []int{0, 1, 2} {
			for _, ob := range []int{0, 1, 2} {
				for _, addr := range []string{"", "203.0.113.7:9735"} {
					cases = append(cases, caseT{status: st, poll: pl, obs: ob, addr: addr})
					for _, v := range versions {
						for as := range assetSets {
							for _, al := range []bool{false, true} {
								for rs := range rateSets {
									cases = append(cases, caseT{true, v, as, al, rs, st, pl, ob, addr})
								}
							}
						}
					}
				}
			}
		}
	}
	path := filepath.Join(dir, "grid.db")
	store, err := peersync.NewStore(path)
	if err != nil {
		rep.Internal = append(rep.Internal, "grid store: "+err.Error())
		return
	}
	defer func() { store.Close() }()
	id, _ := peersync.NewPeerID(c28PeerIDs[0])
	for i, c := range cases {
		p := peersync.NewPeer(id, c.addr)
		if c.hasCap {
			rs := rateSets[c.rates]
			p.UpdateCapability(peersync.NewPeerCapability(peersync.NewVersion(c.ver), assetSets[c.assets], c.allowed,
				premium.NewPPM(rs[0]), premium.NewPPM(rs[1]), premium.NewPPM(rs[2]), premium.NewPPM(rs[3])))
		}
		p.SetStatus(statuses[c.status])
		p.SetLastPollAt(times[c.poll])
		p.SetLastObservedAt(times[c.obs])
		want := c28SnapOf(p)
		if err := store.SavePeerState(p); err != nil {
			rep.Violations = append(rep.Violations, mc.Violation{Property: "C28", Key: "reload_differs:field=save_failed",
				Detail: fmt.Sprintf("SavePeerState(%+v): %v", want, err)})
			continue
		}
		reopened := i%5 == 0 // closing and re-opening the file for every 5th record keeps the run short; the rest reload from the open file
		if reopened {
			store.Close()
			if store, err = peersync.NewStore(path); err != nil {
				rep.Internal = append(rep.Internal, "grid reopen: "+err.Error())
				return
			}
		}
		rep.Transitions++
		got, err := store.GetPeerState(id)
		if err != nil {
			rep.Violations = append(rep.Violations, mc.Violation{Property: "C28", Key: "reload_differs:field=load_failed",
				Detail: fmt.Sprintf("saved %+v (cap %s); GetPeerState: %v", want, want.Cap, err)})
			rep.Outcomes["store_roundtrip:LOAD_FAILED"]++
			continue
		}
		gs := c28SnapOf(got)
		if f := c28SnapDiff(want, gs); f != "" {
			rep.Outcomes["store_roundtrip:DIFFERS"]++
			rep.Violations = append(rep.Violations, mc.Violation{Property: "C28", Key: "reload_differs:field=" + f + ":via=store_roundtrip",
				Detail: fmt.Sprintf("saved %+v (cap %s), loaded %+v (cap %s); file re-opened in between: %v", want, want.Cap, gs, gs.Cap, reopened)})
			continue
		}
		class := "store_roundtrip:equal:capability="
		switch {
		case !c.hasCap:
			class += "none"
		case c28Normalize(want.Cap) == nil:
			class += "all_zero_fields"
		default:
			class += "present"
		}
		if reopened {
			class += ":file_reopened"
		}
		rep.Outcomes[class]++
		if got.Capability() != nil && !got.Capability().ObservedAt().Equal(p.Capability().ObservedAt()) {
			rep.Outcomes["info:capability_observed_at_replaced_by_last_seen_on_load"]++
		}
	}
	rep.Alphabets["store_grid"] = map[string]any{"status": statuses, "last_poll_at": times, "last_observed_at": times,
		"address": []string{"", "203.0.113.7:9735"}, "capability": "none | version{0,own-1,own,own+1} x assets{-,BTC,LBTC,BTC+LBTC,LBTC+BTC} x allowed{f,t} x 4 rate sets",
		"records": len(cases)}
}

// ---------------------------------------------------------------- part B: operations

type c28Op struct {
	Kind    string // poll | reqpoll | racepoll | connect | disconnect | clock | polltick | sweeptick | sendfault | forcepoll | reopen
	Peer    int
	Ver     int // offset to this node's protocol version
	Variant int
	D       time.Duration
	// SweepFirst (clock operations): at instants where the poll ticker and the cleanup ticker
	// fire together the cleanup sweep runs before the poll pass (default: after it)
	SweepFirst bool
}

func (o c28Op) String() string {
	switch o.Kind {
	case "poll", "reqpoll", "racepoll":
		v := "own"
		if o.Ver != 0 {
			v = fmt.Sprintf("own%+d", o.Ver)
		}
		return fmt.Sprintf("%s(%s,v=%s,assets%d/rates%d)", o.Kind, c28PeerNames[o.Peer], v, o.Variant&1, (o.Variant>>1)&1)
	case "connect", "disconnect":
		return fmt.Sprintf("%s(%s)", o.Kind, c28PeerNames[o.Peer])
	case "clock":
		if o.SweepFirst {
			return "clock+" + o.D.String() + "(sweep-first)"
		}
		return "clock+" + o.D.String()
	}
	return o.Kind
}

func (o c28Op) class() string {
	if o.Kind == "clock" {
		if o.SweepFirst {
			return "clock+" + o.D.String() + "(sweep-first)"
		}
		return "clock+" + o.D.String()
	}
	return o.Kind
}

func c28Alphabet(tier string) ([]c28Op, string) {
	var ops []c28Op
	if tier == "sweep" {
		// around a cleanup sweep of an expired peer: connection changes in the seconds before it
		for _, d := range []time.Duration{10 * time.Second, 40 * time.Second} {
			ops = append(ops, c28Op{Kind: "clock", D: d})
		}
		ops = append(ops, c28Op{Kind: "clock", D: 10 * time.Second, SweepFirst: true})
		ops = append(ops, c28Op{Kind: "connect", Peer: 0}, c28Op{Kind: "disconnect", Peer: 0}, c28Op{Kind: "polltick"}, c28Op{Kind: "sweeptick"})
		return ops, "sweep: peer P only; clock steps of one poll interval and of 40 s, connect / disconnect, a manual poll pass, a manual cleanup sweep"
	}
	msg := func(kind string, peer, ver, variant int) {
		ops = append(ops, c28Op{Kind: kind, Peer: peer, Ver: ver, Variant: variant})
	}
	global := func() {
		for _, d := range []time.Duration{11 * time.Second, 6 * time.Minute, 31 * time.Minute} {
			ops = append(ops, c28Op{Kind: "clock", D: d})
		}
		ops = append(ops, c28Op{Kind: "clock", D: 6 * time.Minute, SweepFirst: true})
		ops = append(ops, c28Op{Kind: "polltick"}, c28Op{Kind: "forcepoll"}, c28Op{Kind: "reopen"}, c28Op{Kind: "sweeptick"}, c28Op{Kind: "sendfault"})
	}
	if tier == "thorough" {
		for _, v := range []int{-1, 0, 1} {
			msg("poll", 0, v, 0)
			msg("poll", 0, v, 3)
		}
		msg("poll", 0, 0, 1)
		msg("poll", 0, 0, 2)
		msg("reqpoll", 0, -1, 0)
		msg("reqpoll", 0, 0, 3)
		msg("reqpoll", 0, 1, 0)
		msg("racepoll", 0, 0, 3)
		ops = append(ops, c28Op{Kind: "connect", Peer: 0}, c28Op{Kind: "disconnect", Peer: 0})
		for _, v := range []int{-1, 0, 1} {
			msg("poll", 1, v, 0)
		}
		msg("reqpoll", 1, 0, 0)
		ops = append(ops, c28Op{Kind: "connect", Peer: 1}, c28Op{Kind: "disconnect", Peer: 1})
		msg("poll", 2, 0, 0)
		ops = append(ops, c28Op{Kind: "connect", Peer: 2}, c28Op{Kind: "disconnect", Peer: 2})
		global()
		return ops, "thorough: P gets poll x {own-1,own,own+1} x {assets0/rates0, assets1/rates1} + the two mixed variants at own version, " +
			"request_poll x 3 versions, the mid-pass poll; Q gets poll x 3 versions (one variant) and one request_poll; R gets one poll; all three connect/disconnect"
	}
	for _, v := range []int{-1, 0, 1} {
		msg("poll", 0, v, 0)
		msg("poll", 0, v, 3)
	}
	msg("reqpoll", 0, -1, 0)
	msg("reqpoll", 0, 0, 3)
	msg("racepoll", 0, 0, 3)
	ops = append(ops, c28Op{Kind: "connect", Peer: 0}, c28Op{Kind: "disconnect", Peer: 0})
	msg("poll", 1, 0, 0)
	ops = append(ops, c28Op{Kind: "connect", Peer: 1}, c28Op{Kind: "disconnect", Peer: 1})
	global()
	return ops, "quick: two peers; P gets poll x {own-1,own,own+1} x {assets0/rates0, assets1/rates1}, request_poll (own-1 and own), the mid-pass poll, " +
		"connect/disconnect; Q (isolation, per-peer rate limit) gets one poll (own version) and connect/disconnect; the mixed asset/rate variants, " +
		"request_poll with own+1 and peer R are thorough-only"
}

// ---------------------------------------------------------------- Lightning port

type c28Send struct {
	At      time.Time
	To      int
	Typ     messages.MessageType
	Phase   string // initial | regular | forced | deliver (set by the driver: what is running)
	Known   bool   // the peer had a store record when the message went out
	Failed  bool   // the port returned an error (peer not connected, or an injected send failure)
	Conn    bool   // the peer was connected when the message went out
	Payload []byte
}

type c28Lightning struct {
	mu        sync.Mutex
	connected []peersync.PeerID
	ch        chan peersync.CustomMessage
	gate      chan struct{}
	pending   int
	// the poll pass started by the ticker at an instant where the cleanup ticker fires too is
	// held at its first Lightning call until the driver has seen what the sweep does
	manualSweep bool // the driver itself runs a sweep (hook VerifCleanupExpired): no gate
	failSends   int  // the next n sends to connected peers fail (operation sendfault)
	holdPoll    bool
	pollGate    chan struct{}
	pollPending int
	phase       string
	store       *peersync.Store
	sends       []c28Send
	tbl         map[int]time.Time // mirror of the poller's request table, used for state de-duplication only
	inject      *peersync.CustomMessage
	injected    bool
	listCalls   int
}

func c28FromCleanup() bool {
	var pcs [32]uintptr
	n := runtime.Callers(3, pcs[:])
	frames := runtime.CallersFrames(pcs[:n])
	for {
		f, more := frames.Next()
		if strings.HasSuffix(f.Function, ".cleanupExpired") {
			return true
		}
		if !more {
			return false
		}
	}
}

func c28FromPollTicker() bool {
	var pcs [32]uintptr
	n := runtime.Callers(3, pcs[:])
	frames := runtime.CallersFrames(pcs[:n])
	for {
		f, more := frames.Next()
		if strings.HasSuffix(f.Function, ".runPollLoop") {
			return true
		}
		if !more {
			return false
		}
	}
}

// holdTickerPoll blocks the ticker's poll pass at its first Lightning call while the driver asks for it.
func (l *c28Lightning) holdTickerPoll() {
	l.mu.Lock()
	if !l.holdPoll || !c28FromPollTicker() {
		l.mu.Unlock()
		return
	}
	l.holdPoll = false // only the first call of the pass
	l.pollPending++
	g := l.pollGate
	l.mu.Unlock()
	<-g
}

func (l *c28Lightning) SendCustomMessage(_ context.Context, to peersync.PeerID, typ messages.MessageType, payload []byte) error {
	l.holdTickerPoll()
	l.mu.Lock()
	st := l.store
	l.mu.Unlock()
	known := false
	if st != nil {
		if p, err := st.GetPeerState(to); err == nil && p != nil {
			known = true
		}
	}
	idx := c28PeerIndex(to.String())
	l.mu.Lock()
	phase := l.phase
	var sendErr error = errors.New("peer is not connected") // what lnd / cln answer for a peer that is not connected
	conn := false
	for _, c := range l.connected {
		if c == to {
			sendErr = nil
			conn = true
		}
	}
	if conn && l.failSends > 0 {
		// injected: the message to a connected peer is not delivered (send timeout)
		l.failSends--
		sendErr = errors.New("send custom message: context deadline exceeded (injected)")
	}
	l.sends = append(l.sends, c28Send{time.Now(), idx, typ, phase, known, sendErr != nil, conn, append([]byte{}, payload...)})
	if typ == messages.MESSAGETYPE_REQUEST_POLL && !known && (phase == "regular" || phase == "forced") {
		l.tbl[idx] = time.Now()
	}
	var inj *peersync.CustomMessage
	if l.inject != nil && l.inject.From == to {
		inj = l.inject
		l.inject = nil
		l.injected = true
	}
	l.mu.Unlock()
	if inj != nil {
		// a poll from this very peer arrives (and is handled completely) while the poll pass is
		// still busy sending to it
		l.ch <- *inj
		synctest.Wait()
	}
	return sendErr
}

func (l *c28Lightning) SubscribeCustomMessages(context.Context) (<-chan peersync.CustomMessage, error) {
	return l.ch, nil
}
func (l *c28Lightning) Stop() error { return nil }

func (l *c28Lightning) ListPeers(context.Context) ([]peersync.PeerID, error) {
	l.holdTickerPoll()
	l.mu.Lock()
	manual := l.manualSweep
	l.mu.Unlock()
	if c28FromCleanup() && !manual {
		// the cleanup tick and the poll tick fire at the same instant every minute; the sweep
		// is held here until the poll pass of that instant is over (deterministic order)
		l.mu.Lock()
		l.pending++
		g := l.gate
		l.mu.Unlock()
		<-g
	}
	l.mu.Lock()
	defer l.mu.Unlock()
	l.listCalls++
	present := map[int]bool{}
	for _, p := range l.connected {
		present[c28PeerIndex(p.String())] = true
	}
	for i := range l.tbl {
		if !present[i] {
			delete(l.tbl, i)
		}
	}
	return append([]peersync.PeerID{}, l.connected...), nil
}

// ---------------------------------------------------------------- reference model (from the statement)

type c28MPeer struct {
	cap        *c28Cap
	lastUpdate time.Time // last capability message that became (or confirmed) the stored capability
	lastAny    time.Time // last capability message of any version
}

type c28Model struct {
	stored     map[int]*c28MPeer
	conn       map[int]bool
	lastForcedReq map[int]time.Time // last forced request_poll to the peer while unknown (same windows as lastRegReq)
	lastRegReq map[int]time.Time // last non-forced request_poll to the peer while unknown; a disconnect of the peer or a restart starts a new window
}

type c28Res struct {
	Key       string
	PrefixKey string
	Viol      []mc.Violation
	Outcomes  map[string]int
	Intern    string
	Evals     int
	Sample    map[string]any
}

// c28Worker owns one store file that is emptied (not re-created) between executions:
// opening and closing a bbolt file costs an mmap/munmap of the whole process.
type c28Worker struct {
	dir   string
	store *peersync.Store
}

type c28X struct {
	sweepFirst bool // order at coincident ticks during the current clock operation
	w          *c28Worker
	dir, path  string
	own        uint64
	ids        []peersync.PeerID
	store      *peersync.Store
	ps         *peersync.PeerSync
	ln         *c28Lightning
	cancel     context.CancelFunc
	ctx        context.Context
	startAt    time.Time
	m          *c28Model
	res        *c28Res
	hist       []string
	sendsDone  int
}

func (x *c28X) violate(key, detail string) {
	x.res.Viol = append(x.res.Viol, mc.Violation{Property: "C28", Key: key,
		Detail: fmt.Sprintf("sequence %v: %s", x.hist, detail)})
}

func (x *c28X) out(class string) { x.res.Outcomes[class]++ }

func (x *c28X) boot() error {
	if x.w.store == nil {
		st, err := peersync.NewStore(x.path)
		if err != nil {
			return err
		}
		x.w.store = st
	}
	st := x.w.store
	x.store = st
	x.ln.mu.Lock()
	x.ln.ch = make(chan peersync.CustomMessage)
	x.ln.gate = make(chan struct{})
	x.ln.pollGate = make(chan struct{})
	x.ln.holdPoll, x.ln.pollPending = false, 0
	x.ln.store = st
	x.ln.phase = "initial"
	x.ln.tbl = map[int]time.Time{}
	x.ln.mu.Unlock()
	x.ctx, x.cancel = context.WithCancel(context.Background())
	self, _ := peersync.NewPeerID("02ffffffffffffffffffffffffffffffffffffffffffffffffffffffffffffffff")
	x.ps = peersync.NewPeerSync(self, st, x.ln, nil, []string{"btc", "lbtc"}, nil)
	x.startAt = time.Now()
	if err := x.ps.Start(x.ctx); err != nil {
		return err
	}
	synctest.Wait()
	x.setPhase("regular")
	return nil
}

// stop ends the goroutines of the running PeerSync; closeStore also closes the bbolt file.
func (x *c28X) stop(closeStore bool) {
	x.releasePoll()
	x.releaseCleanup()
	x.cancel()
	synctest.Wait()
	if closeStore {
		x.store.Close()
		x.w.store = nil
	}
}

func (x *c28X) setPhase(p string) {
	x.ln.mu.Lock()
	x.ln.phase = p
	x.ln.mu.Unlock()
}

func (x *c28X) releaseCleanup() {
	for {
		x.ln.mu.Lock()
		n := x.ln.pending
		if n > 0 {
			x.ln.pending--
		}
		g := x.ln.gate
		x.ln.mu.Unlock()
		if n == 0 {
			return
		}
		g <- struct{}{}
		synctest.Wait()
		x.out("info:cleanup_sweep_ordered_after_poll_pass")
	}
}

// advance moves the virtual clock; it stops at every 10 s multiple since Start so that the
// poll pass of an instant is over before the cleanup sweep of the same instant runs.
func (x *c28X) advance(d time.Duration) {
	target := time.Now().Add(d)
	for {
		now := time.Now()
		el := now.Sub(x.startAt)
		next := x.startAt.Add((el/c28TickStep + 1) * c28TickStep)
		if next.After(target) {
			time.Sleep(target.Sub(now))
			synctest.Wait()
			x.releaseCleanup()
			return
		}
		// at an instant where both tickers fire, the poll pass is held at its first Lightning
		// call: a sweep that does not ask the node for the connected peers (and so never reaches
		// its own gate) runs before it, with whatever it remembers; a sweep that asks is released
		// after the poll pass, as before
		both := next.Sub(x.startAt)%c28CleanupEvery == 0
		if both {
			x.ln.mu.Lock()
			x.ln.holdPoll = true
			x.ln.mu.Unlock()
		}
		time.Sleep(next.Sub(now))
		synctest.Wait()
		if both && x.sweepFirst {
			x.releaseCleanup()
		}
		if both {
			x.releasePoll()
		}
		x.releaseCleanup()
	}
}

func (x *c28X) releasePoll() {
	x.ln.mu.Lock()
	x.ln.holdPoll = false
	n := x.ln.pollPending
	x.ln.pollPending = 0
	g := x.ln.pollGate
	x.ln.mu.Unlock()
	for ; n > 0; n-- {
		g <- struct{}{}
		synctest.Wait()
		x.out("info:poll_pass_held_at_coincident_tick")
	}
}

func (x *c28X) deliver(typ messages.MessageType, peer int, c *c28Cap) {
	x.setPhase("deliver")
	x.ln.ch <- peersync.CustomMessage{From: x.ids[peer], Type: typ, Payload: c.wire()}
	synctest.Wait()
	x.setPhase("regular")
}

// realPeers reads the store through its public API.
func (x *c28X) realPeers() (map[int]c28Snap, error) {
	ps, err := x.store.GetAllPeerStates()
	if err != nil {
		return nil, err
	}
	out := map[int]c28Snap{}
	for _, p := range ps {
		i := c28PeerIndex(p.ID().String())
		if i < 0 {
			return nil, fmt.Errorf("foreign peer %s in store", p.ID())
		}
		out[i] = c28SnapOf(p)
	}
	return out, nil
}

func c28Rel(prior *c28Cap, in *c28Cap) string {
	switch {
	case prior == nil:
		return "first"
	case in.Ver < prior.Ver:
		return "lower"
	case in.Ver == prior.Ver:
		return "equal"
	}
	return "higher"
}

// apply runs one operation on the real code, updates the model and judges the result.
func (x *c28X) apply(o c28Op) error {
	x.hist = append(x.hist, o.String())
	x.res.Evals++
	before, err := x.realPeers()
	if err != nil {
		return err
	}
	now0 := time.Now()
	var msgPeer = -1
	var incoming, prior *c28Cap
	msgKind, during := "", ""
	var reloadBefore map[int]c28Snap
	switch o.Kind {
	case "poll", "reqpoll", "racepoll":
		msgPeer = o.Peer
		incoming = c28Payload(x.own, o.Ver, o.Variant)
		if mp := x.m.stored[o.Peer]; mp != nil {
			prior = mp.cap
		}
		switch o.Kind {
		case "poll":
			msgKind = "poll"
			x.deliver(messages.MESSAGETYPE_POLL, o.Peer, incoming)
		case "reqpoll":
			msgKind = "request_poll"
			x.deliver(messages.MESSAGETYPE_REQUEST_POLL, o.Peer, incoming)
		case "racepoll":
			msgKind = "poll"
			x.ln.mu.Lock()
			x.ln.inject = &peersync.CustomMessage{From: x.ids[o.Peer], Type: messages.MESSAGETYPE_POLL, Payload: incoming.wire()}
			x.ln.injected = false
			x.ln.mu.Unlock()
			x.ps.PollAllPeers(x.ctx)
			synctest.Wait()
			x.ln.mu.Lock()
			mid := x.ln.injected
			x.ln.inject = nil
			x.ln.mu.Unlock()
			if mid {
				during = ":during=poll_pass"
				x.out("poll_arrived_during_poll_pass")
			} else {
				// the pass had nothing to send to this peer: the poll arrives right after it
				x.deliver(messages.MESSAGETYPE_POLL, o.Peer, incoming)
				x.out("poll_arrived_after_poll_pass")
			}
		}
		// statement (1): most recent poll unless it advertises a lower version
		mp := x.m.stored[o.Peer]
		if mp == nil {
			mp = &c28MPeer{}
			x.m.stored[o.Peer] = mp
		}
		mp.lastAny = now0
		if prior == nil || incoming.Ver >= prior.Ver {
			mp.cap = incoming
			mp.lastUpdate = now0
		}
	case "connect", "disconnect":
		on := o.Kind == "connect"
		x.m.conn[o.Peer] = on
		var list []peersync.PeerID
		for i := range x.ids {
			if x.m.conn[i] {
				list = append(list, x.ids[i])
			}
		}
		x.ln.mu.Lock()
		x.ln.connected = list
		x.ln.mu.Unlock()
		if !on {
			delete(x.m.lastRegReq, o.Peer)
			delete(x.m.lastForcedReq, o.Peer)
		}
	case "clock":
		x.sweepFirst = o.SweepFirst
		x.advance(o.D)
		x.sweepFirst = false
	case "polltick":
		x.ps.PollAllPeers(x.ctx)
		synctest.Wait()
	case "sendfault":
		// the next message to a connected peer is not delivered (the port reports a send timeout)
		x.ln.mu.Lock()
		x.ln.failSends = 1
		x.ln.mu.Unlock()
	case "sweeptick":
		// one cleanup sweep at this very instant (what the cleanup ticker does), between two other operations
		x.ln.mu.Lock()
		x.ln.manualSweep = true
		x.ln.mu.Unlock()
		_ = x.ps.VerifCleanupExpired(x.ctx)
		synctest.Wait()
		x.ln.mu.Lock()
		x.ln.manualSweep = false
		x.ln.mu.Unlock()
		x.out("info:manual_sweep")
	case "forcepoll":
		x.setPhase("forced")
		x.ps.ForcePollAllPeers(x.ctx)
		synctest.Wait()
		x.setPhase("regular")
	case "reopen":
		reloadBefore = before
		x.stop(true)
		x.m.lastRegReq = map[int]time.Time{}
		x.m.lastForcedReq = map[int]time.Time{}
		if err := x.boot(); err != nil {
			return err
		}
	default:
		return fmt.Errorf("unknown op %s", o.Kind)
	}
	after, err := x.realPeers()
	if err != nil {
		return err
	}
	now := time.Now()

	// ---- statement (2): reload unchanged
	if reloadBefore != nil {
		same := true
		for i, b := range reloadBefore {
			a, ok := after[i]
			if !ok {
				same = false
				x.violate("reload_differs:field=record_missing", fmt.Sprintf("record of %s (%+v cap %s) is gone after closing and re-opening the store", c28PeerNames[i], b, b.Cap))
				continue
			}
			if f := c28SnapDiff(b, a); f != "" {
				same = false
				x.violate("reload_differs:field="+f, fmt.Sprintf("record of %s before close %+v (cap %s), after re-open %+v (cap %s)", c28PeerNames[i], b, b.Cap, a, a.Cap))
			}
		}
		for i := range after {
			if _, ok := reloadBefore[i]; !ok {
				same = false
				x.violate("reload_differs:field=record_appeared", fmt.Sprintf("record of %s appeared by re-opening the store", c28PeerNames[i]))
			}
		}
		if same {
			if len(after) > 0 {
				x.out("reload_equal:records>0")
			} else {
				x.out("reload_equal:empty_store")
			}
		}
	}

	// ---- statements (1) and (3): membership and stored capability against the model
	for i := range x.ids {
		mp := x.m.stored[i]
		real, present := after[i]
		name := c28PeerNames[i]
		if mp == nil {
			if present {
				x.violate("peer_appeared_without_poll:after="+o.class(), fmt.Sprintf("%s has a store record (%+v cap %s) but never sent a capability message", name, real, real.Cap))
				x.m.stored[i] = &c28MPeer{cap: real.Cap, lastUpdate: now, lastAny: now} // follow the implementation so that one defect is reported once
			}
			continue
		}
		ageUpd, ageAny := now.Sub(mp.lastUpdate), now.Sub(mp.lastAny)
		if !present {
			switch {
			case i == msgPeer:
				x.violate("latest_poll_not_stored:version="+c28Rel(prior, incoming)+":msg="+msgKind+during,
					fmt.Sprintf("%s sent %s with %s, there is no store record afterwards", name, msgKind, incoming))
			case o.Kind != "clock" && o.Kind != "sweeptick":
				x.violate("peer_removed_outside_cleanup:after="+o.class(), fmt.Sprintf("record of %s (cap %s) disappeared", name, mp.cap))
			case x.m.conn[i] && ageAny > c28Expiry:
				x.violate("expired_connected_peer_removed", fmt.Sprintf("%s was last heard %s ago and is connected, yet the cleanup removed its record (cap %s)", name, ageAny, mp.cap))
			case ageUpd <= c28Expiry:
				x.violate(fmt.Sprintf("unexpired_peer_removed:connected=%v", x.m.conn[i]),
					fmt.Sprintf("%s was last heard %s ago (expiry %s), yet its record (cap %s) was removed", name, ageAny, c28Expiry, mp.cap))
			case x.m.conn[i]:
				// expired by the capability age but a lower-version message was heard within the expiry time
				x.violate("expired_connected_peer_removed", fmt.Sprintf("%s (capability %s old, last message %s ago) is connected, yet the cleanup removed its record", name, ageUpd, ageAny))
			default:
				x.out("cleanup:expired_disconnected_removed")
			}
			delete(x.m.stored, i)
			continue
		}
		if o.Kind == "sweeptick" && !x.m.conn[i] && ageAny >= c28Expiry+c28TickStep {
			x.violate("expired_disconnected_peer_kept", fmt.Sprintf("%s is disconnected and was last heard %s ago (expiry %s), yet a cleanup sweep left its record stored", name, ageAny, c28Expiry))
		}
		if o.Kind == "clock" {
			sinceExpiry := ageAny - c28Expiry
			if o.D < sinceExpiry {
				sinceExpiry = o.D
			}
			switch {
			case !x.m.conn[i] && sinceExpiry >= c28CleanupEvery:
				x.violate("expired_disconnected_peer_kept", fmt.Sprintf("%s is disconnected, was last heard %s ago (expiry %s) and at least one cleanup tick ran after the expiry, yet its record is still stored",
					name, ageAny, c28Expiry))
			case x.m.conn[i] && sinceExpiry >= c28CleanupEvery:
				x.out("cleanup:expired_connected_kept")
			case ageAny <= c28Expiry && o.D >= c28CleanupEvery:
				x.out("cleanup:unexpired_kept")
			}
		}
		want := mp.cap
		if f := c28CapDiff(real.Cap, want); f != "" {
			switch {
			case i != msgPeer:
				x.violate("capability_changed_without_poll:after="+o.class()+":field="+f,
					fmt.Sprintf("stored capability of %s is %s, its most recent accepted poll said %s", name, real.Cap, want))
			case prior != nil && incoming.Ver < prior.Ver && c28CapDiff(real.Cap, incoming) == "":
				x.violate("older_version_overwrote_newer:msg="+msgKind+during,
					fmt.Sprintf("%s had stored %s; a %s with the lower version %d (%s) replaced it", name, prior, msgKind, incoming.Ver, incoming))
			case (prior == nil || incoming.Ver >= prior.Ver) && c28CapDiff(real.Cap, prior) == "" && during != "":
				x.violate("latest_poll_not_stored:msg="+msgKind+during,
					fmt.Sprintf("%s had stored %s; while a poll pass was sending to %s, its poll with %s (version not lower) arrived and was handled; after the pass the store says %s again",
						name, prior, name, incoming, real.Cap))
			case (prior == nil || incoming.Ver >= prior.Ver) && c28CapDiff(real.Cap, prior) == "":
				x.violate("latest_poll_not_stored:version="+c28Rel(prior, incoming)+":msg="+msgKind+during,
					fmt.Sprintf("%s had stored %s and sent %s with %s (version not lower); the store still says %s", name, prior, msgKind, incoming, real.Cap))
			default:
				x.violate("stored_capability_differs:field="+f+":msg="+msgKind+during,
					fmt.Sprintf("%s sent %s with %s (stored before: %s); the store says %s, expected %s", name, msgKind, incoming, prior, real.Cap, want))
			}
			mp.cap = real.Cap // follow the implementation so that one defect is reported once
		} else if i == msgPeer {
			switch c28Rel(prior, incoming) {
			case "lower":
				x.out("poll_ignored:lower_version:msg=" + msgKind)
			default:
				x.out("poll_stored:" + c28Rel(prior, incoming) + "_version:msg=" + msgKind)
			}
		}
	}

	// ---- statement (4): request_poll to unknown connected peers
	x.ln.mu.Lock()
	sends := append([]c28Send{}, x.ln.sends[x.sendsDone:]...)
	x.sendsDone = len(x.ln.sends)
	x.ln.mu.Unlock()
	requested := map[int]bool{}
	for _, s := range sends {
		if s.Typ != messages.MESSAGETYPE_REQUEST_POLL || s.Known || s.To < 0 {
			continue
		}
		if !s.Conn {
			// the peer was not connected when this went out (e.g. a poll pass working from the record
			// list it read before a sweep removed the peer): not a request to an unknown CONNECTED peer
			x.out("info:request_poll_to_disconnected_peer_without_record")
			continue
		}
		requested[s.To] = true
		switch s.Phase {
		case "initial":
			x.out("request:initial_sync_at_start")
		case "forced":
			if last, ok := x.m.lastRegReq[s.To]; ok && s.At.Sub(last) < c28RequestInterval {
				x.out("request:forced_within_interval")
			} else {
				x.out("request:forced")
			}
			x.m.lastForcedReq[s.To] = s.At
		default:
			if !x.m.conn[s.To] {
				x.out("info:request_to_unknown_disconnected_peer")
			}
			if last, ok := x.m.lastRegReq[s.To]; ok {
				if gap := s.At.Sub(last); gap < c28RequestInterval {
					x.violate("request_rate_limit_violated:forced=false",
						fmt.Sprintf("request_poll to the unknown connected peer %s %s after the previous one (interval %s, not forced, no disconnect or restart in between)",
							c28PeerNames[s.To], gap, c28RequestInterval))
				} else {
					x.out("request:regular_after_interval")
				}
			} else {
				x.out("request:regular_first_in_window")
			}
			// a forced request starts a new interval as well: "at most once per request interval unless forced"
			// exempts the forced request itself, not the ordinary one that follows it
			if last, ok := x.m.lastForcedReq[s.To]; ok {
				if gap := s.At.Sub(last); gap < c28RequestInterval {
					x.violate("request_rate_limit_violated:forced=false:previous=forced",
						fmt.Sprintf("request_poll to the unknown connected peer %s %s after a forced one (interval %s, this one not forced, no disconnect or restart in between)",
							c28PeerNames[s.To], gap, c28RequestInterval))
				} else {
					x.out("request:regular_after_forced_interval")
				}
			}
			x.m.lastRegReq[s.To] = s.At
		}
	}
	if o.Kind == "polltick" {
		for i := range x.ids {
			if last, ok := x.m.lastRegReq[i]; ok && x.m.conn[i] && x.m.stored[i] == nil && !requested[i] && now.Sub(last) < c28RequestInterval {
				x.out("request:regular_suppressed_within_interval")
			}
		}
	}
	if o.Kind == "reqpoll" {
		answered := false
		for _, s := range sends {
			if s.Typ == messages.MESSAGETYPE_POLL && s.To == o.Peer && !s.Failed {
				answered = true
			}
		}
		x.out(fmt.Sprintf("info:request_poll_answered=%v", answered))
	}

	// ---- statement (5): compatible iff the stored capability has this node's version
	compat, err := x.ps.CompatiblePeers()
	if err != nil {
		return err
	}
	for i := range x.ids {
		class, want := "none", false
		if mp := x.m.stored[i]; mp != nil && mp.cap != nil {
			switch {
			case mp.cap.Ver < x.own:
				class = "lower"
			case mp.cap.Ver > x.own:
				class = "higher"
			default:
				class, want = "own", true
			}
		}
		got := x.ps.HasCompatiblePeer(c28PeerIDs[i])
		_, listed := compat[c28PeerIDs[i]]
		if got != want || listed != want {
			x.violate(fmt.Sprintf("compatibility_mismatch:stored_version=%s:reported=%v", class, got || listed),
				fmt.Sprintf("%s: stored capability version class %q (own version %d): HasCompatiblePeer=%v, listed by CompatiblePeers=%v, expected %v",
					c28PeerNames[i], class, x.own, got, listed, want))
		} else {
			x.out("compat:" + class)
		}
	}
	return nil
}

func c28Age(now, t time.Time, cap time.Duration) string {
	if t.IsZero() {
		return "-"
	}
	a := now.Sub(t)
	if a > cap {
		return ">" + cap.String()
	}
	return a.String()
}

// key canonicalises what the future behaviour can depend on: store contents (times relative
// to now, capped beyond the thresholds the code/oracle compare them with), rate-limit tables,
// connection set and the phase of the tickers.
func (x *c28X) key() (string, error) {
	real, err := x.realPeers()
	if err != nil {
		return "", err
	}
	now := time.Now()
	var b strings.Builder
	x.ln.mu.Lock()
	tbl := map[int]time.Time{}
	for k, v := range x.ln.tbl {
		tbl[k] = v
	}
	x.ln.mu.Unlock()
	for i := range x.ids {
		fmt.Fprintf(&b, "%s[conn=%v", c28PeerNames[i], x.m.conn[i])
		if r, ok := real[i]; ok {
			fmt.Fprintf(&b, " rec{%s %s poll=%s obs=%s cap=%s}", r.Status, r.Address, c28Age(now, r.LastPoll, c28TickStep),
				c28Age(now, r.LastObs, c28Expiry), r.Cap)
		}
		if mp := x.m.stored[i]; mp != nil {
			fmt.Fprintf(&b, " model{%s upd=%s any=%s}", mp.cap, c28Age(now, mp.lastUpdate, c28Expiry), c28Age(now, mp.lastAny, c28Expiry))
		}
		if t, ok := x.m.lastRegReq[i]; ok && now.Sub(t) < c28RequestInterval {
			fmt.Fprintf(&b, " req=%s", now.Sub(t))
		}
		if t, ok := x.m.lastForcedReq[i]; ok && now.Sub(t) < c28RequestInterval {
			fmt.Fprintf(&b, " freq=%s", now.Sub(t))
		}
		if t, ok := tbl[i]; ok && now.Sub(t) < c28RequestInterval {
			fmt.Fprintf(&b, " tbl=%s", now.Sub(t))
		}
		b.WriteString("] ")
	}
	fmt.Fprintf(&b, "phase=%s", now.Sub(x.startAt)%c28CleanupEvery)
	x.ln.mu.Lock()
	if x.ln.failSends > 0 {
		fmt.Fprintf(&b, " sendfault=%d", x.ln.failSends)
	}
	x.ln.mu.Unlock()
	return b.String(), nil
}

// c28Exec replays one operation sequence from an empty store inside a fresh bubble.
func c28Exec(t *testing.T, w *c28Worker, seq []c28Op) (res c28Res) {
	res.Outcomes = map[string]int{}
	os.MkdirAll(w.dir, 0o755)
	clean := false
	defer func() {
		if r := recover(); r != nil {
			res.Intern = fmt.Sprintf("panic in %v: %v", seq, r)
		}
		if !clean {
			// start the next execution of this worker from a new file
			if w.store != nil {
				w.store.Close()
				w.store = nil
			}
			os.RemoveAll(w.dir)
		}
	}()
	synctest.Test(t, func(*testing.T) {
		x := &c28X{w: w, dir: w.dir, path: filepath.Join(w.dir, "peers.db"), own: uint64(swap.PEERSWAP_PROTOCOL_VERSION), res: &res,
			ln: &c28Lightning{tbl: map[int]time.Time{}},
			m:  &c28Model{stored: map[int]*c28MPeer{}, conn: map[int]bool{}, lastRegReq: map[int]time.Time{}, lastForcedReq: map[int]time.Time{}}}
		for _, p := range c28PeerIDs {
			id, _ := peersync.NewPeerID(p)
			x.ids = append(x.ids, id)
		}
		if err := x.boot(); err != nil {
			res.Intern = "boot: " + err.Error()
			return
		}
		defer func() {
			if c28DebugSends {
				for _, s := range x.ln.sends {
					fmt.Printf("   send t=%s to=%d type=%d phase=%s known=%v failed=%v\n", s.At.Sub(x.startAt), s.To, s.Typ, s.Phase, s.Known, s.Failed)
				}
			}
			x.stop(false)
			// leave an empty store behind
			ps, err := x.store.GetAllPeerStates()
			for _, p := range ps {
				if err == nil {
					err = x.store.RemovePeerState(p.ID())
				}
			}
			clean = err == nil && res.Intern == ""
		}()
		if ps, err := x.store.GetAllPeerStates(); err != nil || len(ps) != 0 {
			res.Intern = fmt.Sprintf("store not empty at the start: %d records, %v", len(ps), err)
			return
		}
		for i, o := range seq {
			if i == len(seq)-1 {
				k, err := x.key()
				if err != nil {
					res.Intern = err.Error()
					return
				}
				res.PrefixKey = k
				// only the last operation is new; the prefix was judged when it was explored
				res.Viol, res.Outcomes = nil, map[string]int{}
			}
			if err := x.apply(o); err != nil {
				res.Intern = fmt.Sprintf("%v: %v", x.hist, err)
				return
			}
		}
		k, err := x.key()
		if err != nil {
			res.Intern = err.Error()
			return
		}
		res.Key = k
		res.Sample = map[string]any{"sequence": x.hist, "state": k}
	})
	return
}

func TestC28(t *testing.T) {
	vsync.SetMode(vsync.Plain) // no peersync lock is held across a wait for time: real locks are fine inside the bubbles
	stdlog.SetOutput(io.Discard)
	rep := EnumReport{ID: "C28", Level: "model_checking", Start: time.Now(), Exhaustive: true,
		Outcomes: map[string]int{}, Alphabets: map[string]any{}, Extra: map[string]any{}}
	tier := mc.Tier()
	c28StoreGrid(&rep, filepath.Join(workDir, "c28-grid"))

	type exploration struct {
		label  string
		tier   string
		depth  int
		prefix []c28Op
	}
	// the sweep exploration starts where peer P is stored, connected and expired (kept only because it is connected)
	sweepPrefix := []c28Op{{Kind: "connect", Peer: 0}, {Kind: "poll", Peer: 0}, {Kind: "clock", D: 31 * time.Minute}}
	expl := []exploration{{"quick alphabet", "quick", 4, nil}, {"sweep alphabet after [connect(P) poll(P) clock+31m]", "sweep", 6, sweepPrefix}}
	budget := 45 * time.Second
	if tier == "thorough" {
		expl = []exploration{{"thorough alphabet", "thorough", 5, nil}, {"sweep alphabet after [connect(P) poll(P) clock+31m]", "sweep", 8, sweepPrefix}}
		budget = 8 * time.Minute
	}
	const nw = 8
	workers := make([]*c28Worker, nw)
	for i := range workers {
		workers[i] = &c28Worker{dir: filepath.Join(workDir, fmt.Sprintf("c28-w%d", i))}
		defer func(w *c28Worker) {
			if w.store != nil {
				w.store.Close()
			}
			os.RemoveAll(w.dir)
		}(workers[i])
	}
	type item struct {
		seq []c28Op
		key string
	}
	allSeen := map[string]bool{}
	executions, nondet := 0, 0
	start := time.Now()
	var explInfo []map[string]any
	for _, ex := range expl {
		ops, pruned := c28Alphabet(ex.tier)
		seen := map[string]bool{}
		r0 := c28Exec(t, workers[0], ex.prefix)
		if r0.Intern != "" {
			rep.Internal = append(rep.Internal, r0.Intern)
		}
		rep.Violations = append(rep.Violations, r0.Viol...)
		seen[r0.Key], allSeen[r0.Key] = true, true
		frontier := []item{{ex.prefix, r0.Key}}
		perDepth := []int{1}
		completed := 0
		for d := 0; d < ex.depth && len(frontier) > 0; d++ {
			type job struct {
				seq    []c28Op
				parent string
			}
			var jobs []job
			for _, it := range frontier {
				for _, o := range ops {
					jobs = append(jobs, job{append(append([]c28Op{}, it.seq...), o), it.key})
				}
			}
			results := make([]c28Res, len(jobs))
			done := make([]bool, len(jobs))
			var wg sync.WaitGroup
			for w := 0; w < nw; w++ {
				wg.Add(1)
				go func(w int) {
					defer wg.Done()
					for i := w; i < len(jobs); i += nw {
						if time.Since(start) > budget {
							return
						}
						results[i] = c28Exec(t, workers[w], jobs[i].seq)
						done[i] = true
					}
				}(w)
			}
			wg.Wait()
			var next []item
			capHit := false
			for i, r := range results {
				if !done[i] {
					capHit = true
					continue
				}
				executions++
				rep.Transitions += r.Evals
				if r.Intern != "" {
					rep.Internal = append(rep.Internal, r.Intern)
					continue
				}
				if r.PrefixKey != jobs[i].parent {
					nondet++
					if nondet <= 3 {
						rep.Internal = append(rep.Internal, fmt.Sprintf("replay of %v reached a different state than before:\n  %s\n  %s", jobs[i].seq[:len(jobs[i].seq)-1], jobs[i].parent, r.PrefixKey))
					}
				}
				for k, v := range r.Outcomes {
					rep.Outcomes[k] += v
				}
				rep.Violations = append(rep.Violations, r.Viol...)
				if seen[r.Key] {
					continue
				}
				seen[r.Key], allSeen[r.Key] = true, true
				next = append(next, item{jobs[i].seq, r.Key})
				if len(rep.Samples) < 5 || (len(seen)%2003 == 0 && len(rep.Samples) < 10) {
					rep.Samples = append(rep.Samples, r.Sample)
				}
			}
			if capHit {
				rep.Exhaustive = false
				rep.Extra["cap_hit"] = fmt.Sprintf("%s: time budget %s reached at sequence length %d", ex.label, budget, d+1)
				break
			}
			completed = d + 1
			perDepth = append(perDepth, len(next))
			frontier = next
		}
		var opNames []string
		for _, o := range ops {
			opNames = append(opNames, o.String())
		}
		explInfo = append(explInfo, map[string]any{"exploration": ex.label, "operations": opNames, "max_sequence_length": ex.depth,
			"completed_sequence_length": completed, "new_states_per_sequence_length": perDepth, "distinct_states": len(seen), "alphabet_pruning": pruned})
	}
	rep.States = len(allSeen)
	rep.Alphabets["explorations"] = explInfo
	rep.Alphabets["peers"] = c28PeerNames
	rep.Alphabets["payload_variants"] = map[string]any{"assets0": c28AssetSets[0], "assets1": c28AssetSets[1], "rates0": c28RateSets[0], "rates1": c28RateSets[1],
		"peer_allowed": "true with assets0, false with assets1", "own_version": swap.PEERSWAP_PROTOCOL_VERSION}
	rep.Extra["executions"] = executions
	rep.Extra["nondeterministic_replays"] = nondet
	rep.Extra["code_constants"] = map[string]string{"poll_tick": "10s", "cleanup_tick": "1m", "expiry": c28Expiry.String(), "request_interval": c28RequestInterval.String(),
		"poll_interval": "10s", "stale_capability_request": "15m"}
	rep.Rule = "A: every record of store_grid is saved with Store.SavePeerState and loaded with Store.GetPeerState (file closed and re-opened for every 5th), all getters must agree. " +
		"B: breadth-first over all operation sequences of each exploration (alphabet, max length) from an empty store; every sequence is replayed in its own testing/synctest bubble on the real " +
		"PeerSync.Start (message handler goroutine, 10 s poll ticker, 1 min cleanup ticker), real bbolt store file, recording Lightning port; clock operations advance the virtual " +
		"clock, so all poll and cleanup ticks inside the step really run (at instants where both fire the poll pass runs first); states are de-duplicated by store contents with " +
		"relative capped times, connection set, request-rate-limit tables and ticker phase; after every operation the store, the messages sent, HasCompatiblePeer and " +
		"CompatiblePeers are compared with the reference model of the five clauses of the statement"
	rep.Need = []string{
		"store_roundtrip:equal:capability=present", "store_roundtrip:equal:capability=present:file_reopened", "store_roundtrip:equal:capability=none", "store_roundtrip:equal:capability=all_zero_fields",
		"poll_stored:first_version:msg=poll", "poll_stored:equal_version:msg=poll", "poll_stored:higher_version:msg=poll", "poll_ignored:lower_version:msg=poll",
		"poll_stored:first_version:msg=request_poll", "poll_stored:equal_version:msg=request_poll", "poll_ignored:lower_version:msg=request_poll",
		"poll_arrived_during_poll_pass", "reload_equal:records>0", "info:cleanup_sweep_ordered_after_poll_pass",
		"cleanup:expired_disconnected_removed", "cleanup:expired_connected_kept", "cleanup:unexpired_kept",
		"request:regular_first_in_window", "request:regular_suppressed_within_interval", "request:regular_after_interval", "request:forced_within_interval",
		"compat:none", "compat:lower", "compat:own", "compat:higher",
	}
	rep.Assumptions = append(rep.Assumptions,
		"request_poll carries a capability like poll and counts as a poll for clause 1",
		"'expired' = not heard from for more than 30 min (cleanup timeout of the code); removal is accepted only for disconnected peers whose stored capability is older than that, "+
			"and demanded once a peer is disconnected, silent for more than 30 min and a full cleanup interval (1 min) has passed since; in between both outcomes are accepted",
		"the request window of clause 4 is per peer and per connection: a disconnect of the peer or a restart of the node starts a new window; the request_poll of the initial sync at "+
			"start are not counted, a forced one is exempt itself but starts an interval for the ordinary ones after it; request_poll to KNOWN peers with a stale capability is not covered by the clause",
		"policy is nil (no suspicious peers) and no premium setting is configured",
		"the Lightning port refuses to send to a peer that is not connected (as lnd and cln do); messages FROM a peer are accepted in any connection state (superset of the real environment)",
		"message handling, explicit poll passes and ticks do not overlap, except for the one modelled overlap: a poll that arrives while a poll pass is sending to the same peer (racepoll)",
		"the peer store is opened by peersync.NewStore itself (bbolt with fsync) on /dev/shm; between executions the file is emptied with RemovePeerState instead of re-created (checked empty at the start); the reopen operation really closes and re-opens it")
	finishEnum(t, &rep)
}

var _ = reflect.DeepEqual
var _ = sort.Strings
