package checks

import "github.com/elementsproject/peerswap/premium"

var e5Prem *premium.Setting

func e5SetPremium(p *premium.Setting) { e5Prem = p }
