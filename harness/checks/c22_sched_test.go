package checks

import (
	"encoding/json"
	"fmt"
	"os"
	"os/exec"
	"strings"
	"testing"

	"verif/mc"
	"verif/sched"
	"verif/scn"
	"verif/vsync"
	"verif/world"
)

// C22 under concurrency: a maker restarted while it waits for the claim payment; the payment (or CSV maturity, or a
// cancel) is noticed WHILE RecoverSwaps is still running.  Every schedule (bounded preemptions) of {RecoverSwaps ||
// payment notification || block notification || peer message} on the real service restored from a persisted maker
// record; afterwards a swap that no longer waits for the claim payment must not have a retransmitter registered.

func c22sHarness(t testing.TB, c e5Case) sched.Harness {
	return sched.Harness{Name: "c22/" + c.Name(), Setup: func() ([]sched.NamedFunc, func(e *sched.Exec) []string, func()) {
		inst := e5Build(t, c)
		th := []sched.NamedFunc{{Name: "recover", F: func() { inst.n.RecoverPlain() }}}
		if ty, payload := e5Msg(c); ty != "" {
			h := inst.n.Handler()
			th = append(th, sched.NamedFunc{Name: "msg:" + c.Msg, F: func() { _ = h(scn.IDB, ty, payload) }})
		}
		if c.Pay {
			var payreqs []string
			for _, inv := range inst.w.LN[scn.IDA].Invoices {
				payreqs = append(payreqs, inv.Payreq)
			}
			th = append(th, sched.NamedFunc{Name: "payment", F: func() {
				for _, pr := range payreqs {
					_, _ = inst.w.LN[scn.IDB].Pay(nil, pr, scn.Scid, 0, "ln.payclaim")
				}
			}})
		}
		if c.Depth != "notyet" {
			th = append(th, sched.NamedFunc{Name: "block", F: func() { _ = inst.watcher.HandleCsvTx(uint64(inst.chain.Tip())) }})
		}
		check := func(e *sched.Exec) []string {
			sm := inst.n.Swaps()[0]
			st := string(sm.Current)
			waiting := strings.HasSuffix(st, "SendTxBroadcastedMessage") || strings.HasSuffix(st, "AwaitClaimPayment") || strings.HasSuffix(st, "AwaitClaimInvoicePayment") || strings.HasSuffix(st, "BroadcastOpeningTx")
			if waiting {
				return nil
			}
			id := sm.SwapId.String()
			if err := inst.n.Mgr.AddSender(id, c22Probe{}); err != nil {
				return []string{"retransmitter_still_registered:after_recovery:state=" + stateSuffix(st)}
			}
			inst.n.Mgr.RemoveSender(id)
			return nil
		}
		return th, check, func() { inst.cancel(); inst.n.Kill() }
	}}
}

type c22sReport struct {
	Executions int               `json:"executions"`
	Problems   map[string]string `json:"problems"`
	Internal   []string          `json:"internal"`
	Capped     bool              `json:"capped"`
	Bound      int               `json:"preemption_bound"`
	Cases      int               `json:"cases"`
	Skipped    int64             `json:"retransmitter_goroutines_not_started"`
}

func TestC22SchedWorker(t *testing.T) {
	out := os.Getenv("VERIF_C22S_OUT")
	if out == "" {
		t.Skip("worker entry point")
	}
	bound, maxExec := 2, 1500
	if mc.Tier() == "thorough" {
		bound, maxExec = 3, 12000
	}
	tpls := e5Templates(t)
	e5SetPremium(premiumSetting(t, "c22s"))
	sched.Install()
	// timers beyond the horizon: the negotiation timeout and the 10 s retransmission ticker (the goroutine of a
	// retransmitter is not started; whether one is REGISTERED is what the check looks at)
	sched.TimerSpawnSites = []string{"(*timeOutService).addNewTimeOut", "(*RedundantMessenger).SendMessage"}
	world.YieldHook = sched.Yield
	world.Spawn = vsync.Go
	rep := c22sReport{Problems: map[string]string{}, Bound: bound}
	for _, tp := range tpls {
		if tp.Chain != "btc" && mc.Tier() != "thorough" {
			continue
		}
		for _, c := range []e5Case{
			{Tpl: tp, Msg: "none", Depth: "notyet", Pay: true, Recover: true},
			{Tpl: tp, Msg: "none", Depth: "just", Recover: true},
			{Tpl: tp, Msg: "cancel", Depth: "notyet", Recover: true},
			{Tpl: tp, Msg: "coop_good", Depth: "notyet", Recover: true},
		} {
			res := sched.Explore(c22sHarness(t, c), bound, maxExec, func(e *sched.Exec) string { return "completed" })
			rep.Cases++
			rep.Executions += res.Executions
			if res.Capped || res.Overflows > 0 {
				rep.Capped = true
			}
			rep.Internal = append(rep.Internal, res.Internal...)
			for k, s := range res.Problems {
				if _, ok := rep.Problems[k]; !ok {
					rep.Problems[k] = fmt.Sprintf("case %s, schedule %v", c.Name(), s)
				}
			}
		}
	}
	rep.Skipped = sched.SkippedTimers
	b, _ := json.Marshal(rep)
	if err := os.WriteFile(out, b, 0o644); err != nil {
		t.Fatal(err)
	}
}

func c22Sched() ([]mc.Violation, map[string]any) {
	out := fmt.Sprintf("%s/c22s-%d.json", workDir, os.Getpid())
	cmd := exec.Command(os.Args[0], "-test.run", "^TestC22SchedWorker$", "-test.timeout", "0")
	cmd.Env = append(os.Environ(), "VERIF_C22S_OUT="+out)
	ob, err := cmd.CombinedOutput()
	b, rerr := os.ReadFile(out)
	cov := map[string]any{}
	if rerr != nil {
		cov["internal"] = []string{fmt.Sprintf("c22 sched worker failed: %v\n%s", err, tail(string(ob), 3000))}
		return nil, cov
	}
	_ = os.Remove(out)
	var rep c22sReport
	_ = json.Unmarshal(b, &rep)
	var vs []mc.Violation
	for k, d := range rep.Problems {
		vs = append(vs, mc.Violation{Property: "C22", Key: k, Detail: d})
	}
	var ints []string
	for _, s := range rep.Internal {
		if !strings.Contains(s, "replay divergence") {
			ints = append(ints, s)
		}
	}
	if len(ints) > 0 {
		cov["internal"] = ints
	}
	cov["sched_subcheck"] = map[string]any{"rule": fmt.Sprintf("all schedules with at most %d preemptions of RecoverSwaps racing with the payment notification / the block notification / a cancel / a coop_close for a maker restored in its waiting state; afterwards no retransmitter may be registered for a swap that left that state", rep.Bound),
		"cases": rep.Cases, "schedules": rep.Executions, "capped": rep.Capped, "retransmitter_goroutines_not_started": rep.Skipped}
	return vs, cov
}
