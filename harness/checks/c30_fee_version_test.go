package checks

// C30 — fee floor and version order.
//
//  (1) onchain.BitcoinOnChain.GetFee over estimator answers x fallbacks x floors x sizes,
//  (2) onchain.DetermineFeeFloor over version strings built from known (major,minor,patch),
//  (3) version.CompareVersionStrings over all ordered pairs and triples of a string set.
//
// The reference predicates are written from the property statement; for (1) only the unit
// conversion sat/kW -> sat/vB -> sat (a float multiplication, rounded down) is mirrored.

import (
	"errors"
	"fmt"
	"sort"
	"strconv"
	"strings"
	"testing"
	"time"

	"github.com/btcsuite/btcd/btcutil"
	"github.com/btcsuite/btcd/chaincfg"
	"github.com/elementsproject/peerswap/onchain"
	"github.com/elementsproject/peerswap/version"
	"verif/mc"
	"verif/vsync"
)

type c30Estimator struct {
	answer  btcutil.Amount
	err     error
	calls   int
	targets []uint32
}

func (e *c30Estimator) EstimateFeePerKW(target uint32) (btcutil.Amount, error) {
	e.calls++
	e.targets = append(e.targets, target)
	return e.answer, e.err
}
func (e *c30Estimator) Start() error { return nil }

type c30Viol struct {
	detail string
	size   int
}

type c30Acc struct {
	rep  *EnumReport
	viol map[string]c30Viol
	st   map[string]bool
}

func (a *c30Acc) violation(key, detail string, size int) {
	if v, ok := a.viol[key]; !ok || size < v.size {
		a.viol[key] = c30Viol{detail, size}
	}
}

// ---- (1) GetFee ----------------------------------------------------------------------------

func c30GetFee(a *c30Acc) {
	type est struct {
		name string
		val  int64
		err  bool
	}
	ests := []est{{"error", 0, true}, {"0", 0, false}, {"1", 1, false}, {"24", 24, false}, {"25", 25, false}, {"26", 26, false},
		{"252", 252, false}, {"253", 253, false}, {"254", 254, false}, {"1000", 1000, false}, {"1e9", 1_000_000_000, false},
		{"error+nonzero-answer(777)", 777, true}}
	fallbacks := []int64{0, 253, 1000}
	floors := []int64{25, 253}
	sizes := []int64{1, 250, 350, 1_000_000}
	inexact := 0
	var inexactSample string
	for _, e := range ests {
		for _, fb := range fallbacks {
			for _, fl := range floors {
				for _, size := range sizes {
					stub := &c30Estimator{answer: btcutil.Amount(e.val)}
					if e.err {
						stub.err = errors.New("estimator down")
					}
					chain := onchain.NewBitcoinOnChain(stub, btcutil.Amount(fb), btcutil.Amount(fl), &chaincfg.RegressionNetParams)
					var got uint64
					var err error
					panicked := c30Guard(func() { got, err = chain.GetFee(size) })
					a.rep.Transitions++
					in := fmt.Sprintf("estimator=%s fallback=%d floor=%d size=%d", e.name, fb, fl, size)
					if panicked != "" {
						a.violation("getfee:panic", in+": "+panicked, int(size))
						continue
					}
					// reference rate, from the statement
					src, rate := "estimate", e.val
					switch {
					case e.err:
						src, rate = "fallback_on_error", fb
					case e.val == 0:
						src, rate = "fallback_on_zero", fb
					}
					rel := "above_floor"
					switch {
					case rate < fl:
						rel, rate = "raised_to_floor", fl
					case rate == fl:
						rel = "at_floor"
					}
					// unit conversion (mirrored): sat/kW * 4 / 1000 = sat/vB, times vbytes, rounded down
					want := uint64(float64(rate*4) / 1000 * float64(size))
					atFloor := uint64(float64(fl*4) / 1000 * float64(size))
					if exact := uint64(rate * 4 * size / 1000); exact != want {
						inexact++
						if inexactSample == "" {
							inexactSample = fmt.Sprintf("%s: float conversion gives %d, exact integer floor is %d", in, want, exact)
						}
					}
					class := "getfee:" + src + ":" + rel
					a.rep.Outcomes[class]++
					a.st[fmt.Sprintf("%s:fee=%d", class, got)] = true
					if len(a.rep.Samples) < 4 && size == 250 && (e.name == "error" || e.name == "24" || e.name == "1000") && fb == 253 {
						a.rep.Samples = append(a.rep.Samples, fmt.Sprintf("GetFee(%s) = %d (reference rate %d sat/kW from %s, %s)", in, got, rate, src, rel))
					}
					switch {
					case err != nil:
						a.violation("getfee:error_returned:"+src, fmt.Sprintf("%s: error %v (the statement promises the fallback rate instead)", in, err), int(size))
					case got < atFloor:
						a.violation("getfee:below_floor:"+src, fmt.Sprintf("%s: fee %d is below the fee at the floor rate (%d)", in, got, atFloor), int(size))
					case got != want && src != "estimate":
						a.violation("getfee:fallback_not_applied:"+src, fmt.Sprintf("%s: fee %d, want %d (rate %d sat/kW)", in, got, want, rate), int(size))
					case got != want:
						a.violation("getfee:wrong_fee:"+rel, fmt.Sprintf("%s: fee %d, want %d (rate %d sat/kW)", in, got, want, rate), int(size))
					}
				}
			}
		}
	}
	a.rep.Extra["getfee_float_vs_exact_floor_differences(information)"] = fmt.Sprintf("%d cases; %s", inexact, inexactSample)
	a.rep.Alphabets["getfee"] = map[string]any{"estimator_sat_per_kw": func() (n []string) {
		for _, e := range ests {
			n = append(n, e.name)
		}
		return
	}(), "fallback_sat_per_kw": fallbacks, "floor_sat_per_kw": floors, "tx_size_vbytes": sizes}
}

func c30Guard(f func()) (panicked string) {
	defer func() {
		if r := recover(); r != nil {
			panicked = fmt.Sprint("panic: ", r)
		}
	}()
	f()
	return ""
}

// ---- (2) DetermineFeeFloor -------------------------------------------------------------------

func c30FeeFloor(a *c30Acc) {
	type triple struct{ maj, min, pat int }
	triples := []triple{{28, 99, 0}, {28, 2, 0}, {28, 2, 5}, {29, 0, 0}, {29, 1, 0}, {29, 1, 1}, {29, 1, 99}, {29, 2, 0}, {29, 2, 1}, {29, 3, 0},
		{29, 10, 0}, {29, 19, 2}, {30, 0, 0}, {30, 1, 0}, {30, 0, 2}, {31, 1, 0}, {100, 0, 0}, {0, 29, 2}, {2, 29, 2}, {9, 9, 9}, {27, 0, 0}}
	type vcase struct {
		s      string
		t      *triple // nil: no version in the string
		format string
	}
	var cases []vcase
	seen := map[string]bool{}
	addc := func(c vcase) {
		if !seen[c.s] {
			seen[c.s] = true
			cases = append(cases, c)
		}
	}
	for i := range triples {
		t := &triples[i]
		full := fmt.Sprintf("%d.%d.%d", t.maj, t.min, t.pat)
		addc(vcase{"/Satoshi:" + full + "/", t, "subversion"})
		addc(vcase{full, t, "bare"})
		addc(vcase{"v" + full, t, "v-prefix"})
		addc(vcase{"/Satoshi:" + full + "(my node; x)/", t, "subversion+uacomment"})
		addc(vcase{"/Satoshi:" + full + "/Knots:20251010/", t, "subversion+second-client"})
		addc(vcase{" " + full + "\n", t, "whitespace"})
		if t.pat == 0 {
			addc(vcase{fmt.Sprintf("/Satoshi:%d.%d/", t.maj, t.min), t, "two-components"})
			addc(vcase{fmt.Sprintf("%d.%drc1", t.maj, t.min), t, "two-components+rc"})
			if t.min == 0 {
				addc(vcase{fmt.Sprintf("/Satoshi:%d/", t.maj), t, "one-component"})
			}
		}
	}
	for _, s := range []string{"", "custom", "/Satoshi/", "...", "v", "abc.def", "-", " ", "/Satoshi:/", "rc"} {
		addc(vcase{s, nil, "no-version"})
	}
	// strings whose version is not determined by the statement: run, record, never judged
	odd := []string{"29..2", "29.-2", "29,2", "029.2.0", "29.02", "29 .2", "290200", "280100", "node7 /Satoshi:28.1.0/",
		"99999999999999999999.2.0", "29.99999999999999999999", "/Satoshi:29.2.0.1/", "29.2.", ".29.2"}
	judged := 0
	for _, c := range cases {
		var got btcutil.Amount
		var norm string
		panicked := c30Guard(func() { got, norm = onchain.DetermineFeeFloor(c.s) })
		a.rep.Transitions++
		if panicked != "" {
			a.violation("feefloor:panic", fmt.Sprintf("%q: %s", c.s, panicked), len(c.s))
			continue
		}
		judged++
		want, class := int64(253), "no_version"
		if c.t != nil {
			modern := c.t.maj > 29 || (c.t.maj == 29 && c.t.min >= 2)
			switch {
			case c.t.maj > 29:
				class = "major>29"
			case c.t.maj == 29 && c.t.min >= 2:
				class = "major=29,minor>=2"
			case c.t.maj == 29:
				class = "major=29,minor<2"
			case c.t.min >= 2:
				class = "major<29,minor>=2"
			default:
				class = "major<29,minor<2"
			}
			if modern {
				want = 25
			}
		}
		a.rep.Outcomes[fmt.Sprintf("feefloor:%s:%d", class, want)]++
		a.st[fmt.Sprintf("feefloor:%s:%s:%d", class, c.format, got)] = true
		if c.s == "/Satoshi:29.2.0/" || c.s == "/Satoshi:29.1.99/" || c.s == "custom" {
			a.rep.Samples = append(a.rep.Samples, fmt.Sprintf("DetermineFeeFloor(%q) = (%d, %q)", c.s, got, norm))
		}
		switch {
		case int64(got) == want:
		case int64(got) == 253 && want == 25:
			a.violation("feefloor:legacy_floor_for_modern_version:"+class, fmt.Sprintf("DetermineFeeFloor(%q) = %d, want 25 (format %s)", c.s, got, c.format), len(c.s))
		case int64(got) == 25 && want == 253:
			a.violation("feefloor:modern_floor_for_legacy_version:"+class, fmt.Sprintf("DetermineFeeFloor(%q) = %d, want 253 (format %s)", c.s, got, c.format), len(c.s))
		default:
			a.violation("feefloor:unknown_floor_value:"+class, fmt.Sprintf("DetermineFeeFloor(%q) = %d, want %d", c.s, got, want), len(c.s))
		}
	}
	var info []string
	for _, s := range odd {
		var got btcutil.Amount
		var norm string
		panicked := c30Guard(func() { got, norm = onchain.DetermineFeeFloor(s) })
		a.rep.Transitions++
		if panicked != "" {
			a.violation("feefloor:panic", fmt.Sprintf("%q: %s", s, panicked), len(s))
			continue
		}
		a.rep.Outcomes["feefloor:undetermined_by_statement(not judged)"]++
		info = append(info, fmt.Sprintf("%q -> %d (%q)", s, got, norm))
	}
	a.rep.Extra["feefloor_strings_not_determined_by_statement(information)"] = info
	a.rep.Alphabets["feefloor"] = map[string]any{"judged_strings": judged, "triples": fmt.Sprint(triples),
		"formats": "subversion, bare, v-prefix, +uacomment, +second client, whitespace, two/one components, rc suffix, no version at all", "not_judged": odd}
}

// ---- (3) CompareVersionStrings -----------------------------------------------------------------

// c30WellFormed: optional "v", then decimal components separated by single dots; every component
// at most 9 digits.  Returns the components.
func c30WellFormed(s string) ([]int64, bool) {
	s = strings.TrimPrefix(s, "v")
	if s == "" {
		return nil, false
	}
	var out []int64
	for _, p := range strings.Split(s, ".") {
		if p == "" || len(p) > 9 {
			return nil, false
		}
		for _, r := range p {
			if r < '0' || r > '9' {
				return nil, false
			}
		}
		n, _ := strconv.ParseInt(p, 10, 64)
		out = append(out, n)
	}
	return out, true
}

// c30RefCmp: numeric components, missing components count as zero.
func c30RefCmp(x, y []int64) int {
	for i := 0; i < len(x) || i < len(y); i++ {
		var p, q int64
		if i < len(x) {
			p = x[i]
		}
		if i < len(y) {
			q = y[i]
		}
		if p != q {
			if p < q {
				return -1
			}
			return 1
		}
	}
	return 0
}

func c30Compare(a *c30Acc) {
	set := []string{"1", "1.0", "1.0.0", "1.2", "1.10", "1.9", "2", "v1.2", "1.2.0", "1.2.1", "1.02", "01.2", "0", "0.0", "0.0.1", "0.1.2", "v0.1.2",
		"10.0.0", "9.99.99", "23.05", "v23.05", "v23.5", "23.4.99", "23.11", "22.11", "22.11.1", "1.2.3.4.5.6", "1.0.0.0.0.1", "999999999",
		// not well-formed (or beyond 9 digits): only the order axioms are required
		"2147483648.1", "", "1.2rc1", "v22.11rc1", "1..2", "abc", "v", "1.2-beta", "1.2.3-4-g5", " 1.2 ", "1,2", "1.-2", "-1", ".", "1.", ".1",
		"9223372036854775808", "1.99999999999999999999"}
	n := len(set)
	wf := make([][]int64, n)
	isWf := make([]bool, n)
	nwf := 0
	for i, s := range set {
		wf[i], isWf[i] = c30WellFormed(s)
		if isWf[i] {
			nwf++
		}
	}
	kind := func(idx ...int) string {
		for _, i := range idx {
			if !isWf[i] {
				return "malformed"
			}
		}
		return "wellformed"
	}
	const (
		geTrue = iota + 1
		geFalse
		geErr
	)
	ge := make([][]int, n)
	var errInfo []string
	for i := range set {
		ge[i] = make([]int, n)
		for j := range set {
			var r1, r2 bool
			var e1, e2 error
			p := c30Guard(func() {
				r1, e1 = version.CompareVersionStrings(set[i], set[j])
				r2, e2 = version.CompareVersionStrings(set[i], set[j])
			})
			a.rep.Transitions += 2
			in := fmt.Sprintf("CompareVersionStrings(%q, %q)", set[i], set[j])
			if p != "" {
				a.violation("compare:panic:"+kind(i, j), in+": "+p, len(set[i])+len(set[j]))
				ge[i][j] = geErr
				continue
			}
			if r1 != r2 || (e1 == nil) != (e2 == nil) {
				a.violation("compare:not_deterministic", in+" answered differently on two calls", len(set[i])+len(set[j]))
			}
			switch {
			case e1 != nil:
				ge[i][j] = geErr
				if isWf[i] && isWf[j] {
					a.violation("compare:error_on_wellformed", fmt.Sprintf("%s: %v", in, e1), len(set[i])+len(set[j]))
				} else {
					a.rep.Outcomes["compare:pair:error_on_malformed(information)"]++
					if len(errInfo) < 4 {
						errInfo = append(errInfo, fmt.Sprintf("%s: %v", in, e1))
					}
				}
			case r1:
				ge[i][j] = geTrue
			default:
				ge[i][j] = geFalse
			}
		}
	}
	a.rep.Extra["compare_errors_on_malformed(information)"] = errInfo
	// pairs
	rel := func(i, j int) (int, bool) { // cmp(i,j) derived from the two >= answers; false: incomparable or error
		x, y := ge[i][j], ge[j][i]
		switch {
		case x == geErr || y == geErr:
			return 0, false
		case x == geTrue && y == geTrue:
			return 0, true
		case x == geTrue:
			return 1, true
		case y == geTrue:
			return -1, true
		}
		return 0, false
	}
	word := map[int]string{-1: "lt", 0: "eq", 1: "gt"}
	surprising := []string{}
	for i := range set {
		for j := range set {
			if ge[i][j] == geErr || ge[j][i] == geErr {
				continue
			}
			size := len(set[i]) + len(set[j])
			k := kind(i, j)
			if i == j {
				a.rep.Outcomes["compare:reflexive:"+k]++
				if ge[i][i] != geTrue {
					a.violation("compare:not_reflexive:"+k, fmt.Sprintf("CompareVersionStrings(%q, %q) = false", set[i], set[i]), size)
				}
				continue
			}
			c, ok := rel(i, j)
			if !ok {
				a.violation("compare:not_total:"+k, fmt.Sprintf("neither %q >= %q nor %q >= %q", set[i], set[j], set[j], set[i]), size)
				continue
			}
			if c2, _ := rel(j, i); c2 != -c {
				a.violation("compare:not_antisymmetric:"+k, fmt.Sprintf("cmp(%q,%q)=%d but cmp(%q,%q)=%d", set[i], set[j], c, set[j], set[i], c2), size)
			}
			a.rep.Outcomes["compare:pair:"+k+":"+word[c]]++
			a.st["compare:pair:"+k+":"+word[c]] = true
			if isWf[i] && isWf[j] {
				want := c30RefCmp(wf[i], wf[j])
				if want != c {
					a.violation(fmt.Sprintf("compare:disagrees_with_numeric_order:want=%s:got=%s", word[want], word[c]),
						fmt.Sprintf("%q vs %q: components %v vs %v compare %s, CompareVersionStrings says %s (a>=b: %v, b>=a: %v)",
							set[i], set[j], wf[i], wf[j], word[want], word[c], ge[i][j] == geTrue, ge[j][i] == geTrue), size)
				}
			} else if c == 0 && i < j && len(surprising) < 12 {
				surprising = append(surprising, fmt.Sprintf("%q ~ %q", set[i], set[j]))
			}
		}
	}
	a.rep.Extra["compare_malformed_strings_ranked_equal(information, sample)"] = surprising
	// triples
	for i := range set {
		for j := range set {
			if ge[i][j] != geTrue {
				if ge[i][j] == geErr {
					a.rep.Outcomes["compare:triple:with_error(skipped)"] += n
				} else {
					a.rep.Outcomes["compare:triple:premise_false"] += n
				}
				continue
			}
			for k := range set {
				if ge[j][k] == geErr || ge[i][k] == geErr {
					a.rep.Outcomes["compare:triple:with_error(skipped)"]++
					continue
				}
				kd := kind(i, j, k)
				if ge[j][k] != geTrue {
					a.rep.Outcomes["compare:triple:premise_false"]++
					continue
				}
				a.rep.Outcomes["compare:triple:transitive:"+kd]++
				if ge[i][k] != geTrue {
					a.violation("compare:not_transitive:"+kd, fmt.Sprintf("%q >= %q and %q >= %q but not %q >= %q", set[i], set[j], set[j], set[k], set[i], set[k]),
						len(set[i])+len(set[j])+len(set[k]))
				}
			}
		}
	}
	a.rep.Samples = append(a.rep.Samples,
		fmt.Sprintf("CompareVersionStrings(\"1.10\",\"1.9\") >= : %v; (\"1.9\",\"1.10\") >= : %v", ge[4][5] == geTrue, ge[5][4] == geTrue),
		fmt.Sprintf("CompareVersionStrings(\"1\",\"1.0.0\") >= : %v and back: %v", ge[0][2] == geTrue, ge[2][0] == geTrue))
	a.rep.Alphabets["compare"] = map[string]any{"strings": set, "wellformed": nwf, "ordered_pairs": n * n, "ordered_triples": n * n * n}
}

func TestC30(t *testing.T) {
	vsync.SetMode(vsync.Plain)
	rep := EnumReport{ID: "C30", Level: "model_checking", Start: time.Now(), Outcomes: map[string]int{}, Extra: map[string]any{}, Alphabets: map[string]any{}}
	a := &c30Acc{rep: &rep, viol: map[string]c30Viol{}, st: map[string]bool{}}
	c30GetFee(a)
	c30FeeFloor(a)
	c30Compare(a)
	rep.States = len(a.st)
	rep.Exhaustive = true
	rep.Rule = "GetFee: fee = floor(max(floor, est or fallback when the estimator errs/answers 0) * 4/1000 * size); DetermineFeeFloor = 25 iff version >= 29.2 else 253; CompareVersionStrings(a,b) = (a >= b) in the order by numeric components with missing components as zero: reflexive, total, transitive, equal to the reference order on well-formed strings"
	rep.Need = []string{
		"getfee:estimate:above_floor", "getfee:estimate:at_floor", "getfee:estimate:raised_to_floor",
		"getfee:fallback_on_error:above_floor", "getfee:fallback_on_error:raised_to_floor", "getfee:fallback_on_error:at_floor",
		"getfee:fallback_on_zero:above_floor", "getfee:fallback_on_zero:raised_to_floor", "getfee:fallback_on_zero:at_floor",
		"feefloor:major>29:25", "feefloor:major=29,minor>=2:25", "feefloor:major=29,minor<2:253", "feefloor:major<29,minor>=2:253",
		"feefloor:major<29,minor<2:253", "feefloor:no_version:253",
		"compare:reflexive:wellformed", "compare:reflexive:malformed", "compare:pair:wellformed:lt", "compare:pair:wellformed:eq", "compare:pair:wellformed:gt",
		"compare:pair:malformed:lt", "compare:pair:malformed:eq", "compare:pair:malformed:gt", "compare:triple:transitive:wellformed", "compare:triple:transitive:malformed",
	}
	rep.Assumptions = []string{
		"GetFee: the conversion sat/kW -> sat is mirrored as float64(rate*4)/1000*float64(size) rounded down; differences to the exact integer floor are reported as information",
		"DetermineFeeFloor is judged on strings whose Bitcoin Core version is known by construction (first number group of the string); other strings are run and listed, not judged",
		"CompareVersionStrings: well-formed = optional v + dot-separated decimal components of at most 9 digits; for other strings only reflexivity, totality, transitivity, determinism and absence of panics are required; errors on malformed strings are information",
	}
	var keys []string
	for k := range a.viol {
		keys = append(keys, k)
	}
	sort.Strings(keys)
	for _, k := range keys {
		rep.Violations = append(rep.Violations, mc.Violation{Property: "C30", Key: k, Detail: a.viol[k].detail})
	}
	finishEnum(t, &rep)
}
