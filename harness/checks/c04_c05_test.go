package checks

import (
	"bytes"
	"fmt"
	"strings"
	"testing"
	"time"

	"verif/mc"
	"verif/node"
	"verif/scn"
	"verif/world"
)

func newAttempt(o world.Obs) bool {
	if o.Kind != "ln.payclaim" {
		return false
	}
	switch o.Result {
	case "join-pending", "complete", "already-paid", "in-transition":
		return false
	}
	return true
}

// ---------------------------------------------------------------- C04

func c04Enabled(base func(x *scn.Exec) []mc.Event) func(x *scn.Exec) []mc.Event {
	return func(x *scn.Exec) []mc.Event {
		out := base(x)
		sm := x.SwapOf(x.A)
		if sm != nil && !sm.IsFinished() && x.Ctx["v6"] == nil {
			out = append(out, mc.Event{Name: "to_v6", Dev: 1, NoCrash: true})
		}
		return out
	}
}

func c04Apply(x *scn.Exec, e mc.Event) bool {
	if e.Name != "to_v6" {
		return advApply(x, e)
	}
	// a legacy swap can only exist as a persisted record: stop the node,
	// rewrite the record's protocol version, start it again
	x.A.Kill()
	node.Settle()
	x.Ctx["v6"] = len(x.W.Log)
	st := x.A.D.Store
	for id, b := range st.Records {
		st.Records[id] = bytes.ReplaceAll(b, []byte(`"protocol_version":7`), []byte(`"protocol_version":6`))
	}
	st.Writes++
	x.RebootA(true)
	return true
}

// payLoopStart turns scripted-maker families into families that START in the paying state:
// the honest prefix up to the confirmed opening transaction with the first claim-payment
// attempt failing (or leaving an HTLC pending with an error), so that the whole depth budget
// goes into what happens around the retry loop (blocks, time, restarts, crashes).
func payLoopStart(loop []Family) []Family {
	var out []Family
	for _, f := range loop {
		for _, po := range []world.PayOutcome{world.PayFail, world.PayPendingErr} {
			g := f
			cfg := *f.Cfg
			g.Cfg = &cfg
			g.Name = f.Name + "/payloop-" + po.String()
			pre := []mc.Event{{Name: "adv_request"}}
			if cfg.AInitiates {
				pre = []mc.Event{rpcInit[0], {Name: "adv_agree"}}
			}
			pre = append(pre, mc.Event{Name: "adv_open", Arg: "ok"}, mc.Event{Name: "adv_announce", Arg: "ok"},
				mc.Event{Name: "payplan", Arg: po.String(), N: int(po)}, mc.Event{Name: "block", Arg: "conf"})
			g.Initial = pre
			out = append(out, g)
		}
	}
	return out
}

func oracleC04(x *scn.Exec) []mc.Violation {
	if x.Cfg.Chain != "lbtc" {
		return nil
	}
	var out []mc.Violation
	v6At, isV6 := x.Ctx["v6"].(int)
	sm := x.SwapOf(x.A)
	if sm == nil {
		return nil
	}
	id := sm.SwapId.String()
	for _, o := range x.W.Log {
		if o.Node != scn.IDA || !newAttempt(o) {
			continue
		}
		if isV6 && o.Seq > v6At {
			out = append(out, mc.Violation{Property: "C04", Key: "legacy_swap_created_new_claim_payment", Detail: fmt.Sprintf("role=%s: protocol-6 Liquid swap started a claim payment (%s) at seq %d", x.Cfg.ARole(), o.Result, o.Seq)})
			continue
		}
		rec := lastStoreBefore(x, scn.IDA, id, o.Seq)
		if rec == nil || !rec.Data.StartingBlockHeightSet {
			out = append(out, mc.Violation{Property: "C04", Key: "payment_without_persisted_anchor", Detail: fmt.Sprintf("seq %d", o.Seq)})
			continue
		}
		a := uint64(rec.Data.StartingBlockHeight)
		// the tip as the node's own backend would report it at this moment (a backend may be behind:
		// nobody can be asked to know more than its backend says)
		tip := uint64(o.LbtcTip)
		if uint64(o.LagA) <= tip {
			tip -= uint64(o.LagA)
		} else {
			tip = 0
		}
		if tip < a {
			out = append(out, mc.Violation{Property: "C04", Key: "payment_below_anchor", Detail: fmt.Sprintf("tip %d anchor %d", tip, a)})
		}
		if tip >= a+60 {
			out = append(out, mc.Violation{Property: "C04", Key: fmt.Sprintf("payment_outside_window:tip-anchor=%d", tip-a), Detail: fmt.Sprintf("role=%s backend=%s: claim payment attempt at Liquid tip %d, anchor %d (window 60)", x.Cfg.ARole(), backend(x), tip, a)})
		}
		inv, _ := world.DecodeInvoice(o.Payreq)
		if inv.CLTV > 29 || inv.CLTV < 0 {
			out = append(out, mc.Violation{Property: "C04", Key: fmt.Sprintf("payment_for_invoice_cltv=%d", inv.CLTV), Detail: fmt.Sprintf("role=%s: invoice final CLTV %d paid (max 29)", x.Cfg.ARole(), inv.CLTV)})
		}
		if o.Limit != 32 {
			out = append(out, mc.Violation{Property: "C04", Key: fmt.Sprintf("route_limit=%d", o.Limit), Detail: "RebalancePayment called with a total CLTV limit other than 32"})
		}
	}
	return out
}

// ---------------------------------------------------------------- C05

func oracleC05(x *scn.Exec) []mc.Violation {
	if x.Cfg.Chain != "btc" {
		return nil
	}
	var out []mc.Violation
	sm := x.SwapOf(x.A)
	if sm == nil || sm.Data.OpeningTxBroadcasted == nil {
		return nil
	}
	ct := x.W.Btc.Get(sm.Data.OpeningTxBroadcasted.TxId)
	if ct == nil || ct.Height == 0 {
		return nil
	}
	id := sm.SwapId.String()
	for _, o := range x.W.Log {
		if o.Node != scn.IDA || !newAttempt(o) {
			continue
		}
		inv, _ := world.DecodeInvoice(o.Payreq)
		// what the node's own payment request permits
		delta := inv.CLTV + 1 // CLN: route delay = final + 1
		be := "cln"
		if x.Cfg.ALnd {
			delta = inv.CLTV + 3 + 1 // LND: CltvLimit = final + BlockPadding + 1 (inclusive bound of path finding)
			be = "lnd"
		}
		c := int64(ct.Height)
		hpay := int64(o.BtcTip)
		rec := lastStoreBefore(x, scn.IDA, id, o.Seq)
		s := int64(0)
		if rec != nil {
			s = int64(rec.Data.StartingBlockHeight)
		}
		if hpay+delta >= c+1008 {
			deficit := hpay + delta - (c + 1008) + 1
			// the start height this swap stored FIRST (ground truth from the store log)
			s0 := int64(0)
			for _, q := range x.W.Log[:o.Seq] {
				if q.Node == scn.IDA && q.Kind == "store" && q.SwapID == id {
					if r := decodeRecord(q.Payload); r != nil && r.Data != nil && r.Data.StartingBlockHeight != 0 {
						s0 = int64(r.Data.StartingBlockHeight)
						break
					}
				}
			}
			// name the cause: the first relaxation without which the inequality would hold
			cause := fmt.Sprintf("other:deficit=%d", deficit)
			switch {
			case s0 != 0 && s != s0 && hpay-s0 >= 504:
				// measured from the height stored first the window was over: the start height was moved later
				cause = "start_height_moved_after_first_store"
			case inv.CLTV > 503 || inv.CLTV < 0:
				cause = "invoice_final_cltv_above_503_accepted"
			case hpay-s >= 504:
				cause = "paid_at_or_after_window_end"
			case x.Cfg.ALnd && hpay+inv.CLTV+1 < c+1008:
				cause = "lnd_block_padding_added_to_allowance"
			case c < s && hpay+delta < s+1008:
				cause = "opening_confirmed_before_taker_start"
			case x.Cfg.ALnd && c < s && hpay+inv.CLTV+1 < s+1008:
				cause = "opening_confirmed_before_taker_start+lnd_block_padding"
			}
			out = append(out, mc.Violation{Property: "C05", Key: fmt.Sprintf("htlc_may_outlive_csv:backend=%s:cause=%s", be, cause),
				Detail: fmt.Sprintf("role=%s: claim payment attempt at height %d with route CLTV allowance %d (invoice final CLTV %d): HTLC can stay open until %d; opening tx confirmed at %d, maker refund possible from %d; taker start height %d", x.Cfg.ARole(), hpay, delta, inv.CLTV, hpay+delta, c, c+1008, s)})
		}
	}
	return out
}

func init() {
	register(&PropSpec{
		ID: "C04", Level: "model_checking",
		Rule: "explicit-state BFS of both Liquid taker roles against the scripted maker: the Liquid tip is moved between every pair of steps (1 block, to confirmation, to window end -1 / 0), in the pay-loop families the node's backend may fall behind (its height answers lag 3 or 70 blocks) or fail a height lookup, invoice final CLTV in {28,29,30,31,max+1,negative}, restarts, and (deviation) the persisted record rewritten to protocol 6 in any state followed by recovery; oracle at every claim-payment attempt; plus a grid enumeration of the CLN route builder and the LND request builder for the total-CLTV bound",
		Families: func(tier string) []Family {
			fams := advFamilies(tier, advCfg{txVariants: []string{"ok"}, annVariants: []string{"ok", "inv_cltv_max+1", "inv_cltv_neg"}, cltvs: []int64{28, 31}},
				scn.Flags{Blocks: true, Time: true, Restart: true, MaxTime: 3, MaxBlocks: 4, NoCsvJump: true},
				mc.Bounds{MaxDepth: 9, MaxDev: 2, Budget: 100 * time.Second, CrashAfterStore: true, NoCrashFirst: true},
				mc.Bounds{MaxDepth: 11, MaxDev: 3, Budget: 14 * time.Minute}, bothBack)
			// pay-loop families: the first attempt fails (or hangs), so that the node rests in
			// its paying state while blocks arrive and restarts happen
			loop := advFamilies(tier, advCfg{txVariants: []string{"ok"}, annVariants: []string{"ok"}},
				scn.Flags{Blocks: true, Time: true, Restart: true, PayPlan: true, PayKinds: []world.PayOutcome{world.PayFail, world.PayPendingErr}, MaxTime: 3, MaxBlocks: 4, NoCsvJump: true,
					Lag: true, Faults: []string{"lbtc.getblockcount"}},
				mc.Bounds{MaxDepth: 7, MaxDev: 3, Budget: 50 * time.Second, CrashAfterStore: true, NoCrashFirst: true},
				mc.Bounds{MaxDepth: 9, MaxDev: 4, Budget: 8 * time.Minute}, bothBack)
			fams = append(fams, payLoopStart(loop)...)
			var out []Family
			for _, f := range fams {
				if f.Cfg.Chain != "lbtc" {
					continue
				}
				if strings.Contains(f.Name, "/payloop-") {
					out = append(out, f)
					continue
				}
				base := f.Cfg.ExtraEnabled
				f.Cfg.ExtraEnabled = c04Enabled(base)
				f.Cfg.ExtraApply = c04Apply
				f.Cfg.ExtraKey = func(x *scn.Exec) string { return advKey3(x) + fmt.Sprintf(" v6=%v", x.Ctx["v6"] != nil) }
				out = append(out, f)
			}
			return out
		},
		Oracles: []scn.Oracle{oracleC04},
		Outcome: func(x *scn.Exec) string {
			return fmt.Sprintf("%s v6=%v", advOutcome(x), x.Ctx["v6"] != nil)
		},
		NeedOutcomes: []string{"paid tx=ok ann=ok", "v6=true", "unpaid tx=ok ann=inv_cltv_max+1"},
		Extra:        c04Extra,
	})
	register(&PropSpec{
		ID: "C05", Level: "model_checking",
		Rule: "explicit-state BFS of both Bitcoin taker roles against the scripted maker: opening transaction broadcast and confirmed before / after the taker's start height, blocks (1, to confirmation, to window end -1 / 0) between every pair of steps incl. between confirmation and each payment retry, restarts, invoice final CLTV in {0,1,502,503,504,505}, CLN and LND route allowances; oracle h_pay + allowance < confirmation + 1008 at every claim-payment attempt",
		Families: func(tier string) []Family {
			fams := advFamilies(tier, advCfg{txVariants: []string{"ok"}, annVariants: []string{"ok", "inv_cltv_max+1"}, cltvs: []int64{0, 1, 502, 505}},
				scn.Flags{Blocks: true, Time: true, Restart: true, MaxTime: 3, MaxBlocks: 4, NoCsvJump: true, BlocksAlways: true},
				mc.Bounds{MaxDepth: 9, MaxDev: 2, Budget: 100 * time.Second, CrashAfterStore: true, NoCrashFirst: true},
				mc.Bounds{MaxDepth: 11, MaxDev: 3, Budget: 14 * time.Minute}, bothBack)
			loop := advFamilies(tier, advCfg{txVariants: []string{"ok"}, annVariants: []string{"ok"}},
				scn.Flags{Blocks: true, Time: true, Restart: true, PayPlan: true, PayKinds: []world.PayOutcome{world.PayFail, world.PayPendingErr}, MaxTime: 3, MaxBlocks: 4, NoCsvJump: true, BlocksAlways: true},
				mc.Bounds{MaxDepth: 7, MaxDev: 3, Budget: 50 * time.Second, CrashAfterStore: true, NoCrashFirst: true},
				mc.Bounds{MaxDepth: 9, MaxDev: 4, Budget: 8 * time.Minute}, bothBack)
			fams = append(fams, payLoopStart(loop)...)
			var out []Family
			for _, f := range fams {
				if f.Cfg.Chain == "btc" {
					out = append(out, f)
				}
			}
			return out
		},
		Oracles:      []scn.Oracle{oracleC05},
		Extra:        c05Watchers,
		Outcome:      advOutcome,
		NeedOutcomes: []string{"paid tx=ok ann=ok", "unpaid tx=ok ann=inv_cltv_max+1", "paid tx=ok ann=cltv=502"},
	})
}

func TestC04(t *testing.T) { runProp(t, "C04") }
func TestC05(t *testing.T) { runProp(t, "C05") }
