package checks

import (
	"fmt"
	"testing"
	"time"
)

func TestC03Probe(t *testing.T) {
	w := &c03LqWallet{tag: "probe", fund: c03LqFund{Layout: "CSF", NIn: 2}, feeMode: "100"}
	ch := w.newAddrLocked()
	t0 := time.Now()
	specs, _ := c03LqOpeningSpecs(w.fund, append([]byte{0, 0x20}, make([]byte, 32)...), c03Key("b").PubKey().SerializeCompressed(), 1000000, ch)
	tr, err := c03LqBuildTx("probe", 2, specs)
	fmt.Println("build", time.Since(t0), err, len(tr.Hex))
}
