package checks

// Fakes shared by C03 and C08 (Bitcoin side): fake lnd gRPC clients under the
// REAL lnd.Client wallet adapter, and a fee-estimator stub.

import (
	"bytes"
	"context"
	"crypto/sha256"
	"encoding/hex"
	"errors"
	"fmt"
	"sync"

	"github.com/btcsuite/btcd/btcec/v2"
	"github.com/btcsuite/btcd/btcutil"
	"github.com/btcsuite/btcd/btcutil/psbt"
	"github.com/btcsuite/btcd/chaincfg"
	"github.com/btcsuite/btcd/chaincfg/chainhash"
	"github.com/btcsuite/btcd/txscript"
	"github.com/btcsuite/btcd/wire"
	"github.com/elementsproject/peerswap/lnd"
	"github.com/elementsproject/peerswap/onchain"
	"github.com/elementsproject/peerswap/swap"
	"github.com/lightningnetwork/lnd/lnrpc"
	"github.com/lightningnetwork/lnd/lnrpc/walletrpc"
	"google.golang.org/grpc"
)

func c03Key(seed string) *btcec.PrivateKey {
	h := sha256.Sum256([]byte("c03/" + seed))
	k, _ := btcec.PrivKeyFromBytes(h[:])
	return k
}

func c03Pub(k *btcec.PrivateKey) string {
	return hex.EncodeToString(k.PubKey().SerializeCompressed())
}

// c03Signer returns the real swap.Secp256k1Signer for a key (built the way
// the swap actions build it).
func c03Signer(k *btcec.PrivateKey) swap.Signer {
	return (&swap.SwapData{PrivkeyBytes: k.Serialize()}).GetClaimParams().Signer
}

func c03Preimage(seed string) (preHex, hashHex string) {
	p := sha256.Sum256([]byte("c03/preimage/" + seed))
	h := sha256.Sum256(p[:])
	return hex.EncodeToString(p[:]), hex.EncodeToString(h[:])
}

// ---------------------------------------------------------------- estimator

// c03Est answers {error, 0, 1, 253, 10^4} sat/kW.
type c03Est struct {
	mu   sync.Mutex
	mode string
}

var c03FeeModes = []string{"err", "0", "1", "253", "10000"}

const (
	c03Fallback = 12500 // onchain.DefaultBitcoinStaticFeePerKW
	c03Floor    = 253
)

func (e *c03Est) set(m string) { e.mu.Lock(); e.mode = m; e.mu.Unlock() }

func (e *c03Est) EstimateFeePerKW(uint32) (btcutil.Amount, error) {
	e.mu.Lock()
	defer e.mu.Unlock()
	switch e.mode {
	case "err":
		return 0, errors.New("estimator: no estimate (scenario)")
	case "0":
		return 0, nil
	case "1":
		return 1, nil
	case "253":
		return 253, nil
	case "10000":
		return 10000, nil
	}
	return 0, fmt.Errorf("unknown mode %q", e.mode)
}
func (e *c03Est) Start() error { return nil }

// c03RefRate is the reference for the effective rate in sat/kW: the
// estimator's answer, the fallback when it has none, never below the floor.
func c03RefRate(mode string) int64 {
	var r int64
	switch mode {
	case "err", "0":
		r = c03Fallback
	case "1":
		r = 1
	case "253":
		r = 253
	case "10000":
		r = 10000
	}
	if r < c03Floor {
		r = c03Floor
	}
	return r
}

// c03FeeBound: rate[sat/vB] * 250 vB (the flat size the adapters use for a
// refund; upper bound of the size of any of the three spends) + 200 sat.
func c03FeeBound(mode string) int64 {
	return c03RefRate(mode)*4*250/1000 + 200
}

// ---------------------------------------------------------------- fake lnd

type c03Lnd struct {
	lnrpc.LightningClient
	mu    sync.Mutex
	tag   string
	n     int
	addrs []string
}

func (f *c03Lnd) NewAddress(_ context.Context, in *lnrpc.NewAddressRequest, _ ...grpc.CallOption) (*lnrpc.NewAddressResponse, error) {
	f.mu.Lock()
	defer f.mu.Unlock()
	if in.Type != lnrpc.AddressType_WITNESS_PUBKEY_HASH {
		return nil, fmt.Errorf("fake lnd: unexpected address type %v", in.Type)
	}
	f.n++
	h := btcutil.Hash160([]byte(fmt.Sprintf("c03/%s/addr/%d", f.tag, f.n)))
	a, err := btcutil.NewAddressWitnessPubKeyHash(h, &chaincfg.RegressionNetParams)
	if err != nil {
		return nil, err
	}
	f.addrs = append(f.addrs, a.EncodeAddress())
	return &lnrpc.NewAddressResponse{Address: a.EncodeAddress()}, nil
}

func (f *c03Lnd) WalletBalance(context.Context, *lnrpc.WalletBalanceRequest, ...grpc.CallOption) (*lnrpc.WalletBalanceResponse, error) {
	return &lnrpc.WalletBalanceResponse{TotalBalance: 1 << 52, ConfirmedBalance: 1 << 52}, nil
}

// handedSince returns the addresses handed out after mark.
func (f *c03Lnd) handedSince(mark int) []string {
	f.mu.Lock()
	defer f.mu.Unlock()
	return append([]string{}, f.addrs[mark:]...)
}

func (f *c03Lnd) mark() int { f.mu.Lock(); defer f.mu.Unlock(); return len(f.addrs) }

// c03Fund is the scenario-chosen funding result.  Layout is a string over
// 'S' (the swap output), 'C' (a change / extra wallet output with another
// value), 'E' (a wallet output whose value EQUALS the swap amount) and 'D'
// (a decoy output paying the swap SCRIPT with another value).
type c03Fund struct {
	Layout string
	NIn    int
	// Nested: the last funding input is a nested (P2SH-P2WKH) wallet output, whose
	// finalised form carries a scriptSig - the txid of the signed transaction then
	// differs from the txid of the unsigned one.
	Nested bool
}

func c03NestedRedeem() []byte { return c03ChangeScript() }

func c03NestedScript() []byte {
	h := btcutil.Hash160(c03NestedRedeem())
	return append(append([]byte{0xa9, 0x14}, h...), 0x87)
}

func (f c03Fund) String() string { return fmt.Sprintf("%s/in%d", f.Layout, f.NIn) }

func (f c03Fund) swapIndex() int {
	for i, c := range f.Layout {
		if c == 'S' {
			return i
		}
	}
	return -1
}

type c03Wk struct {
	walletrpc.WalletKitClient
	mu        sync.Mutex
	fund      c03Fund
	funded    int
	published [][]byte
	labels    []string
}

func c03ChangeScript() []byte {
	pkh := btcutil.Hash160(c03Key("wallet").PubKey().SerializeCompressed())
	return append([]byte{0x00, 0x14}, pkh...)
}

func (w *c03Wk) FundPsbt(_ context.Context, in *walletrpc.FundPsbtRequest, _ ...grpc.CallOption) (*walletrpc.FundPsbtResponse, error) {
	w.mu.Lock()
	defer w.mu.Unlock()
	raw := in.GetRaw()
	if raw == nil || len(raw.Outputs) != 1 || len(raw.Inputs) != 0 {
		return nil, errors.New("fake lnd: FundPsbt expects a raw template with exactly one output")
	}
	var pk []byte
	var amount int64
	for a, v := range raw.Outputs {
		addr, err := btcutil.DecodeAddress(a, &chaincfg.RegressionNetParams)
		if err != nil {
			return nil, err
		}
		if !addr.IsForNet(&chaincfg.RegressionNetParams) {
			return nil, errors.New("fake lnd: address is for another network")
		}
		if pk, err = txscript.PayToAddrScript(addr); err != nil {
			return nil, err
		}
		amount = int64(v)
	}
	w.funded++
	tx := wire.NewMsgTx(2)
	var total int64
	change := int32(-1)
	for i, k := range w.fund.Layout {
		switch k {
		case 'S':
			tx.AddTxOut(wire.NewTxOut(amount, pk))
			total += amount
		case 'C':
			tx.AddTxOut(wire.NewTxOut(int64(50_000+i), c03ChangeScript()))
			total += int64(50_000 + i)
			change = int32(i)
		case 'E':
			tx.AddTxOut(wire.NewTxOut(amount, c03ChangeScript()))
			total += amount
			change = int32(i)
		case 'D':
			// a decoy: the swap script with another value (a second payment to
			// the same script, e.g. from an earlier attempt or a malicious maker)
			dv := amount/2 + 333
			tx.AddTxOut(wire.NewTxOut(dv, pk))
			total += dv
		default:
			return nil, fmt.Errorf("bad layout %q", w.fund.Layout)
		}
	}
	fee := int64(110 + 68*w.fund.NIn + 31*len(w.fund.Layout))
	need := total + fee
	vals := make([]int64, w.fund.NIn)
	for i := range vals {
		vals[i] = need / int64(w.fund.NIn)
	}
	vals[len(vals)-1] += need - (need/int64(w.fund.NIn))*int64(w.fund.NIn)
	for i := 0; i < w.fund.NIn; i++ {
		prev := chainhash.HashH([]byte(fmt.Sprintf("c03/funding/%d/%d", w.funded, i)))
		tx.AddTxIn(wire.NewTxIn(wire.NewOutPoint(&prev, uint32(i)), nil, nil))
	}
	p, err := psbt.NewFromUnsignedTx(tx)
	if err != nil {
		return nil, err
	}
	for i := range p.Inputs {
		p.Inputs[i].WitnessUtxo = wire.NewTxOut(vals[i], c03ChangeScript())
	}
	if w.fund.Nested {
		last := len(p.Inputs) - 1
		p.Inputs[last].WitnessUtxo = wire.NewTxOut(vals[last], c03NestedScript())
		p.Inputs[last].RedeemScript = c03NestedRedeem()
	}
	var buf bytes.Buffer
	if err := p.Serialize(&buf); err != nil {
		return nil, err
	}
	return &walletrpc.FundPsbtResponse{FundedPsbt: buf.Bytes(), ChangeOutputIndex: change}, nil
}

func (w *c03Wk) FinalizePsbt(_ context.Context, in *walletrpc.FinalizePsbtRequest, _ ...grpc.CallOption) (*walletrpc.FinalizePsbtResponse, error) {
	p, err := psbt.NewFromRawBytes(bytes.NewReader(in.FundedPsbt), false)
	if err != nil {
		return nil, err
	}
	final := p.UnsignedTx.Copy()
	sig := append(bytes.Repeat([]byte{0x30}, 71), 0x01)
	pub := c03Key("wallet").PubKey().SerializeCompressed()
	for i := range final.TxIn {
		final.TxIn[i].Witness = wire.TxWitness{sig, pub}
		var wb bytes.Buffer
		_ = wire.WriteVarInt(&wb, 0, 2)
		_ = wire.WriteVarBytes(&wb, 0, sig)
		_ = wire.WriteVarBytes(&wb, 0, pub)
		p.Inputs[i].FinalScriptWitness = wb.Bytes()
		if len(p.Inputs[i].RedeemScript) > 0 {
			// nested segwit: the scriptSig pushes the redeem script
			ss, _ := txscript.NewScriptBuilder().AddData(p.Inputs[i].RedeemScript).Script()
			final.TxIn[i].SignatureScript = ss
			p.Inputs[i].FinalScriptSig = ss
		}
	}
	var raw, signed bytes.Buffer
	if err := final.Serialize(&raw); err != nil {
		return nil, err
	}
	if err := p.Serialize(&signed); err != nil {
		return nil, err
	}
	return &walletrpc.FinalizePsbtResponse{SignedPsbt: signed.Bytes(), RawFinalTx: raw.Bytes()}, nil
}

func (w *c03Wk) PublishTransaction(_ context.Context, in *walletrpc.Transaction, _ ...grpc.CallOption) (*walletrpc.PublishResponse, error) {
	w.mu.Lock()
	defer w.mu.Unlock()
	w.published = append(w.published, append([]byte{}, in.TxHex...))
	return &walletrpc.PublishResponse{}, nil
}

func (w *c03Wk) LabelTransaction(_ context.Context, in *walletrpc.LabelTransactionRequest, _ ...grpc.CallOption) (*walletrpc.LabelTransactionResponse, error) {
	w.mu.Lock()
	defer w.mu.Unlock()
	w.labels = append(w.labels, in.Label)
	return &walletrpc.LabelTransactionResponse{}, nil
}

// takePublished returns and clears the transactions handed to PublishTransaction.
func (w *c03Wk) takePublished() [][]byte {
	w.mu.Lock()
	defer w.mu.Unlock()
	p := w.published
	w.published = nil
	return p
}

// c03LndRig is one real lnd.Client over the fakes.
type c03LndRig struct {
	ln     *c03Lnd
	wk     *c03Wk
	est    *c03Est
	chain  *onchain.BitcoinOnChain
	client *lnd.Client
}

func newC03LndRig(tag string) *c03LndRig {
	r := &c03LndRig{ln: &c03Lnd{tag: tag}, wk: &c03Wk{fund: c03Fund{Layout: "S", NIn: 1}}, est: &c03Est{mode: "253"}}
	r.chain = onchain.NewBitcoinOnChain(r.est, c03Fallback, c03Floor, &chaincfg.RegressionNetParams)
	r.client = lnd.VerifNewClient(context.Background(), r.ln, r.wk, nil, nil, nil, r.chain, c03Pub(c03Key("node")))
	return r
}

func c03ParseBtc(raw []byte) (*wire.MsgTx, error) {
	tx := wire.NewMsgTx(2)
	if err := tx.Deserialize(bytes.NewReader(raw)); err != nil {
		return nil, err
	}
	return tx, nil
}

// c03RefScript is the reference opening script (written from the protocol
// description, byte by byte; compared with the code's script in every case).
func c03RefScript(takerPub, makerPub, hash []byte, csv int64) []byte {
	b := txscript.NewScriptBuilder()
	b.AddData(makerPub).AddOp(txscript.OP_CHECKSIG).AddOp(txscript.OP_NOTIF)
	b.AddData(makerPub).AddOp(txscript.OP_CHECKSIG).AddOp(txscript.OP_NOTIF)
	b.AddOp(txscript.OP_SIZE).AddData([]byte{0x20}).AddOp(txscript.OP_EQUALVERIFY).AddOp(txscript.OP_SHA256).AddData(hash).AddOp(txscript.OP_EQUALVERIFY)
	b.AddOp(txscript.OP_ENDIF).AddData(takerPub).AddOp(txscript.OP_CHECKSIG)
	b.AddOp(txscript.OP_ELSE).AddInt64(csv).AddOp(txscript.OP_CHECKSEQUENCEVERIFY).AddOp(txscript.OP_ENDIF)
	s, _ := b.Script()
	return s
}

func c03P2wsh(script []byte) []byte {
	h := sha256.Sum256(script)
	return append([]byte{0x00, 0x20}, h[:]...)
}
