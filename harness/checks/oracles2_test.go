package checks

import (
	"fmt"
	"strings"
	"time"

	"github.com/elementsproject/peerswap/swap"
	"verif/mc"
	"verif/scn"
	"verif/world"
)

// ---------------------------------------------------------------- helpers

// openingOf returns the opening transaction node id broadcast for its swap
// (from the wallet broadcast log), or nil.
func openingBy(x *scn.Exec, id string) *world.ChainTx {
	c := x.W.Chain(x.Cfg.Chain)
	for _, txid := range c.TxOrder() {
		if t := c.Get(txid); t != nil && t.By == id && t.Kind == "opening" {
			return t
		}
	}
	return nil
}

// swapOutputIndex finds the output of the opening tx that carries the swap
// script of sm (ground truth, independent of what the node announced).
func swapOutputIndex(x *scn.Exec, ot *world.ChainTx, sm *swap.SwapStateMachine) int {
	// the simulated wallet puts exactly one P2WSH output (change is P2WPKH)
	for i, o := range ot.Msg.TxOut {
		if len(o.PkScript) == 34 && o.PkScript[0] == 0 && o.PkScript[1] == 0x20 {
			return i
		}
	}
	return -1
}

func spentByNode(x *scn.Exec, ot *world.ChainTx, idx int, node string) (bool, string) {
	c := x.W.Chain(x.Cfg.Chain)
	sp := c.SpentBy(ot.ID, uint32(idx))
	if sp == "" {
		return false, ""
	}
	t := c.Get(sp)
	if t == nil {
		return false, ""
	}
	return t.By == node, t.Kind
}

func claimInvoicePaid(x *scn.Exec, node string) bool {
	for _, li := range x.W.LN[node].Invoices {
		if strings.HasSuffix(li.Label, "_claim") && li.Paid {
			return true
		}
	}
	return false
}

// ---------------------------------------------------------------- C07

func drainMaker(x *scn.Exec) {
	x.W.Faults = map[string][]int{}
	steps := []mc.Event{{Name: "block", Arg: "csv"}, {Name: "time", Arg: "11m"}, {Name: "restart", Arg: "A"}, {Name: "block", Arg: "1"}, {Name: "time", Arg: "11m"}, {Name: "restart", Arg: "A"}, {Name: "time", Arg: "11m"}}
	for _, e := range steps {
		x.Apply(e)
	}
}

func oracleC07(x *scn.Exec) []mc.Violation {
	if x.Cfg.ATaker() {
		return nil
	}
	var out []mc.Violation
	ot := openingBy(x, scn.IDA)
	if ot == nil {
		return nil
	}
	idx := swapOutputIndex(x, ot, nil)
	sm := x.SwapOf(x.A)
	role := x.Cfg.ARole()
	// (i) durable record of the broadcast transaction
	recorded := sm != nil && sm.Data.OpeningTxBroadcasted != nil && sm.Data.OpeningTxBroadcasted.TxId == ot.ID
	if !recorded {
		how := "crash_before_next_store_write"
		// without a crash: which service call failed after the wallet broadcast?
		after, crashed, fault := false, false, ""
		for _, o := range x.W.Log {
			if o.Node != scn.IDA {
				continue
			}
			if o.Kind == "wallet.open" && o.Err == "" {
				after = true
				continue
			}
			if !after {
				continue
			}
			if o.Kind == "crash" {
				crashed = true
				break
			}
			if o.Kind == "store" {
				break
			}
			if o.Kind == "fault-fired" && fault == "" {
				fault = o.Extra
				if i := strings.Index(fault, "."); i >= 0 {
					fault = fault[i+1:]
				}
			}
		}
		if !crashed && fault != "" {
			how = "failed_after_broadcast:" + fault
		}
		out = append(out, mc.Violation{Property: "C07", Key: fmt.Sprintf("opening_broadcast_not_recorded:cause=%s", how),
			Detail: fmt.Sprintf("role=%s: opening tx %s was broadcast by the wallet but the durable record does not name it (record state %v); the funds can never be refunded by this node", role, ot.ID[:8], curState(sm))})
		return out // everything else is a consequence
	} else {
		d := sm.Data
		if int(d.OpeningTxBroadcasted.ScriptOut) != idx {
			out = append(out, mc.Violation{Property: "C07", Key: "record_names_wrong_output", Detail: fmt.Sprintf("role=%s: record says vout %d, swap output is %d", role, d.OpeningTxBroadcasted.ScriptOut, idx)})
		}
		if d.OpeningTxHex != ot.Hex || d.ClaimPreimage == "" || len(d.PrivkeyBytes) != 32 {
			out = append(out, mc.Violation{Property: "C07", Key: "record_incomplete", Detail: fmt.Sprintf("role=%s: txhex ok=%v preimage set=%v key len=%d", role, d.OpeningTxHex == ot.Hex, d.ClaimPreimage != "", len(d.PrivkeyBytes))})
		}
	}
	paid := claimInvoicePaid(x, scn.IDA)
	byA, kind := spentByNode(x, ot, idx, scn.IDA)
	// (ii) finished only when paid or spent back
	if sm != nil && sm.IsFinished() && !paid && !byA {
		out = append(out, mc.Violation{Property: "C07", Key: fmt.Sprintf("finished_with_funds_locked:state=%s", stateSuffix(string(sm.Current))),
			Detail: fmt.Sprintf("role=%s: swap is %s, invoice unpaid, opening output %s:%d not spent by the node", role, sm.Current, ot.ID[:8], idx)})
	}
	_ = kind
	// (iii) whenever the CSV matures while unpaid, the refund is broadcast
	spentAny := x.W.Chain(x.Cfg.Chain).SpentBy(ot.ID, uint32(idx)) != ""
	if !paid && !spentAny && (sm == nil || !sm.IsFinished()) {
		start := curState(sm)
		drainMaker(x)
		byA2, _ := spentByNode(x, ot, idx, scn.IDA)
		if !byA2 && !claimInvoicePaid(x, scn.IDA) {
			cause := "live"
			if !recorded {
				cause = "unrecorded"
			}
			out = append(out, mc.Violation{Property: "C07", Key: fmt.Sprintf("csv_refund_missing:from=%s:%s", stateSuffix(start), cause),
				Detail: fmt.Sprintf("role=%s: from state %s the CSV matured (%d blocks), the node was restarted twice with healthy services, and no refund spends %s:%d; final state %s", role, start, x.CSV(), ot.ID[:8], idx, curState(x.SwapOf(x.A)))})
		}
	}
	return out
}

func curState(sm *swap.SwapStateMachine) string {
	if sm == nil {
		return "none"
	}
	return string(sm.Current)
}

// ---------------------------------------------------------------- C16

func oracleC16(x *scn.Exec) []mc.Violation {
	sm := x.SwapOf(x.A)
	if sm == nil || sm.IsFinished() && x.A.Active(sm.SwapId.String()) == nil {
		return nil
	}
	start := curState(sm)
	id := sm.SwapId.String()
	// the peer goes silent: drop everything in flight and everything it will send
	x.Silence()
	x.W.Faults = map[string][]int{}
	x.W.PayPlan = map[string][]world.PayOutcome{}
	tm := mc.Event{Name: "time", Arg: "11m"}
	rs := mc.Event{Name: "restart", Arg: "A"}
	// fair: services recover, time passes, the node is restarted "from time to
	// time" (before and after the chain reaches each deadline), blocks arrive
	steps := []mc.Event{{Name: "resolve", Arg: "fail"}, tm, rs, tm, {Name: "block", Arg: "conf"}, tm, {Name: "block", Arg: "win"}, tm, rs, tm,
		{Name: "block", Arg: "csv"}, tm, rs, tm, {Name: "block", Arg: "1"}, tm, {Name: "block", Arg: "csv"}, tm, rs, tm}
	for _, e := range steps {
		x.Apply(e)
		x.Silence()
		if s := x.SwapOf(x.A); s != nil && s.IsFinished() && x.A.Active(id) == nil {
			return nil
		}
	}
	end := x.SwapOf(x.A)
	if end.IsFinished() {
		// finished on disk but the channel is still held in memory
		return []mc.Violation{{Property: "C16", Key: fmt.Sprintf("channel_not_released:state=%s", stateSuffix(string(end.Current))),
			Detail: "the swap is terminal in the store but still in the active-swap map"}}
	}
	// special class: the node's own claim / refund transaction already spends
	// the opening output, but the crash came before its id was persisted
	if ot := anyOpening(x); ot != nil {
		for i := range ot.Msg.TxOut {
			if by, kind := spentByNode(x, ot, i, scn.IDA); by {
				return []mc.Violation{{Property: "C16", Key: fmt.Sprintf("no_termination:own_%s_broadcast_but_not_recorded:end=%s", kind, orDefault(stateSuffix(string(end.Current)))),
					Detail: fmt.Sprintf("role=%s: the node broadcast its %s transaction and stopped before persisting ClaimTxId; after the restart every retry conflicts with its own transaction (or the spent output is never reported again) and the swap stays in %s for good", x.Cfg.ARole(), kind, end.Current)}}
			}
		}
	}
	return []mc.Violation{{Property: "C16", Key: fmt.Sprintf("no_termination:from=%s:end=%s", orDefault(stateSuffix(start)), orDefault(stateSuffix(string(end.Current)))),
		Detail: fmt.Sprintf("role=%s: peer silent from persisted state %s; after time, blocks to CSV maturity, restarts and healthy services the swap is still in %s", x.Cfg.ARole(), start, end.Current)}}
}


// ---------------------------------------------------------------- C17

func oracleC17(x *scn.Exec) []mc.Violation {
	sm := x.SwapOf(x.A)
	if sm == nil {
		return nil
	}
	role := x.Cfg.ARole()
	id := sm.SwapId.String()
	var t0 time.Duration = -1
	var firstRecord time.Duration = -1
	agreementDelivered := false
	cancelReceived := false
	for _, m := range x.Delivered {
		if m.To == scn.IDA && m.Type == mtCancel {
			agreementDelivered = true
		}
		if m.To == scn.IDA && m.Type == mtCancel {
			cancelReceived = true // the peer itself cancelled: nothing to tell it
		}
	}
	// "receives no agreement": ground truth is the swap record - an agreement of the other swap
	// type, or one the state machine refused, is not an agreement for this swap
	if (role == "in_sender" && sm.Data.SwapInAgreement != nil) || (role == "out_sender" && sm.Data.SwapOutAgreement != nil) {
		agreementDelivered = true
	}
	cancelSent := false
	agreementSent := false
	for _, o := range x.W.Log {
		if o.Node != scn.IDA {
			continue
		}
		if o.Kind == "send" && o.SwapID == id && (o.MsgType == mtSwapOutAgree || o.MsgType == mtSwapInAgree) {
			agreementSent = true
		}
		if firstRecord < 0 && o.Kind == "store" && o.SwapID == id {
			firstRecord = o.At
		}
		if o.Kind == "send" && o.SwapID == id {
			if t0 < 0 && (o.MsgType == mtSwapInReq || o.MsgType == mtSwapOutReq) {
				t0 = o.At
			}
			if o.MsgType == mtCancel {
				cancelSent = true
			}
		}
	}
	now := time.Since(x.Start)
	var out []mc.Violation
	switch role {
	case "out_sender", "in_sender":
		if t0 < 0 {
			t0 = firstRecord
		}
		if t0 >= 0 && !agreementDelivered && now-t0 > 10*time.Minute+5*time.Second && !x.A.Life.Dead() {
			restarted := "no_restart"
			if x.A.Inc > 0 {
				restarted = "restarted"
			}
			if sm.Current != swap.State_SwapCanceled {
				out = append(out, mc.Violation{Property: "C17", Key: fmt.Sprintf("requester_not_cancelled:role=%s:%s:state=%s", role, restarted, stateSuffix(string(sm.Current))),
					Detail: fmt.Sprintf("no agreement arrived; %s after the request the swap is in %s", (now - t0).Round(time.Second), sm.Current)})
			} else if !cancelSent {
				out = append(out, mc.Violation{Property: "C17", Key: fmt.Sprintf("requester_cancelled_silently:role=%s:%s", role, restarted),
					Detail: "the swap was cancelled after the negotiation timeout but no cancel message was sent to the peer"})
			}
		}
	case "out_receiver":
		// fee invoice unpaid past its 600 s expiry
		feePaid := false
		var created time.Duration = -1
		for _, li := range x.W.LN[scn.IDA].Invoices {
			if strings.HasSuffix(li.Label, "_fee") {
				feePaid = li.Paid
			}
		}
		for _, o := range x.W.Log {
			if o.Node == scn.IDA && o.Kind == "ln.invoice" && strings.Contains(o.Extra, "type=fee") {
				created = o.At
			}
		}
		if created >= 0 && !feePaid && now-created > 10*time.Minute+5*time.Second && !x.A.Life.Dead() && sm.Data.OpeningTxBroadcasted == nil {
			restarted := "no_restart"
			if x.A.Inc > 0 {
				restarted = "restarted"
			}
			if sm.Current != swap.State_SwapCanceled {
				out = append(out, mc.Violation{Property: "C17", Key: fmt.Sprintf("responder_not_failed_after_fee_invoice_expiry:%s:state=%s", restarted, stateSuffix(string(sm.Current))),
					Detail: fmt.Sprintf("fee invoice unpaid %s after creation (expiry 600 s); swap still in %s", (now - created).Round(time.Second), sm.Current)})
			} else if !cancelSent && !cancelReceived && agreementSent {
				// (if the agreement with the fee invoice never left the node there is nobody to tell)
				out = append(out, mc.Violation{Property: "C17", Key: "responder_failed_silently:" + restarted, Detail: "swap failed after fee invoice expiry but no cancel was sent"})
			}
		}
	}
	return out
}

// ---------------------------------------------------------------- C22

func oracleC22(x *scn.Exec) []mc.Violation {
	if x.Cfg.ATaker() {
		return nil
	}
	var out []mc.Violation
	type inc struct {
		sends []time.Duration
		seqs  []int
	}
	byInc := map[int]*inc{}
	var order []int
	sm := x.SwapOf(x.A)
	if sm == nil {
		return nil
	}
	id := sm.SwapId.String()
	for _, o := range x.W.Log {
		// attempts count, delivered or not: a retransmitter that keeps trying against a failing transport has not stopped
		if o.Node == scn.IDA && (o.Kind == "send" || o.Kind == "send-failed") && o.MsgType == mtOpening && o.SwapID == id {
			if byInc[o.Inc] == nil {
				byInc[o.Inc] = &inc{}
				order = append(order, o.Inc)
			}
			byInc[o.Inc].sends = append(byInc[o.Inc].sends, o.At)
			byInc[o.Inc].seqs = append(byInc[o.Inc].seqs, o.Seq)
		}
	}
	waiting := func(st string) bool {
		return strings.HasSuffix(st, "SendTxBroadcastedMessage") || strings.HasSuffix(st, "AwaitClaimPayment") || strings.HasSuffix(st, "AwaitClaimInvoicePayment") || strings.HasSuffix(st, "BroadcastOpeningTx")
	}
	for _, k := range order {
		in := byInc[k]
		if len(in.sends) < 2 {
			continue
		}
		// measured period
		p := in.sends[1] - in.sends[0]
		for i := 2; i < len(in.sends); i++ {
			if g := in.sends[i] - in.sends[i-1]; g < p {
				p = g
			}
		}
		if p <= 0 {
			out = append(out, mc.Violation{Property: "C22", Key: "two_copies_same_instant", Detail: fmt.Sprintf("incarnation %d sent two copies at the same instant (two retransmitters?)", k)})
			continue
		}
		// time at which this incarnation left the waiting states
		var leave time.Duration = -1
		leaveState := ""
		for _, o := range x.W.Log {
			if o.Node == scn.IDA && o.Inc == k && o.Kind == "store" && o.SwapID == id && o.Seq > in.seqs[0] && !waiting(o.State) {
				leave = o.At
				leaveState = o.State
				break
			}
		}
		for i := 1; i < len(in.sends); i++ {
			g := in.sends[i] - in.sends[i-1]
			if leave < 0 || in.sends[i] <= leave {
				if g != p {
					out = append(out, mc.Violation{Property: "C22", Key: "irregular_retransmission_while_waiting", Detail: fmt.Sprintf("incarnation %d: gap %s differs from period %s (more than one retransmitter?)", k, g, p)})
					break
				}
			}
		}
		if leave >= 0 {
			after := 0
			for _, t := range in.sends {
				if t > leave {
					after++
					if t > leave+p {
						out = append(out, mc.Violation{Property: "C22", Key: fmt.Sprintf("retransmission_after_leaving:state=%s", stateSuffix(leaveState)),
							Detail: fmt.Sprintf("incarnation %d: swap left the waiting state at %s (-> %s) but a copy was sent at %s (period %s)", k, leave, leaveState, t, p)})
						break
					}
				}
			}
			if after > 1 {
				out = append(out, mc.Violation{Property: "C22", Key: fmt.Sprintf("several_copies_after_leaving:state=%s", stateSuffix(leaveState)), Detail: fmt.Sprintf("%d copies after leaving", after)})
			}
		}
	}
	// a swap that is no longer waiting for the claim payment must not have a retransmitter registered at all
	// (probe: the manager refuses a second sender for an id that still has one)
	if !x.A.Life.Dead() && !waiting(string(sm.Current)) && sm.Data.OpeningTxBroadcasted != nil {
		if err := x.A.Mgr.AddSender(id, c22Probe{}); err != nil {
			out = append(out, mc.Violation{Property: "C22", Key: fmt.Sprintf("retransmitter_still_registered:state=%s", stateSuffix(string(sm.Current))),
				Detail: fmt.Sprintf("swap is in %s, the message manager still holds a retransmitter for it (%v)", sm.Current, err)})
		} else {
			x.A.Mgr.RemoveSender(id)
		}
	}
	return out
}

type c22Probe struct{}

func (c22Probe) SendMessage(string, []byte, int) error { return nil }
func (c22Probe) Stop()                               {}

func orDefault(s string) string {
	if s == "" {
		return "Default"
	}
	return s
}

func anyOpening(x *scn.Exec) *world.ChainTx {
	c := x.W.Chain(x.Cfg.Chain)
	for _, txid := range c.TxOrder() {
		if t := c.Get(txid); t != nil && t.Kind == "opening" {
			return t
		}
	}
	return nil
}
