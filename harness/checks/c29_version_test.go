package checks

// C29 — the database version changes only when no swap is active.
//
// Engine E3, degenerate depth (one operation: "start up"): for EVERY store
// content of the stated alphabet — 0, 1 or 2 persisted swaps, each in any
// (type, role, state) combination of the four state tables, × stored version
// {absent (no bucket), absent (empty bucket), current, older, newer} — a real
// bbolt file content is built with the real swap.NewBboltStore / version store
// (one fresh file per 54 cases, emptied between cases) and the start-up sequence
// of the daemons is run on it: version.NewVersionService, swap.NewBboltStore,
// swap.NewSwapService, VersionService.SafeUpgrade(swapService).  The oracle is written
// from the statement: the terminal set is the four names of the statement
// (not swap.IsFinished), "unchanged" is byte equality of every key/value of
// every bucket of the database.

import (
	"bytes"
	"crypto/sha256"
	"fmt"
	"os"
	"path/filepath"
	"sort"
	"strconv"
	"strings"
	"sync"
	"testing"
	"time"

	"github.com/elementsproject/peerswap/swap"
	"github.com/elementsproject/peerswap/version"
	"go.etcd.io/bbolt"
	"verif/mc"
	"verif/vsync"
)

type c29Rec struct {
	Type  swap.SwapType
	Role  swap.SwapRole
	State swap.StateType
}

func (r c29Rec) String() string {
	return fmt.Sprintf("%s/%s/%s", r.Type, r.Role, r.State)
}

// c29Tables lists, per (type, role), the states of that role's state table
// (keys of getSwapOutSenderStates() etc., copied from the exported constants).
func c29Tables() []c29Rec {
	type tab struct {
		t swap.SwapType
		r swap.SwapRole
		s []swap.StateType
	}
	tabs := []tab{
		{swap.SWAPTYPE_OUT, swap.SWAPROLE_SENDER, []swap.StateType{
			swap.State_SwapOutSender_CreateSwap, swap.State_SwapOutSender_SendRequest, swap.State_SwapOutSender_AwaitAgreement,
			swap.State_SwapOutSender_PayFeeInvoice, swap.State_SwapOutSender_AwaitTxBroadcastedMessage, swap.State_SendCancel,
			swap.State_SwapOutSender_AwaitTxConfirmation, swap.State_SwapOutSender_ValidateTxAndPayClaimInvoice,
			swap.State_SwapOutSender_ClaimSwap, swap.State_SwapOutSender_SendPrivkey, swap.State_SwapOutSender_SendCoopClose,
			swap.State_SwapCanceled, swap.State_ClaimedPreimage, swap.State_ClaimedCoop}},
		{swap.SWAPTYPE_OUT, swap.SWAPROLE_RECEIVER, []swap.StateType{
			swap.State_SwapOutReceiver_CreateSwap, swap.State_SwapOutReceiver_SendFeeInvoice, swap.State_SwapOutReceiver_AwaitFeeInvoicePayment,
			swap.State_SwapOutReceiver_BroadcastOpeningTx, swap.State_SwapOutReceiver_SendTxBroadcastedMessage,
			swap.State_SwapOutReceiver_AwaitClaimInvoicePayment, swap.State_SwapOutReceiver_ClaimSwapCoop, swap.State_WaitCsv,
			swap.State_SwapOutReceiver_ClaimSwapCsv, swap.State_SendCancel, swap.State_SwapCanceled, swap.State_ClaimedCsv,
			swap.State_ClaimedPreimage, swap.State_ClaimedCoop}},
		{swap.SWAPTYPE_IN, swap.SWAPROLE_SENDER, []swap.StateType{
			swap.State_SwapInSender_CreateSwap, swap.State_SwapInSender_SendRequest, swap.State_SwapInSender_AwaitAgreement,
			swap.State_SwapInSender_BroadcastOpeningTx, swap.State_SwapInSender_SendTxBroadcastedMessage,
			swap.State_SwapInSender_AwaitClaimPayment, swap.State_SwapInSender_ClaimSwapCsv, swap.State_SwapInSender_ClaimSwapCoop,
			swap.State_WaitCsv, swap.State_SendCancel, swap.State_SwapCanceled, swap.State_ClaimedPreimage, swap.State_ClaimedCsv,
			swap.State_ClaimedCoop}},
		{swap.SWAPTYPE_IN, swap.SWAPROLE_RECEIVER, []swap.StateType{
			swap.State_SwapInReceiver_CreateSwap, swap.State_SwapInReceiver_SendAgreement, swap.State_SwapInReceiver_AwaitTxBroadcastedMessage,
			swap.State_SwapInReceiver_AwaitTxConfirmation, swap.State_SwapInReceiver_ValidateTxAndPayClaimInvoice,
			swap.State_SwapInReceiver_SendPrivkey, swap.State_SwapInReceiver_SendCoopClose, swap.State_SwapInReceiver_ClaimSwap,
			swap.State_ClaimedPreimage, swap.State_SendCancel, swap.State_SwapCanceled, swap.State_ClaimedCoop}},
	}
	var out []c29Rec
	for _, t := range tabs {
		// the record written before the first transition: still in the default state
		out = append(out, c29Rec{t.t, t.r, swap.Default})
		for _, s := range t.s {
			out = append(out, c29Rec{t.t, t.r, s})
		}
	}
	return out
}

// c29Terminal is the reference notion of "terminal", from the statement.
func c29Terminal(s swap.StateType) bool {
	switch string(s) {
	case "State_ClaimedCsv", "State_SwapCanceled", "State_ClaimedPreimage", "State_ClaimedCoop":
		return true
	}
	return false
}

// c29Dump returns every bucket/key/value of the database (empty buckets are
// left out: creating the version bucket is not a change of the stored version).
func c29Dump(db *bbolt.DB) (map[string]string, error) {
	out := map[string]string{}
	err := db.View(func(tx *bbolt.Tx) error {
		return tx.ForEach(func(name []byte, b *bbolt.Bucket) error {
			return b.ForEach(func(k, v []byte) error {
				out[string(name)+"/"+fmt.Sprintf("%x", k)] = string(v)
				return nil
			})
		})
	})
	return out, err
}

const c29VersionKey = "version/76657273696f6e" // bucket "version", key "version"

func c29DiffExceptVersion(a, b map[string]string) string {
	var d []string
	for k, v := range a {
		if k == c29VersionKey {
			continue
		}
		if w, ok := b[k]; !ok {
			d = append(d, "deleted "+k)
		} else if w != v {
			d = append(d, "modified "+k)
		}
	}
	for k := range b {
		if k == c29VersionKey {
			continue
		}
		if _, ok := a[k]; !ok {
			d = append(d, "added "+k)
		}
	}
	sort.Strings(d)
	return strings.Join(d, ", ")
}

type c29Case struct {
	recs    []c29Rec
	stored  string // class: absent_nobucket | absent_emptybucket | current | older | newer
	version string
}

func (c c29Case) String() string {
	var s []string
	for _, r := range c.recs {
		s = append(s, r.String())
	}
	return fmt.Sprintf("stored=%s(%q) swaps=[%s]", c.stored, c.version, strings.Join(s, ", "))
}

type c29Result struct {
	outcome string
	viol    []mc.Violation
	intern  string
	stateH  [32]byte
}

func c29MkSwap(i int, r c29Rec) *swap.SwapStateMachine {
	id := &swap.SwapId{}
	for j := range id {
		id[j] = byte(0x10*(i+1) + j%7)
	}
	peer := "02" + strings.Repeat("ab", 32)
	me := "03" + strings.Repeat("cd", 32)
	data := &swap.SwapData{
		PeerNodeId:      peer,
		InitiatorNodeId: me,
		CreatedAt:       1700000000 + int64(i),
		Role:            r.Role,
		FSMState:        r.State,
		PrivkeyBytes:    bytes.Repeat([]byte{byte(i + 1)}, 32),
	}
	if r.Role == swap.SWAPROLE_RECEIVER {
		data.InitiatorNodeId = peer
	}
	if r.Type == swap.SWAPTYPE_OUT {
		data.SwapOutRequest = &swap.SwapOutRequestMessage{ProtocolVersion: 5, SwapId: id, Network: "regtest", Scid: "1x1x1", Amount: 100000, Pubkey: strings.Repeat("02", 33)}
	} else {
		data.SwapInRequest = &swap.SwapInRequestMessage{ProtocolVersion: 5, SwapId: id, Network: "regtest", Scid: "1x1x1", Amount: 100000, Pubkey: strings.Repeat("02", 33)}
	}
	return &swap.SwapStateMachine{SwapId: id, Data: data, Type: r.Type, Role: r.Role, Current: r.State}
}

// c29Reset empties the database (test set-up, plain bbolt).
func c29Reset(db *bbolt.DB) error {
	return db.Update(func(tx *bbolt.Tx) error {
		var names [][]byte
		if err := tx.ForEach(func(name []byte, _ *bbolt.Bucket) error {
			names = append(names, append([]byte{}, name...))
			return nil
		}); err != nil {
			return err
		}
		for _, n := range names {
			if err := tx.DeleteBucket(n); err != nil {
				return err
			}
		}
		return nil
	})
}

// c29Run builds the store content of case c in db (emptied first) with the real
// stores, then performs the start-up sequence of the daemons on it.
func c29Run(db *bbolt.DB, c c29Case) (res c29Result) {
	fail := func(f string, a ...any) c29Result {
		res.intern = c.String() + ": " + fmt.Sprintf(f, a...)
		return res
	}
	// ---- previous run of the daemon: writes swaps and its version
	if err := c29Reset(db); err != nil {
		return fail("reset: %v", err)
	}
	st, err := swap.NewBboltStore(db)
	if err != nil {
		return fail("NewBboltStore: %v", err)
	}
	for i, r := range c.recs {
		if err := st.UpdateData(c29MkSwap(i, r)); err != nil {
			return fail("UpdateData: %v", err)
		}
	}
	if c.stored != "absent_nobucket" {
		vst, err := version.NewVersionStore(db)
		if err != nil {
			return fail("NewVersionStore: %v", err)
		}
		if c.stored != "absent_emptybucket" {
			if err := vst.SetVersion(c.version); err != nil {
				return fail("SetVersion: %v", err)
			}
		}
	}

	// ---- startup
	before, err := c29Dump(db)
	if err != nil {
		return fail("dump: %v", err)
	}
	nSwaps := 0
	for k := range before {
		if strings.HasPrefix(k, "swaps/") {
			nSwaps++
		}
	}
	if nSwaps != len(c.recs) {
		return fail("store holds %d swap records, wanted %d", nSwaps, len(c.recs))
	}
	if v, ok := before[c29VersionKey]; ok != (c.version != "") || v != c.version {
		return fail("stored version is %q/%v, wanted %q", v, ok, c.version)
	}
	{
		keys := make([]string, 0, len(before))
		for k, v := range before {
			keys = append(keys, k+"="+v)
		}
		sort.Strings(keys)
		res.stateH = sha256.Sum256([]byte(strings.Join(keys, "\x00")))
	}
	vs, err := version.NewVersionService(db)
	if err != nil {
		return fail("NewVersionService: %v", err)
	}
	st2, err := swap.NewBboltStore(db)
	if err != nil {
		return fail("NewBboltStore(2): %v", err)
	}
	svc := swap.NewSwapService(swap.NewSwapServices(st2, nil, nil, nil, nil, nil, false, nil, nil, nil, false, nil, nil, nil, nil))
	upErr := vs.SafeUpgrade(svc)
	after, err := c29Dump(db)
	if err != nil {
		return fail("dump(2): %v", err)
	}

	// ---- oracle (from the statement)
	current := version.GetCurrentVersion()
	allTerminal := true
	firstActive := ""
	for _, r := range c.recs {
		if !c29Terminal(r.State) {
			allTerminal = false
			if firstActive == "" {
				firstActive = string(r.State)
			}
		}
	}
	vBefore, hadBefore := before[c29VersionKey]
	vAfter, hasAfter := after[c29VersionKey]
	versionSame := hadBefore == hasAfter && vBefore == vAfter
	swapDiff := c29DiffExceptVersion(before, after)
	add := func(key, f string, a ...any) {
		res.viol = append(res.viol, mc.Violation{Property: "C29", Key: key,
			Detail: fmt.Sprintf(f, a...) + "\ncase: " + c.String() + fmt.Sprintf("\nSafeUpgrade error: %v; version before=%q(present=%v) after=%q(present=%v)", upErr, vBefore, hadBefore, vAfter, hasAfter)})
	}
	if swapDiff != "" {
		if upErr != nil {
			add("store_changed_on_refusal:what=swaps", "records other than the version changed although startup was refused: %s", swapDiff)
		} else {
			add("swaps_changed_on_upgrade", "records other than the version changed: %s", swapDiff)
		}
	}
	sameVersion := hadBefore && vBefore == current
	switch {
	case allTerminal:
		// nothing active: startup must succeed and the stored version must be the current one
		if upErr != nil {
			add("refused_although_all_terminal:stored="+c.stored, "every persisted swap is terminal but startup failed")
		} else if !hasAfter || vAfter != current {
			add("version_not_current_after_upgrade:stored="+c.stored, "startup succeeded but the stored version is not the current one (%q)", current)
		}
		if upErr != nil && !versionSame {
			add("store_changed_on_refusal:what=version", "startup was refused but the stored version changed")
		}
		res.outcome = "all_terminal:upgraded:stored=" + c.stored
		if sameVersion {
			res.outcome = "all_terminal:same_version_kept"
		}
	case sameVersion:
		// An active swap exists but the stored version already is the current one: nothing has to be
		// replaced.  The statement is about the version CHANGING; continuing (the normal restart with
		// swaps in flight) is allowed, refusing would be allowed by the letter too.  Nothing may change.
		if !versionSame {
			add("version_changed_with_active_swap:state="+firstActive, "stored version was already current, a swap is active, and the stored version changed")
		}
		if upErr == nil {
			res.outcome = "active:same_version:continue"
		} else {
			res.outcome = "active:same_version:refused"
		}
	default:
		// an active swap and a different (or no) stored version: must refuse and change nothing
		if upErr == nil || !versionSame {
			if upErr == nil {
				add("upgraded_with_active_swap:state="+firstActive, "a persisted swap is not terminal but startup succeeded")
			} else {
				add("store_changed_on_refusal:what=version", "startup was refused but the stored version changed")
			}
		}
		res.outcome = "active:refused:stored=" + c.stored
	}
	return res
}

func TestC29(t *testing.T) {
	vsync.SetMode(vsync.Plain)
	rep := EnumReport{ID: "C29", Level: "model_checking", Start: time.Now(), Exhaustive: true,
		Outcomes: map[string]int{}, Alphabets: map[string]any{}, Extra: map[string]any{}}
	recs := c29Tables()
	current := version.GetCurrentVersion()
	type ver struct{ class, v string }
	vers := []ver{{"absent_nobucket", ""}, {"absent_emptybucket", ""}, {"current", current}, {"older", "v0.1"}, {"newer", "v0.3"}}
	if current == "v0.1" || current == "v0.3" {
		rep.Internal = append(rep.Internal, "current version collides with the older/newer alphabet: "+current)
	}
	var cases []c29Case
	for _, v := range vers {
		cases = append(cases, c29Case{nil, v.class, v.v})
		for _, a := range recs {
			cases = append(cases, c29Case{[]c29Rec{a}, v.class, v.v})
		}
		for _, a := range recs {
			for _, b := range recs {
				cases = append(cases, c29Case{[]c29Rec{a, b}, v.class, v.v})
			}
		}
	}
	var recNames []string
	nTerm := 0
	for _, r := range recs {
		recNames = append(recNames, r.String())
		if c29Terminal(r.State) {
			nTerm++
		}
	}
	rep.Alphabets["swap_record"] = recNames
	rep.Alphabets["swap_count"] = []int{0, 1, 2}
	rep.Alphabets["stored_version"] = vers
	rep.Extra["terminal_records_in_alphabet"] = nTerm
	rep.Rule = "every store content with 0..2 swaps (ordered by id) over all (type,role,state) of the four state tables x stored version class; " +
		"real bbolt file content written by swap.NewBboltStore/UpdateData and the version store, then NewVersionService + SafeUpgrade(real swap.SwapService on a new NewBboltStore); " +
		"oracle: all terminal => nil and stored==current; active and stored!=current => error and every bucket/key/value byte-identical; " +
		"active and stored==current => nothing changes (continuing is the normal restart)"

	results := make([]c29Result, len(cases))
	nw := 4
	if n, _ := strconv.Atoi(os.Getenv("C29_NW")); n > 0 {
		nw = n
	}
	// One fresh bbolt file per chunk of cases (closing a bbolt file costs an munmap, which is
	// very slow on this many-core VM); inside a chunk the file is emptied between cases.
	chunk := len(recs)
	nFiles := 0
	chunks := make(chan int)
	var wg sync.WaitGroup
	var imu sync.Mutex
	for w := 0; w < nw; w++ {
		wg.Add(1)
		go func(w int) {
			defer wg.Done()
			for lo := range chunks {
				dir := filepath.Join(workDir, fmt.Sprintf("c29-%d", lo))
				_ = os.MkdirAll(dir, 0o755)
				db, err := bbolt.Open(filepath.Join(dir, "swaps"), 0o600, &bbolt.Options{NoSync: true})
				if err != nil {
					imu.Lock()
					rep.Internal = append(rep.Internal, "bbolt.Open: "+err.Error())
					imu.Unlock()
					continue
				}
				for i := lo; i < lo+chunk && i < len(cases); i++ {
					results[i] = c29Run(db, cases[i])
				}
				db.Close()
				os.RemoveAll(dir)
			}
		}(w)
	}
	for lo := 0; lo < len(cases); lo += chunk {
		chunks <- lo
		nFiles++
	}
	close(chunks)
	wg.Wait()
	rep.Extra["bbolt_files"] = nFiles

	states := map[[32]byte]bool{}
	sampled := map[string]bool{}
	for i, r := range results {
		rep.Transitions++
		if r.intern != "" {
			rep.Internal = append(rep.Internal, r.intern)
			continue
		}
		states[r.stateH] = true
		rep.Outcomes[r.outcome]++
		if !sampled[r.outcome] && len(cases[i].recs) > 0 && len(rep.Samples) < 12 {
			sampled[r.outcome] = true
			rep.Samples = append(rep.Samples, map[string]string{"case": cases[i].String(), "verdict": r.outcome})
		}
		rep.Violations = append(rep.Violations, r.viol...)
	}
	rep.States = len(states)
	rep.Need = []string{
		"all_terminal:same_version_kept",
		"all_terminal:upgraded:stored=absent_nobucket", "all_terminal:upgraded:stored=absent_emptybucket",
		"all_terminal:upgraded:stored=older", "all_terminal:upgraded:stored=newer",
		"active:refused:stored=absent_nobucket", "active:refused:stored=absent_emptybucket",
		"active:refused:stored=older", "active:refused:stored=newer",
	}
	if rep.Outcomes["active:same_version:continue"]+rep.Outcomes["active:same_version:refused"] == 0 {
		rep.Internal = append(rep.Internal, "vacuity guard: no case with an active swap and the current version stored")
	}
	rep.Assumptions = append(rep.Assumptions,
		"a swap is 'terminal' iff its persisted state is one of State_ClaimedCsv, State_SwapCanceled, State_ClaimedPreimage, State_ClaimedCoop",
		"when the stored version already equals the current one nothing is 'replaced': continuing with active swaps is accepted (and required to change nothing)",
		"bbolt is opened with NoSync on /dev/shm; durability of bbolt itself is not examined")
	finishEnum(t, &rep)
}
