package checks

// C02 — the opening script has exactly three spending families.
//
// The script is built by the real onchain.ParamsToTxScript / GetOpeningTxScript, put into a
// P2WSH output of a fake funding transaction, and every witness stack of the stated bounds is
// judged by btcd's script engine (standard verify flags).  The reference predicate below
// (c02Oracle) is written from the property statement only; it never looks at the script.

import (
	"bytes"
	"crypto/sha256"
	"encoding/hex"
	"fmt"
	"runtime"
	"sort"
	"strings"
	"sync"
	"testing"
	"time"

	"github.com/btcsuite/btcd/btcec/v2"
	"github.com/btcsuite/btcd/btcec/v2/ecdsa"
	"github.com/btcsuite/btcd/chaincfg/chainhash"
	"github.com/btcsuite/btcd/txscript"
	"github.com/btcsuite/btcd/wire"
	"github.com/elementsproject/peerswap/onchain"
	"github.com/elementsproject/peerswap/swap"
	"verif/mc"
	"verif/vsync"
)

const (
	c02Amount      = int64(100_000)
	c02DisableFlag = uint32(1) << 31
	c02TimeFlag    = uint32(1) << 22
)

// ---- input alphabets --------------------------------------------------------------------

type c02KeyPair struct {
	name         string
	taker, maker *btcec.PrivateKey
	equal        bool // maker == taker: information only, never judged
}

func c02Priv(seed string) *btcec.PrivateKey {
	h := sha256.Sum256([]byte("c02/" + seed))
	p, _ := btcec.PrivKeyFromBytes(h[:])
	return p
}

func c02Negate(p *btcec.PrivateKey) *btcec.PrivateKey {
	var n btcec.ModNScalar
	n.NegateVal(&p.Key)
	return btcec.PrivKeyFromScalar(&n)
}

type c02Hash struct {
	name string
	// the three strings the witness alphabet offers as "preimages": a 32-byte one, a 31-byte
	// one and a 33-byte one; hash is sha256 of the one named by `of`.
	pre32, s31, s33 []byte
	hash            []byte
}

func c02Hashes() []c02Hash {
	mk := func(name, seed string, of int) c02Hash {
		a := sha256.Sum256([]byte("c02/pre/" + seed))
		h := c02Hash{name: name, pre32: a[:], s31: append([]byte{}, a[:31]...), s33: append(append([]byte{}, a[:]...), 0x00)}
		var src []byte
		switch of {
		case 31:
			src = h.s31
		case 33:
			src = h.s33
		default:
			src = h.pre32
		}
		d := sha256.Sum256(src)
		h.hash = d[:]
		return h
	}
	return []c02Hash{
		mk("H0=sha256(pre32)", "zero", 32),
		mk("H1=sha256(pre32')", "one", 32),
		mk("H2=sha256(31-byte string)", "two", 31), // no 32-byte preimage exists in the alphabet: family (a) must never be accepted
		mk("H3=sha256(33-byte string)", "three", 33),
	}
}

type c02Seq struct {
	name string
	val  func(csv uint32) uint32
}

var c02Seqs = []c02Seq{
	{"0", func(uint32) uint32 { return 0 }},
	{"CSV-1", func(c uint32) uint32 { return c - 1 }},
	{"CSV", func(c uint32) uint32 { return c }},
	{"CSV+1", func(c uint32) uint32 { return c + 1 }},
	{"0xFFFFFFFF", func(uint32) uint32 { return 0xFFFFFFFF }},
	{"CSV|disable", func(c uint32) uint32 { return c | c02DisableFlag }},
	{"CSV|time", func(c uint32) uint32 { return c | c02TimeFlag }},
	{"0xFFFF", func(uint32) uint32 { return 0xFFFF }},
}

type c02Cfg struct {
	kp      c02KeyPair
	h       c02Hash
	csv     uint32
	seqName string
	seq     uint32
	ver     int32
	maxLen  int
	valLen  int // stacks up to this length are always executed (no pruning): validates the suffix lemma
}

func (c c02Cfg) String() string {
	return fmt.Sprintf("keys=%s hash=%s csv=%d sequence=%s(0x%x) txversion=%d", c.kp.name, c.h.name, c.csv, c.seqName, c.seq, c.ver)
}

// ---- witness item alphabet ---------------------------------------------------------------

type c02Item struct {
	name string
	b    []byte
	// semantic facts the oracle uses, computed from the bytes (not from how the item was made)
	validT, validM bool // strict-DER ECDSA signature by taker / maker over this tx's BIP143 SIGHASH_ALL digest, type byte 0x01
	isPre          bool // 32 bytes and sha256(item) == payment hash
	empty          bool
	sigLike        bool // produced by a signer (used only to label near-miss rejection classes)
}

// c02ValidSig is the statement's "X's signature": DER ECDSA by pub over digest, sighash type ALL.
func c02ValidSig(item []byte, pub *btcec.PublicKey, digest []byte) bool {
	if len(item) < 9 || item[len(item)-1] != byte(txscript.SigHashAll) {
		return false
	}
	sig, err := ecdsa.ParseDERSignature(item[:len(item)-1])
	if err != nil {
		return false
	}
	return sig.Verify(digest, pub)
}

// ---- per-configuration world --------------------------------------------------------------

type c02World struct {
	cfg                 c02Cfg
	paramsScriptDiffers bool // ParamsToTxScript != GetOpeningTxScript for the same keys
	script              []byte
	pkScript            []byte
	tx                  *wire.MsgTx
	hashes              *txscript.TxSigHashes
	fetcher             txscript.PrevOutputFetcher
	items               []c02Item
	prune               bool
	sigCache            *txscript.SigCache
}

func c02Sign(k *btcec.PrivateKey, digest []byte, hashType byte) []byte {
	return append(ecdsa.Sign(k, digest).Serialize(), hashType)
}

func c02Build(cfg c02Cfg, third *btcec.PrivateKey, extraItems bool) (*c02World, error) {
	w := &c02World{cfg: cfg, sigCache: txscript.NewSigCache(64)}
	tp := cfg.kp.taker.PubKey().SerializeCompressed()
	mp := cfg.kp.maker.PubKey().SerializeCompressed()
	// real code under test
	script, err := onchain.ParamsToTxScript(&swap.OpeningParams{
		TakerPubkey: hex.EncodeToString(tp), MakerPubkey: hex.EncodeToString(mp),
		ClaimPaymentHash: hex.EncodeToString(cfg.h.hash), Amount: uint64(c02Amount), CSV: cfg.csv,
	}, cfg.csv)
	if err != nil {
		return nil, fmt.Errorf("ParamsToTxScript: %v", err)
	}
	script2, err := onchain.GetOpeningTxScript(tp, mp, cfg.h.hash, cfg.csv)
	if err != nil {
		return nil, fmt.Errorf("GetOpeningTxScript: %v", err)
	}
	// The node derives every address, validation and sighash from ParamsToTxScript: that script is the one
	// explored.  If it is not the script GetOpeningTxScript builds from the same keys (e.g. a memoised script
	// of another swap), the witness enumeration below decides with the swap's own keys whether the property
	// still holds; the disagreement itself is only noted.
	w.paramsScriptDiffers = !bytes.Equal(script, script2)
	w.script = script
	wp := sha256.Sum256(script)
	w.pkScript, err = txscript.NewScriptBuilder().AddOp(txscript.OP_0).AddData(wp[:]).Script()
	if err != nil {
		return nil, err
	}
	// fake funding transaction with the P2WSH output at index 0
	funding := wire.NewMsgTx(2)
	funding.AddTxIn(wire.NewTxIn(wire.NewOutPoint(&chainhash.Hash{0xC0, 0x02}, 7), nil, nil))
	funding.AddTxOut(wire.NewTxOut(c02Amount, w.pkScript))
	fid := funding.TxHash()
	dest := append([]byte{txscript.OP_0, 20}, bytes.Repeat([]byte{0x42}, 20)...)
	mkSpend := func(outValue int64) *wire.MsgTx {
		tx := wire.NewMsgTx(cfg.ver)
		in := wire.NewTxIn(wire.NewOutPoint(&fid, 0), nil, nil)
		in.Sequence = cfg.seq
		tx.AddTxIn(in)
		tx.AddTxOut(wire.NewTxOut(outValue, dest))
		return tx
	}
	w.tx = mkSpend(c02Amount - 500)
	w.fetcher = txscript.NewCannedPrevOutputFetcher(w.pkScript, c02Amount)
	w.hashes = txscript.NewTxSigHashes(w.tx, w.fetcher)
	digest, err := txscript.CalcWitnessSigHash(script, w.hashes, txscript.SigHashAll, w.tx, 0, c02Amount)
	if err != nil {
		return nil, err
	}
	other := mkSpend(c02Amount - 501)
	otherDigest, err := txscript.CalcWitnessSigHash(script, txscript.NewTxSigHashes(other, w.fetcher), txscript.SigHashAll, other, 0, c02Amount)
	if err != nil {
		return nil, err
	}
	sigT := c02Sign(cfg.kp.taker, digest, 0x01)
	badType := append(append([]byte{}, sigT[:len(sigT)-1]...), byte(txscript.SigHashNone))
	flipped := append([]byte{}, cfg.h.pre32...)
	flipped[17] ^= 0x04
	raw := []struct {
		name string
		b    []byte
		sig  bool
	}{
		{"sigTaker", sigT, true},
		{"sigMaker", c02Sign(cfg.kp.maker, digest, 0x01), true},
		{"sigTakerBadHashType", badType, true},
		{"sigThirdKey", c02Sign(third, digest, 0x01), true},
		{"sigTakerOtherTx", c02Sign(cfg.kp.taker, otherDigest, 0x01), true},
		{"empty", []byte{}, false},
		{"0x01", []byte{0x01}, false},
		{"pre32", cfg.h.pre32, false},
		{"pre32BitFlipped", flipped, false},
		{"str31", cfg.h.s31, false},
		{"str33", cfg.h.s33, false},
		{"zero32", make([]byte, 32), false},
	}
	if extraItems {
		raw = append(raw, struct {
			name string
			b    []byte
			sig  bool
		}{"sigMakerOtherTx", c02Sign(cfg.kp.maker, otherDigest, 0x01), true})
	}
	tpub, mpub := cfg.kp.taker.PubKey(), cfg.kp.maker.PubKey()
	for _, r := range raw {
		it := c02Item{name: r.name, b: r.b, sigLike: r.sig, empty: len(r.b) == 0}
		it.validT = c02ValidSig(r.b, tpub, digest)
		it.validM = c02ValidSig(r.b, mpub, digest)
		d := sha256.Sum256(r.b)
		it.isPre = len(r.b) == 32 && bytes.Equal(d[:], cfg.h.hash)
		w.items = append(w.items, it)
	}
	// The suffix lemma (see c02Predict) needs a script without depth-sensitive opcodes.
	w.prune = true
	tok := txscript.MakeScriptTokenizer(0, script)
	for tok.Next() {
		switch tok.Opcode() {
		case txscript.OP_DEPTH, txscript.OP_PICK, txscript.OP_ROLL:
			w.prune = false
		}
	}
	if tok.Err() != nil {
		w.prune = false
	}
	return w, nil
}

// exec runs btcd's engine on the witness (stack given top-first) and returns (accepted, code).
// Stacks longer than valLen are run with btcd's signature cache (it stores only triples that
// the real verification accepted), shorter ones without.
func (w *c02World) exec(top []int) (bool, txscript.ErrorCode, error) {
	wit := make(wire.TxWitness, 0, len(top)+1)
	for i := len(top) - 1; i >= 0; i-- {
		wit = append(wit, w.items[top[i]].b)
	}
	wit = append(wit, w.script)
	w.tx.TxIn[0].Witness = wit
	var cache *txscript.SigCache
	if len(top) > w.cfg.valLen {
		cache = w.sigCache
	}
	vm, err := txscript.NewEngine(w.pkScript, w.tx, 0, txscript.StandardVerifyFlags, cache, w.hashes, c02Amount, w.fetcher)
	if err == nil {
		err = vm.Execute()
	}
	if err == nil {
		return true, 0, nil
	}
	if se, ok := err.(txscript.Error); ok {
		return false, se.ErrorCode, nil
	}
	return false, 0, err
}

// ---- the reference predicate (from the statement) -------------------------------------------

// oracle says which family (if any) the stack (top-first item indices) belongs to.
func (w *c02World) oracle(top []int) string {
	n := len(top)
	at := func(fromBottom int) *c02Item { return &w.items[top[n-1-fromBottom]] }
	switch n {
	case 4: // (a) <sigTaker, preimage32, empty, empty>
		if at(0).validT && at(1).isPre && at(2).empty && at(3).empty {
			return "a"
		}
	case 3: // (b) <sigTaker, sigMaker, empty>
		if at(0).validT && at(1).validM && at(2).empty {
			return "b"
		}
	case 1: // (c) <sigMaker>, tx commits to a relative height lock >= CSV
		c := w.cfg
		if at(0).validM && c.ver >= 2 && c.seq&c02DisableFlag == 0 && c.seq&c02TimeFlag == 0 && c.seq&0xffff >= c.csv {
			return "c"
		}
	}
	return ""
}

// verdict / rejection classes
const (
	c02Other = iota
	c02AWrongPre
	c02AWrongSig
	c02BWrongSig
	c02CWrongSig
	c02CVersion1
	c02CSeqFlag
	c02CImmature
	c02AcceptA
	c02AcceptB
	c02AcceptC
	c02VAccepts
	c02VRejects
	c02Equal
)

var c02ClassName = []string{"reject:other", "reject:a:wrong_preimage", "reject:a:wrong_sig", "reject:b:wrong_sig", "reject:c:wrong_sig",
	"reject:c:tx_version_1", "reject:c:sequence_flag_set", "reject:c:immature_csv", "accept:a", "accept:b", "accept:c",
	"VIOLATION:accepts_unlisted", "VIOLATION:rejects_family", "equal_keys"}

// nearMiss labels stacks that differ from a family in exactly one respect.  Used for the
// vacuity guard and to force direct execution of those stacks; c02Other = unrelated shape.
func (w *c02World) nearMiss(top []int) int {
	n := len(top)
	at := func(fromBottom int) *c02Item { return &w.items[top[n-1-fromBottom]] }
	switch n {
	case 4:
		if !at(2).empty || !at(3).empty {
			return c02Other
		}
		switch {
		case at(0).validT && !at(1).isPre:
			return c02AWrongPre
		case at(0).sigLike && !at(0).validT && at(1).isPre:
			return c02AWrongSig
		}
	case 3:
		if at(2).empty && at(0).sigLike && at(1).sigLike && !(at(0).validT && at(1).validM) {
			return c02BWrongSig
		}
	case 1:
		c := w.cfg
		switch {
		case at(0).sigLike && !at(0).validM:
			return c02CWrongSig
		case !at(0).validM:
			return c02Other
		case c.ver < 2:
			return c02CVersion1
		case c.seq&c02DisableFlag != 0 || c.seq&c02TimeFlag != 0:
			return c02CSeqFlag
		case c.seq&0xffff < c.csv:
			return c02CImmature
		}
	}
	return c02Other
}

// c02Predict: suffix lemma.  Script opcodes (other than OP_DEPTH and out-of-range OP_PICK /
// OP_ROLL, absent here — checked per script) address the stack relative to its top, so for a
// stack T and any non-empty B below it the engine executes B++T exactly as it executes T until
// T's run either needs an item that T does not have (underflow) or ends.  Hence
//
//	(1) if T is rejected inside the script by an error that is not a stack underflow/overflow,
//	    B++T is rejected by the same error;
//	(2) if T's run reaches the end of the script with at least one item left (accepted, or
//	    rejected by the final value / final depth checks), B++T reaches it with at least two
//	    items and is rejected by the witness clean-stack rule (btcd: ErrEvalFalse).
//
// Not covered, always executed: underflow (the items of B are read), ErrEmptyStack (an item of
// B would become the result), overflow, unfinished script.
// Stacks covered this way are counted as "implied"; the lemma itself is validated by executing
// all stacks up to valLen and every near-miss stack directly and comparing.
func c02Predict(ok bool, code txscript.ErrorCode) (txscript.ErrorCode, bool) {
	if ok {
		return txscript.ErrEvalFalse, true
	}
	switch code {
	case txscript.ErrEvalFalse, txscript.ErrCleanStack:
		return txscript.ErrEvalFalse, true
	case txscript.ErrInvalidStackOperation, txscript.ErrStackOverflow, txscript.ErrEmptyStack, txscript.ErrScriptUnfinished:
		return 0, false
	}
	return code, true
}

// ---- enumeration ----------------------------------------------------------------------------

type c02Key struct {
	class    uint8
	n        uint8
	executed bool
	ok       bool
	code     txscript.ErrorCode
}

type c02Acc struct {
	cnt         map[c02Key]int
	viol        map[string]string // key -> detail of the smallest failing input seen
	violLen     map[string]int
	internal    []string
	samples     map[string]string
	equalShapes map[string]map[string]bool
}

func newC02Acc() *c02Acc {
	return &c02Acc{cnt: map[c02Key]int{}, viol: map[string]string{}, violLen: map[string]int{},
		samples: map[string]string{}, equalShapes: map[string]map[string]bool{}}
}

func (a *c02Acc) merge(b *c02Acc) {
	for k, v := range b.cnt {
		a.cnt[k] += v
	}
	for k, d := range b.viol {
		if cur, ok := a.viol[k]; !ok || b.violLen[k] < a.violLen[k] || (b.violLen[k] == a.violLen[k] && d < cur) {
			a.viol[k], a.violLen[k] = d, b.violLen[k]
		}
	}
	a.internal = append(a.internal, b.internal...)
	for k, v := range b.samples {
		if _, ok := a.samples[k]; !ok {
			a.samples[k] = v
		}
	}
	for k, v := range b.equalShapes {
		if a.equalShapes[k] == nil {
			a.equalShapes[k] = map[string]bool{}
		}
		for s := range v {
			a.equalShapes[k][s] = true
		}
	}
}

func (w *c02World) shape(top []int) string {
	names := make([]string, len(top))
	for i := range top {
		names[i] = w.items[top[len(top)-1-i]].name // bottom -> top, as in a witness
	}
	return strings.Join(names, ",")
}

func (w *c02World) detail(top []int) string {
	var hx []string
	for i := len(top) - 1; i >= 0; i-- {
		hx = append(hx, hex.EncodeToString(w.items[top[i]].b))
	}
	return fmt.Sprintf("%s\nwitness (bottom..top, redeem script omitted) = <%s>\nitems = [%s]\nscript = %x",
		w.cfg, w.shape(top), strings.Join(hx, " "), w.script)
}

func (a *c02Acc) violation(key string, w *c02World, top []int, what string) {
	d := what + "\n" + w.detail(top)
	if cur, ok := a.viol[key]; !ok || len(top) < a.violLen[key] || (len(top) == a.violLen[key] && d < cur) {
		a.viol[key] = d
		a.violLen[key] = len(top)
	}
}

func c02Verdict(ok bool, code txscript.ErrorCode) string {
	if ok {
		return "accept"
	}
	return code.String()
}

func (w *c02World) dfs(a *c02Acc, top []int, implied *txscript.ErrorCode) {
	n := len(top)
	near := w.nearMiss(top)
	orc := w.oracle(top)
	var ok, executed bool
	var code txscript.ErrorCode
	if implied == nil || n <= w.cfg.valLen || near != c02Other || orc != "" {
		var err error
		ok, code, err = w.exec(top)
		executed = true
		if err != nil {
			a.internal = append(a.internal, fmt.Sprintf("engine returned a non-script error %v on %s", err, w.detail(top)))
			return
		}
		if implied != nil && (ok || code != *implied) {
			a.internal = append(a.internal, fmt.Sprintf("suffix lemma refuted: predicted %v, engine says accepted=%v %v on %s", *implied, ok, code, w.detail(top)))
		}
	} else {
		ok, code = false, *implied
	}
	class := near
	switch {
	case w.cfg.kp.equal:
		// maker == taker: the statement presupposes two parties; record, do not judge
		class = c02Equal
		if ok {
			k := fmt.Sprintf("len=%d:<%s>", n, w.shape(top))
			if a.equalShapes[k] == nil {
				a.equalShapes[k] = map[string]bool{}
			}
			a.equalShapes[k][fmt.Sprintf("%s/v%d", w.cfg.seqName, w.cfg.ver)] = true
		}
	case ok && orc != "":
		class = c02AcceptA + int(orc[0]-'a')
		if _, have := a.samples["accept:"+orc]; !have {
			a.samples["accept:"+orc] = w.detail(top)
		}
	case ok && orc == "":
		class = c02VAccepts
		a.violation(fmt.Sprintf("accepts_unlisted:len=%d:shape=%s", n, w.shape(top)), w, top,
			"the engine accepts a witness that is in none of the three families")
	case !ok && orc != "":
		class = c02VRejects
		a.violation(fmt.Sprintf("rejects_family:%s:%s", orc, code), w, top,
			fmt.Sprintf("the engine rejects a family-(%s) witness with %v", orc, code))
	case near != c02Other:
		if _, have := a.samples[c02ClassName[near]]; !have {
			a.samples[c02ClassName[near]] = fmt.Sprintf("%v: %s", code, w.detail(top))
		}
	}
	a.cnt[c02Key{class: uint8(class), n: uint8(n), executed: executed, ok: ok, code: code}]++
	if n == w.cfg.maxLen {
		return
	}
	if implied == nil && w.prune {
		if c, can := c02Predict(ok, code); can {
			implied = &c
		}
	}
	next := make([]int, n+1)
	copy(next, top)
	for i := range w.items {
		next[n] = i // one more item below the current bottom
		w.dfs(a, next, implied)
	}
}

func TestC02(t *testing.T) {
	vsync.SetMode(vsync.Plain)
	rep := EnumReport{ID: "C02", Level: "model_checking", Start: time.Now(), Outcomes: map[string]int{}, Extra: map[string]any{}}
	thorough := mc.Tier() == "thorough"

	a, b, c, d, third := c02Priv("A"), c02Priv("B"), c02Priv("C"), c02Priv("D"), c02Priv("third")
	kps := []c02KeyPair{
		{name: "taker=A,maker=B", taker: a, maker: b},
		{name: "taker=C,maker=-C(pubkeys differ in the first byte only)", taker: c, maker: c02Negate(c)},
		{name: "taker=B,maker=D", taker: b, maker: d},
	}
	{
		p, q := kps[1].taker.PubKey().SerializeCompressed(), kps[1].maker.PubKey().SerializeCompressed()
		diff := 0
		for i := range p {
			if p[i] != q[i] {
				diff++
			}
		}
		if diff != 1 {
			rep.Internal = append(rep.Internal, fmt.Sprintf("key pair 1 differs in %d bytes, want 1", diff))
		}
	}
	equal := c02KeyPair{name: "taker=maker=A", taker: a, maker: a, equal: true}
	hashes := c02Hashes()
	csvs := []uint32{1008, 10080, 60}
	maxLen, valLen := 5, 3
	if thorough {
		maxLen = 6
	}

	var cfgs []c02Cfg
	add := func(kp c02KeyPair, h c02Hash, csv uint32, maxLen, valLen int) {
		for _, s := range c02Seqs {
			for _, ver := range []int32{1, 2} {
				cfgs = append(cfgs, c02Cfg{kp: kp, h: h, csv: csv, seqName: s.name, seq: s.val(csv), ver: ver, maxLen: maxLen, valLen: valLen})
			}
		}
	}
	restricted := []string{}
	for ki, kp := range kps {
		for hi, h := range hashes {
			for _, csv := range csvs {
				if !thorough && hi >= 2 && ki > 0 {
					continue // quick: the wrong-length-preimage hashes H2/H3 only with key pair 0
				}
				vl := valLen
				if thorough && ki == 0 {
					vl = 4
				}
				if thorough && ki == 0 && hi == 0 && csv == 1008 {
					vl = 5 // one complete group (16 sequence/version combinations) without any pruning up to length 5
				}
				add(kp, h, csv, maxLen, vl)
			}
		}
	}
	if !thorough {
		restricted = append(restricted, "quick: hashes H2/H3 (sha256 of a 31/33-byte string) only with key pair 0; witness length <= 5; 12 items")
	}
	for _, csv := range csvs {
		add(equal, hashes[0], csv, 5, 0)
	}

	nw := min(8, runtime.GOMAXPROCS(0))
	work := make(chan c02Cfg)
	total := newC02Acc()
	var mu sync.Mutex
	var wg sync.WaitGroup
	pruneOff := 0
	var scriptSample string
	for i := 0; i < nw; i++ {
		wg.Add(1)
		go func() {
			defer wg.Done()
			acc := newC02Acc()
			off := 0
			for cfg := range work {
				w, err := c02Build(cfg, third, thorough)
				if err != nil {
					acc.internal = append(acc.internal, err.Error())
					continue
				}
				if !w.prune {
					off++
				}
				if w.paramsScriptDiffers {
					acc.samples["info:params_script_differs_from_script_of_own_keys"] = cfg.String()
				}
				w.dfs(acc, nil, nil)
			}
			mu.Lock()
			total.merge(acc)
			pruneOff += off
			mu.Unlock()
		}()
	}
	// heaviest first: configurations in which <sigMaker> is accepted have the largest unpruned subtree
	sort.SliceStable(cfgs, func(i, j int) bool { return cfgs[i].valLen > cfgs[j].valLen })
	for _, cfg := range cfgs {
		work <- cfg
	}
	close(work)
	wg.Wait()
	if w, err := c02Build(cfgs[0], third, thorough); err == nil {
		dis, _ := txscript.DisasmString(w.script)
		scriptSample = dis
	}

	nItems := 12
	if thorough {
		nItems = 13
	}
	perCfg := 0
	for l, p := 0, 1; l <= maxLen; l, p = l+1, p*nItems {
		perCfg += p
	}
	executedN, impliedN := 0, 0
	states := map[string]bool{}
	for k, v := range total.cnt {
		verdict := c02Verdict(k.ok, k.code)
		if k.executed {
			executedN += v
			rep.Outcomes["engine:"+verdict] += v
		} else {
			impliedN += v
			rep.Outcomes["implied:"+verdict] += v
		}
		name := c02ClassName[k.class]
		switch k.class {
		case c02Other:
			name = fmt.Sprintf("%s:len=%d", name, k.n)
		case c02Equal:
			name = name + ":" + verdict
		}
		rep.Outcomes[name] += v
		if k.class != c02Equal {
			states[name+"/"+verdict] = true
		}
	}
	rep.Transitions = executedN
	rep.States = len(states)
	rep.Internal = append(rep.Internal, total.internal...)
	rep.Exhaustive = true
	rep.Rule = "engine accepts <=> witness is (a) <sigTaker,pre32,{},{}> with sha256(pre32)=H, (b) <sigTaker,sigMaker,{}>, or (c) <sigMaker> in a version>=2 tx whose input sequence has bits 31 and 22 clear and (sequence&0xffff)>=CSV; signatures = strict DER ECDSA over the BIP143 SIGHASH_ALL digest of the spending tx"
	rep.Need = []string{"accept:a", "accept:b", "accept:c", "reject:a:wrong_preimage", "reject:a:wrong_sig", "reject:b:wrong_sig",
		"reject:c:wrong_sig", "reject:c:immature_csv", "reject:c:sequence_flag_set", "reject:c:tx_version_1"}
	itemNames := []string{"sigTaker", "sigMaker", "sigTakerBadHashType(type byte 0x02 on a SIGHASH_ALL signature)", "sigThirdKey", "sigTakerOtherTx(output value differs by 1 sat)",
		"empty", "0x01", "pre32", "pre32BitFlipped", "str31", "str33", "zero32"}
	if thorough {
		itemNames = append(itemNames, "sigMakerOtherTx")
	}
	var kpNames, hNames, seqNames []string
	for _, k := range kps {
		kpNames = append(kpNames, k.name)
	}
	for _, h := range hashes {
		hNames = append(hNames, h.name)
	}
	for _, s := range c02Seqs {
		seqNames = append(seqNames, s.name)
	}
	rep.Alphabets = map[string]any{
		"witness_items": itemNames, "witness_length": fmt.Sprintf("0..%d (below the redeem script)", maxLen),
		"key_pairs": kpNames, "payment_hashes": hNames, "csv": csvs, "input_sequence": seqNames, "tx_version": []int{1, 2},
		"flags": "txscript.StandardVerifyFlags", "restricted": restricted,
	}
	rep.Extra["configurations"] = len(cfgs)
	rep.Extra["stacks_per_configuration"] = perCfg
	rep.Extra["stacks_judged"] = executedN + impliedN
	rep.Extra["stacks_executed_by_engine"] = executedN
	rep.Extra["stacks_implied_by_suffix_lemma"] = impliedN
	rep.Extra["lemma_validation"] = fmt.Sprintf("every stack of length <= %d (thorough: <= 4 for key pair 0, <= 5 for key pair 0 / H0 / csv 1008), every near-miss stack and every stack the oracle accepts is executed even below a pruned suffix and compared with the prediction; scripts on which pruning was switched off (depth-sensitive opcode): %d", valLen, pruneOff)
	rep.Extra["script_sample"] = scriptSample
	eq := []string{}
	for k, v := range total.equalShapes {
		var where []string
		for s := range v {
			where = append(where, s)
		}
		sort.Strings(where)
		if len(where) == 2*len(c02Seqs) {
			where = []string{"every sequence/version"}
		}
		eq = append(eq, fmt.Sprintf("%s accepted with %s", k, strings.Join(where, " ")))
	}
	sort.Strings(eq)
	rep.Extra["equal_maker_taker_keys_accepted_witnesses(information only)"] = eq
	rep.Assumptions = []string{
		"btcd txscript.Engine with StandardVerifyFlags is the consensus/standardness judge (trusted); stacks longer than the validation length are run with btcd's own SigCache (stores only signatures the real verification accepted)",
		"suffix lemma (c02Predict): for scripts without OP_DEPTH/OP_PICK/OP_ROLL (checked per script) a non-underflow rejection of stack T inside the script holds for every stack with T on top, and if T's run reaches the end of the script every longer stack with T on top fails the witness clean-stack rule; validated by direct execution as stated in lemma_validation",
		"BIP68 height maturity of the committed sequence is a chain rule outside this property (C03/C07 cover it)",
	}
	var skeys []string
	for k := range total.samples {
		skeys = append(skeys, k)
	}
	sort.Strings(skeys)
	for _, k := range skeys {
		rep.Samples = append(rep.Samples, map[string]string{"class": k, "case": total.samples[k]})
	}
	var vkeys []string
	for k := range total.viol {
		vkeys = append(vkeys, k)
	}
	sort.Slice(vkeys, func(i, j int) bool {
		if total.violLen[vkeys[i]] != total.violLen[vkeys[j]] {
			return total.violLen[vkeys[i]] < total.violLen[vkeys[j]]
		}
		return vkeys[i] < vkeys[j]
	})
	const capKeys = 25
	if len(vkeys) > capKeys {
		rep.Extra["violation_keys_total"] = len(vkeys)
		rep.Extra["violation_keys_reported"] = fmt.Sprintf("the %d with the shortest witnesses", capKeys)
		vkeys = vkeys[:capKeys]
	}
	for _, k := range vkeys {
		rep.Violations = append(rep.Violations, mc.Violation{Property: "C02", Key: k, Detail: total.viol[k]})
	}
	finishEnum(t, &rep)
}
