package checks

// Fakes for C08: a fake elementsd (wallet.RpcClient) under the REAL
// wallet.ElementsRpcWallet that funds / blinds / signs by building the real
// confidential transaction, a recording LightningClient and a TxWatcher.

import (
	"encoding/json"
	"errors"
	"fmt"
	"strings"
	"sync"

	"github.com/elementsproject/glightning/gelements"
	"github.com/elementsproject/glightning/jrpc2"
	"github.com/elementsproject/peerswap/swap"
	"github.com/vulpemventures/go-elements/transaction"
)

type c08Elementsd struct {
	mu      sync.Mutex
	w       *c03LqWallet // address book / scenario (fund layout)
	nFund   int
	pending struct {
		hex   string
		specs []c03LqSpec
		seed  string
		nIn   int
	}
	blinded  *c03LqTxTruth
	sent     []string
	sentTrue []*c03LqTxTruth
	fundOpts []gelements.FundRawOptions
	// rejectFirst: the node's peers relay at a higher fee than its estimate: the first sendrawtransaction is refused
	// with code -26; whatever is funded afterwards gets its change output on the other side of the swap output (elementsd
	// picks the change position at random for every fundrawtransaction)
	rejectFirst bool
	rejected    int
}

func (e *c08Elementsd) GetNewAddress(addrType int) (string, error) {
	if addrType != 3 {
		return "", fmt.Errorf("fake elementsd: unexpected address type %d", addrType)
	}
	return e.w.GetAddress()
}
func (e *c08Elementsd) SendToAddress(string, string) (string, error) {
	return "", errors.New("fake elementsd: sendtoaddress not used")
}
func (e *c08Elementsd) GetBalance() (uint64, error)             { return 1 << 52, nil }
func (e *c08Elementsd) LoadWallet(string, bool) (string, error) { return "w", nil }
func (e *c08Elementsd) CreateWallet(string) (string, error)     { return "w", nil }
func (e *c08Elementsd) SetRpcWallet(string)                     {}
func (e *c08Elementsd) ListWallets() ([]string, error)          { return []string{"w"}, nil }
func (e *c08Elementsd) SetLabel(address, label string) error    { return nil }
func (e *c08Elementsd) Ping() (bool, error)                     { return true, nil }
func (e *c08Elementsd) GetNetworkInfo() (*gelements.NetworkInfo, error) {
	return &gelements.NetworkInfo{Version: 230203}, nil
}
func (e *c08Elementsd) DecodeRawTx(string) (*gelements.Tx, error) {
	return &gelements.Tx{DiscountVirtualSize: 100}, nil
}
func (e *c08Elementsd) EstimateFee(blocks uint32, mode string) (*gelements.FeeResponse, error) {
	return &gelements.FeeResponse{FeeRate: 0.000001, Blocks: blocks}, nil
}

// FundRawWithOptions: fundrawtransaction.  The raw transaction must carry
// exactly one explicit output whose nonce field is the blinding pubkey; the
// scenario decides where change and fee outputs go (elementsd inserts the
// change output at a random position unless changePosition is given).
func (e *c08Elementsd) FundRawWithOptions(txstring string, options *gelements.FundRawOptions, iswitness *bool) (*gelements.FundRawResult, error) {
	e.mu.Lock()
	defer e.mu.Unlock()
	tx, err := transaction.NewTxFromHex(txstring)
	if err != nil {
		return nil, err
	}
	if len(tx.Inputs) != 0 || len(tx.Outputs) != 1 {
		return nil, fmt.Errorf("fake elementsd: expected 0 inputs / 1 output, got %d / %d", len(tx.Inputs), len(tx.Outputs))
	}
	out := tx.Outputs[0]
	amount, ok := c03ExplicitValue(out.Value)
	if !ok || len(out.Asset) != 33 || out.Asset[0] != 1 || len(out.Nonce) != 33 {
		return nil, errors.New("fake elementsd: output must be explicit with a blinding pubkey in the nonce field")
	}
	if options != nil {
		e.fundOpts = append(e.fundOpts, *options)
	}
	e.nFund++
	e.w.mu.Lock()
	fund := e.w.fund
	change := e.w.newAddrLocked()
	e.w.mu.Unlock()
	if e.rejectFirst && e.nFund > 1 {
		fund.Layout = strings.NewReplacer("S", "C", "C", "S").Replace(fund.Layout)
	}
	if options != nil && options.ChangePosition != nil {
		// honour an explicit change position: move 'C' there
		return nil, errors.New("fake elementsd: explicit changePosition not modelled")
	}
	specs, fee := c03LqOpeningSpecs(fund, out.Script, out.Nonce, amount, change)
	for i := range specs {
		if specs[i].Kind == 'S' || specs[i].Kind == 'T' || specs[i].Kind == 'D' {
			specs[i].Asset = append([]byte{}, out.Asset[1:]...)
		}
	}
	// the funded, still unblinded transaction: explicit outputs with nonces
	funded := transaction.NewTx(2)
	seed := fmt.Sprintf("%s/rpcopen/%d", e.w.tag, e.nFund)
	for i := 0; i < fund.NIn; i++ {
		in := transaction.NewTxInput(c03H("lq/prev", seed, fmt.Sprint(i)), uint32(i))
		in.Sequence = 0xfffffffd
		funded.AddInput(in)
	}
	changePos := -1
	for i, sp := range specs {
		vb, _ := c03ValueBytes(sp.Value)
		o := transaction.NewTxOutput(append([]byte{0x01}, sp.Asset...), vb, sp.Script)
		if sp.BlindPub != nil {
			o.Nonce = sp.BlindPub
		}
		if sp.Kind == 'C' {
			changePos = i
		}
		funded.AddOutput(o)
	}
	hx, err := funded.ToHex()
	if err != nil {
		return nil, err
	}
	e.pending.hex, e.pending.specs, e.pending.seed, e.pending.nIn = hx, specs, seed, fund.NIn
	return &gelements.FundRawResult{TxString: hx, Fee: float64(fee) / 1e8, ChangePosition: changePos}, nil
}

// BlindRawTransaction: blindrawtransaction - every output with a pubkey in
// its nonce field becomes confidential.
func (e *c08Elementsd) BlindRawTransaction(txHex string) (string, error) {
	e.mu.Lock()
	defer e.mu.Unlock()
	if txHex != e.pending.hex || txHex == "" {
		return "", errors.New("fake elementsd: blindrawtransaction on a transaction that was not funded here")
	}
	specs := e.pending.specs
	if e.w.fund.Explicit {
		// keep as funded: swap output explicit (its nonce dropped)
		for i := range specs {
			if specs[i].Kind == 'S' || specs[i].Kind == 'T' {
				specs[i].BlindPub = nil
			}
		}
	}
	truth, err := c03LqBuildTx(e.pending.seed, e.pending.nIn, specs)
	if err != nil {
		return "", err
	}
	// same inputs as funded
	f, _ := transaction.NewTxFromHex(txHex)
	for i := range f.Inputs {
		if string(f.Inputs[i].Hash) != string(truth.Tx.Inputs[i].Hash) || f.Inputs[i].Index != truth.Tx.Inputs[i].Index {
			return "", errors.New("fake elementsd: INTERNAL inputs differ")
		}
	}
	e.blinded = truth
	return truth.Hex, nil
}

func (e *c08Elementsd) SignRawTransactionWithWallet(txHex string) (gelements.SignRawTransactionWithWalletRes, error) {
	e.mu.Lock()
	defer e.mu.Unlock()
	if e.blinded == nil || e.blinded.Hex != txHex {
		return gelements.SignRawTransactionWithWalletRes{}, errors.New("fake elementsd: signing a transaction that was not blinded here")
	}
	return gelements.SignRawTransactionWithWalletRes{Hex: txHex, Complete: true}, nil
}

func (e *c08Elementsd) SendRawTx(txHex string) (string, error) {
	e.mu.Lock()
	defer e.mu.Unlock()
	tx, err := transaction.NewTxFromHex(txHex)
	if err != nil {
		return "", err
	}
	if e.rejectFirst && e.rejected == 0 {
		e.rejected++
		return "", &jrpc2.RpcError{Code: -26, Message: "min relay fee not met (injected)"}
	}
	e.sent = append(e.sent, txHex)
	if e.blinded != nil && e.blinded.Hex == txHex {
		e.sentTrue = append(e.sentTrue, e.blinded)
	} else {
		e.sentTrue = append(e.sentTrue, nil)
	}
	return tx.TxHash().String(), nil
}

func c03ValueBytes(v uint64) ([]byte, error) {
	b := make([]byte, 9)
	b[0] = 1
	for i := 0; i < 8; i++ {
		b[8-i] = byte(v >> (8 * uint(i)))
	}
	return b, nil
}

// ---------------------------------------------------------------- lightning / watcher

type c08Payreq struct {
	Msat     uint64 `json:"msat"`
	Preimage string `json:"preimage"`
	SwapID   string `json:"swap_id"`
	Memo     string `json:"memo"`
	Type     int    `json:"type"`
	Expiry   uint64 `json:"expiry"`
	Cltv     uint64 `json:"cltv"`
	N        int    `json:"n"`
}

type c08Ln struct {
	mu    sync.Mutex
	calls []c08Payreq
}

func (l *c08Ln) GetPayreq(msat uint64, preimage, swapId, memo string, t swap.InvoiceType, expirySeconds, expiryCltv uint64) (string, error) {
	l.mu.Lock()
	defer l.mu.Unlock()
	c := c08Payreq{msat, preimage, swapId, memo, int(t), expirySeconds, expiryCltv, len(l.calls)}
	l.calls = append(l.calls, c)
	b, _ := json.Marshal(c)
	return "lnsim:" + string(b), nil
}
func (l *c08Ln) DecodePayreq(payreq string) (string, uint64, int64, error) {
	var c c08Payreq
	if len(payreq) < 6 || json.Unmarshal([]byte(payreq[6:]), &c) != nil {
		return "", 0, 0, errors.New("undecodable")
	}
	_, h := "", ""
	_ = h
	return "", c.Msat, int64(c.Cltv), nil
}
func (l *c08Ln) PayInvoice(string) (string, error)                  { return "", errors.New("unused") }
func (l *c08Ln) PayInvoiceViaChannel(string, string) (string, error) { return "", errors.New("unused") }
func (l *c08Ln) AddPaymentCallback(func(string, swap.InvoiceType))   {}
func (l *c08Ln) AddPaymentNotifier(string, string, swap.InvoiceType) {}
func (l *c08Ln) RebalancePayment(string, string, uint32) (string, error) {
	return "", errors.New("unused")
}
func (l *c08Ln) RecoverClaimPayment(string) (string, error)           { return "", errors.New("unused") }
func (l *c08Ln) CanSpend(uint64) error                                { return nil }
func (l *c08Ln) Implementation() string                               { return "LND" }
func (l *c08Ln) SpendableMsat(string) (uint64, error)                 { return 1 << 60, nil }
func (l *c08Ln) ReceivableMsat(string) (uint64, error)                { return 1 << 60, nil }
func (l *c08Ln) ProbePayment(string, uint64) (bool, string, error)    { return true, "", nil }

type c08Watcher struct{ height uint32 }

func (w *c08Watcher) AddWaitForConfirmationTx(string, string, uint32, uint32, uint32, []byte) {}
func (w *c08Watcher) AddWaitForCsvTx(string, string, uint32, uint32, uint32, []byte)          {}
func (w *c08Watcher) AddConfirmationCallback(func(string, string, error) error)               {}
func (w *c08Watcher) AddCsvCallback(func(string) error)                                       {}
func (w *c08Watcher) GetBlockHeight() (uint32, error)                                         { return w.height, nil }
func (w *c08Watcher) StartWatchingTxs() error                                                 { return nil }
