package checks

import (
	"encoding/json"
	"fmt"
	"os"
	"os/exec"
	"strings"
	"testing"
	"time"

	"verif/mc"
	"verif/scn"
)

func advFamilies(tier string, c advCfg, flags scn.Flags, quick, thorough mc.Bounds, backends []bool) []Family {
	var out []Family
	for _, ch := range bothChain {
		for _, role := range takers {
			for _, lnd := range backends {
				st, ai := roleCfg(role)
				be := "cln"
				if lnd {
					be = "lnd"
				}
				f := Family{Name: fmt.Sprintf("%s/%s/%s/scripted-maker", role, ch, be),
					Cfg:    &scn.Cfg{Chain: ch, SwapType: st, AInitiates: ai, ALnd: lnd, ScriptedB: true, Flags: flags},
					Bounds: pick(tier, quick, thorough)}
				if ai {
					f.Initial = rpcInit
				}
				f.Cfg.ExtraEnabled = advEnabled(c)
				f.Cfg.ExtraApply = advApply
				f.Cfg.ExtraKey = advKey3
				out = append(out, f)
			}
		}
	}
	return out
}

func init() {
	register(&PropSpec{
		ID: "C01", Level: "model_checking",
		Rule: "explicit-state BFS of both taker roles against a scripted adversarial maker: every opening-transaction variant (amount +-1, keys swapped, other key, other hash, other CSV, decoy output first, duplicate outputs, wrong asset, unblindable, explicit) x every announcement variant (other / unknown txid, wrong / out-of-range vout, invoice amount +-, other hash, CLTV max+1 / negative, wrong / malformed blinding key) with at most two deviations, in every order with blocks (0..required+1 confirmations), re-announcements, time and restarts; at every claim-payment attempt the statement's predicate is evaluated on ground truth",
		Families: func(tier string) []Family {
			return advFamilies(tier, advCfg{txVariants: advTxVariants, annVariants: advAnnVariants},
				scn.Flags{Blocks: true, Time: true, Restart: true, MaxTime: 2, MaxBlocks: 3, NoCsvJump: true, NoWinJump: true},
				mc.Bounds{MaxDepth: 9, MaxDev: 2, Budget: 100 * time.Second, CrashAfterStore: true, NoCrashFirst: true},
				mc.Bounds{MaxDepth: 10, MaxDev: 3, Budget: 14 * time.Minute}, pickBackends(tier))
		},
		Oracles:      []scn.Oracle{oracleC01},
		Outcome:      advOutcome,
		NeedOutcomes: []string{"paid tx=ok ann=ok", "unpaid tx=amount-1", "unpaid tx=ok ann=inv_hash_other", "unpaid tx=other_hash"},
		Extra:        c01Extra,
		Assumptions:  []string{"Liquid in the explicit-state tier: transactions carry asset / blinding annotations and the validator is the harness's reference implementation; the real onchain.LiquidOnChain.ValidateTx is decided by the validator enumeration and the real chain watchers by the watcher sub-check, both part of this check (coverage.liquid_validator_enumeration, coverage.watcher_subcheck)"},
	})
}

func pickBackends(tier string) []bool {
	if tier == "thorough" {
		return bothBack
	}
	return []bool{false}
}

func TestC01(t *testing.T) { runProp(t, "C01") }

// c01Watchers decides the "has the required confirmations" clause on the REAL chain watchers: the
// taker pays when its watcher reports the opening transaction confirmed, and in the explicit-state
// tier above that watcher is the harness's idealised one.  The confirmation-registration families
// of the watcher exploration (C20) run here as a sub-check; a confirmation reported for a
// transaction that is absent, unconfirmed, too shallow or another transaction is a C01 violation.
func c01Watchers() ([]mc.Violation, map[string]any) {
	out := fmt.Sprintf("%s/c01w-%d.json", workDir, os.Getpid())
	cmd := exec.Command(os.Args[0], "-test.run", "^TestC20$", "-test.timeout", "0")
	cmd.Env = append(os.Environ(), "VERIF_C20_ONLY=/conf", "VERIF_C20_EXPORT="+out)
	ob, err := cmd.CombinedOutput()
	b, rerr := os.ReadFile(out)
	cov := map[string]any{}
	if rerr != nil {
		cov["internal"] = []string{fmt.Sprintf("c01 watcher sub-check failed: %v\n%s", err, tail(string(ob), 3000))}
		return nil, cov
	}
	_ = os.Remove(out)
	var rep struct {
		Violations []mc.Violation   `json:"violations"`
		States     int              `json:"states"`
		Executions int              `json:"executions"`
		Families   []map[string]any `json:"families"`
		Internal   []string         `json:"internal"`
		Exhaustive bool             `json:"exhaustive"`
	}
	_ = json.Unmarshal(b, &rep)
	var vs []mc.Violation
	for _, v := range rep.Violations {
		for _, clause := range []string{"confirmed_but_tx_", "confirmed_with_depth", "confirmed_with_wrong_rawtx", "confirmation_callback_without_registration"} {
			if strings.Contains(v.Key, clause) {
				vs = append(vs, mc.Violation{Property: "C01", Key: "confirmation_reported_falsely:" + v.Key, Detail: v.Detail, History: v.History, Scenario: "watcher:" + v.Scenario})
				break
			}
		}
	}
	if len(rep.Internal) > 0 {
		cov["internal"] = rep.Internal
	}
	var fams []string
	for _, f := range rep.Families {
		fams = append(fams, fmt.Sprintf("%v(states=%v,depth=%v)", f["family"], f["states"], f["completed_depth"]))
	}
	cov["watcher_subcheck"] = map[string]any{"rule": "confirmation-registration families of the real-watcher exploration (rpc btc/lbtc, electrum lbtc, lnd btc; incl. reorgs, stale answers, RPC faults, mid-call chain changes): a success callback must name a transaction that is in the best chain at the required depth", "states": rep.States, "executions": rep.Executions, "exhaustive": rep.Exhaustive, "families": fams}
	return vs, cov
}

// c01Extra: the two parts of C01 that the explicit-state tier takes from idealised components are
// decided on the real ones here: (1) the Liquid validator (real onchain.LiquidOnChain.ValidateTx on
// real confidential / explicit transactions: every invalid-opening variant x output layouts x
// amounts), (2) the chain watchers (see c01Watchers).
func c01Extra() ([]mc.Violation, map[string]any) {
	acc := newC03Acc()
	vstats := c03LqValidator(acc, "thorough")
	var vs []mc.Violation
	for _, v := range acc.viol {
		if v.Property == "C01" {
			vs = append(vs, v)
		}
	}
	wv, cov := c01Watchers()
	vs = append(vs, wv...)
	cov["liquid_validator_enumeration"] = vstats
	if len(acc.internal) > 0 {
		l, _ := cov["internal"].([]string)
		cov["internal"] = append(l, acc.internal...)
	}
	return vs, cov
}

// c07Watchers: C07 needs the chain watcher to REPORT CSV maturity (the explicit-state tier uses the
// idealised watcher).  The CSV-registration families of the real-watcher exploration run here with
// a fair continuation after every explored history (services healthy again, chain grows past
// maturity): a watcher that then stays silent leaves the maker's funds locked.  Families in which the
// transaction was confirmed BEFORE the registration's height hint are left out: a maker records its start
// height before it broadcasts, so its own opening transaction cannot confirm earlier (and lnd, by contract,
// does not find a transaction below the height hint).
func c07Watchers() ([]mc.Violation, map[string]any) {
	return csvLivenessSubcheck("C07", "refund_never_triggered:")
}

// c16Watchers: the same fair-continuation sub-check under C16 ("every swap terminates"): a maker whose
// watcher never reports CSV maturity never reaches a terminal state.
func c16Watchers() ([]mc.Violation, map[string]any) {
	return csvLivenessSubcheck("C16", "no_termination:watcher_never_reports_csv_maturity:")
}

func csvLivenessSubcheck(prop, prefix string) ([]mc.Violation, map[string]any) {
	// C07 promises the refund "whenever the CSV matures", restart or not; C16 only promises termination "when the node
	// is restarted from time to time": there a watcher that stays silent counts only if a restart does not cure it
	drain, want := "1", "csv_maturity_never_reported_after_services_recovered"
	if prop == "C16" {
		drain, want = "restart", "csv_maturity_never_reported_even_after_restart"
	}
	out := fmt.Sprintf("%s/%sw-%d.json", workDir, strings.ToLower(prop), os.Getpid())
	cmd := exec.Command(os.Args[0], "-test.run", "^TestC20$", "-test.timeout", "0")
	cmd.Env = append(os.Environ(), "VERIF_C20_ONLY=/csv", "VERIF_C20_SKIP=/early", "VERIF_C20_DRAIN="+drain, "VERIF_C20_EXPORT="+out)
	if prop == "C07" {
		// the swap may be unable to take the csv event once (its store write fails): the rpc watcher has to come again
		cmd.Env = append(cmd.Env, "VERIF_C20_CBFAIL=1")
	}
	ob, err := cmd.CombinedOutput()
	b, rerr := os.ReadFile(out)
	cov := map[string]any{}
	if rerr != nil {
		cov["internal"] = []string{fmt.Sprintf("%s watcher sub-check failed: %v\n%s", prop, err, tail(string(ob), 3000))}
		return nil, cov
	}
	_ = os.Remove(out)
	var rep struct {
		Violations []mc.Violation   `json:"violations"`
		States     int              `json:"states"`
		Executions int              `json:"executions"`
		Families   []map[string]any `json:"families"`
		Internal   []string         `json:"internal"`
		Exhaustive bool             `json:"exhaustive"`
	}
	_ = json.Unmarshal(b, &rep)
	var vs []mc.Violation
	for _, v := range rep.Violations {
		if strings.Contains(v.Key, want) {
			vs = append(vs, mc.Violation{Property: prop, Key: prefix + v.Key, Detail: v.Detail, History: v.History, Scenario: "watcher:" + v.Scenario})
		}
	}
	if len(rep.Internal) > 0 {
		cov["internal"] = rep.Internal
	}
	var fams []string
	for _, f := range rep.Families {
		fams = append(fams, fmt.Sprintf("%v(states=%v,depth=%v)", f["family"], f["states"], f["completed_depth"]))
	}
	cov["watcher_subcheck"] = map[string]any{"rule": "CSV-registration families of the real-watcher exploration (rpc btc, electrum lbtc, lnd btc; reorgs, stale answers, RPC faults, mid-call chain changes) + fair continuation after every history: services healthy, chain grows past maturity => maturity must be reported" + map[bool]string{true: " (C16: counted only if a restart of the daemon - new watcher object, watch registered again, 3 more blocks - does not bring the report either)", false: ""}[prop == "C16"], "states": rep.States, "executions": rep.Executions, "exhaustive": rep.Exhaustive, "families": fams}
	return vs, cov
}

// c05Watchers: the Bitcoin HTLC-expiry inequality also depends on WHEN the real watcher reports the
// opening transaction as confirmed: the taker starts paying on that report and may keep an HTLC
// open for up to CSV/2 blocks afterwards, so a report for a transaction that is already CSV/2 (the
// window) deep breaks h_pay + allowance < confirmation + CSV.  The confirmation-registration
// families of the real-watcher exploration on Bitcoin run here as a sub-check.
func c05Watchers() ([]mc.Violation, map[string]any) {
	out := fmt.Sprintf("%s/c05w-%d.json", workDir, os.Getpid())
	cmd := exec.Command(os.Args[0], "-test.run", "^TestC20$", "-test.timeout", "0")
	cmd.Env = append(os.Environ(), "VERIF_C20_ONLY=-btc/conf", "VERIF_C20_C05=1", "VERIF_C20_HEIGHT=1", "VERIF_C20_EXPORT="+out)
	ob, err := cmd.CombinedOutput()
	b, rerr := os.ReadFile(out)
	cov := map[string]any{}
	if rerr != nil {
		cov["internal"] = []string{fmt.Sprintf("c05 watcher sub-check failed: %v\n%s", err, tail(string(ob), 3000))}
		return nil, cov
	}
	_ = os.Remove(out)
	var rep struct {
		Violations []mc.Violation   `json:"violations"`
		States     int              `json:"states"`
		Executions int              `json:"executions"`
		Families   []map[string]any `json:"families"`
		Internal   []string         `json:"internal"`
		Exhaustive bool             `json:"exhaustive"`
	}
	_ = json.Unmarshal(b, &rep)
	var vs []mc.Violation
	for _, v := range rep.Violations {
		if i := strings.Index(v.Key, ":height_answer_stale_during_outage"); i > 0 {
			vs = append(vs, mc.Violation{Property: "C05", Key: "htlc_may_outlive_csv:watcher=" + v.Key[:i] + ":cause=stale_height_answered_while_backend_is_down", Detail: v.Detail, History: v.History, Scenario: "watcher:" + v.Scenario})
		}
		if i := strings.Index(v.Key, ":confirmed_reported_at_depth_ge_window"); i > 0 {
			vs = append(vs, mc.Violation{Property: "C05", Key: "htlc_may_outlive_csv:watcher=" + v.Key[:i] + ":cause=confirmation_reported_for_tx_already_a_window_deep", Detail: v.Detail, History: v.History, Scenario: "watcher:" + v.Scenario})
		}
	}
	if len(rep.Internal) > 0 {
		cov["internal"] = rep.Internal
	}
	var fams []string
	for _, f := range rep.Families {
		fams = append(fams, fmt.Sprintf("%v(states=%v,depth=%v)", f["family"], f["states"], f["completed_depth"]))
	}
	cov["watcher_subcheck"] = map[string]any{"rule": "confirmation-registration families of the real-watcher exploration on Bitcoin (rpc, lnd; tx confirmed before / after the start height; reorgs, faults, mid-call changes): a success report for a transaction that is already window (= CSV/2) blocks deep", "states": rep.States, "executions": rep.Executions, "exhaustive": rep.Exhaustive, "families": fams}
	return vs, cov
}

// c04Watchers: the Liquid window test reads the tip through the watcher's GetBlockHeight; the real rpc watcher is
// explored over its block histories and, at the end of each, asked for the height while its backend is down.
func c04Watchers() ([]mc.Violation, map[string]any) {
	out := fmt.Sprintf("%s/c04w-%d.json", workDir, os.Getpid())
	cmd := exec.Command(os.Args[0], "-test.run", "^TestC20$", "-test.timeout", "0")
	cmd.Env = append(os.Environ(), "VERIF_C20_ONLY=rpc-lbtc/conf", "VERIF_C20_HEIGHT=1", "VERIF_C20_EXPORT="+out)
	ob, err := cmd.CombinedOutput()
	b, rerr := os.ReadFile(out)
	cov := map[string]any{}
	if rerr != nil {
		cov["internal"] = []string{fmt.Sprintf("c04 watcher sub-check failed: %v\n%s", err, tail(string(ob), 3000))}
		return nil, cov
	}
	_ = os.Remove(out)
	var rep struct {
		Violations []mc.Violation `json:"violations"`
		States     int            `json:"states"`
		Executions int            `json:"executions"`
		Internal   []string       `json:"internal"`
		Exhaustive bool           `json:"exhaustive"`
	}
	_ = json.Unmarshal(b, &rep)
	var vs []mc.Violation
	for _, v := range rep.Violations {
		if i := strings.Index(v.Key, ":height_answer_stale_during_outage"); i > 0 {
			vs = append(vs, mc.Violation{Property: "C04", Key: "payment_window_judged_on_stale_tip:watcher=" + v.Key[:i] + v.Key[i+len(":height_answer_stale_during_outage"):], Detail: v.Detail, History: v.History, Scenario: "watcher:" + v.Scenario})
		}
	}
	if len(rep.Internal) > 0 {
		cov["internal"] = rep.Internal
	}
	cov["watcher_subcheck"] = map[string]any{"rule": "block histories of the real rpc watcher on Liquid; at the end of each the backend stops answering getblockcount while the chain grows: GetBlockHeight must answer with an error or the true tip", "states": rep.States, "executions": rep.Executions, "exhaustive": rep.Exhaustive}
	return vs, cov
}

func c04Extra() ([]mc.Violation, map[string]any) {
	v1, c1 := c04Builders()
	v2, c2 := c04Watchers()
	for k, v := range c2 {
		if k == "internal" {
			if l, ok := c1["internal"].([]string); ok {
				c1["internal"] = append(l, v.([]string)...)
				continue
			}
		}
		c1[k] = v
	}
	return append(v1, v2...), c1
}

// "C12recovery" is not a property: it is the exploration that C12 runs as a sub-check (see c12Recovery).  The taker
// roles against the scripted maker with claim invoices of the right and of a wrong amount, restarts and crash points
// after durable writes; oracle = C01's predicate (of which only the invoice-amount clause is handed to C12).
func init() {
	register(&PropSpec{
		ID: "C12recovery", Level: "model_checking",
		Rule: "sub-check of C12",
		Families: func(tier string) []Family {
			return advFamilies(tier, advCfg{txVariants: []string{"ok"}, annVariants: []string{"ok", "inv_amount+1msat", "inv_amount-1sat"}},
				scn.Flags{Blocks: true, Time: true, Restart: true, MaxTime: 2, MaxBlocks: 3, NoCsvJump: true, NoWinJump: true},
				mc.Bounds{MaxDepth: 8, MaxDev: 3, Budget: 40 * time.Second, CrashAfterStore: true, NoCrashFirst: true},
				mc.Bounds{MaxDepth: 10, MaxDev: 3, Budget: 6 * time.Minute}, []bool{false})
		},
		Oracles: []scn.Oracle{oracleC01},
		Outcome: advOutcome,
	})
}

func TestC12recovery(t *testing.T) {
	if os.Getenv("VERIF_PROP_EXPORT") == "" {
		t.Skip("sub-check entry point")
	}
	runProp(t, "C12recovery")
}

// c12Recovery: "a swap initiator never pays more than agreed" also after a crash: the taker that refused a claim
// invoice of a wrong amount, stopped and came back must refuse it again.
func c12Recovery() ([]mc.Violation, map[string]any) {
	out := fmt.Sprintf("%s/c12rec-%d.json", workDir, os.Getpid())
	cmd := exec.Command(os.Args[0], "-test.run", "^TestC12recovery$", "-test.timeout", "0")
	cmd.Env = append(os.Environ(), "VERIF_PROP_EXPORT="+out)
	ob, err := cmd.CombinedOutput()
	b, rerr := os.ReadFile(out)
	cov := map[string]any{}
	if rerr != nil {
		cov["internal"] = []string{fmt.Sprintf("c12 recovery sub-check failed: %v\n%s", err, tail(string(ob), 3000))}
		return nil, cov
	}
	_ = os.Remove(out)
	var rep struct {
		Violations []mc.Violation `json:"violations"`
		States     int            `json:"states"`
		Executions int            `json:"executions"`
		Internal   []string       `json:"internal"`
	}
	_ = json.Unmarshal(b, &rep)
	var vs []mc.Violation
	seen := map[string]bool{}
	for _, v := range rep.Violations {
		if i := strings.Index(v.Key, ":invoice_amount:"); i > 0 {
			k := "claim_paid_is_not_amount_plus_premium:taker_with_restarts:" + v.Key[i+len(":invoice_amount:"):]
			if !seen[k] {
				seen[k] = true
				vs = append(vs, mc.Violation{Property: "C12", Key: k, Detail: v.Detail, History: v.History, Scenario: v.Scenario, Events: v.Events})
			}
		}
	}
	if len(rep.Internal) > 0 {
		cov["internal"] = rep.Internal
	}
	cov["recovery_subcheck"] = map[string]any{"rule": "explicit-state BFS of both taker roles against the scripted maker with claim invoices of the agreed amount, +1 msat and -1 sat; blocks, time, restarts and a crash right after every durable write; at every claim payment attempt the invoice amount must be (amount + premium) * 1000 msat", "states": rep.States, "executions": rep.Executions}
	return vs, cov
}
