package checks

import (
	"fmt"
	"testing"
	"time"

	"verif/mc"
	"verif/scn"
)

func advFamilies(tier string, c advCfg, flags scn.Flags, quick, thorough mc.Bounds, backends []bool) []Family {
	var out []Family
	for _, ch := range bothChain {
		for _, role := range takers {
			for _, lnd := range backends {
				st, ai := roleCfg(role)
				be := "cln"
				if lnd {
					be = "lnd"
				}
				f := Family{Name: fmt.Sprintf("%s/%s/%s/scripted-maker", role, ch, be),
					Cfg:    &scn.Cfg{Chain: ch, SwapType: st, AInitiates: ai, ALnd: lnd, ScriptedB: true, Flags: flags},
					Bounds: pick(tier, quick, thorough)}
				if ai {
					f.Initial = rpcInit
				}
				f.Cfg.ExtraEnabled = advEnabled(c)
				f.Cfg.ExtraApply = advApply
				f.Cfg.ExtraKey = advKey3
				out = append(out, f)
			}
		}
	}
	return out
}

func init() {
	register(&PropSpec{
		ID: "C01", Level: "model_checking",
		Rule: "explicit-state BFS of both taker roles against a scripted adversarial maker: every opening-transaction variant (amount +-1, keys swapped, other key, other hash, other CSV, decoy output first, duplicate outputs, wrong asset, unblindable, explicit) x every announcement variant (other / unknown txid, wrong / out-of-range vout, invoice amount +-, other hash, CLTV max+1 / negative, wrong / malformed blinding key) with at most two deviations, in every order with blocks (0..required+1 confirmations), re-announcements, time and restarts; at every claim-payment attempt the statement's predicate is evaluated on ground truth",
		Families: func(tier string) []Family {
			return advFamilies(tier, advCfg{txVariants: advTxVariants, annVariants: advAnnVariants},
				scn.Flags{Blocks: true, Time: true, Restart: true, MaxTime: 2, MaxBlocks: 3, NoCsvJump: true, NoWinJump: true},
				mc.Bounds{MaxDepth: 8, MaxDev: 2, Budget: 100 * time.Second, NoCrash: true},
				mc.Bounds{MaxDepth: 10, MaxDev: 3, Budget: 14 * time.Minute}, pickBackends(tier))
		},
		Oracles:      []scn.Oracle{oracleC01},
		Outcome:      advOutcome,
		NeedOutcomes: []string{"paid tx=ok ann=ok", "unpaid tx=amount-1", "unpaid tx=ok ann=inv_hash_other", "unpaid tx=other_hash"},
		Assumptions:  []string{"Liquid in this tier: transactions carry asset / blinding annotations and the validator is the harness's reference implementation; onchain.LiquidOnChain's validator on real confidential transactions is checked separately (validator enumeration)"},
	})
}

func pickBackends(tier string) []bool {
	if tier == "thorough" {
		return bothBack
	}
	return []bool{false}
}

func TestC01(t *testing.T) { runProp(t, "C01") }
