package checks

import (
	"encoding/json"
	"fmt"
	"strings"
	"testing"
	"time"

	"github.com/elementsproject/peerswap/swap"
	"verif/mc"
	"verif/node"
	"verif/scn"
	"verif/world"
)

// C09: a swap is affected only by its own counterparty, only under its own
// id, only in an accepting state; ids cannot be reused.

var c09Types = []struct {
	t     int
	name  string
	event swap.EventType
}{
	{mtSwapInReq, "swap_in_request", swap.Event_SwapInReceiver_OnRequestReceived},
	{mtSwapOutReq, "swap_out_request", swap.Event_OnSwapOutRequestReceived},
	{mtSwapInAgree, "swap_in_agreement", swap.Event_SwapInSender_OnAgreementReceived},
	{mtSwapOutAgree, "swap_out_agreement", swap.Event_OnFeeInvoiceReceived},
	{mtOpening, "opening_tx_broadcasted", swap.Event_OnTxOpenedMessage},
	{mtCancel, "cancel", swap.Event_OnCancelReceived},
	{mtCoopClose, "coop_close", swap.Event_OnCoopCloseReceived},
}

const (
	c09FreshID = "f0f0f0f0f0f0f0f0f0f0f0f0f0f0f0f0f0f0f0f0f0f0f0f0f0f0f0f0f0f0f0f0"
	c09Pub     = "02deadbeefdeadbeefdeadbeefdeadbeefdeadbeefdeadbeefdeadbeefdeadbeef"
)

func c09Payload(x *scn.Exec, t int, id string) []byte {
	m := map[string]any{"swap_id": id}
	netAsset := func() {
		if x.Cfg.Chain == "btc" {
			m["network"], m["asset"] = "regtest", ""
		} else {
			m["network"], m["asset"] = "", node.AssetField
		}
	}
	inv := world.EncodeInvoice(world.Invoice{Hash: strings.Repeat("ab", 32), Msat: 300000, CLTV: 10, Dest: scn.IDB})
	switch t {
	case mtSwapInReq, mtSwapOutReq:
		netAsset()
		m["protocol_version"], m["scid"], m["amount"], m["pubkey"], m["acceptable_premium"] = 7, scn.Scid2, scn.Amount, c09Pub, 100000
	case mtSwapInAgree:
		m["protocol_version"], m["pubkey"], m["premium"] = 7, c09Pub, 0
	case mtSwapOutAgree:
		m["protocol_version"], m["pubkey"], m["premium"], m["Payreq"] = 7, c09Pub, 0, inv
	case mtOpening:
		m["payreq"], m["tx_id"], m["script_out"], m["blinding_key"] = inv, strings.Repeat("cd", 32), 0, strings.Repeat("ef", 32)
	case mtCancel:
		m["message"] = "adversarial"
	case mtCoopClose:
		m["message"], m["privkey"] = "adversarial", strings.Repeat("11", 32)
	}
	b, _ := json.Marshal(m)
	return b
}

type c09Snap struct {
	raw    map[string]string
	active map[string]string // id -> Current + "|" + json(Data)
}

func c09Snapshot(x *scn.Exec) c09Snap {
	s := c09Snap{raw: x.A.D.Store.Raw(), active: map[string]string{}}
	for id := range s.raw {
		if a := x.A.Active(id); a != nil {
			b, _ := json.Marshal(a.Data)
			s.active[id] = string(a.Current) + "|" + string(b)
		}
	}
	return s
}

func c09Enabled(x *scn.Exec) []mc.Event {
	if x.A.Life.Dead() {
		return nil
	}
	var out []mc.Event
	n, _ := x.Ctx["c09n"].(int)
	if n < 2 {
		for _, ty := range c09Types {
			for _, sender := range []string{"B", "C"} {
				for _, idk := range []string{"target", "fresh", "target-malformed"} {
					if idk == "target-malformed" && (x.SwapOf(x.A) == nil || ty.t == mtCancel || ty.t == mtSwapInReq || ty.t == mtSwapOutReq) {
						continue // cancel has nothing to validate; malformed requests with a known id are refused anyway
					}
					if idk == "target" && x.SwapOf(x.A) == nil {
						continue
					}
					if idk == "fresh" && sender == "C" && ty.t != mtSwapInReq && ty.t != mtSwapOutReq {
						continue // unknown id from a stranger: trivially ignored; keep the menu small
					}
					out = append(out, mc.Event{Name: "adv", Arg: fmt.Sprintf("%s|%s|%s", ty.name, sender, idk), Dev: 1})
				}
			}
		}
	}
	if up, _ := x.Ctx["c09unrecovered"].(bool); up {
		out = append(out, mc.Event{Name: "recover"})
	} else if x.SwapOf(x.A) != nil {
		out = append(out, mc.Event{Name: "restart_norecover", Dev: 1})
	}
	return out
}

func c09Apply(x *scn.Exec, e mc.Event) bool {
	switch e.Name {
	case "recover":
		x.Ctx["c09unrecovered"] = false
		x.A.Recover()
		return true
	case "restart_norecover":
		x.A.Kill()
		node.Settle()
		x.Ctx["c09unrecovered"] = true
		x.RebootA(false)
		return true
	case "adv":
	default:
		return false
	}
	n, _ := x.Ctx["c09n"].(int)
	x.Ctx["c09n"] = n + 1
	parts := strings.Split(e.Arg, "|")
	var ty = c09Types[0]
	for _, c := range c09Types {
		if c.name == parts[0] {
			ty = c
		}
	}
	sender := scn.IDB
	if parts[1] == "C" {
		sender = scn.IDC
	}
	id := c09FreshID
	malformed := parts[2] == "target-malformed"
	if parts[2] == "target" || malformed {
		id = x.SwapOf(x.A).SwapId.String()
	}
	// separate the timers of swaps created by different events (same-instant
	// timers of two swaps fire in an order the Go runtime chooses)
	time.Sleep(time.Second)
	before := c09Snapshot(x)
	nLog := len(x.W.Log)
	// admissibility, from the statement: the message names swap S by its id;
	// it may change S only if S is active, the sender is S's counterparty and
	// S's state accepts the event; a request never may (ids cannot be reused).
	admissible := false
	known := ""
	var subject *swap.SwapStateMachine
	for _, sm := range x.A.Swaps() {
		if sm.SwapId.String() == id {
			subject = sm
		}
	}
	isRequest := ty.t == mtSwapInReq || ty.t == mtSwapOutReq
	if subject != nil {
		switch {
		case x.A.Active(id) != nil:
			known = "active"
		case subject.IsFinished():
			known = "finished"
		default:
			known = "unrecovered"
		}
		if !isRequest && sender == subject.Data.PeerNodeId {
			if a := x.A.Active(id); a != nil && a.EventIsValid(ty.event) {
				admissible = true
			}
		}
	}
	payload := c09Payload(x, ty.t, id)
	if malformed {
		// a well-formed envelope whose content fails the message's own validation
		var m map[string]any
		_ = json.Unmarshal(payload, &m)
		for _, k := range []string{"pubkey", "privkey", "tx_id"} {
			if _, ok := m[k]; ok {
				m[k] = "00"
			}
		}
		payload, _ = json.Marshal(m)
	}
	_, pan := x.A.DeliverRaw(sender, fmt.Sprintf("%x", ty.t), payload)
	node.Settle()
	var vs []mc.Violation
	if pan != nil {
		vs = append(vs, mc.Violation{Property: "C09", Key: "panic:type=" + ty.name, Detail: fmt.Sprint(pan)})
	}
	after := c09Snapshot(x)
	changed := ""
	for k, v := range before.raw {
		if admissible && k == id {
			continue // the subject swap may change
		}
		if after.raw[k] != v {
			changed = "record"
		}
	}
	for k, v := range before.active {
		if admissible && k == id {
			continue
		}
		if a, ok := after.active[k]; !ok {
			if changed == "" {
				changed = "deactivated"
			}
		} else if a != v && changed == "" {
			changed = "memory"
		}
	}
	state := "none"
	if subject != nil {
		state = stateSuffix(string(subject.Current))
	}
	if changed != "" {
		why := "state_rejects"
		switch {
		case admissible:
			why = "other_swap_touched"
		case subject == nil:
			why = "unknown_id"
		case isRequest:
			why = "id_reuse:" + known
		case sender != subject.Data.PeerNodeId:
			why = "not_the_counterparty"
		}
		vs = append(vs, mc.Violation{Property: "C09", Key: fmt.Sprintf("swap_%s_changed_by_inadmissible_message:type=%s:%s", changed, ty.name, why),
			Detail: fmt.Sprintf("role=%s state=%s sender=%s id=%s: the %s of an existing swap changed although the message is not admissible for it", x.Cfg.ARole(), state, parts[1], parts[2], changed)})
	}
	// nothing but a cancel to the sender may be emitted for a known swap
	if !admissible && subject != nil {
		for _, o := range x.W.Log[nLog:] {
			if o.Node == scn.IDA && o.Kind == "send" && !(o.MsgType == mtCancel && o.Peer == sender) {
				vs = append(vs, mc.Violation{Property: "C09", Key: fmt.Sprintf("message_sent_on_inadmissible_message:type=%s:sent=%d", ty.name, o.MsgType),
					Detail: fmt.Sprintf("role=%s state=%s sender=%s: node sent type %d to %s", x.Cfg.ARole(), state, parts[1], o.MsgType, o.Peer[:4])})
			}
		}
	}
	prev, _ := x.Ctx["c09v"].([]mc.Violation)
	x.Ctx["c09v"] = append(prev, vs...)
	return true
}

func oracleC09(x *scn.Exec) []mc.Violation {
	v, _ := x.Ctx["c09v"].([]mc.Violation)
	return v
}

func init() {
	register(&PropSpec{
		ID: "C09", Level: "model_checking",
		Rule: "explicit-state BFS: the target swap is brought into every reachable state of every role by honest events (deliveries, blocks, time, restart with and without recovery); in each state every message type x sender {counterparty, third party} x id {the swap's, fresh} is delivered and the persisted bytes, the in-memory data and the active map are compared before/after against the admissibility predicate of the statement",
		Families: func(tier string) []Family {
			return mkFamilies(famOpt{chains: []string{"btc", "lbtc"}, roles: allRoles, backends: []bool{false},
				flags:  scn.Flags{Blocks: true, Time: true, MaxTime: 2, MaxBlocks: 2, NoWinJump: true, NoCsvJump: true},
				bounds: pick(tier, mc.Bounds{MaxDepth: 7, MaxDev: 2, Budget: 100 * time.Second, NoCrash: true}, mc.Bounds{MaxDepth: 9, MaxDev: 3, Budget: 12 * time.Minute, NoCrash: true}),
				tweak: func(f *Family) {
					f.Cfg.ExtraEnabled, f.Cfg.ExtraApply = c09Enabled, c09Apply
					f.Cfg.ExtraKey = func(x *scn.Exec) string {
						n, _ := x.Ctx["c09n"].(int)
						u, _ := x.Ctx["c09unrecovered"].(bool)
						return fmt.Sprintf("|adv=%d unrec=%v", n, u)
					}
				}})
		},
		Oracles:      []scn.Oracle{oracleC09},
		NeedOutcomes: []string{"State_ClaimedPreimage"},
	})
}

func TestC09(t *testing.T) { runProp(t, "C09") }
