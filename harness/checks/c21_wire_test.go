package checks

// C21 — wire messages follow the protocol numbering and encoding.
//
// (a) sending side, E2: every message struct of swap/messages.go with every
//     field over its boundary alphabet (one and two fields at a time) through
//     the real swap.MarshalPeerswapMessage / messages.MessageTypeToHexString /
//     messages.PeerswapCustomMessageType, against the protocol's type table and
//     "decode(encode(m)) == m".
// (b) receiving side, E1-style: a real swap.SwapService (node A of the scenario
//     engine) in every state of the honest run of each role; one raw delivery
//     from the counterparty per execution over type strings × payloads; oracle
//     from the statement: not-a-peerswap-type / malformed / over 100 KiB ⇒ no
//     swap changes and the handler does not panic.

import (
	"bytes"
	"encoding/json"
	"fmt"
	"math"
	"reflect"
	"sort"
	"strconv"
	"strings"
	"testing"
	"testing/synctest"
	"time"
	"unicode/utf8"

	"github.com/elementsproject/peerswap/messages"
	"github.com/elementsproject/peerswap/swap"

	"verif/mc"
	"verif/node"
	"verif/scn"
)

// The protocol's type table, written from the specification (docs/peer-protocol), not from the code.
var c21Table = []struct {
	name string
	num  int
}{
	{"swap_in_request", 42069}, {"swap_out_request", 42071}, {"swap_in_agreement", 42073}, {"swap_out_agreement", 42075},
	{"opening_tx_broadcasted", 42077}, {"cancel", 42079}, {"coop_close", 42081}, {"poll", 42083}, {"request_poll", 42085},
}

func c21NameOf(num int64) string {
	for _, e := range c21Table {
		if int64(e.num) == num {
			return e.name
		}
	}
	return ""
}

const (
	c21Pubkey = "0279be667ef9dcbbac55a06295ce870b07029bfcdb2dce28d959f2815b16f81798"
	c21Limit  = 100 * 1024
)

func c21ID(b byte) *swap.SwapId {
	var id swap.SwapId
	for i := range id {
		id[i] = b
	}
	return &id
}

type c21Acc struct {
	rep *EnumReport
}

func (a *c21Acc) viol(key, detail string) {
	a.rep.Violations = append(a.rep.Violations, mc.Violation{Property: "C21", Key: key, Detail: detail})
	a.rep.Outcomes["VIOLATION "+key]++
}
func (a *c21Acc) hit(c string) { a.rep.Outcomes[c]++ }

// ---------------------------------------------------------------- (a) sending side

type c21Struct struct {
	wire string
	mk   func() any // pointer to a typical value
}

func c21Structs() []c21Struct {
	id := c21ID(0x11)
	return []c21Struct{
		{"swap_in_request", func() any {
			return &swap.SwapInRequestMessage{ProtocolVersion: 7, SwapId: id, Network: "regtest", Scid: "100x1x0", Amount: 1_000_000, Pubkey: c21Pubkey, PremiumLimit: 1000}
		}},
		{"swap_in_agreement", func() any {
			return &swap.SwapInAgreementMessage{ProtocolVersion: 7, SwapId: id, Pubkey: c21Pubkey, Premium: 1000}
		}},
		{"swap_out_request", func() any {
			return &swap.SwapOutRequestMessage{ProtocolVersion: 7, SwapId: id, Asset: node.AssetField, Scid: "100:1:0", Amount: 1_000_000, Pubkey: c21Pubkey, PremiumLimit: 1000}
		}},
		{"swap_out_agreement", func() any {
			return &swap.SwapOutAgreementMessage{ProtocolVersion: 7, SwapId: id, Pubkey: c21Pubkey, Payreq: "lnbcrt1feeinvoice", Premium: 1000}
		}},
		{"opening_tx_broadcasted", func() any {
			return &swap.OpeningTxBroadcastedMessage{SwapId: id, Payreq: "lnbcrt1claiminvoice", TxId: strings.Repeat("ab", 32), ScriptOut: 1, BlindingKey: strings.Repeat("cd", 32)}
		}},
		{"cancel", func() any { return &swap.CancelMessage{SwapId: id, Message: "no thanks"} }},
		{"coop_close", func() any {
			return &swap.CoopCloseMessage{SwapId: id, Message: "window closed", Privkey: strings.Repeat("ef", 32)}
		}},
	}
}

var (
	c21Long    = strings.Repeat("peerswap-", 10*1024/9+1)[:10*1024]
	c21Strings = []string{"", "typical", c21Long, "⚡スワップ ü\u2028\u2029\U0001F600", "\x00\x01\b\f\n\r\t\x1f\x7f", "\"'\\</script>&<>`"}
)

// c21Alphabet returns the boundary values of one field; index 0.. in the order
// zero, typical/extremes, strings…; `cur` is the typical value of the base.
func c21Alphabet(f reflect.StructField, cur reflect.Value) []reflect.Value {
	var out []reflect.Value
	add := func(v any) { out = append(out, reflect.ValueOf(v).Convert(f.Type)) }
	switch f.Type.Kind() {
	case reflect.Uint8:
		for _, v := range []uint8{0, 7, 255} {
			add(v)
		}
	case reflect.Uint32:
		for _, v := range []uint32{0, 1, math.MaxUint32} {
			add(v)
		}
	case reflect.Uint64:
		for _, v := range []uint64{0, 1_000_000, 1 << 53, math.MaxUint64} {
			add(v)
		}
	case reflect.Int64:
		for _, v := range []int64{0, 1000, -1, math.MinInt64, math.MaxInt64} {
			add(v)
		}
	case reflect.String:
		for _, s := range c21Strings {
			if s == "typical" {
				out = append(out, cur)
			} else {
				add(s)
			}
		}
	case reflect.Pointer: // *SwapId
		out = append(out, reflect.Zero(f.Type), reflect.ValueOf(c21ID(0)), reflect.ValueOf(c21ID(0x11)), reflect.ValueOf(c21ID(0xff)))
	default:
		panic("c21: unexpected field kind " + f.Type.String())
	}
	return out
}

func c21Describe(v reflect.Value) string {
	s := fmt.Sprintf("%+v", v.Interface())
	if v.Kind() == reflect.Pointer && !v.IsNil() {
		s = fmt.Sprintf("%x", v.Elem().Interface())
	}
	if len(s) > 48 {
		s = fmt.Sprintf("%q…(len %d)", s[:24], len(s))
	}
	return s
}

// c21EvalSend runs one message value through the real encoder and judges it.
func c21EvalSend(a *c21Acc, st c21Struct, want int, ptr any, what string) {
	a.rep.Transitions++
	msg := ptr.(swap.PeerMessage)
	raw, typ, err := swap.MarshalPeerswapMessage(msg)
	desc := func() string {
		r := string(raw)
		if len(r) > 300 {
			r = r[:300] + "…"
		}
		return fmt.Sprintf("%s with %s -> type=%d err=%v payload=%s", st.wire, what, typ, err, r)
	}
	if err != nil {
		a.viol("send:marshal_error:msg="+st.wire, desc())
		return
	}
	if typ != want {
		a.viol(fmt.Sprintf("send:type_number:msg=%s:got=%d:want=%d", st.wire, typ, want), desc())
		return
	}
	if typ%2 == 0 || typ < 42069 || typ > 42085 {
		a.viol("send:type_number_not_odd_in_range:msg="+st.wire, desc())
		return
	}
	hx := messages.MessageTypeToHexString(messages.MessageType(typ))
	back, err := messages.PeerswapCustomMessageType(hx)
	if hx != strconv.FormatInt(int64(want), 16) || err != nil || int(back) != want {
		a.viol("send:type_hex_roundtrip:msg="+st.wire, fmt.Sprintf("%s hex=%q back=%d err=%v", desc(), hx, back, err))
		return
	}
	if !json.Valid(raw) || !utf8.Valid(raw) {
		a.viol("send:payload_not_json:msg="+st.wire, desc())
		return
	}
	out := reflect.New(reflect.TypeOf(ptr).Elem())
	if err := json.Unmarshal(raw, out.Interface()); err != nil {
		a.viol("send:payload_does_not_decode:msg="+st.wire, desc()+" decode err="+err.Error())
		return
	}
	if !reflect.DeepEqual(out.Elem().Interface(), reflect.ValueOf(ptr).Elem().Interface()) {
		in, got := reflect.ValueOf(ptr).Elem(), out.Elem()
		field := "?"
		for i := 0; i < in.NumField(); i++ {
			if !reflect.DeepEqual(in.Field(i).Interface(), got.Field(i).Interface()) {
				field = in.Type().Field(i).Name
				break
			}
		}
		a.viol(fmt.Sprintf("send:decode_differs:msg=%s:field=%s", st.wire, field), desc())
		return
	}
	a.hit("send:ok:" + st.wire)
}

func c21Send(a *c21Acc) {
	lossy := map[string]int{}
	untagged := []string{}
	fieldsTotal := 0
	for _, st := range c21Structs() {
		want := 0
		for _, e := range c21Table {
			if e.name == st.wire {
				want = e.num
			}
		}
		base := st.mk()
		bt := reflect.TypeOf(base).Elem()
		bv := reflect.ValueOf(base).Elem()
		alph := make([][]reflect.Value, bt.NumField())
		for i := 0; i < bt.NumField(); i++ {
			alph[i] = c21Alphabet(bt.Field(i), bv.Field(i))
			fieldsTotal++
			if tag := bt.Field(i).Tag.Get("json"); tag == "" {
				untagged = append(untagged, bt.Name()+"."+bt.Field(i).Name)
			}
		}
		// the typical value, by pointer (as the code sends) and by value
		c21EvalSend(a, st, want, base, "all fields typical")
		{
			a.rep.Transitions++
			_, typ, err := swap.MarshalPeerswapMessage(bv.Interface().(swap.PeerMessage))
			if err != nil || typ != want {
				a.viol("send:type_number:by_value:msg="+st.wire, fmt.Sprintf("type=%d err=%v", typ, err))
			}
		}
		// one field at a time
		for i := range alph {
			for _, v := range alph[i] {
				p := st.mk()
				reflect.ValueOf(p).Elem().Field(i).Set(v)
				what := fmt.Sprintf("%s=%s", bt.Field(i).Name, c21Describe(v))
				if a.rep.Transitions%211 == 0 && len(a.rep.Samples) < 8 {
					raw, typ, _ := swap.MarshalPeerswapMessage(p.(swap.PeerMessage))
					a.rep.Samples = append(a.rep.Samples, fmt.Sprintf("send %s %s -> type %d payload %.160s", st.wire, what, typ, raw))
				}
				c21EvalSend(a, st, want, p, what)
			}
		}
		// two fields at a time
		for i := range alph {
			for j := i + 1; j < len(alph); j++ {
				for _, vi := range alph[i] {
					for _, vj := range alph[j] {
						p := st.mk()
						reflect.ValueOf(p).Elem().Field(i).Set(vi)
						reflect.ValueOf(p).Elem().Field(j).Set(vj)
						c21EvalSend(a, st, want, p, fmt.Sprintf("%s=%s, %s=%s", bt.Field(i).Name, c21Describe(vi), bt.Field(j).Name, c21Describe(vj)))
					}
				}
			}
		}
		// information only: strings that JSON cannot carry (invalid UTF-8) are replaced by U+FFFD
		for i := 0; i < bt.NumField(); i++ {
			if bt.Field(i).Type.Kind() != reflect.String {
				continue
			}
			p := st.mk()
			reflect.ValueOf(p).Elem().Field(i).SetString("bad\xff\xfeutf8")
			raw, _, err := swap.MarshalPeerswapMessage(p.(swap.PeerMessage))
			out := reflect.New(bt)
			if err == nil && json.Unmarshal(raw, out.Interface()) == nil && !reflect.DeepEqual(out.Elem().Interface(), reflect.ValueOf(p).Elem().Interface()) {
				lossy[st.wire+"."+bt.Field(i).Name]++
			}
		}
	}
	// the type table itself: every number around the range
	for n := int64(41990); n <= 42160; n++ {
		a.rep.Transitions++
		hx := strconv.FormatInt(n, 16)
		got, err := messages.PeerswapCustomMessageType(hx)
		inTable := c21NameOf(n) != ""
		switch {
		case inTable && (err != nil || int64(got) != n):
			a.viol(fmt.Sprintf("type_table:rejects_protocol_number=%d", n), fmt.Sprintf("PeerswapCustomMessageType(%q) = %d, %v", hx, got, err))
		case !inTable && err == nil:
			a.viol(fmt.Sprintf("type_table:accepts_non_protocol_number=%d", n), fmt.Sprintf("PeerswapCustomMessageType(%q) = %d", hx, got))
		case inTable:
			a.hit("type_table:accepted_protocol_number")
		default:
			a.hit("type_table:rejected_other_number")
		}
	}
	if messages.MESSAGETYPE_POLL != 42083 || messages.MESSAGETYPE_REQUEST_POLL != 42085 || messages.BASE_MESSAGE_TYPE != 42069 {
		a.viol("type_table:poll_constants", fmt.Sprintf("poll=%d request_poll=%d base=%d", messages.MESSAGETYPE_POLL, messages.MESSAGETYPE_REQUEST_POLL, messages.BASE_MESSAGE_TYPE))
	}
	a.rep.Extra["send_not_judged_invalid_utf8_replaced_by_U+FFFD_fields"] = len(lossy)
	a.rep.Extra["send_not_judged_fields_without_json_tag_(key_is_the_Go_name)"] = untagged
	a.rep.Extra["send_fields_enumerated"] = fieldsTotal
}

// ---------------------------------------------------------------- (b) receiving side

type c21Type struct {
	str   string
	class string // valid | not_peerswap
	name  string // wire name for valid ones, class label otherwise
	num   int
}

func c21Types(thorough bool) []c21Type {
	var out []c21Type
	for _, e := range c21Table {
		out = append(out, c21Type{strconv.FormatInt(int64(e.num), 16), "valid", e.name, e.num})
	}
	out = append(out, c21Type{"a454", "not_peerswap", "even_neighbour", 42068})
	for _, e := range c21Table {
		out = append(out, c21Type{strconv.FormatInt(int64(e.num+1), 16), "not_peerswap", "even_neighbour", e.num + 1})
	}
	out = append(out,
		c21Type{"A455", "valid", "swap_in_request", 42069}, // the same number in upper-case hex
		c21Type{"a453", "not_peerswap", "below_range", 42067},
		c21Type{"a467", "not_peerswap", "above_range", 42087},
		c21Type{"zzzz", "not_peerswap", "non_hex", 0},
		c21Type{"", "not_peerswap", "empty", 0},
		c21Type{strings.Repeat("a", 10*1024), "not_peerswap", "very_long", 0},
	)
	if thorough {
		out = append(out,
			c21Type{"A45F", "valid", "cancel", 42079},
			c21Type{"00a45f", "valid", "cancel", 42079}, // leading zeros: still the number 42079
			c21Type{"0xa455", "not_peerswap", "non_hex", 0},
			c21Type{"-a455", "not_peerswap", "negative", 0},
			c21Type{" a455", "not_peerswap", "non_hex", 0},
			c21Type{"a455 ", "not_peerswap", "non_hex", 0},
			c21Type{"42069", "not_peerswap", "decimal_spelling", 0x42069},
			c21Type{"1a455", "not_peerswap", "above_range", 0x1a455},
			c21Type{"7fffffffffffffff", "not_peerswap", "above_range", 0},
			c21Type{"ffffffffffffffffffff", "not_peerswap", "non_hex", 0},
			c21Type{"a4\x0055", "not_peerswap", "non_hex", 0},
		)
	}
	return out
}

var c21PayloadClasses = []string{
	"valid", "empty", "null", "empty_object", "wrong_json_types", "wrong_top_level_type", "swap_id_wrong_type", "swap_id_malformed",
	"missing_swap_id", "null_swap_id", "truncated_half", "truncated_last_byte", "valid_padded_to_100KiB", "valid_padded_to_100KiB_plus_1",
	"valid_then_closing_brace", "valid_then_text", "valid_then_nul", "two_json_values",
}
var c21PayloadClassesThorough = []string{"valid_padded_to_100KiB_minus_1", "valid_padded_to_1MiB", "binary_garbage", "valid_then_truncated_object", "null_padded_to_100KiB_plus_1"}

// c21Why says why the statement demands that the message be ignored ("" = it need not be).
func c21Why(t c21Type, pc string) string {
	switch {
	case t.class != "valid":
		return "not_peerswap_type"
	case pc == "valid_padded_to_100KiB_plus_1" || pc == "valid_padded_to_1MiB" || pc == "null_padded_to_100KiB_plus_1":
		return "oversize"
	case pc == "valid" || pc == "valid_padded_to_100KiB" || pc == "valid_padded_to_100KiB_minus_1":
		return ""
	default:
		return "malformed"
	}
}

// c21ValidPayload builds a well-formed message of the given type for swap `id`.
func c21ValidPayload(num int, id *swap.SwapId, chain string) []byte {
	network, asset := "regtest", ""
	if chain != "btc" {
		network, asset = "", node.AssetField
	}
	var m any
	switch num {
	case 42069:
		m = &swap.SwapInRequestMessage{ProtocolVersion: swap.PEERSWAP_PROTOCOL_VERSION, SwapId: id, Network: network, Asset: asset, Scid: scn.Scid2, Amount: scn.Amount, Pubkey: c21Pubkey, PremiumLimit: 1_000_000}
	case 42071:
		m = &swap.SwapOutRequestMessage{ProtocolVersion: swap.PEERSWAP_PROTOCOL_VERSION, SwapId: id, Network: network, Asset: asset, Scid: scn.Scid2, Amount: scn.Amount, Pubkey: c21Pubkey, PremiumLimit: 1_000_000}
	case 42073:
		m = &swap.SwapInAgreementMessage{ProtocolVersion: swap.PEERSWAP_PROTOCOL_VERSION, SwapId: id, Pubkey: c21Pubkey, Premium: 10}
	case 42075:
		m = &swap.SwapOutAgreementMessage{ProtocolVersion: swap.PEERSWAP_PROTOCOL_VERSION, SwapId: id, Pubkey: c21Pubkey, Payreq: "lnbcrt1notaninvoice", Premium: 10}
	case 42077:
		m = &swap.OpeningTxBroadcastedMessage{SwapId: id, Payreq: "lnbcrt1notaninvoice", TxId: strings.Repeat("ab", 32), ScriptOut: 0, BlindingKey: strings.Repeat("cd", 32)}
	case 42081:
		m = &swap.CoopCloseMessage{SwapId: id, Message: "from the counterparty", Privkey: strings.Repeat("11", 32)}
	case 42083, 42085:
		return []byte(`{"version":7,"assets":["btc","lbtc"],"peer_allowed":true,"swap_id":"` + id.String() + `"}`)
	default: // cancel, and the payload used with type strings that are no peerswap type
		m = &swap.CancelMessage{SwapId: id, Message: "from the counterparty"}
	}
	b, err := json.Marshal(m)
	if err != nil {
		panic(err)
	}
	return b
}

func c21Pad(b []byte, n int) []byte {
	if len(b) >= n {
		panic("c21: cannot pad")
	}
	return append(append([]byte{}, b...), bytes.Repeat([]byte(" "), n-len(b))...)
}

func c21Payload(pc string, valid []byte, id *swap.SwapId) []byte {
	var obj map[string]json.RawMessage
	_ = json.Unmarshal(valid, &obj)
	with := func(k, v string) []byte {
		o := map[string]json.RawMessage{}
		for kk, vv := range obj {
			o[kk] = vv
		}
		if v == "" {
			delete(o, k)
		} else {
			o[k] = json.RawMessage(v)
		}
		b, _ := json.Marshal(o)
		return b
	}
	switch pc {
	case "valid":
		return valid
	case "empty":
		return []byte{}
	case "null":
		return []byte("null")
	case "empty_object":
		return []byte("{}")
	case "wrong_json_types":
		return []byte(`{"swap_id":"` + id.String() + `","protocol_version":"seven","message":7,"amount":"1000","premium":"x","acceptable_premium":[],"pubkey":{},"payreq":1,"Payreq":1,"tx_id":2,"script_out":"0","blinding_key":false,"privkey":3,"scid":4,"network":5,"asset":6}`)
	case "wrong_top_level_type":
		return []byte(`["` + id.String() + `"]`)
	case "swap_id_wrong_type":
		return with("swap_id", "12345")
	case "swap_id_malformed":
		return with("swap_id", `"`+id.String()[:62]+`"`)
	case "missing_swap_id":
		return with("swap_id", "")
	case "null_swap_id":
		return with("swap_id", "null")
	case "truncated_half":
		return valid[:len(valid)/2]
	case "truncated_last_byte":
		return valid[:len(valid)-1]
	case "valid_padded_to_100KiB":
		return c21Pad(valid, c21Limit)
	case "valid_padded_to_100KiB_plus_1":
		return c21Pad(valid, c21Limit+1)
	case "valid_padded_to_100KiB_minus_1":
		return c21Pad(valid, c21Limit-1)
	case "valid_padded_to_1MiB":
		return c21Pad(valid, 1<<20)
	case "binary_garbage":
		return []byte("\x00\xff\xfe{\"swap_id\"\x00")
	case "two_json_values":
		return append(append([]byte{}, valid...), valid...)
	case "valid_then_closing_brace":
		return append(append([]byte{}, valid...), '}')
	case "valid_then_text":
		return append(append([]byte{}, valid...), []byte(" trailing text")...)
	case "valid_then_nul":
		return append(append([]byte{}, valid...), 0, 0, 0, 0)
	case "valid_then_truncated_object":
		return append(append([]byte{}, valid...), valid[:len(valid)/2]...)
	case "null_padded_to_100KiB_plus_1":
		return c21Pad([]byte("null"), c21Limit+1)
	}
	panic("c21: unknown payload class " + pc)
}

// c21Snapshot is everything of node A "a swap" consists of: persisted bytes of
// every record, and for every active (in-memory) swap its Current and the JSON
// of the live machine.
func c21Snapshot(n *node.Node) map[string]string {
	out := map[string]string{}
	for id, raw := range n.D.Store.Raw() {
		out["record:"+id] = raw
	}
	act := reflect.ValueOf(n.Svc).Elem().FieldByName("activeSwaps")
	if !act.IsValid() || act.Kind() != reflect.Map {
		panic("c21: SwapService.activeSwaps not found")
	}
	for _, k := range act.MapKeys() {
		id := k.String()
		if sm := n.Active(id); sm != nil {
			live, _ := json.Marshal(sm)
			out["active:"+id] = string(sm.Current) + " " + string(live)
		} else {
			out["active:"+id] = "?"
		}
	}
	return out
}

func c21Diff(before, after map[string]string) string {
	var effects []string
	for k, v := range after {
		old, ok := before[k]
		switch {
		case !ok && strings.HasPrefix(k, "record:"):
			effects = append(effects, "new_record")
		case !ok:
			effects = append(effects, "new_active_swap")
		case old != v && strings.HasPrefix(k, "record:"):
			effects = append(effects, "record_changed")
		case old != v:
			effects = append(effects, "active_swap_changed")
		}
	}
	for k := range before {
		if _, ok := after[k]; !ok {
			if strings.HasPrefix(k, "record:") {
				effects = append(effects, "record_removed")
			} else {
				effects = append(effects, "active_swap_removed")
			}
		}
	}
	sort.Strings(effects)
	var uniq []string
	for i, e := range effects {
		if i == 0 || effects[i-1] != e {
			uniq = append(uniq, e)
		}
	}
	return strings.Join(uniq, "+")
}

type c21State struct {
	role, chain string
	script      []mc.Event
	label       string // A's state class (filled by the probe)
}

var c21Honest = []mc.Event{
	{Name: "rpc", Arg: scn.Scid}, {Name: "deliver", Arg: "B"}, {Name: "deliver", Arg: "A"}, {Name: "deliver", Arg: "B"}, {Name: "deliver", Arg: "A"},
	{Name: "deliver", Arg: "B"}, {Name: "deliver", Arg: "A"}, {Name: "block", Arg: "conf"}, {Name: "time", Arg: "11s"},
}

type c21Result struct {
	label    string // state label of A before the delivery
	pending  int    // type of the honest message waiting for A (0 = none)
	diff     string
	panicked any
	herr     error
	sentMsgs int
	detail   string
	internal string
}

// c21Exec runs one execution: script, then (optionally) one raw delivery.
func c21Exec(t *testing.T, cfg *scn.Cfg, script []mc.Event, deliver func(x *scn.Exec, id *swap.SwapId, pending *scn.Msg) (string, []byte)) (res c21Result) {
	defer func() {
		if r := recover(); r != nil {
			res.internal = fmt.Sprintf("harness panic: %v", r)
		}
	}()
	synctest.Test(t, func(t *testing.T) {
		x := scn.Init(t, cfg)
		defer x.Finish()
		for _, e := range script {
			x.Apply(e)
		}
		id := c21ID(0x11)
		res.label = "no_swap"
		if s := x.SwapOf(x.A); s != nil {
			id = s.SwapId
			res.label = string(s.Current)
			if x.A.Active(id.String()) == nil {
				res.label += "(inactive)"
			}
		}
		var pending *scn.Msg
		if q := x.Net[scn.IDA]; len(q) > 0 {
			m := q[0]
			pending = &m
			res.pending = m.Type
		}
		if deliver == nil {
			return
		}
		typ, payload := deliver(x, id, pending)
		before := c21Snapshot(x.A)
		nlog := len(x.W.Log)
		res.herr, res.panicked = x.A.DeliverRaw(scn.IDB, typ, payload)
		after := c21Snapshot(x.A)
		res.diff = c21Diff(before, after)
		for _, o := range x.W.Log[nlog:] {
			if o.Kind == "send" && o.Node == scn.IDA {
				res.sentMsgs++
			}
		}
		p := string(payload)
		if len(p) > 400 {
			p = fmt.Sprintf("%s…(%d bytes)", p[:400], len(p))
		}
		ts := typ
		if len(ts) > 40 {
			ts = fmt.Sprintf("%s…(%d chars)", ts[:16], len(ts))
		}
		res.detail = fmt.Sprintf("node A (%s, %s, state %s) receives from its counterparty type=%q payload=%s -> handler error=%v panic=%v effect=%q", cfg.ARole(), cfg.Chain, res.label, ts, p, res.herr, res.panicked, res.diff)
	})
	return
}

func c21Receive(t *testing.T, a *c21Acc, thorough bool) {
	bubbleMode()
	ps := premiumSetting(t, "c21")
	chains := []string{"btc"}
	if thorough {
		chains = []string{"btc", "lbtc"}
	}
	types := c21Types(thorough)
	pcs := append([]string{}, c21PayloadClasses...)
	if thorough {
		pcs = append(pcs, c21PayloadClassesThorough...)
	}
	var tnames []string
	for _, ty := range types {
		s := ty.str
		if len(s) > 24 {
			s = fmt.Sprintf("%s…(%d chars)", s[:8], len(s))
		}
		tnames = append(tnames, fmt.Sprintf("%q=%s/%s", s, ty.class, ty.name))
	}
	a.rep.Alphabets["recv.type_string"] = tnames
	a.rep.Alphabets["recv.payload"] = pcs
	a.rep.Alphabets["recv.sender"] = "the swap's counterparty (node B)"
	statesSeen := map[string]bool{}
	var stateList []string
	execs := 0
	for _, chain := range chains {
		for _, role := range allRoles {
			st, ai := roleCfg(role)
			cfg := &scn.Cfg{Name: "c21", Chain: chain, SwapType: st, AInitiates: ai, Premium: ps}
			// the states of A along the honest run: every prefix after which A's state or its pending message differs
			last := ""
			for k := 0; k <= len(c21Honest); k++ {
				script := c21Honest[:k]
				pr := c21Exec(t, cfg, script, nil)
				execs++
				if pr.internal != "" {
					a.rep.Internal = append(a.rep.Internal, pr.internal)
					continue
				}
				cls := fmt.Sprintf("%s pending=%s", pr.label, c21NameOf(int64(pr.pending)))
				if cls == last {
					continue
				}
				last = cls
				if k == 0 && role != allRoles[0] {
					continue // the node without any swap is the same state for every role: enumerate it once per chain
				}
				full := fmt.Sprintf("%s/%s after %v: A in %s", role, chain, mc.HistoryString(script), cls)
				stateList = append(stateList, full)
				statesSeen[pr.label] = true
				for _, ty := range types {
					for _, pc := range pcs {
						ty, pc := ty, pc
						r := c21Exec(t, cfg, script, func(x *scn.Exec, id *swap.SwapId, pending *scn.Msg) (string, []byte) {
							valid := c21ValidPayload(ty.num, id, chain)
							if pending != nil && (pending.Type == ty.num || ty.class != "valid") && len(pending.Payload) > 0 {
								valid = pending.Payload // the honest next message itself
							}
							return ty.str, c21Payload(pc, valid, id)
						})
						execs++
						a.rep.Transitions++
						if r.internal != "" {
							a.rep.Internal = append(a.rep.Internal, r.internal+" in "+full)
							continue
						}
						c21JudgeRecv(a, ty, pc, r)
					}
				}
			}
		}
	}
	a.rep.Extra["recv_states_of_node_A"] = stateList
	a.rep.Extra["recv_distinct_state_labels"] = len(statesSeen)
	a.rep.Extra["recv_executions"] = execs
}

func c21JudgeRecv(a *c21Acc, ty c21Type, pc string, r c21Result) {
	why := c21Why(ty, pc)
	if len(a.rep.Samples) < 16 && a.rep.Transitions%397 == 0 {
		a.rep.Samples = append(a.rep.Samples, r.detail)
	}
	if r.panicked != nil {
		a.viol(fmt.Sprintf("panic_on_%s_payload:type=%s", pc, ty.name), r.detail)
		return
	}
	if why == "" {
		// a well-formed message of a peerswap type within the size limit: whatever the state machine decides is legitimate
		if r.diff != "" {
			a.hit("recv:wellformed:accepted_changes_swap")
			if pc == "valid_padded_to_100KiB" {
				a.hit("recv:wellformed:exactly_100KiB_accepted")
			}
		} else {
			a.hit("recv:wellformed:no_change")
		}
		return
	}
	if r.diff != "" {
		// key: why it had to be ignored + message type + payload class + coarse effect (the exact effect list is in the detail)
		effect, kpc := "existing_swap_changed", pc
		if strings.Contains(r.diff, "new_") {
			effect = "new_swap"
		}
		if pc == "missing_swap_id" || pc == "null_swap_id" {
			kpc = "no_swap_id"
		}
		if why == "oversize" {
			kpc = "over_100KiB"
		}
		a.viol(fmt.Sprintf("junk_changes_swap:why=%s:type=%s:payload=%s:effect=%s", why, ty.name, kpc, effect), r.detail)
		return
	}
	cls := "recv:ignored:" + why
	if r.herr != nil {
		cls += ":handler_error"
	} else {
		cls += ":handler_nil"
	}
	a.hit(cls)
	if r.sentMsgs > 0 {
		a.hit("recv:ignored_but_replied_to_peer(not judged)")
	}
}

func TestC21(t *testing.T) {
	thorough := mc.Tier() == "thorough"
	rep := EnumReport{ID: "C21", Level: "model_checking", Exhaustive: true, Start: time.Now(),
		Rule: "(a) every message struct × every field × boundary alphabet, one and two fields at a time, through swap.MarshalPeerswapMessage, messages.MessageTypeToHexString, messages.PeerswapCustomMessageType; every number 41990..42160 through PeerswapCustomMessageType; (b) every distinct state of node A along the honest run of each role (real swap.SwapService, two-node scenario engine, one fresh execution per case) × type string × payload delivered from the counterparty through the registered message handler",
		Alphabets: map[string]any{}, Outcomes: map[string]int{}, Extra: map[string]any{}}
	a := &c21Acc{rep: &rep}
	rep.Alphabets["send.uint8"] = []uint8{0, 7, 255}
	rep.Alphabets["send.uint32"] = []uint32{0, 1, math.MaxUint32}
	rep.Alphabets["send.uint64"] = []uint64{0, 1_000_000, 1 << 53, math.MaxUint64}
	rep.Alphabets["send.int64"] = []int64{0, 1000, -1, math.MinInt64, math.MaxInt64}
	rep.Alphabets["send.string"] = []string{"empty", "typical", "10 KiB", "unicode incl. U+2028/U+2029/emoji", "control characters 00 01 08 0c 0a 0d 09 1f 7f", "quotes, backslash, </script>, &, <, >, backquote"}
	rep.Alphabets["send.swap_id"] = []string{"nil pointer", "32×00", "32×11", "32×ff"}
	rep.Alphabets["protocol_type_table"] = c21Table
	c21Send(a)
	// what is SENT later: the retransmitter keeps the encoded payload and sends it again every 10 s while the node
	// goes on encoding other messages; every copy must still be the payload of that message
	{
		_, changed, cov := c23ResendCore(t)
		for wire, d := range changed {
			a.viol("send:retransmitted_payload_differs_from_encoded:msg="+wire, d)
		}
		if len(changed) == 0 {
			a.hit("send:retransmitted_copies_identical")
		}
		for k, v := range cov {
			rep.Extra[k] = v
		}
	}
	c21Receive(t, a, thorough)
	rep.Extra["normalisation_before_comparing_decoded_messages"] = "none: reflect.DeepEqual on the struct values (a nil *SwapId encodes as null and decodes to nil; empty strings stay empty); strings that are not valid UTF-8 are outside the alphabet (JSON cannot carry them) and only counted"
	rep.States = len(rep.Outcomes)
	rep.Need = []string{
		"send:ok:swap_in_request", "send:ok:swap_in_agreement", "send:ok:swap_out_request", "send:ok:swap_out_agreement", "send:ok:opening_tx_broadcasted", "send:ok:cancel", "send:ok:coop_close",
		"type_table:accepted_protocol_number", "type_table:rejected_other_number", "send:retransmitted_copies_identical",
		"recv:wellformed:accepted_changes_swap", "recv:wellformed:exactly_100KiB_accepted", "recv:wellformed:no_change",
		"recv:ignored:not_peerswap_type:handler_nil", "recv:ignored:oversize:handler_error", "recv:ignored:malformed:handler_error",
	}
	finishEnum(t, &rep)
}
