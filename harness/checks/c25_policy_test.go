package checks

// C25 — policy changes apply immediately and survive a reload.
//
// Engine E3: explicit-state breadth-first search over ALL sequences of policy
// operations (length <= 5 quick / up to the fixpoint, cap 12, thorough) on the REAL policy.Policy, for every
// initial policy-file shape.  A state is (file bytes, complete in-memory Policy
// value, reference-model state); it is restored exactly (file rewritten, struct
// value copied back) before each operation, so every (state, operation) pair is
// executed once and states are de-duplicated.  The reference model is two sets,
// a flag and accept_all, written from the property statement.  After EVERY
// operation the check compares
//   - the in-memory predicates (IsPeerAllowed, IsPeerSuspicious for A, B and a
//     third key C; NewSwapsAllowed) with the model             -> effect_wrong
//   - a brand-new Policy created from the file with the memory  -> reload_differs / reload_fails
//   - for operations the statement says must be rejected (invalid pubkey,
//     duplicate addition): an error is returned                 -> invalid_accepted / duplicate_accepted
//     and neither file bytes nor memory changed                 -> rejected_op_changed
//   - for operations the statement says take effect: no error   -> valid_op_refused
// A transition with a violation is reported and its target state is not expanded
// (no cascades); everything else is expanded to the depth bound.

import (
	"bytes"
	"crypto/sha256"
	"fmt"
	"os"
	"path/filepath"
	"runtime"
	"sort"
	"strconv"
	"strings"
	"sync"
	"testing"
	"time"

	"github.com/elementsproject/peerswap/policy"
	"verif/mc"
	"verif/vsync"
)

const (
	c25A      = "02aabbccddeeff00112233445566778899aabbccddeeff00112233445566778899"
	c25B      = "03112233445566778899aabbccddeeff00112233445566778899aabbccddeeff00"
	c25C      = "02ffeeddccbbaa99887766554433221100ffeeddccbbaa99887766554433221100"
	c25Short  = "02aabbccddeeff00112233445566778899aabbccddeeff001122334455667788" // 64
	c25Long   = "02aabbccddeeff00112233445566778899aabbccddeeff0011223344556677889900"
	c25NonHex = "zzaabbccddeeff00112233445566778899aabbccddeeff00112233445566778899"
)

var c25Upper = strings.ToUpper(c25A)

// ---------------------------------------------------------------- reference model

// c25Model is the reference policy: membership of A and B in the two sets, the
// new-swaps flag and accept_all (C is never added by any operation).
type c25Model struct {
	Allow     [2]bool
	Susp      [2]bool
	NewSwaps  bool
	AcceptAll bool
}

type c25Preds struct {
	Allowed  [3]bool // A, B, C
	Susp     [3]bool
	NewSwaps bool
}

func (m c25Model) preds() c25Preds {
	return c25Preds{
		Allowed:  [3]bool{m.AcceptAll || m.Allow[0], m.AcceptAll || m.Allow[1], m.AcceptAll},
		Susp:     [3]bool{m.Susp[0], m.Susp[1], false},
		NewSwaps: m.NewSwaps,
	}
}

func (p c25Preds) String() string {
	b := func(v bool) byte {
		if v {
			return '1'
		}
		return '0'
	}
	return fmt.Sprintf("allowed(A,B,C)=%c%c%c suspicious(A,B,C)=%c%c%c new_swaps=%c",
		b(p.Allowed[0]), b(p.Allowed[1]), b(p.Allowed[2]), b(p.Susp[0]), b(p.Susp[1]), b(p.Susp[2]), b(p.NewSwaps))
}

func (p c25Preds) diff(q c25Preds) string {
	var d []string
	if p.Allowed != q.Allowed {
		d = append(d, "allowed")
	}
	if p.Susp != q.Susp {
		d = append(d, "suspicious")
	}
	if p.NewSwaps != q.NewSwaps {
		d = append(d, "new_swaps")
	}
	return strings.Join(d, "+")
}

type c25Op struct {
	Name string // AddToAllowlist ... restart
	Arg  string // class: A, B, upper, short, long, nonhex, ""
}

func (o c25Op) String() string {
	if o.Arg == "" {
		return o.Name
	}
	return o.Name + "(" + o.Arg + ")"
}

func c25ArgValue(class string) string {
	switch class {
	case "A":
		return c25A
	case "B":
		return c25B
	case "upper":
		return c25Upper
	case "short":
		return c25Short
	case "long":
		return c25Long
	case "nonhex":
		return c25NonHex
	}
	return ""
}

// expectation classes of the statement
const (
	c25Apply      = "apply"            // takes effect, no error
	c25RejectInv  = "reject_invalid"   // invalid pubkey: error, nothing changes
	c25RejectDup  = "reject_duplicate" // duplicate addition: error, nothing changes
	c25NoopEither = "remove_absent"    // removal of a key that is not listed: statement silent on the result; nothing may change semantically
	c25Upper_     = "upper"            // upper-case spelling: rejected, or taken as the (lower-case) key itself
)

// step is the reference transition function.
func (m c25Model) step(o c25Op) (string, c25Model) {
	idx := map[string]int{"A": 0, "B": 1}
	switch o.Name {
	case "DisableSwaps":
		m.NewSwaps = false
		return c25Apply, m
	case "EnableSwaps":
		m.NewSwaps = true
		return c25Apply, m
	case "ReloadFile", "restart":
		return c25Apply, m
	}
	switch o.Arg {
	case "short", "long", "nonhex":
		return c25RejectInv, m
	case "upper":
		return c25Upper_, m
	}
	i := idx[o.Arg]
	switch o.Name {
	case "AddToAllowlist":
		if m.Allow[i] {
			return c25RejectDup, m
		}
		m.Allow[i] = true
	case "RemoveFromAllowlist":
		if !m.Allow[i] {
			return c25NoopEither, m
		}
		m.Allow[i] = false
	case "AddToSuspiciousPeerList":
		if m.Susp[i] {
			return c25RejectDup, m
		}
		m.Susp[i] = true
	case "RemoveFromSuspiciousPeerList":
		if !m.Susp[i] {
			return c25NoopEither, m
		}
		m.Susp[i] = false
	}
	return c25Apply, m
}

// ---------------------------------------------------------------- real side

func c25Observe(p *policy.Policy) c25Preds {
	var r c25Preds
	for i, k := range []string{c25A, c25B, c25C} {
		r.Allowed[i] = p.IsPeerAllowed(k)
		r.Susp[i] = p.IsPeerSuspicious(k)
	}
	r.NewSwaps = p.NewSwapsAllowed()
	return r
}

func c25MemFP(p *policy.Policy) string {
	g := p.Get()
	return fmt.Sprintf("%q|%q|%v|%v|%d|%d", g.PeerAllowlist, g.SuspiciousPeerList, g.AcceptAllPeers, g.AllowNewSwaps, g.MinSwapAmountMsat, g.ReserveOnchainMsat)
}

func c25ApplyOp(p *policy.Policy, path string, o c25Op) (*policy.Policy, error) {
	k := c25ArgValue(o.Arg)
	switch o.Name {
	case "AddToAllowlist":
		return p, p.AddToAllowlist(k)
	case "RemoveFromAllowlist":
		return p, p.RemoveFromAllowlist(k)
	case "AddToSuspiciousPeerList":
		return p, p.AddToSuspiciousPeerList(k)
	case "RemoveFromSuspiciousPeerList":
		return p, p.RemoveFromSuspiciousPeerList(k)
	case "DisableSwaps":
		return p, p.DisableSwaps()
	case "EnableSwaps":
		return p, p.EnableSwaps()
	case "ReloadFile":
		return p, p.ReloadFile()
	case "restart":
		q, err := policy.CreateFromFile(path)
		if err != nil {
			return p, err
		}
		return q, nil
	}
	panic("unknown op " + o.Name)
}

// c25FileClass names the features of the policy file an operation starts from.
func c25FileClass(b []byte) string {
	if len(b) == 0 {
		return "empty"
	}
	var f []string
	if b[len(b)-1] != '\n' {
		f = append(f, "no_trailing_newline")
	}
	seen := map[string]bool{}
	spaced, dup, comment, acceptAll := false, false, false, false
	for _, l := range strings.Split(strings.TrimSuffix(string(b), "\n"), "\n") {
		if strings.HasPrefix(l, "#") || strings.HasPrefix(l, ";") {
			comment = true
			continue
		}
		if strings.Contains(l, " =") || strings.Contains(l, "= ") {
			spaced = true
		}
		if seen[l] {
			dup = true
		}
		seen[l] = true
		if strings.HasPrefix(strings.ReplaceAll(l, " ", ""), "accept_all_peers=true") {
			acceptAll = true
		}
	}
	if spaced {
		f = append(f, "spaced")
	}
	if dup {
		f = append(f, "duplicate_lines")
	}
	if comment {
		f = append(f, "comments")
	}
	if acceptAll {
		f = append(f, "accept_all")
	}
	if len(f) == 0 {
		return "plain"
	}
	return strings.Join(f, "+")
}

type c25Shape struct {
	Name    string
	Absent  bool
	Content string
	Model   c25Model
}

func c25Shapes() []c25Shape {
	def := c25Model{NewSwaps: true}
	ab := c25Model{Allow: [2]bool{true, false}, Susp: [2]bool{false, true}, NewSwaps: true}
	abOff := ab
	abOff.NewSwaps = false
	aOff := c25Model{Allow: [2]bool{true, false}, NewSwaps: false}
	a := c25Model{Allow: [2]bool{true, false}, NewSwaps: true}
	aAll := a
	aAll.AcceptAll = true
	return []c25Shape{
		{Name: "absent", Absent: true, Model: def},
		{Name: "empty", Content: "", Model: def},
		{Name: "canonical", Content: "allowlisted_peers=" + c25A + "\nsuspicious_peers=" + c25B + "\nallow_new_swaps=false\n", Model: abOff},
		{Name: "spaced", Content: "allowlisted_peers = " + c25A + "\nsuspicious_peers = " + c25B + "\nallow_new_swaps = false\n", Model: abOff},
		{Name: "duplicate_lines", Content: "allowlisted_peers=" + c25A + "\nallowlisted_peers=" + c25A + "\nsuspicious_peers=" + c25B + "\nsuspicious_peers=" + c25B + "\n", Model: ab},
		{Name: "no_trailing_newline", Content: "allowlisted_peers=" + c25A + "\nsuspicious_peers=" + c25B, Model: ab},
		{Name: "no_trailing_newline_flag", Content: "allowlisted_peers=" + c25A + "\nallow_new_swaps=false", Model: aOff},
		{Name: "comments", Content: "# peerswap policy\nallowlisted_peers=" + c25A + "\n; retired entry\n# suspicious_peers=" + c25B + "\n", Model: a},
		{Name: "accept_all", Content: "accept_all_peers=true\nallowlisted_peers=" + c25A + "\n", Model: aAll},
	}
}

type c25State struct {
	file  []byte
	mem   policy.Policy
	memFP string
	preds c25Preds
	model c25Model
	path  []string
}

// c25Viol is a violating transition: head = clause + operation (+ argument class), fclass = the
// features of the file the operation started from (empty for violations of the initial load).
type c25Viol struct {
	head, fclass, detail string
	depth                int
}

// c25Keys turns the violating transitions of all searches into violations.  The key names the
// LEAST special file class on which clause+operation fails: if it fails on a file exactly as the
// code itself writes it ("plain"/"empty"), the special file shapes are not named separately.
func c25Keys(vs []c25Viol) []mc.Violation {
	var out []mc.Violation
	byHead := map[string][]c25Viol{}
	var heads []string
	for _, v := range vs {
		if v.depth < 0 {
			out = append(out, mc.Violation{Property: "C25", Key: v.head, Detail: v.detail})
			continue
		}
		if _, ok := byHead[v.head]; !ok {
			heads = append(heads, v.head)
		}
		byHead[v.head] = append(byHead[v.head], v)
	}
	sort.Strings(heads)
	for _, h := range heads {
		g := byHead[h]
		// shortest sequence first, then file class name: deterministic minimal case per key
		sort.SliceStable(g, func(i, j int) bool {
			if g[i].depth != g[j].depth {
				return g[i].depth < g[j].depth
			}
			return g[i].fclass < g[j].fclass
		})
		var plain *c25Viol
		for i := range g {
			if g[i].fclass == "plain" || g[i].fclass == "empty" {
				plain = &g[i]
				break
			}
		}
		if plain != nil {
			var also []string
			seen := map[string]bool{}
			for _, v := range g {
				if !seen[v.fclass] {
					seen[v.fclass] = true
					also = append(also, v.fclass)
				}
			}
			sort.Strings(also)
			out = append(out, mc.Violation{Property: "C25", Key: h + ":file=plain", Detail: plain.detail + "\nfile classes on which this fails: " + strings.Join(also, ", ")})
			continue
		}
		seen := map[string]bool{}
		for _, v := range g {
			if !seen[v.fclass] {
				seen[v.fclass] = true
				out = append(out, mc.Violation{Property: "C25", Key: h + ":file=" + v.fclass, Detail: v.detail})
			}
		}
	}
	return out
}

type c25ShapeResult struct {
	fixpoint    bool
	shape       string
	states      map[[32]byte]bool
	transitions int
	pruned      int
	perDepth    []int
	outcomes    map[string]int
	viol        []c25Viol
	intern      []string
	samples     []any
}

func c25Key(file []byte, memFP string, m c25Model) [32]byte {
	h := sha256.New()
	h.Write(file)
	h.Write([]byte{0})
	h.Write([]byte(memFP))
	h.Write([]byte{0})
	fmt.Fprintf(h, "%v", m)
	var k [32]byte
	copy(k[:], h.Sum(nil))
	return k
}

func c25Explore(sh c25Shape, ops []c25Op, depth int) *c25ShapeResult {
	res := &c25ShapeResult{shape: sh.Name, states: map[[32]byte]bool{}, outcomes: map[string]int{}}
	dir := filepath.Join(workDir, "c25-"+sh.Name)
	if err := os.MkdirAll(dir, 0o755); err != nil {
		res.intern = append(res.intern, err.Error())
		return res
	}
	defer os.RemoveAll(dir)
	path := filepath.Join(dir, "policy.conf")
	if !sh.Absent {
		if err := os.WriteFile(path, []byte(sh.Content), 0o644); err != nil {
			res.intern = append(res.intern, err.Error())
			return res
		}
	}
	seenKey := map[string]bool{}
	addV := func(key, detail string) {
		if seenKey[key] {
			return
		}
		seenKey[key] = true
		res.viol = append(res.viol, c25Viol{head: key, depth: -1, detail: detail})
	}
	addT := func(head, fclass string, depth int, detail string) {
		if seenKey[head+"|"+fclass] {
			return
		}
		seenKey[head+"|"+fclass] = true
		res.viol = append(res.viol, c25Viol{head: head, fclass: fclass, depth: depth, detail: detail})
	}
	describe := func(st *c25State, o *c25Op) string {
		seq := append([]string{}, st.path...)
		if o != nil {
			seq = append(seq, o.String())
		}
		init := fmt.Sprintf("%q", sh.Content)
		if sh.Absent {
			init = "<file absent>"
		}
		return fmt.Sprintf("initial file (%s): %s\nsequence: create policy; %s\nkeys: A=%s B=%s C=%s", sh.Name, init, strings.Join(seq, "; "), c25A, c25B, c25C)
	}

	// ---- initial state: the daemon creates the policy from the file
	p0, err := policy.CreateFromFile(path)
	if err != nil {
		addV("initial_load_fails:file="+sh.Name, fmt.Sprintf("CreateFromFile: %v\n%s", err, describe(&c25State{}, nil)))
		return res
	}
	f0, err := os.ReadFile(path)
	if err != nil {
		res.intern = append(res.intern, "policy file not created: "+err.Error())
		return res
	}
	st0 := &c25State{file: f0, mem: *p0, memFP: c25MemFP(p0), preds: c25Observe(p0), model: sh.Model}
	if !sh.Absent && !bytes.Equal(f0, []byte(sh.Content)) {
		addV("initial_load_rewrites_file:file="+sh.Name, fmt.Sprintf("file after creation: %q\n%s", f0, describe(st0, nil)))
	}
	if st0.preds != sh.Model.preds() {
		addV("initial_load_wrong:file="+sh.Name, fmt.Sprintf("policy loaded from the file: %v\nmeaning of the file: %v\n%s", st0.preds, sh.Model.preds(), describe(st0, nil)))
		return res
	}
	res.outcomes["initial_load:ok"]++
	res.states[c25Key(st0.file, st0.memFP, st0.model)] = true
	frontier := []*c25State{st0}
	res.perDepth = append(res.perDepth, 1)

	for d := 0; d < depth && len(frontier) > 0; d++ {
		var next []*c25State
		for _, st := range frontier {
			for oi := range ops {
				o := ops[oi]
				// restore the state exactly
				if err := os.WriteFile(path, st.file, 0o644); err != nil {
					res.intern = append(res.intern, err.Error())
					return res
				}
				p := new(policy.Policy)
				*p = st.mem
				q, opErr := c25ApplyOp(p, path, o)
				res.transitions++
				if res.transitions%512 == 0 {
					runtime.GC() // ReloadFile/CreateFromFile leave a file handle to the finalizer
				}
				if opErr != nil && strings.Contains(opErr.Error(), "too many open files") {
					res.intern = append(res.intern, "fd exhaustion: "+opErr.Error())
					return res
				}
				postFile, err := os.ReadFile(path)
				if err != nil {
					res.intern = append(res.intern, "policy file vanished: "+err.Error())
					return res
				}
				postPreds := c25Observe(q)
				postFP := c25MemFP(q)
				fresh, freshErr := policy.CreateFromFile(path)
				var freshPreds c25Preds
				if freshErr == nil {
					freshPreds = c25Observe(fresh)
				}

				fclass := c25FileClass(st.file)
				where := ":after=" + o.Name
				if o.Arg != "" && o.Arg != "A" && o.Arg != "B" {
					where += ":arg=" + o.Arg
				}
				bad := false
				report := func(clause, what string) {
					bad = true
					addT(clause+where, fclass, len(st.path)+1, fmt.Sprintf("%s\n%s\nreturned: %v\nfile before: %q\nfile after:  %q\nmodel before: %v\nmemory before: %v\nmemory after:  %v\nfresh policy from file: %v (err=%v)",
						what, describe(st, &o), opErr, st.file, postFile, st.model.preds(), st.preds, postPreds, freshPreds, freshErr))
				}

				exp, m2 := st.model.step(o)
				outcome := exp
				if exp == c25Upper_ {
					if opErr != nil {
						exp, outcome = c25RejectInv, "upper:rejected"
					} else {
						// accepted: must then be the key itself (peers are looked up by their lower-case node id)
						exp, m2 = st.model.step(c25Op{o.Name, "A"})
						outcome = "upper:normalised"
						if exp == c25RejectDup {
							report("duplicate_accepted", "the upper-case spelling of a listed key was accepted as an addition")
						}
					}
				}
				switch exp {
				case c25Apply:
					switch {
					case opErr != nil:
						w := "an operation the statement says takes effect returned an error"
						if !bytes.Equal(postFile, st.file) {
							w += " (and changed the file)"
						}
						report("valid_op_refused", w)
					case postPreds != m2.preds():
						report("effect_wrong", fmt.Sprintf("the operation returned nil but the in-memory policy differs from the reference in %s; expected %v", postPreds.diff(m2.preds()), m2.preds()))
					}
					if outcome == c25Apply {
						switch o.Name {
						case "ReloadFile":
							outcome = "reload:ok"
						case "restart":
							outcome = "restart:ok"
						case "DisableSwaps", "EnableSwaps":
							if m2 == st.model {
								outcome = "toggle:idempotent"
							} else {
								outcome = "toggle:changed"
							}
						default:
							outcome = "apply:" + strings.TrimSuffix(strings.TrimSuffix(o.Name, "PeerList"), "list")
						}
					}
				case c25RejectInv, c25RejectDup:
					m2 = st.model
					if opErr == nil {
						if exp == c25RejectInv {
							report("invalid_accepted", "an invalid pubkey was accepted")
						} else {
							report("duplicate_accepted", "a duplicate addition was accepted")
						}
					} else {
						if !bytes.Equal(postFile, st.file) {
							report("rejected_op_changed:what=file", "a rejected operation changed the policy file")
						}
						if postFP != st.memFP || postPreds != st.preds {
							report("rejected_op_changed:what=memory", "a rejected operation changed the in-memory policy")
						}
					}
					if outcome == exp {
						outcome += ":" + o.Arg
						if exp == c25RejectDup {
							outcome = exp
						}
					}
				case c25NoopEither:
					m2 = st.model
					if postPreds != st.model.preds() {
						report("removal_of_unlisted_key_changed_policy", fmt.Sprintf("removing a key that is not listed changed the effective policy in %s", postPreds.diff(st.model.preds())))
					}
					if opErr != nil {
						outcome += ":error"
					} else {
						outcome += ":nil"
					}
				}
				// persisted: a brand-new Policy from the file is the same effective policy
				if freshErr != nil {
					report("reload_fails", "a new policy cannot be created from the file the operation left behind")
				} else if freshPreds != postPreds {
					report("reload_differs", fmt.Sprintf("a new policy created from the file differs from the in-memory policy in %s", freshPreds.diff(postPreds)))
				}
				if bad {
					res.pruned++
					res.outcomes["violation"]++
					continue
				}
				res.outcomes[outcome]++
				if res.outcomes[outcome] == 1 && len(res.samples) < 4 {
					res.samples = append(res.samples, map[string]string{"file": sh.Name, "sequence": strings.Join(append(append([]string{}, st.path...), o.String()), "; "),
						"verdict": outcome, "file_after": string(postFile), "policy_after": postPreds.String()})
				}
				k := c25Key(postFile, postFP, m2)
				if res.states[k] {
					continue
				}
				res.states[k] = true
				np := make([]string, len(st.path)+1)
				copy(np, st.path)
				np[len(st.path)] = o.String()
				next = append(next, &c25State{file: postFile, mem: *q, memFP: postFP, preds: postPreds, model: m2, path: np})
			}
		}
		res.perDepth = append(res.perDepth, len(next))
		frontier = next
	}
	res.fixpoint = len(frontier) == 0
	return res
}

func TestC25(t *testing.T) {
	vsync.SetMode(vsync.Plain)
	rep := EnumReport{ID: "C25", Level: "model_checking", Start: time.Now(), Exhaustive: true,
		Outcomes: map[string]int{}, Alphabets: map[string]any{}, Extra: map[string]any{}}
	// quick: all sequences of length <= 5; thorough: until no new state appears (the reachable
	// state space over this alphabet is finite: fixpoint at depth 9), capped at 12.
	depth := 5
	if mc.Tier() == "thorough" {
		depth = 12
	}
	if n, _ := strconv.Atoi(os.Getenv("C25_DEPTH")); n > 0 {
		depth = n
	}
	var ops []c25Op
	for _, n := range []string{"AddToAllowlist", "RemoveFromAllowlist", "AddToSuspiciousPeerList", "RemoveFromSuspiciousPeerList"} {
		for _, a := range []string{"A", "B", "upper", "short", "long", "nonhex"} {
			ops = append(ops, c25Op{n, a})
		}
	}
	for _, n := range []string{"DisableSwaps", "EnableSwaps", "ReloadFile", "restart"} {
		ops = append(ops, c25Op{Name: n})
	}
	shapes := c25Shapes()

	results := make([]*c25ShapeResult, len(shapes))
	var wg sync.WaitGroup
	for i := range shapes {
		wg.Add(1)
		go func(i int) {
			defer wg.Done()
			results[i] = c25Explore(shapes[i], ops, depth)
		}(i)
	}
	wg.Wait()

	union := map[[32]byte]bool{}
	perShape := map[string]any{}
	pruned := 0
	var allViol []c25Viol
	fixpoint := true
	for _, r := range results {
		fixpoint = fixpoint && r.fixpoint
		for k := range r.states {
			union[k] = true
		}
		rep.Transitions += r.transitions
		pruned += r.pruned
		for k, v := range r.outcomes {
			rep.Outcomes[k] += v
		}
		allViol = append(allViol, r.viol...)
		rep.Internal = append(rep.Internal, r.intern...)
		rep.Samples = append(rep.Samples, r.samples...)
		perShape[r.shape] = map[string]any{"states": len(r.states), "transitions": r.transitions, "new_states_per_depth": r.perDepth, "violating_transitions_not_expanded": r.pruned, "fixpoint": r.fixpoint}
	}
	rep.Violations = c25Keys(allViol)
	if len(rep.Samples) > 12 {
		rep.Samples = rep.Samples[:12]
	}
	rep.States = len(union)
	var opNames []string
	for _, o := range ops {
		opNames = append(opNames, o.String())
	}
	var shapeDesc []map[string]string
	for _, s := range shapes {
		c := s.Content
		if s.Absent {
			c = "<absent>"
		}
		shapeDesc = append(shapeDesc, map[string]string{"name": s.Name, "content": c, "meaning": s.Model.preds().String()})
	}
	sort.Strings(opNames)
	rep.Alphabets["operations"] = opNames
	rep.Alphabets["pubkeys"] = map[string]string{"A": c25A, "B": c25B, "C(observed only)": c25C, "upper": c25Upper, "short": c25Short, "long": c25Long, "nonhex": c25NonHex}
	rep.Alphabets["initial_files"] = shapeDesc
	rep.Extra["depth"] = depth
	rep.Extra["fixpoint_reached_all_reachable_states_expanded"] = fixpoint
	rep.Extra["per_initial_file"] = perShape
	rep.Extra["violating_transitions_not_expanded"] = pruned
	rep.Rule = fmt.Sprintf("breadth-first over all operation sequences of length <= %d from each initial file; states (file bytes, in-memory Policy value, reference model) de-duplicated and restored exactly; "+
		"after every operation: memory == reference, fresh Policy from the file == memory, must-reject operations return an error and change neither file bytes nor memory", depth)
	rep.Need = []string{"initial_load:ok", "apply:AddToAllow", "apply:RemoveFromAllow", "apply:AddToSuspicious", "apply:RemoveFromSuspicious",
		"toggle:changed", "toggle:idempotent", "reload:ok", "restart:ok",
		"reject_invalid:short", "reject_invalid:long", "reject_invalid:nonhex", "reject_duplicate"}
	if rep.Outcomes["upper:rejected"]+rep.Outcomes["upper:normalised"] == 0 {
		rep.Internal = append(rep.Internal, "vacuity guard: no upper-case key case evaluated")
	}
	if rep.Outcomes["remove_absent:error"]+rep.Outcomes["remove_absent:nil"] == 0 {
		rep.Internal = append(rep.Internal, "vacuity guard: no removal of an unlisted key evaluated")
	}
	rep.Assumptions = append(rep.Assumptions,
		"pubkeys are compared as the lower-case hex node ids the Lightning node reports: an upper-case spelling must be rejected or be taken as the lower-case key",
		"removing a valid key that is not listed may return an error or nil (the statement is silent) but must not change the effective policy",
		"meaning of the pre-existing files: ini syntax (spaces around '=' allowed, '#'/';' comment lines ignored, repeated list entries = one member, last scalar wins)",
		"a restart is modelled as policy.CreateFromFile on the same path; the file is only written by the policy package itself during a sequence")
	// two operator RPCs at the same time (scheduler-based exploration, own process)
	sv, scov := c25Sched()
	for _, v := range sv {
		if v.Property == "C25" {
			rep.Violations = append(rep.Violations, v)
		}
	}
	if l, ok := scov["internal"].([]string); ok {
		rep.Internal = append(rep.Internal, l...)
		delete(scov, "internal")
	}
	for k, v := range scov {
		rep.Extra[k] = v
	}
	finishEnum(t, &rep)
}
