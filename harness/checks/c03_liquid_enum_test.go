package checks

// Liquid part of C03 (real onchain.LiquidOnChain over the fake wallet) and
// the validator comparison reported under C01.

import (
	"bytes"
	"encoding/hex"
	"fmt"
	"sync"

	"github.com/btcsuite/btcd/btcec/v2"
	"github.com/elementsproject/peerswap/onchain"
	"github.com/elementsproject/peerswap/swap"
	"github.com/vulpemventures/go-elements/confidential"
	"github.com/vulpemventures/go-elements/elementsutil"
	"github.com/vulpemventures/go-elements/transaction"
)

type c03LqOpening struct {
	fund     c03LqFund
	amount   uint64
	csv      uint32
	params   swap.OpeningParams
	truth    *c03LqTxTruth
	trueIdx  int
	vout     uint32
	taker    *btcec.PrivateKey
	maker    *btcec.PrivateKey
	preHex   string
	excluded bool
	w        *c03LqWallet
	loc      *onchain.LiquidOnChain
}

func (o *c03LqOpening) String() string {
	return fmt.Sprintf("opening{lbtc layout=%s amount=%d csv=%d swap_output_index=%d}", o.fund, o.amount, o.csv, o.trueIdx)
}

func c03LqOpen(acc *c03Acc, fund c03LqFund, amount uint64, csv uint32, seed string) *c03LqOpening {
	o := &c03LqOpening{fund: fund, amount: amount, csv: csv, taker: c03Key(seed + "/taker"), maker: c03Key(seed + "/maker")}
	var hashHex string
	o.preHex, hashHex = c03Preimage(seed)
	o.params = swap.OpeningParams{TakerPubkey: c03Pub(o.taker), MakerPubkey: c03Pub(o.maker), ClaimPaymentHash: hashHex, Amount: amount, CSV: csv, BlindingKey: c03Key(seed + "/blind")}
	o.w = &c03LqWallet{tag: seed, fund: fund, feeMode: "100"}
	o.loc = onchain.NewLiquidOnChain(o.w, c03Net)
	p := o.params
	txHex, _, txid, _, vout, err := o.loc.CreateOpeningTransaction(&p)
	acc.step(1)
	if err != nil {
		acc.bug(fmt.Sprintf("lbtc CreateOpeningTransaction(%s,%d): %v", fund, amount, err))
		return nil
	}
	o.truth = o.w.lastOpening()
	o.w.takeSent()
	if o.truth == nil || o.truth.Hex != txHex || o.truth.Tx.TxHash().String() != txid {
		acc.bug("lbtc opening: returned tx differs from the one the wallet built")
		return nil
	}
	o.vout = vout
	want := c03P2wsh(c03RefScript(o.taker.PubKey().SerializeCompressed(), o.maker.PubKey().SerializeCompressed(), c03MustHex(hashHex), int64(csv)))
	if code, err := o.loc.GetOutputScript(&p); err != nil || !bytes.Equal(code, want) {
		acc.bug(fmt.Sprintf("lbtc opening: reference script differs from the code's script (err=%v)", err))
		return nil
	}
	// the swap output: the first output paying exactly the amount in the policy asset to the script
	o.trueIdx = -1
	for i, out := range o.truth.Outs {
		if bytes.Equal(out.Script, want) && out.Value == amount && bytes.Equal(out.Asset, c03PolicyAsset()) && o.trueIdx < 0 {
			o.trueIdx = i
		}
	}
	if o.trueIdx < 0 {
		acc.bug("lbtc opening: no swap output")
		return nil
	}
	if uint32(o.trueIdx) != vout {
		acc.note(fmt.Sprintf("lbtc:CreateOpeningTransaction_reports_vout=%d_but_swap_output_is_at=%d (C08)", vout, o.trueIdx))
	}
	ok, _ := o.loc.ValidateTx(&p, txHex)
	if !ok {
		o.excluded = true
		acc.note("lbtc:valid_opening_rejected_by_validator:layout=" + fund.String())
	}
	return o
}

type c03LqCase struct {
	o      *c03LqOpening
	path   string
	fee    string // "err", "0", "1", "100", "amount"
	secret string
}

func (c c03LqCase) String() string {
	return fmt.Sprintf("%s path=%s fee_answer=%s secrets=%s", c.o, c.path, c.fee, c.secret)
}

func c03ExplicitValue(b []byte) (uint64, bool) {
	if len(b) != 9 || b[0] != 1 {
		return 0, false
	}
	v, err := elementsutil.ValueFromBytes(b)
	return v, err == nil
}

// c03LqJudgeOutputs checks the outputs of a spend: exactly one explicit fee
// output and one confidential output to an address handed out in this call,
// unblinding to (policy asset, in - fee), with valid proofs and balance.
func c03LqJudgeOutputs(spend *transaction.Transaction, prev c03LqOutTruth, handed []c03LqAddr) (fee uint64, outValue uint64, problem string) {
	if len(spend.Outputs) != 2 {
		return 0, 0, fmt.Sprintf("outputs_not_single_plus_fee: %d outputs", len(spend.Outputs))
	}
	var feeOut, payOut *transaction.TxOutput
	for _, o := range spend.Outputs {
		if len(o.Script) == 0 {
			if feeOut != nil {
				return 0, 0, "outputs_not_single_plus_fee: two fee outputs"
			}
			feeOut = o
		} else {
			payOut = o
		}
	}
	if feeOut == nil || payOut == nil {
		return 0, 0, "outputs_not_single_plus_fee: missing fee or payment output"
	}
	f, ok := c03ExplicitValue(feeOut.Value)
	if !ok || len(feeOut.Asset) != 33 || feeOut.Asset[0] != 1 || !bytes.Equal(feeOut.Asset[1:], c03PolicyAsset()) {
		return 0, 0, "fee_output_not_explicit_policy_asset"
	}
	fee = f
	var to *c03LqAddr
	for i := range handed {
		if bytes.Equal(handed[i].Script, payOut.Script) {
			to = &handed[i]
		}
	}
	if to == nil {
		return fee, 0, fmt.Sprintf("pays_foreign_address: script %x not handed out in this call", payOut.Script)
	}
	if !payOut.IsConfidential() {
		return fee, 0, "payment_output_not_confidential"
	}
	ub, err := confidential.UnblindOutputWithKey(payOut, to.Blind.Serialize())
	if err != nil {
		return fee, 0, "payment_output_not_unblindable_by_wallet: " + err.Error()
	}
	if !bytes.Equal(ub.Asset, c03PolicyAsset()) {
		return fee, ub.Value, "payment_output_wrong_asset"
	}
	ac, err := confidential.AssetCommitment(append([]byte{}, ub.Asset...), ub.AssetBlindingFactor)
	if err != nil || !bytes.Equal(ac, payOut.Asset) {
		return fee, ub.Value, "payment_output_asset_commitment_inconsistent"
	}
	if !confidential.VerifyRangeProof(payOut.Value, payOut.Asset, payOut.Script, payOut.RangeProof) {
		return fee, ub.Value, "payment_output_range_proof_invalid"
	}
	if !confidential.VerifySurjectionProof(confidential.VerifySurjectionProofArgs{
		InputAssets: [][]byte{append([]byte{}, prev.Asset...)}, InputAssetBlindingFactors: [][]byte{prev.Abf},
		OutputAsset: append([]byte{}, ub.Asset...), OutputAssetBlindingFactor: ub.AssetBlindingFactor, Proof: payOut.SurjectionProof,
	}) {
		return fee, ub.Value, "payment_output_surjection_proof_invalid"
	}
	// Pedersen balance: sum(in) = out + fee as commitments
	want, err := confidential.FinalValueBlindingFactor(confidential.FinalValueBlindingFactorArgs{
		InValues: []uint64{prev.Value}, OutValues: []uint64{ub.Value},
		InGenerators: [][]byte{prev.Abf}, OutGenerators: [][]byte{ub.AssetBlindingFactor},
		InFactors: [][]byte{prev.Vbf}, OutFactors: [][]byte{},
	})
	if err != nil || !bytes.Equal(want[:], ub.ValueBlindingFactor) {
		return fee, ub.Value, "commitments_do_not_balance"
	}
	if prev.Value != ub.Value+fee {
		return fee, ub.Value, fmt.Sprintf("value_not_conserved: in %d != out %d + fee %d", prev.Value, ub.Value, fee)
	}
	return fee, ub.Value, ""
}

func c03LqSpend(acc *c03Acc, c c03LqCase, judge bool) {
	o := c.o
	w := o.w
	w.mu.Lock()
	w.feeMode = c.fee
	if c.fee == "amount" {
		w.feeMode = fmt.Sprint(o.amount)
	}
	w.mu.Unlock()
	mark := w.addrMark()
	w.takeSent()
	p := o.params
	claim := &swap.ClaimParams{OpeningTxHex: o.truth.Hex}
	wrongKey := c03Key("wrong")
	var txid, txHex string
	var err error
	switch c.path {
	case "preimage":
		claim.Signer = c03Signer(o.taker)
		claim.Preimage = o.preHex
		if c.secret == "wrong_preimage" {
			b := c03MustHex(o.preHex)
			b[31] ^= 0x80
			claim.Preimage = hex.EncodeToString(b)
		}
		txid, txHex, _, err = o.loc.CreatePreimageSpendingTransaction(&p, claim)
	case "csv":
		claim.Signer = c03Signer(o.maker)
		if c.secret == "wrong_maker_key" {
			claim.Signer = c03Signer(wrongKey)
		}
		txid, txHex, _, err = o.loc.CreateCsvSpendingTransaction(&p, claim)
	case "coop":
		claim.Signer = c03Signer(o.maker)
		ts := c03Signer(o.taker)
		if c.secret == "wrong_taker_key" {
			ts = c03Signer(wrongKey)
		}
		txid, txHex, _, err = o.loc.CreateCoopSpendingTransaction(&p, claim, ts)
	}
	acc.step(1)
	sent := w.takeSent()
	handed := w.addrsSince(mark)
	tag := "chain=lbtc:path=" + c.path
	if !judge {
		verdict := "no_tx"
		if err != nil {
			verdict = "error"
		} else if len(sent) == 1 {
			verdict = "tx_sent"
		}
		acc.note(fmt.Sprintf("lbtc:excluded_opening:layout=%s:path=%s:%s", o.fund, c.path, verdict))
		acc.out("lbtc:excluded:validator_rejects_opening")
		return
	}
	var feeRef uint64
	switch c.fee {
	case "err":
		feeRef = 500
	case "0":
		if err == nil || len(sent) != 0 {
			// a zero fee would still be a statement-conforming spend; judge it below with fee 0
			feeRef = 0
		} else {
			acc.out("lbtc:fee_answer_0:refused")
			return
		}
	case "amount":
		feeRef = o.amount
	default:
		fmt.Sscanf(c.fee, "%d", &feeRef)
	}
	prev := o.truth.Outs[o.trueIdx]
	prevOut := o.truth.Tx.Outputs[o.trueIdx]
	feasible := o.amount > feeRef
	if err != nil {
		if feasible {
			acc.fail("C03", "no_transaction_built:"+tag, fmt.Sprintf("%s: %v", c, err))
		} else {
			acc.out("lbtc:infeasible_amount_le_fee")
		}
		return
	}
	if len(sent) != 1 {
		acc.fail("C03", "publish_count:"+tag, fmt.Sprintf("%s: %d transactions handed to SendRawTx", c, len(sent)))
		return
	}
	spend, perr := transaction.NewTxFromHex(sent[0])
	if perr != nil {
		acc.fail("C03", "published_tx_unparsable:"+tag, fmt.Sprintf("%s: %v", c, perr))
		return
	}
	if spend.TxHash().String() != txid || sent[0] != txHex {
		acc.fail("C03", "returned_tx_differs_from_published:"+tag, c.String())
	}
	oh := o.truth.Tx.TxHash()
	if len(spend.Inputs) != 1 || !bytes.Equal(spend.Inputs[0].Hash, oh[:]) || int(spend.Inputs[0].Index) != o.trueIdx {
		got := "?"
		if len(spend.Inputs) > 0 {
			got = fmt.Sprintf("%x:%d", spend.Inputs[0].Hash, spend.Inputs[0].Index)
		}
		acc.fail("C03", "spends_wrong_outpoint:"+tag, fmt.Sprintf("%s: input %s, want index %d of %s", c, got, o.trueIdx, oh))
		return
	}
	fee, outV, problem := c03LqJudgeOutputs(spend, prev, handed)
	if !feasible {
		// amount <= fee: nothing valid may come out
		if problem == "" && outV > 0 && c03LqScriptCheck(spend, prevOut.Script, prevOut.Value, o.csv) == nil {
			acc.fail("C03", "valid_spend_although_fee_ge_amount:"+tag, fmt.Sprintf("%s: out=%d fee=%d", c, outV, fee))
		} else {
			acc.out("lbtc:infeasible_amount_le_fee")
		}
		return
	}
	if problem != "" {
		key := problem
		if i := bytes.IndexByte([]byte(problem), ':'); i > 0 {
			key = problem[:i]
		}
		acc.fail("C03", key+":"+tag, fmt.Sprintf("%s: %s", c, problem))
		return
	}
	if fee > feeRef {
		acc.fail("C03", "fee_exceeds_bound:"+tag, fmt.Sprintf("%s: fee output %d > wallet estimate / placeholder %d", c, fee, feeRef))
	}
	if outV == 0 {
		acc.fail("C03", "output_not_positive:"+tag, c.String())
		return
	}
	chk := func(confs uint32) error { return c03LqScriptCheck(spend, prevOut.Script, prevOut.Value, confs) }
	if c.secret != "right" {
		confs := uint32(0)
		if c.path == "csv" {
			confs = o.csv
		}
		if v := chk(confs); v == nil {
			acc.fail("C03", "wrong_secret_spend_valid:"+tag, c.String())
		} else if v == errC03Unsupported {
			acc.bug("mini evaluator: unsupported construct in " + c.String())
		} else {
			acc.out("lbtc:" + c.path + ":" + c.secret + ":rejected")
		}
		return
	}
	switch c.path {
	case "preimage", "coop":
		if v := chk(0); v != nil {
			if v.Error() == "non-BIP68-final" {
				acc.fail("C03", "not_final_immediately:"+tag, fmt.Sprintf("%s: sequence %#x", c, spend.Inputs[0].Sequence))
			} else {
				acc.fail("C03", "script_rejects_spend:"+tag+":cause=script", fmt.Sprintf("%s: %v", c, v))
			}
			return
		}
		acc.out("lbtc:" + c.path + ":right:valid_immediately")
	case "csv":
		early, late := chk(o.csv-1), chk(o.csv)
		if early == nil {
			acc.fail("C03", "csv_refund_final_too_early:chain=lbtc", fmt.Sprintf("%s: accepted with %d confirmations, sequence %#x", c, o.csv-1, spend.Inputs[0].Sequence))
			return
		}
		if late != nil {
			if late.Error() == "non-BIP68-final" {
				acc.fail("C03", "csv_refund_not_final_at_csv:chain=lbtc", fmt.Sprintf("%s: sequence %#x", c, spend.Inputs[0].Sequence))
			} else {
				acc.fail("C03", "script_rejects_spend:"+tag+":cause=script", fmt.Sprintf("%s: %v", c, late))
			}
			return
		}
		if early.Error() != "non-BIP68-final" {
			acc.bug(fmt.Sprintf("%s: at csv-1 rejected for %v", c, early))
		}
		acc.out("lbtc:csv:right:valid_at_csv_not_before")
	}
	// signatures commit to the (confidential) amount of the spent output
	other := o.truth.Tx.Outputs[(o.trueIdx+1)%len(o.truth.Tx.Outputs)].Value
	if bytes.Equal(other, prevOut.Value) {
		other, _ = elementsutil.ValueToBytes(o.amount + 1)
	}
	if c03LqScriptCheck(spend, prevOut.Script, other, o.csv) == nil {
		acc.fail("C03", "signature_does_not_commit_to_amount:"+tag, c.String())
	} else {
		acc.out("lbtc:amount_mutation_breaks_signature")
	}
}

// ---------------------------------------------------------------- enumeration blocks

type c03LqBlock struct {
	Name    string
	Funds   []c03LqFund
	Amounts []uint64
	CSVs    []uint32
	Fees    []string
	Secrets bool // also the wrong secrets
}

func c03LqFunds(layouts []string, nIns []int, explicit bool) []c03LqFund {
	var out []c03LqFund
	for _, l := range layouts {
		for _, n := range nIns {
			out = append(out, c03LqFund{Layout: l, NIn: n, Explicit: explicit})
		}
	}
	return out
}

var c03LqAllFees = []string{"err", "0", "1", "100", "amount"}

func c03LqBlocks(tier string) []c03LqBlock {
	all := []string{"SCF", "SFC", "CSF", "CFS", "FSC", "FCS", "SF", "FS", "STF", "CTSF", "SDF", "DSF"}
	if tier == "thorough" {
		return []c03LqBlock{
			{Name: "layouts x inputs x amounts x csv x fees x secrets", Funds: append(c03LqFunds(all, []int{1, 2, 3}, false), c03LqFunds([]string{"SCF", "CSF"}, []int{1, 2, 3}, true)...),
				Amounts: c03Amounts, CSVs: []uint32{60, 10080}, Fees: c03LqAllFees, Secrets: true},
		}
	}
	return []c03LqBlock{
		{Name: "layouts", Funds: append(c03LqFunds(all, []int{1}, false), c03LqFunds([]string{"SCF", "CSF"}, []int{2}, true)...),
			Amounts: []uint64{1_000_000}, CSVs: []uint32{10080}, Fees: []string{"100"}, Secrets: false},
		{Name: "fees x secrets", Funds: c03LqFunds([]string{"CSF"}, []int{3}, false), Amounts: []uint64{1_000_000}, CSVs: []uint32{60}, Fees: c03LqAllFees, Secrets: true},
		{Name: "amounts x csv", Funds: c03LqFunds([]string{"CSF"}, []int{1}, false), Amounts: []uint64{1000, 2_100_000_000_000_000}, CSVs: []uint32{60, 10080}, Fees: []string{"err", "100"}, Secrets: false},
	}
}

func c03RunLiquid(acc *c03Acc, tier string) map[string]any {
	blocks := c03LqBlocks(tier)
	type job struct {
		fund   c03LqFund
		amount uint64
		csv    uint32
		fees   []string
		wrong  bool
		seed   string
	}
	var jobs []job
	seen := map[string]bool{}
	for bi, b := range blocks {
		for _, f := range b.Funds {
			for _, a := range b.Amounts {
				for _, csv := range b.CSVs {
					k := fmt.Sprintf("%s/%d/%d/%v/%v", f, a, csv, b.Fees, b.Secrets)
					if seen[k] {
						continue
					}
					seen[k] = true
					jobs = append(jobs, job{f, a, csv, b.Fees, b.Secrets, fmt.Sprintf("lq/%d/%d", bi, len(jobs))})
				}
			}
		}
	}
	var wg sync.WaitGroup
	ch := make(chan job)
	var spends, openings int
	var cmu sync.Mutex
	for i := 0; i < 8; i++ {
		wg.Add(1)
		go func() {
			defer wg.Done()
			for j := range ch {
				o := c03LqOpen(acc, j.fund, j.amount, j.csv, j.seed)
				if o == nil {
					continue
				}
				n := 0
				for _, path := range c03Paths {
					for _, fee := range j.fees {
						secrets := []string{"right"}
						if j.wrong {
							secrets = c03Secrets(path)
						}
						for _, s := range secrets {
							c := c03LqCase{o: o, path: path, fee: fee, secret: s}
							if o.excluded {
								if s == "right" && fee == "100" {
									c03LqSpend(acc, c, false)
									n++
								}
								continue
							}
							c03LqSpend(acc, c, true)
							n++
							if j.fund.Layout == "CSF" && fee == "100" && s == "right" && j.fund.NIn == 1 {
								acc.sample(c.String())
							}
						}
					}
				}
				cmu.Lock()
				spends += n
				openings++
				cmu.Unlock()
			}
		}()
	}
	for _, j := range jobs {
		ch <- j
	}
	close(ch)
	wg.Wait()
	vstats := c03LqValidator(acc, tier)
	var bl []any
	for _, b := range blocks {
		var fs []string
		for _, f := range b.Funds {
			fs = append(fs, f.String())
		}
		bl = append(bl, map[string]any{"block": b.Name, "funding(S=swap,T=second identical swap output,D=swap script with amount+7,C=change,F=fee)": fs, "amounts": b.Amounts, "csv": b.CSVs, "fee_answers": b.Fees, "wrong_secrets": b.Secrets})
	}
	return map[string]any{"openings_built": openings, "spends_built": spends, "validator": vstats,
		"alphabets": map[string]any{"blocks(each a full product)": bl, "paths": c03Paths}}
}

// ---------------------------------------------------------------- validator comparison (C01)

var c03LqValidatorVariants = []string{"ok", "amount+1", "amount-1", "wrong_asset", "forged_asset_disclosure", "wrong_blinding_key",
	"script_other_hash", "script_keys_swapped", "script_other_csv", "explicit_ok", "explicit_amount+1", "explicit_wrong_asset", "dup", "decoy_before", "decoy_after", "no_swap_output"}

// c03LqValidator runs the REAL LiquidOnChain.ValidateTx on valid and invalid
// openings and compares with the C01 predicate evaluated on ground truth:
// some output pays exactly the amount, in the policy asset, to the script.
func c03LqValidator(acc *c03Acc, tier string) map[string]any {
	amounts := []uint64{1_000_000}
	layouts := []string{"SCF", "CSF"}
	if tier == "thorough" {
		amounts = c03Amounts
		layouts = []string{"SCF", "CSF", "CFS", "SF"}
	}
	type job struct {
		variant, layout string
		amount          uint64
		n               int
	}
	var jobs []job
	for _, v := range c03LqValidatorVariants {
		for _, l := range layouts {
			for _, a := range amounts {
				jobs = append(jobs, job{v, l, a, len(jobs)})
			}
		}
	}
	var mu sync.Mutex
	stats := map[string]int{}
	var wg sync.WaitGroup
	ch := make(chan job)
	loc := onchain.NewLiquidOnChain(nil, c03Net)
	for i := 0; i < 8; i++ {
		wg.Add(1)
		go func() {
			defer wg.Done()
			for j := range ch {
				seed := fmt.Sprintf("val/%d", j.n)
				taker, maker := c03Key(seed+"/taker"), c03Key(seed+"/maker")
				_, hashHex := c03Preimage(seed)
				blind := c03Key(seed + "/blind")
				p := swap.OpeningParams{TakerPubkey: c03Pub(taker), MakerPubkey: c03Pub(maker), ClaimPaymentHash: hashHex, Amount: j.amount, CSV: 10080, BlindingKey: blind}
				tp, mp := taker.PubKey().SerializeCompressed(), maker.PubKey().SerializeCompressed()
				want := c03P2wsh(c03RefScript(tp, mp, c03MustHex(hashHex), 10080))
				sw := c03LqSpec{Kind: 'S', Asset: c03PolicyAsset(), Value: j.amount, Script: want, BlindPub: blind.PubKey().SerializeCompressed()}
				var extra []c03LqSpec
				extraBefore := false
				switch j.variant {
				case "amount+1":
					sw.Value++
				case "amount-1":
					sw.Value--
				case "wrong_asset":
					sw.Asset = bytes.Repeat([]byte{0x42}, 32)
				case "forged_asset_disclosure":
					sw.Asset = bytes.Repeat([]byte{0x42}, 32)
					sw.DisclosedAsset = c03PolicyAsset()
				case "wrong_blinding_key":
					sw.BlindPub = c03Key(seed + "/otherblind").PubKey().SerializeCompressed()
				case "script_other_hash":
					_, h2 := c03Preimage(seed + "/other")
					sw.Script = c03P2wsh(c03RefScript(tp, mp, c03MustHex(h2), 10080))
				case "script_keys_swapped":
					sw.Script = c03P2wsh(c03RefScript(mp, tp, c03MustHex(hashHex), 10080))
				case "script_other_csv":
					sw.Script = c03P2wsh(c03RefScript(tp, mp, c03MustHex(hashHex), 10079))
				case "explicit_ok":
					sw.BlindPub = nil
				case "explicit_amount+1":
					sw.BlindPub = nil
					sw.Value++
				case "explicit_wrong_asset":
					sw.BlindPub = nil
					sw.Asset = bytes.Repeat([]byte{0x42}, 32)
				case "dup":
					extra = []c03LqSpec{sw}
				case "decoy_before", "decoy_after":
					d := sw
					d.Kind = 'D'
					d.Value += 7
					extra = []c03LqSpec{d}
					extraBefore = j.variant == "decoy_before"
				}
				change := c03LqSpec{Kind: 'C', Asset: c03PolicyAsset(), Value: 70_001, Script: append([]byte{0x00, 0x14}, c03H("chg", seed)[:20]...), BlindPub: c03Key(seed + "/chg").PubKey().SerializeCompressed()}
				feeOut := c03LqSpec{Kind: 'F', Asset: c03PolicyAsset(), Value: 50, Script: []byte{}}
				var specs []c03LqSpec
				for _, k := range j.layout {
					switch k {
					case 'S':
						if j.variant == "no_swap_output" {
							continue
						}
						if extraBefore {
							specs = append(specs, extra...)
						}
						specs = append(specs, sw)
						if !extraBefore {
							specs = append(specs, extra...)
						}
					case 'C':
						specs = append(specs, change)
					case 'F':
						specs = append(specs, feeOut)
					}
				}
				truthTx, err := c03LqBuildTx(seed, 1, specs)
				if err != nil {
					acc.bug(fmt.Sprintf("validator variant %s: build: %v", j.variant, err))
					continue
				}
				truth := false
				for _, o := range truthTx.Outs {
					if bytes.Equal(o.Script, want) && o.Value == j.amount && bytes.Equal(o.Asset, c03PolicyAsset()) && !o.Forged {
						truth = true
					}
				}
				ok, verr := loc.ValidateTx(&p, truthTx.Hex)
				acc.step(1)
				mu.Lock()
				stats[fmt.Sprintf("%s:truth=%v:validator=%v", j.variant, truth, ok)]++
				mu.Unlock()
				switch {
				case ok && !truth:
					acc.fail("C01", "liquid_validator_accepts_invalid:"+j.variant, fmt.Sprintf("layout=%s amount=%d: ValidateTx=true (err=%v) although no output pays exactly %d of the policy asset to the swap script; tx %s...", j.layout, j.amount, verr, j.amount, truthTx.Hex[:80]))
				case ok && truth:
					acc.out("c01:liquid_validator:accepts_valid")
				case !ok && !truth:
					acc.out("c01:liquid_validator:rejects_invalid")
				default:
					acc.out("c01:liquid_validator:rejects_valid(information)")
					acc.note("c01:liquid_validator_rejects_valid:" + j.variant)
				}
			}
		}()
	}
	for _, j := range jobs {
		ch <- j
	}
	close(ch)
	wg.Wait()
	return map[string]any{"cases": len(jobs), "variants": c03LqValidatorVariants, "layouts": layouts, "amounts": amounts, "verdicts": stats}
}
