package checks

// Liquid side shared by C03 and C08: a fake wallet.Wallet that builds REAL
// confidential Elements transactions (go-elements), ground-truth records of
// every output it creates, and a strict acceptance check for spends.

import (
	"bytes"
	"crypto/sha256"
	"encoding/hex"
	"errors"
	"fmt"
	"sync"

	"github.com/btcsuite/btcd/btcec/v2"
	"github.com/btcsuite/btcd/txscript"
	"github.com/elementsproject/peerswap/swap"
	"github.com/vulpemventures/go-elements/address"
	"github.com/vulpemventures/go-elements/confidential"
	"github.com/vulpemventures/go-elements/elementsutil"
	"github.com/vulpemventures/go-elements/network"
	"github.com/vulpemventures/go-elements/payment"
	"github.com/vulpemventures/go-elements/transaction"
	secp256k1 "github.com/vulpemventures/go-secp256k1-zkp"
)

var c03Net = &network.Regtest

// c03PolicyAsset: 32 bytes in transaction byte order.
func c03PolicyAsset() []byte {
	b, _ := hex.DecodeString(c03Net.AssetID)
	return elementsutil.ReverseBytes(b)
}

func c03H(parts ...string) []byte {
	h := sha256.New()
	for _, p := range parts {
		h.Write([]byte(p))
		h.Write([]byte{0})
	}
	return h.Sum(nil)
}

// c03LqOutTruth is the ground truth of one output the fake wallet created.
type c03LqOutTruth struct {
	Kind      byte // 'S' swap, 'C' change, 'F' fee, 'D' decoy (right script, wrong amount), 'X' other
	Asset     []byte
	Value     uint64
	Abf, Vbf  []byte
	BlindedTo []byte // compressed pubkey; nil = explicit
	Script    []byte
	Forged    bool // range-proof message discloses another asset than the committed one
}

type c03LqTxTruth struct {
	Tx   *transaction.Transaction
	Hex  string
	Outs []c03LqOutTruth
}

func (t *c03LqTxTruth) indexOf(kind byte) int {
	for i, o := range t.Outs {
		if o.Kind == kind {
			return i
		}
	}
	return -1
}

// c03LqSpec describes one output to build.
type c03LqSpec struct {
	Kind           byte
	Asset          []byte // committed asset (32 bytes)
	DisclosedAsset []byte // asset written into the range-proof message (nil = Asset)
	Value          uint64
	Script         []byte
	BlindPub       []byte // nil = explicit
}

var c03ZeroScalar = make([]byte, 32)

// c03LqBuildTx builds a transaction with nIn dummy inputs (explicit policy
// asset prevouts, unknown to anyone) and the given outputs.
func c03LqBuildTx(seed string, nIn int, specs []c03LqSpec) (*c03LqTxTruth, error) {
	tx := transaction.NewTx(2)
	for i := 0; i < nIn; i++ {
		in := transaction.NewTxInput(c03H("lq/prev", seed, fmt.Sprint(i)), uint32(i))
		in.Sequence = 0xfffffffd
		in.Witness = transaction.TxWitness{bytes.Repeat([]byte{0x30}, 72), c03Key("lq/walletkey").PubKey().SerializeCompressed()}
		tx.AddInput(in)
	}
	truth := &c03LqTxTruth{}
	for i, sp := range specs {
		tag := fmt.Sprintf("%s/%d", seed, i)
		if sp.BlindPub == nil {
			vb, err := elementsutil.ValueToBytes(sp.Value)
			if err != nil {
				return nil, err
			}
			out := transaction.NewTxOutput(append([]byte{0x01}, sp.Asset...), vb, sp.Script)
			tx.AddOutput(out)
			truth.Outs = append(truth.Outs, c03LqOutTruth{Kind: sp.Kind, Asset: sp.Asset, Value: sp.Value, Abf: c03ZeroScalar, Vbf: c03ZeroScalar, Script: sp.Script})
			continue
		}
		abf := c03H("abf", tag)
		vbf := c03H("vbf", tag)
		eph, _ := btcec.PrivKeyFromBytes(c03H("eph", tag))
		ac, err := confidential.AssetCommitment(append([]byte{}, sp.Asset...), abf)
		if err != nil {
			return nil, err
		}
		vc, err := confidential.ValueCommitment(sp.Value, ac, vbf)
		if err != nil {
			return nil, err
		}
		nonce, err := confidential.NonceHash(sp.BlindPub, eph.Serialize())
		if err != nil {
			return nil, err
		}
		var vbf32 [32]byte
		copy(vbf32[:], vbf)
		var rp []byte
		forged := sp.DisclosedAsset != nil && !bytes.Equal(sp.DisclosedAsset, sp.Asset)
		if !forged {
			rp, err = confidential.RangeProof(confidential.RangeProofArgs{
				Value: sp.Value, Nonce: nonce, Asset: append(make([]byte, 0, 64), sp.Asset...), AssetBlindingFactor: abf,
				ValueBlindFactor: vbf32, ValueCommit: vc, ScriptPubkey: sp.Script, Exp: 0, MinBits: 52,
			})
		} else {
			rp, err = c03ForgedRangeProof(sp.Value, nonce, sp.DisclosedAsset, c03H("forged-abf", tag), vbf32, vc, ac, sp.Script)
		}
		if err != nil {
			return nil, err
		}
		inA := make([][]byte, nIn)
		inB := make([][]byte, nIn)
		for k := range inA {
			inA[k] = c03PolicyAsset()
			inB[k] = c03ZeroScalar
		}
		var sj []byte
		if bytes.Equal(sp.Asset, c03PolicyAsset()) {
			p, ok := confidential.SurjectionProof(confidential.SurjectionProofArgs{
				OutputAsset: append([]byte{}, sp.Asset...), OutputAssetBlindingFactor: abf,
				InputAssets: inA, InputAssetBlindingFactors: inB, Seed: c03H("sj", tag),
			})
			if !ok {
				return nil, errors.New("surjection proof failed")
			}
			sj = p
		}
		tx.AddOutput(&transaction.TxOutput{Asset: ac, Value: vc, Script: sp.Script, Nonce: eph.PubKey().SerializeCompressed(), RangeProof: rp, SurjectionProof: sj})
		truth.Outs = append(truth.Outs, c03LqOutTruth{Kind: sp.Kind, Asset: sp.Asset, Value: sp.Value, Abf: abf, Vbf: vbf, BlindedTo: sp.BlindPub, Script: sp.Script, Forged: forged})
	}
	hx, err := tx.ToHex()
	if err != nil {
		return nil, err
	}
	// what everybody else sees is the serialised form
	parsed, err := transaction.NewTxFromHex(hx)
	if err != nil {
		return nil, err
	}
	truth.Tx = parsed
	truth.Hex = hx
	return truth, nil
}

// c03ForgedRangeProof: range proof whose message claims (asset, abf) that do
// not belong to the committed generator (taken from /repo/onchain/liquid_test.go).
func c03ForgedRangeProof(amount uint64, nonce [32]byte, disclosedAsset, disclosedAbf []byte, vbf [32]byte, valueCommitment, assetCommitment, script []byte) ([]byte, error) {
	ctx, _ := secp256k1.ContextCreate(secp256k1.ContextBoth)
	defer secp256k1.ContextDestroy(ctx)
	commitment, err := secp256k1.CommitmentParse(ctx, valueCommitment)
	if err != nil {
		return nil, err
	}
	generator, err := secp256k1.GeneratorParse(ctx, assetCommitment)
	if err != nil {
		return nil, err
	}
	msg := append(append([]byte{}, disclosedAsset...), disclosedAbf...)
	return secp256k1.RangeProofSign(ctx, 1, commitment, vbf, nonce, 0, 52, amount, msg, script, generator)
}

// ---------------------------------------------------------------- fake wallet.Wallet

// c03LqFund: Layout is a string over 'S' swap output, 'C' change, 'F' fee,
// 'D' decoy (swap script, amount+7), 'T' second identical swap output;
// Explicit makes the swap output(s) unblinded.
type c03LqFund struct {
	Layout   string
	NIn      int
	Explicit bool
}

func (f c03LqFund) String() string {
	s := fmt.Sprintf("%s/in%d", f.Layout, f.NIn)
	if f.Explicit {
		s += "/explicit"
	}
	return s
}

type c03LqAddr struct {
	Addr   string
	Script []byte
	Blind  *btcec.PrivateKey
}

type c03LqWallet struct {
	mu       sync.Mutex
	tag      string
	fund     c03LqFund
	feeMode  string // "err" or a decimal number
	nAddr    int
	nOpen    int
	addrs    []c03LqAddr
	openings []*c03LqTxTruth
	sent     []string
	labels   []string
	feeAsked []int64
}

func (w *c03LqWallet) GetAddress() (string, error) {
	w.mu.Lock()
	defer w.mu.Unlock()
	return w.newAddrLocked().Addr, nil
}

func (w *c03LqWallet) newAddrLocked() c03LqAddr {
	w.nAddr++
	k := c03Key(fmt.Sprintf("lq/%s/addrkey/%d", w.tag, w.nAddr))
	b := c03Key(fmt.Sprintf("lq/%s/addrblind/%d", w.tag, w.nAddr))
	p := payment.FromPublicKey(k.PubKey(), c03Net, b.PubKey())
	a, err := p.ConfidentialWitnessPubKeyHash()
	if err != nil {
		panic(err)
	}
	sc, err := address.ToOutputScript(a)
	if err != nil {
		panic(err)
	}
	ad := c03LqAddr{Addr: a, Script: sc, Blind: b}
	w.addrs = append(w.addrs, ad)
	return ad
}

func (w *c03LqWallet) SendToAddress(string, uint64) (string, error) {
	return "", errors.New("fake liquid wallet: SendToAddress not used")
}
func (w *c03LqWallet) GetBalance() (uint64, error) { return 1 << 52, nil }
func (w *c03LqWallet) Ping() (bool, error)         { return true, nil }
func (w *c03LqWallet) SetLabel(txID, addr, label string) error {
	w.mu.Lock()
	w.labels = append(w.labels, label)
	w.mu.Unlock()
	return nil
}

func (w *c03LqWallet) GetFee(size int64) (uint64, error) {
	w.mu.Lock()
	defer w.mu.Unlock()
	w.feeAsked = append(w.feeAsked, size)
	if w.feeMode == "err" {
		return 0, errors.New("fake liquid wallet: no fee estimate (scenario)")
	}
	var v uint64
	if _, err := fmt.Sscanf(w.feeMode, "%d", &v); err != nil {
		return 0, err
	}
	return v, nil
}

func (w *c03LqWallet) SendRawTx(rawTx string) (string, error) {
	tx, err := transaction.NewTxFromHex(rawTx)
	if err != nil {
		return "", err
	}
	w.mu.Lock()
	w.sent = append(w.sent, rawTx)
	w.mu.Unlock()
	return tx.TxHash().String(), nil
}

// c03LqOpeningSpecs lays out the outputs of an opening transaction.
func c03LqOpeningSpecs(f c03LqFund, swapScript, swapBlindPub []byte, amount uint64, change c03LqAddr) ([]c03LqSpec, uint64) {
	fee := uint64(40 + 10*f.NIn)
	var specs []c03LqSpec
	for i, k := range f.Layout {
		switch k {
		case 'S', 'T':
			sp := c03LqSpec{Kind: byte(k), Asset: c03PolicyAsset(), Value: amount, Script: swapScript, BlindPub: swapBlindPub}
			if f.Explicit {
				sp.BlindPub = nil
			}
			specs = append(specs, sp)
		case 'D':
			sp := c03LqSpec{Kind: 'D', Asset: c03PolicyAsset(), Value: amount + 7, Script: swapScript, BlindPub: swapBlindPub}
			if f.Explicit {
				sp.BlindPub = nil
			}
			specs = append(specs, sp)
		case 'C':
			specs = append(specs, c03LqSpec{Kind: 'C', Asset: c03PolicyAsset(), Value: uint64(70_000 + i), Script: change.Script, BlindPub: change.Blind.PubKey().SerializeCompressed()})
		case 'F':
			specs = append(specs, c03LqSpec{Kind: 'F', Asset: c03PolicyAsset(), Value: fee, Script: []byte{}})
		}
	}
	return specs, fee
}

func (w *c03LqWallet) CreateAndBroadcastTransaction(p *swap.OpeningParams, asset []byte) (string, string, uint64, error) {
	w.mu.Lock()
	defer w.mu.Unlock()
	if len(asset) != 33 || asset[0] != 1 || !bytes.Equal(asset[1:], c03PolicyAsset()) {
		return "", "", 0, fmt.Errorf("fake liquid wallet: unexpected asset %x", asset)
	}
	info, err := address.FromConfidential(p.OpeningAddress)
	if err != nil {
		return "", "", 0, err
	}
	script, err := address.ToOutputScript(p.OpeningAddress)
	if err != nil {
		return "", "", 0, err
	}
	w.nOpen++
	change := w.newAddrLocked()
	specs, fee := c03LqOpeningSpecs(w.fund, script, info.BlindingKey, p.Amount, change)
	truth, err := c03LqBuildTx(fmt.Sprintf("%s/open/%d", w.tag, w.nOpen), w.fund.NIn, specs)
	if err != nil {
		return "", "", 0, err
	}
	w.openings = append(w.openings, truth)
	w.sent = append(w.sent, truth.Hex)
	return truth.Tx.TxHash().String(), truth.Hex, fee, nil
}

func (w *c03LqWallet) takeSent() []string {
	w.mu.Lock()
	defer w.mu.Unlock()
	s := w.sent
	w.sent = nil
	return s
}

func (w *c03LqWallet) addrMark() int { w.mu.Lock(); defer w.mu.Unlock(); return len(w.addrs) }
func (w *c03LqWallet) addrsSince(m int) []c03LqAddr {
	w.mu.Lock()
	defer w.mu.Unlock()
	return append([]c03LqAddr{}, w.addrs[m:]...)
}
func (w *c03LqWallet) lastOpening() *c03LqTxTruth {
	w.mu.Lock()
	defer w.mu.Unlock()
	if len(w.openings) == 0 {
		return nil
	}
	return w.openings[len(w.openings)-1]
}

// ---------------------------------------------------------------- strict acceptance of a spend

// c03LqScriptCheck runs the consensus rules that matter for a spend of
// opening output idx: version / BIP68 with the given number of
// confirmations, then the witness program under the Elements signature hash
// computed over prevValue (the serialised value field of the spent output).
func c03LqScriptCheck(spend *transaction.Transaction, prevScript, prevValue []byte, confs uint32) error {
	if len(spend.Inputs) != 1 {
		return fmt.Errorf("%d inputs", len(spend.Inputs))
	}
	in := spend.Inputs[0]
	if spend.Version >= 2 && in.Sequence&(1<<31) == 0 {
		if in.Sequence&(1<<22) != 0 {
			return errors.New("non-BIP68-final (time based)")
		}
		if need := in.Sequence & 0xffff; need > 0 && confs < need {
			return errors.New("non-BIP68-final")
		}
	}
	if len(prevScript) != 34 || prevScript[0] != 0 || prevScript[1] != 0x20 {
		return errors.New("spent output is not P2WSH")
	}
	if len(in.Script) != 0 {
		return errors.New("non-empty scriptSig on a native witness spend")
	}
	if len(in.Witness) == 0 {
		return errors.New("no witness")
	}
	script := in.Witness[len(in.Witness)-1]
	ctx := &c03SigCtx{Version: spend.Version, Sequence: in.Sequence, SigHash: func(ht txscript.SigHashType) []byte {
		h := spend.HashForWitnessV0(0, script, prevValue, ht)
		return h[:]
	}}
	return c03MiniEval(in.Witness, prevScript[2:], ctx)
}
