package checks

import (
	"context"
	"encoding/json"
	"fmt"
	"os"
	"os/exec"
	"sort"
	"strings"
	"sync"
	"testing"
	"testing/synctest"
	"time"

	"github.com/elementsproject/peerswap/txwatcher"
	"verif/mc"
	"verif/node"
	"verif/sched"
	"verif/scn"
	"verif/vsync"
	"verif/world"
)

// C18 / C19: scheduler-based exploration of the real event handlers with the
// REAL chain watcher on the other side of the callbacks.

type e5Template struct {
	Role     string
	Chain    string
	SwapID   string
	Record   []byte
	TxHex    string
	Annot    []world.OutAnnot
	TakerKey []byte
	Preimage string
	ClaimSat uint64
}

// e5Templates runs the honest protocol (bubble mode) up to the announcement
// and captures the maker's durable record and the opening transaction.
func e5Templates(t *testing.T) []e5Template {
	bubbleMode()
	ps := premiumSetting(t, "e5tpl")
	var out []e5Template
	for _, ch := range []string{"btc", "lbtc"} {
		for _, role := range makers {
			st, ai := roleCfg(role)
			cfg := &scn.Cfg{Name: "tpl", Chain: ch, SwapType: st, AInitiates: ai, Premium: ps}
			synctest.Test(t, func(t *testing.T) {
				x := scn.Init(t, cfg)
				defer x.Finish()
				for _, e := range prefixAnnounced(role) {
					x.Apply(e)
				}
				sm := x.SwapOf(x.A)
				if sm == nil || sm.Data.OpeningTxBroadcasted == nil {
					t.Fatalf("template %s/%s: no announcement (state %v)", role, ch, curState(sm))
				}
				ot := x.W.Chain(ch).Get(sm.Data.OpeningTxBroadcasted.TxId)
				tpl := e5Template{Role: role, Chain: ch, SwapID: sm.SwapId.String(), Record: []byte(x.A.D.Store.Raw()[sm.SwapId.String()]),
					TxHex: ot.Hex, Annot: ot.Annot, Preimage: sm.Data.ClaimPreimage, ClaimSat: sm.Data.GetClaimAmount()}
				if b := x.SwapOf(x.B); b != nil {
					tpl.TakerKey = b.Data.PrivkeyBytes
				}
				out = append(out, tpl)
			})
		}
	}
	return out
}

type e5Case struct {
	Tpl     e5Template
	Msg     string // cancel | coop_bad | coop_good | invalid | none
	Depth   string // notyet | just | long
	Pay     bool
	Rpc     bool
	Recover bool
}

func (c e5Case) Name() string {
	return fmt.Sprintf("%s/%s/msg=%s/csv=%s/pay=%v/rpc=%v/recover=%v", c.Tpl.Role, c.Tpl.Chain, c.Msg, c.Depth, c.Pay, c.Rpc, c.Recover)
}

func e5CSV(chain string) int {
	if chain == "btc" {
		return 1008
	}
	return 10080
}

type e5Inst struct {
	w       *world.World
	n       *node.Node
	chain   *world.Chain
	watcher *txwatcher.BlockchainRpcTxWatcher
	txid    string
	cancel  context.CancelFunc
}

func e5Build(t testing.TB, c e5Case) *e5Inst {
	w := world.New()
	lnA := w.AddLN(scn.IDA, false)
	lnB := w.AddLN(scn.IDB, true)
	for _, s := range []string{scn.Scid, scn.Scid2} {
		lnA.Channels = append(lnA.Channels, &world.Channel{Scid: s, Peer: scn.IDB, Spendable: 5_000_000_000, Receivable: 5_000_000_000})
		lnB.Channels = append(lnB.Channels, &world.Channel{Scid: s, Peer: scn.IDA, Spendable: 5_000_000_000, Receivable: 5_000_000_000})
	}
	chain := w.Chain(c.Tpl.Chain)
	txid, err := chain.Submit(c.Tpl.TxHex, scn.IDA, c.Tpl.Annot, "opening")
	if err != nil {
		t.Fatalf("submit opening: %v", err)
	}
	csv := e5CSV(c.Tpl.Chain)
	// depth at the time the node (re)registers its CSV watch: one block short of maturity
	chain.MineQuiet(csv - 1)
	if _, err := lnA.CreateInvoice(c.Tpl.ClaimSat*1000, c.Tpl.Preimage, c.Tpl.SwapID+"_claim", 86400, 503); err != nil {
		t.Fatalf("invoice: %v", err)
	}
	d := node.NewDurable(w, scn.IDA)
	d.Store.Records[c.Tpl.SwapID] = append([]byte{}, c.Tpl.Record...)
	d.Store.Order = []string{c.Tpl.SwapID}
	d.Store.Writes++
	ctx, cancel := context.WithCancel(context.Background())
	confs := uint32(3)
	if c.Tpl.Chain != "btc" {
		confs = 2
	}
	watcher := txwatcher.NewBlockchainRpcTxWatcher(ctx, &world.RPCView{C: chain, Node: scn.IDA}, confs)
	wc := node.WalletCfg{Balance: 100_000_000}
	wc2 := wc
	cfg := node.Cfg{ID: scn.IDA, Btc: true, Lbtc: true, Premium: e5Prem, BtcCfg: &wc, LbtcCfg: &wc2}
	if c.Tpl.Chain == "btc" {
		cfg.BtcWatcher = watcher
	} else {
		cfg.LbtcWatcher = watcher
	}
	n := node.Boot(w, cfg, d, 1)
	inst := &e5Inst{w: w, n: n, chain: chain, watcher: watcher, txid: txid, cancel: cancel}
	if !c.Recover {
		n.RecoverPlain()
		sched.WaitSetupIdle() // the watcher's asynchronous first look must see the chain as it is now
	}
	// the chain moves on after the registration; nobody has looked yet
	switch c.Depth {
	case "notyet", "flips":
	case "just":
		chain.MineQuiet(1)
	case "long":
		chain.MineQuiet(6)
	}
	return inst
}

func e5Msg(c e5Case) (string, []byte) {
	id := c.Tpl.SwapID
	switch c.Msg {
	case "cancel":
		b, _ := json.Marshal(map[string]any{"swap_id": id, "message": "cancel"})
		return "a45f", b
	case "coop_bad":
		b, _ := json.Marshal(map[string]any{"swap_id": id, "message": "x", "privkey": strings.Repeat("11", 32)})
		return "a461", b
	case "coop_good":
		b, _ := json.Marshal(map[string]any{"swap_id": id, "message": "x", "privkey": fmt.Sprintf("%x", c.Tpl.TakerKey)})
		return "a461", b
	case "invalid":
		b, _ := json.Marshal(map[string]any{"swap_id": id, "message": "x", "privkey": "zz"})
		return "a461", b
	}
	return "", nil
}

func e5Harness(t testing.TB, c e5Case) sched.Harness {
	return sched.Harness{Name: c.Name(), Setup: func() ([]sched.NamedFunc, func(e *sched.Exec) []string, func()) {
		inst := e5Build(t, c)
		var th []sched.NamedFunc
		if c.Recover {
			th = append(th, sched.NamedFunc{Name: "recover", F: func() { inst.n.RecoverPlain() }})
		}
		if ty, payload := e5Msg(c); ty != "" {
			h := inst.n.Handler()
			th = append(th, sched.NamedFunc{Name: "msg:" + c.Msg, F: func() { _ = h(scn.IDB, ty, payload) }})
		}
		th = append(th, sched.NamedFunc{Name: "block", F: func() {
			if c.Depth == "flips" {
				// the block that matures the CSV arrives while the other threads run
				sched.Yield("mine")
				inst.chain.MineQuiet(1)
			}
			_ = inst.watcher.HandleCsvTx(uint64(inst.chain.Tip()))
		}})
		if c.Pay {
			var payreqs []string
			for _, inv := range inst.w.LN[scn.IDA].Invoices {
				payreqs = append(payreqs, inv.Payreq)
			}
			th = append(th, sched.NamedFunc{Name: "payment", F: func() {
				for _, pr := range payreqs {
					_, _ = inst.w.LN[scn.IDB].Pay(nil, pr, scn.Scid, 0, "ln.payclaim")
				}
			}})
		}
		if c.Rpc {
			th = append(th, sched.NamedFunc{Name: "rpc", F: func() {
				_, _ = inst.n.Svc.ListActiveSwaps()
				_, _ = inst.n.Svc.GetSwap(c.Tpl.SwapID)
				_, _ = inst.n.Svc.ListSwaps()
			}})
		}
		check := func(e *sched.Exec) []string {
			var problems []string
			sm := inst.n.Swaps()[0]
			matured := c.Depth != "notyet"
			if c.Depth == "flips" {
				matured = inst.chain.Confs(inst.txid) >= e5CSV(c.Tpl.Chain)
			}
			paid := false
			for _, inv := range inst.w.LN[scn.IDA].Invoices {
				paid = paid || inv.Paid
			}
			if matured && !paid && !sm.IsFinished() {
				// nothing must be lost: the next block notification has to lead to the refund
				inst.chain.MineQuiet(1)
				_ = inst.watcher.HandleCsvTx(uint64(inst.chain.Tip()))
				sm = inst.n.Swaps()[0]
				if !sm.IsFinished() {
					problems = append(problems, "csv_matured_but_no_refund_after_next_block:state="+stateSuffix(string(sm.Current)))
				}
			}
			return problems
		}
		return th, check, func() { inst.cancel(); inst.n.Kill() }
	}}
}

func e5Cases(tpls []e5Template, tier string) []e5Case {
	var out []e5Case
	for _, tp := range tpls {
		for _, msg := range []string{"cancel", "coop_bad", "coop_good", "invalid", "none"} {
			for _, depth := range []string{"notyet", "flips", "just", "long"} {
				for _, pay := range []bool{false, true} {
					for _, rpc := range []bool{false, true} {
						if rpc && (pay || msg == "none") {
							continue
						}
						if tier != "thorough" && (tp.Chain == "lbtc" || msg == "invalid" || msg == "none" || (rpc && msg != "cancel")) {
							continue
						}
						out = append(out, e5Case{Tpl: tp, Msg: msg, Depth: depth, Pay: pay, Rpc: rpc})
					}
				}
			}
		}
		// recovery racing with an incoming message
		for _, msg := range []string{"cancel", "coop_bad"} {
			if tier != "thorough" && tp.Chain == "lbtc" {
				continue
			}
			out = append(out, e5Case{Tpl: tp, Msg: msg, Depth: "just", Recover: true})
		}
	}
	return out
}

type e5Report struct {
	Case       string                         `json:"case"`
	Executions int                            `json:"executions"`
	MaxPoints  int                            `json:"max_points"`
	Outcomes   map[string]int                 `json:"outcomes"`
	Deadlocks  map[string]*sched.DeadlockCase `json:"deadlocks"`
	Problems   map[string][]int               `json:"problems"`
	Internal   []string                       `json:"internal"`
	Capped     bool                           `json:"capped"`
	Overflows  int                            `json:"overflows"`
	Samples    [][]int                        `json:"samples"`
}

// TestE5Worker explores a slice of the cases (worker process).
func TestE5Worker(t *testing.T) {
	spec := os.Getenv("VERIF_E5")
	if spec == "" {
		t.Skip("worker entry point")
	}
	var shard, of, bound, maxExec int
	fmt.Sscanf(spec, "%d/%d/%d/%d", &shard, &of, &bound, &maxExec)
	tpls := e5Templates(t)
	e5SetPremium(premiumSetting(t, "e5"))
	sched.Install()
	world.YieldHook = sched.Yield
	world.Spawn = vsync.Go
	cases := e5Cases(tpls, mc.Tier())
	var reps []e5Report
	for i, c := range cases {
		if i%of != shard {
			continue
		}
		if f := os.Getenv("VERIF_E5_CASE"); f != "" && !strings.Contains(c.Name(), f) {
			continue
		}
		inst := c
		res := sched.Explore(e5Harness(t, inst), bound, maxExec, func(e *sched.Exec) string { return "completed" })
		reps = append(reps, e5Report{Case: c.Name(), Executions: res.Executions, MaxPoints: res.MaxPoints, Outcomes: res.Outcomes, Deadlocks: res.Deadlocks,
			Problems: res.Problems, Internal: res.Internal, Capped: res.Capped, Overflows: res.Overflows, Samples: res.SampleScheds})
	}
	b, _ := json.Marshal(reps)
	if err := os.WriteFile(os.Getenv("VERIF_E5_OUT"), b, 0o644); err != nil {
		t.Fatal(err)
	}
}

func TestC18(t *testing.T) {
	start := time.Now()
	bound, maxExec := 2, 1200
	if mc.Tier() == "thorough" {
		bound, maxExec = 3, 12000
	}
	nw := workers()
	reps := make([][]e5Report, nw)
	errs := make([]string, nw)
	var wg sync.WaitGroup
	for i := 0; i < nw; i++ {
		wg.Add(1)
		go func(i int) {
			defer wg.Done()
			out := fmt.Sprintf("%s/e5-%d.json", workDir, i)
			cmd := exec.Command(os.Args[0], "-test.run", "^TestE5Worker$", "-test.timeout", "0")
			cmd.Env = append(os.Environ(), fmt.Sprintf("VERIF_E5=%d/%d/%d/%d", i, nw, bound, maxExec), "VERIF_E5_OUT="+out)
			ob, err := cmd.CombinedOutput()
			b, rerr := os.ReadFile(out)
			if rerr != nil {
				errs[i] = fmt.Sprintf("worker %d failed: %v\n%s", i, err, tail(string(ob), 3000))
				return
			}
			_ = json.Unmarshal(b, &reps[i])
		}(i)
	}
	wg.Wait()
	rep := &EnumReport{ID: "C18", Level: "model_checking", Start: start, Exhaustive: true, Outcomes: map[string]int{}, Extra: map[string]any{}}
	rep.Rule = fmt.Sprintf("stateless depth-first exploration of all thread schedules with at most %d preemptions (cooperative scheduler over lock / spawn / wait / environment-call points) of harnesses {peer message (cancel | coop_close bad key | coop_close good key | invalid) || block notification (real BlockchainRpcTxWatcher.HandleCsvTx) || payment notification || RPC reads || RecoverSwaps} on the real swap service restored from a persisted maker record, for chain states CSV not yet / just / long matured; deadlock = no enabled thread while some are unfinished", bound)
	var caseSummaries []map[string]any
	distinct := map[string]bool{}
	for i, rs := range reps {
		if errs[i] != "" {
			rep.Internal = append(rep.Internal, errs[i])
		}
		for _, r := range rs {
			rep.Transitions += r.Executions
			for k, v := range r.Outcomes {
				rep.Outcomes[k] += v
				distinct[r.Case+"|"+k] = true
			}
			rep.Internal = append(rep.Internal, r.Internal...)
			if r.Capped || r.Overflows > 0 {
				rep.Exhaustive = false
			}
			if len(caseSummaries) < 400 {
				caseSummaries = append(caseSummaries, map[string]any{"case": r.Case, "schedules": r.Executions, "max_points": r.MaxPoints, "capped": r.Capped, "deadlocks": len(r.Deadlocks)})
			}
			if len(rep.Samples) < 4 && len(r.Samples) > 0 {
				rep.Samples = append(rep.Samples, map[string]any{"case": r.Case, "schedule_choices": r.Samples[len(r.Samples)-1]})
			}
			for k, d := range r.Deadlocks {
				rep.Violations = append(rep.Violations, mc.Violation{Property: "C18", Key: "deadlock:" + k,
					Detail: fmt.Sprintf("case %s, schedule %v:\n%s", r.Case, d.Schedule, strings.Join(d.Waiting, "\n"))})
			}
			for k, s := range r.Problems {
				rep.Violations = append(rep.Violations, mc.Violation{Property: "C18", Key: k, Detail: fmt.Sprintf("case %s, schedule %v", r.Case, s)})
			}
		}
	}
	sort.Slice(caseSummaries, func(i, j int) bool { return caseSummaries[i]["case"].(string) < caseSummaries[j]["case"].(string) })
	rep.States = len(distinct)
	rep.Extra["cases"] = caseSummaries
	rep.Extra["preemption_bound"] = bound
	rep.Extra["max_schedules_per_case"] = maxExec
	// the goroutine structure of the REAL rpc watcher (block poller, per-registration observers, the
	// dispatcher between them) under virtual time, with callbacks that take a while
	wv, wcov := c18Watchers()
	rep.Violations = append(rep.Violations, wv...)
	if l, ok := wcov["internal"].([]string); ok {
		rep.Internal = append(rep.Internal, l...)
		delete(wcov, "internal")
	}
	for k, v := range wcov {
		rep.Extra[k] = v
	}
	rep.Need = []string{"completed"}
	rep.Assumptions = []string{"interleavings with more preemptions than the bound are not explored", "goroutines inside the simulated services do not exist; the watcher's polling loops are replaced by direct HandleCsvTx calls", mc.CommonAssumptions[0]}
	finishEnum(t, rep)
}

// c18Watchers: block histories (blocks, reorgs, faults, registrations at any time) against the real
// BlockchainRpcTxWatcher with all its goroutines running under virtual time and with callbacks that
// take 2.5 s; 8 s after the last event nobody may still be waiting for a lock of the watcher.
func c18Watchers() ([]mc.Violation, map[string]any) {
	out := fmt.Sprintf("%s/c18w-%d.json", workDir, os.Getpid())
	cmd := exec.Command(os.Args[0], "-test.run", "^TestC20$", "-test.timeout", "0")
	cmd.Env = append(os.Environ(), "VERIF_C20_ONLY=rpc-", "VERIF_C20_SLOWCB=1", "VERIF_C20_EXPORT="+out)
	ob, err := cmd.CombinedOutput()
	b, rerr := os.ReadFile(out)
	cov := map[string]any{}
	if rerr != nil {
		cov["internal"] = []string{fmt.Sprintf("c18 watcher sub-check failed: %v\n%s", err, tail(string(ob), 3000))}
		return nil, cov
	}
	_ = os.Remove(out)
	var rep struct {
		Violations []mc.Violation   `json:"violations"`
		States     int              `json:"states"`
		Executions int              `json:"executions"`
		Families   []map[string]any `json:"families"`
		Internal   []string         `json:"internal"`
		Exhaustive bool             `json:"exhaustive"`
	}
	_ = json.Unmarshal(b, &rep)
	var vs []mc.Violation
	for _, v := range rep.Violations {
		if i := strings.Index(v.Key, "block_dispatcher_dead:"); i >= 0 {
			vs = append(vs, mc.Violation{Property: "C18", Key: "deadlock:watcher:" + v.Key[:i] + v.Key[i:], Detail: v.Detail, History: v.History, Scenario: "watcher:" + v.Scenario})
		}
		if i := strings.Index(v.Key, "goroutine_waits_for_watcher_lock_forever:"); i >= 0 {
			vs = append(vs, mc.Violation{Property: "C18", Key: "deadlock:watcher:" + v.Key[i+len("goroutine_waits_for_watcher_lock_forever:"):], Detail: v.Detail, History: v.History, Scenario: "watcher:" + v.Scenario})
		}
	}
	if len(rep.Internal) > 0 {
		cov["internal"] = rep.Internal
	}
	cov["watcher_subcheck"] = map[string]any{"rule": "all block histories of the rpc-watcher families (see C20) with callbacks that take 2.5 s of virtual time, so that blocks, reorgs and registrations arrive while a callback runs; 8 s after the last event no goroutine may wait for a watcher lock", "states": rep.States, "executions": rep.Executions, "exhaustive": rep.Exhaustive}
	return vs, cov
}
