package checks

// C27 — premiums follow the configured rate and match what peer-sync advertises.
//
//	(a) premium.PPM.Compute / premium.Setting.Compute on an amount x rate grid against a
//	    math/big reference (amount*rate/10^6 truncated toward zero);
//	(b) breadth-first exploration of operation sequences on the REAL premium.Setting over a
//	    real bbolt file against a reference persistent map;
//	(c) for every state reached in (b): the four rates that the real peersync.PeerSync puts
//	    into the capability message for a peer equal Setting.GetRate for that peer.

import (
	"context"
	"crypto/sha256"
	"encoding/hex"
	"encoding/json"
	"fmt"
	"math/big"
	"os"
	"path/filepath"
	"sort"
	"strings"
	"sync"
	"testing"
	"time"

	"github.com/elementsproject/peerswap/messages"
	"github.com/elementsproject/peerswap/peersync"
	"github.com/elementsproject/peerswap/premium"
	"go.etcd.io/bbolt"
	"verif/mc"
	"verif/vsync"
)

// ---------------------------------------------------------------- (a) compute grid

const c27MoneySupplySat uint64 = 2_100_000_000_000_000 // 21*10^14

func c27Amounts() []uint64 {
	// ascending, so that the first failing case of a class is the smallest one
	return []uint64{0, 1, 999, 1000, 999_999, 1_000_000, 1_000_001, 100_000_000, 1 << 32,
		9_223_372_036_854, 9_223_372_036_855, c27MoneySupplySat, 1 << 62, 1<<63 - 1, 1 << 63, 1<<64 - 1}
}

func c27Rates() []int64 {
	return []int64{-1_000_000, -999_999, -2000, -1, 0, 1, 999, 1000, 2000, 999_999, 1_000_000}
}

func c27Sign(v int64) string {
	switch {
	case v < 0:
		return "neg"
	case v > 0:
		return "pos"
	}
	return "zero"
}

// c27RefPremium is the statement: amount times rate divided by 10^6, truncated toward zero.
func c27RefPremium(amt uint64, ppm int64) (*big.Int, bool) {
	p := new(big.Int).Mul(new(big.Int).SetUint64(amt), big.NewInt(ppm))
	fits := p.IsInt64()
	return p.Quo(p, big.NewInt(1_000_000)), fits // Quo truncates toward zero
}

func c27Compute(rep *EnumReport, dir string) {
	os.MkdirAll(dir, 0o755)
	defer os.RemoveAll(dir)
	db, err := bbolt.Open(filepath.Join(dir, "grid.db"), 0o600, &bbolt.Options{NoSync: true, NoFreelistSync: true})
	if err != nil {
		rep.Internal = append(rep.Internal, "open grid db: "+err.Error())
		return
	}
	defer db.Close()
	set, err := premium.NewSetting(db)
	if err != nil {
		rep.Internal = append(rep.Internal, "grid setting: "+err.Error())
		return
	}
	type dev struct {
		Amount uint64 `json:"amount_sat"`
		PPM    int64  `json:"ppm"`
		Got    int64  `json:"got"`
		Want   string `json:"want"`
	}
	var unjudged []dev
	var smallestUnjudged *dev
	for _, amt := range c27Amounts() {
		for _, ppm := range c27Rates() {
			want, fits := c27RefPremium(amt, ppm)
			judged := amt <= c27MoneySupplySat
			for _, via := range []string{"PPM.Compute", "Setting.Compute"} {
				var got int64
				if via == "PPM.Compute" {
					got = premium.NewPPM(ppm).Compute(amt)
				} else {
					r, err := premium.NewPremiumRate(premium.BTC, premium.SwapOut, premium.NewPPM(ppm))
					if err == nil {
						err = set.SetRate(context.Background(), c27P, r)
					}
					if err == nil {
						got, err = set.Compute(c27P, premium.BTC, premium.SwapOut, amt)
					}
					if err != nil {
						rep.Internal = append(rep.Internal, fmt.Sprintf("Setting.Compute(%d,%d): %v", amt, ppm, err))
						continue
					}
				}
				rep.Transitions++
				ok := want.IsInt64() && want.Int64() == got
				class := fmt.Sprintf("compute:sign=%s:product_fits_int64=%v", c27Sign(ppm), fits)
				switch {
				case judged && ok:
					rep.Outcomes[class+":judged_equal"]++
				case judged && !ok:
					rep.Outcomes[class+":judged_MISMATCH"]++
					rep.Violations = append(rep.Violations, mc.Violation{Property: "C27",
						Key: fmt.Sprintf("compute_mismatch:sign=%s:product_fits_int64=%v", c27Sign(ppm), fits),
						Detail: fmt.Sprintf("%s amount=%d sat rate=%d ppm returned %d, amount*rate/10^6 truncated toward zero is %s "+
							"(amount is within the 21*10^14 sat money supply; int64 product overflows: %v)", via, amt, ppm, got, want, !fits)})
				case !judged && ok:
					rep.Outcomes["compute:beyond_money_supply:equal"]++
				default:
					rep.Outcomes["compute:beyond_money_supply:deviates_not_judged"]++
					d := dev{amt, ppm, got, want.String()}
					if via == "PPM.Compute" {
						unjudged = append(unjudged, d)
						if smallestUnjudged == nil || d.Amount < smallestUnjudged.Amount {
							dd := d
							smallestUnjudged = &dd
						}
					}
				}
			}
		}
	}
	rep.Extra["compute_deviations_beyond_money_supply_not_judged"] = len(unjudged)
	if smallestUnjudged != nil {
		rep.Extra["compute_smallest_unjudged_deviation"] = smallestUnjudged
	}
	rep.Samples = append(rep.Samples, map[string]any{"part": "a", "amount_sat": 999_999, "ppm": -1,
		"got": premium.NewPPM(-1).Compute(999_999), "want": "0 (toward zero, not -1)"})
	rep.Samples = append(rep.Samples, map[string]any{"part": "a", "amount_sat": uint64(9_223_372_036_854), "ppm": 1_000_000,
		"got": premium.NewPPM(1_000_000).Compute(9_223_372_036_854), "want": "9223372036854"})
}

// ---------------------------------------------------------------- (b) operation sequences

const (
	c27P = "02aaaaaaaaaaaaaaaaaaaaaaaaaaaaaaaaaaaaaaaaaaaaaaaaaaaaaaaaaaaaaaaaaa"
	c27Q = "03bbbbbbbbbbbbbbbbbbbbbbbbbbbbbbbbbbbbbbbbbbbbbbbbbbbbbbbbbbbbbbbbbb"
	c27R = "02cccccccccccccccccccccccccccccccccccccccccccccccccccccccccccccccc" // never configured
)

func c27PeerName(p string) string {
	switch p {
	case c27P:
		return "P"
	case c27Q:
		return "Q"
	case c27R:
		return "R"
	}
	return p
}

type c27Op struct {
	Kind  string // set | del | setdef | lookup | reopen
	Peer  string
	Asset premium.AssetType
	Dir   premium.OperationType
	PPM   int64
}

func (o c27Op) String() string {
	switch o.Kind {
	case "set":
		return fmt.Sprintf("SetRate(%s,%s,%s,%d)", c27PeerName(o.Peer), o.Asset, o.Dir, o.PPM)
	case "del":
		return fmt.Sprintf("DeleteRate(%s,%s,%s)", c27PeerName(o.Peer), o.Asset, o.Dir)
	case "setdef":
		return fmt.Sprintf("SetDefaultRate(%s,%s,%d)", o.Asset, o.Dir, o.PPM)
	case "lookup":
		return "lookup(all rates)"
	}
	return "reopen"
}

type c27Key struct {
	Peer  string // "" = global default
	Asset premium.AssetType
	Dir   premium.OperationType
}

// c27Ref is the reference: a persistent map.
type c27Ref map[c27Key]int64

func (r c27Ref) clone() c27Ref {
	o := c27Ref{}
	for k, v := range r {
		o[k] = v
	}
	return o
}

func (r c27Ref) apply(o c27Op) {
	switch o.Kind {
	case "set":
		r[c27Key{o.Peer, o.Asset, o.Dir}] = o.PPM
	case "del":
		delete(r, c27Key{o.Peer, o.Asset, o.Dir})
	case "setdef":
		r[c27Key{"", o.Asset, o.Dir}] = o.PPM
	}
}

// rate is the statement: peer-specific if set, else stored global, else built-in default.
func (r c27Ref) rate(peer string, a premium.AssetType, d premium.OperationType) (int64, string) {
	if v, ok := r[c27Key{peer, a, d}]; ok {
		return v, "peer"
	}
	if v, ok := r[c27Key{"", a, d}]; ok {
		return v, "stored_default"
	}
	return premium.DefaultPremiumRate[a][d], "builtin"
}

func (r c27Ref) key() string {
	var parts []string
	for k, v := range r {
		parts = append(parts, fmt.Sprintf("%s/%d/%d=%d", c27PeerName(k.Peer), k.Asset, k.Dir, v))
	}
	sort.Strings(parts)
	return strings.Join(parts, ",")
}

var (
	c27Assets = []premium.AssetType{premium.BTC, premium.LBTC}
	c27Dirs   = []premium.OperationType{premium.SwapIn, premium.SwapOut}
)

func c27Alphabet(tier string) ([]c27Op, string) {
	var ops []c27Op
	if tier == "thorough" {
		for _, p := range []string{c27P, c27Q} {
			for _, a := range c27Assets {
				for _, d := range c27Dirs {
					for _, v := range []int64{-500, 0, 7777} {
						ops = append(ops, c27Op{"set", p, a, d, v})
					}
					ops = append(ops, c27Op{"del", p, a, d, 0})
				}
			}
		}
		for _, a := range c27Assets {
			for _, d := range c27Dirs {
				for _, v := range []int64{0, 4242} {
					ops = append(ops, c27Op{"setdef", "", a, d, v})
				}
			}
		}
		ops = append(ops, c27Op{Kind: "reopen"}, c27Op{Kind: "lookup"})
		return ops, "full alphabet: lookup of all rates (a read in between), SetRate 2 peers x 2 assets x 2 directions x 3 rates, DeleteRate 2x2x2, SetDefaultRate 2x2x2 rates, reopen"
	}
	// quick: the (BTC,SWAP_OUT) pair fully for P and Q; the three other pairs only with one
	// operation each way (isolation between asset/direction/peer keys).
	for _, p := range []string{c27P, c27Q} {
		for _, v := range []int64{-500, 0, 7777} {
			ops = append(ops, c27Op{"set", p, premium.BTC, premium.SwapOut, v})
		}
		ops = append(ops, c27Op{"del", p, premium.BTC, premium.SwapOut, 0})
	}
	ops = append(ops,
		c27Op{"set", c27P, premium.BTC, premium.SwapIn, 7777},
		c27Op{"set", c27P, premium.LBTC, premium.SwapOut, 7777},
		c27Op{"set", c27P, premium.LBTC, premium.SwapIn, -500},
		c27Op{"del", c27P, premium.LBTC, premium.SwapIn, 0},
		c27Op{"setdef", "", premium.BTC, premium.SwapOut, 0},
		c27Op{"setdef", "", premium.BTC, premium.SwapOut, 4242},
		c27Op{"setdef", "", premium.LBTC, premium.SwapIn, 4242},
		c27Op{Kind: "reopen"}, c27Op{Kind: "lookup"})
	return ops, "quick tier prunes the alphabet: (BTC,SWAP_OUT) fully for P and Q (3 rates + delete each) and both default rates; " +
		"of the other three (asset,direction) pairs only SetRate(P,BTC,SWAP_IN,7777), SetRate(P,LBTC,SWAP_OUT,7777), " +
		"SetRate(P,LBTC,SWAP_IN,-500), DeleteRate(P,LBTC,SWAP_IN), SetDefaultRate(LBTC,SWAP_IN,4242) (key isolation); thorough uses the full alphabet"
}

// c27Lightning is the Lightning port of peersync: it records what would go over the wire.
type c27Lightning struct {
	mu        sync.Mutex
	connected []peersync.PeerID
	sent      []c27Sent
}

type c27Sent struct {
	to      string
	typ     messages.MessageType
	payload []byte
}

func (l *c27Lightning) SendCustomMessage(_ context.Context, to peersync.PeerID, typ messages.MessageType, payload []byte) error {
	l.mu.Lock()
	defer l.mu.Unlock()
	l.sent = append(l.sent, c27Sent{to.String(), typ, append([]byte{}, payload...)})
	return nil
}
func (l *c27Lightning) SubscribeCustomMessages(context.Context) (<-chan peersync.CustomMessage, error) {
	return make(chan peersync.CustomMessage), nil
}
func (l *c27Lightning) Stop() error { return nil }
func (l *c27Lightning) ListPeers(context.Context) ([]peersync.PeerID, error) {
	return l.connected, nil
}
func (l *c27Lightning) take() []c27Sent {
	l.mu.Lock()
	defer l.mu.Unlock()
	s := l.sent
	l.sent = nil
	return s
}

// wire field names of the capability message (poll / request_poll payload)
type c27Wire struct {
	BTCIn   int64 `json:"btc_swap_in_premium_rate_ppm"`
	BTCOut  int64 `json:"btc_swap_out_premium_rate_ppm"`
	LBTCIn  int64 `json:"lbtc_swap_in_premium_rate_ppm"`
	LBTCOut int64 `json:"lbtc_swap_out_premium_rate_ppm"`
}

func (w c27Wire) get(a premium.AssetType, d premium.OperationType) int64 {
	switch {
	case a == premium.BTC && d == premium.SwapIn:
		return w.BTCIn
	case a == premium.BTC && d == premium.SwapOut:
		return w.BTCOut
	case a == premium.LBTC && d == premium.SwapIn:
		return w.LBTCIn
	}
	return w.LBTCOut
}

type c27Result struct {
	ref      c27Ref
	viol     []mc.Violation
	outcomes map[string]int
	intern   string
	evals    int
	sample   map[string]any
	lookedUp bool   // a lookup happened since the store was (re)opened
	stored   string // digest of what the bbolt file really holds (part of the state key: two histories that agree in the
	// reference map but not in the file are different states)
}

// c27Run replays prefix+op on a fresh bbolt file and judges the state after the last op.
func c27Run(dir string, store *peersync.Store, seq []c27Op) (res c27Result) {
	res.outcomes = map[string]int{}
	os.MkdirAll(dir, 0o755)
	defer os.RemoveAll(dir)
	path := filepath.Join(dir, "premium.db")
	open := func() (*bbolt.DB, *premium.Setting, error) {
		db, err := bbolt.Open(path, 0o600, &bbolt.Options{NoSync: true, NoFreelistSync: true})
		if err != nil {
			return nil, nil, err
		}
		s, err := premium.NewSetting(db)
		if err != nil {
			db.Close()
			return nil, nil, err
		}
		return db, s, nil
	}
	db, set, err := open()
	if err != nil {
		res.intern = "open: " + err.Error()
		return
	}
	defer func() { db.Close() }()
	ctx := context.Background()
	ref := c27Ref{}
	var names []string
	for _, o := range seq {
		names = append(names, o.String())
		var err error
		switch o.Kind {
		case "set":
			var r *premium.PremiumRate
			if r, err = premium.NewPremiumRate(o.Asset, o.Dir, premium.NewPPM(o.PPM)); err == nil {
				err = set.SetRate(ctx, o.Peer, r)
			}
		case "del":
			err = set.DeleteRate(ctx, o.Peer, o.Asset, o.Dir)
		case "setdef":
			var r *premium.PremiumRate
			if r, err = premium.NewPremiumRate(o.Asset, o.Dir, premium.NewPPM(o.PPM)); err == nil {
				err = set.SetDefaultRate(ctx, r)
			}
		case "lookup":
			res.lookedUp = true
			// what a swap request, a poll or the getpremiumrate RPC does in between: reading must not change anything
			for _, p := range []string{c27P, c27Q, c27R} {
				for _, a := range c27Assets {
					for _, d := range c27Dirs {
						_, _ = set.GetRate(p, a, d)
					}
				}
			}
		case "reopen":
			res.lookedUp = false
			if err = db.Close(); err == nil {
				db, set, err = open()
			}
		}
		res.evals++
		if err != nil {
			// the statement: "behave like a persistent map" - none of these operations may fail
			res.viol = append(res.viol, mc.Violation{Property: "C27", Key: "operation_failed:op=" + o.Kind,
				Detail: fmt.Sprintf("%v: %s returned %v", names, o, err)})
			res.outcomes["op_failed"]++
			return
		}
		ref.apply(o)
	}
	res.ref = ref
	res.stored = c27Dump(db)
	last := "initial"
	if len(seq) > 0 {
		last = seq[len(seq)-1].Kind
	}
	res.outcomes["op="+last]++

	// GetRate / GetDefaultRate / Compute for every (peer, asset, direction)
	for _, p := range []string{c27P, c27Q, c27R} {
		for _, a := range c27Assets {
			for _, d := range c27Dirs {
				want, src := ref.rate(p, a, d)
				r, err := set.GetRate(p, a, d)
				res.evals++
				got := int64(0)
				switch {
				case err != nil:
					res.viol = append(res.viol, mc.Violation{Property: "C27", Key: "getrate_failed:after=" + last,
						Detail: fmt.Sprintf("%v: GetRate(%s,%s,%s) returned %v", names, c27PeerName(p), a, d, err)})
					continue
				case r == nil || r.PremiumRatePPM() == nil:
					res.viol = append(res.viol, mc.Violation{Property: "C27", Key: "getrate_failed:after=" + last,
						Detail: fmt.Sprintf("%v: GetRate(%s,%s,%s) returned nil", names, c27PeerName(p), a, d)})
					continue
				default:
					got = r.PremiumRatePPM().Value()
				}
				if got != want || r.Asset() != a || r.Operation() != d {
					res.outcomes["getrate_MISMATCH"]++
					res.viol = append(res.viol, mc.Violation{Property: "C27",
						Key: fmt.Sprintf("getrate_mismatch:after=%s:expected_source=%s", last, src),
						Detail: fmt.Sprintf("%v: GetRate(%s,%s,%s) = %d ppm (%s/%s), the persistent map says %d (%s)",
							names, c27PeerName(p), a, d, got, r.Asset(), r.Operation(), want, src)})
				} else {
					res.outcomes["getrate_equal:source="+src]++
				}
				// premium for 10^6 sat is the effective rate itself
				prem, err := set.Compute(p, a, d, 1_000_000)
				res.evals++
				if err != nil || prem != want {
					res.outcomes["setting_compute_MISMATCH"]++
					res.viol = append(res.viol, mc.Violation{Property: "C27",
						Key: fmt.Sprintf("premium_not_from_effective_rate:expected_source=%s", src),
						Detail: fmt.Sprintf("%v: Setting.Compute(%s,%s,%s,1000000) = %d, %v; effective rate is %d ppm (%s)",
							names, c27PeerName(p), a, d, prem, err, want, src)})
				} else {
					res.outcomes["setting_compute_uses_effective_rate:source="+src]++
				}
			}
		}
	}
	for _, a := range c27Assets {
		for _, d := range c27Dirs {
			want, src := ref.rate("\x00nobody", a, d)
			r, err := set.GetDefaultRate(a, d)
			res.evals++
			if err != nil || r == nil || r.PremiumRatePPM().Value() != want {
				res.outcomes["getdefault_MISMATCH"]++
				res.viol = append(res.viol, mc.Violation{Property: "C27",
					Key:    fmt.Sprintf("getdefaultrate_mismatch:after=%s:expected_source=%s", last, src),
					Detail: fmt.Sprintf("%v: GetDefaultRate(%s,%s) = %v, %v; the persistent map says %d (%s)", names, a, d, r, err, want, src)})
			} else {
				res.outcomes["getdefault_equal:source="+src]++
			}
		}
	}

	// (c) advertised = charged, on the real PeerSync built around this very Setting
	ln := &c27Lightning{}
	self, _ := peersync.NewPeerID("02ffffffffffffffffffffffffffffffffffffffffffffffffffffffffffffffff")
	ps := peersync.NewPeerSync(self, store, ln, nil, []string{"btc", "lbtc"}, set)
	check := func(path string, s c27Sent) {
		var w c27Wire
		if err := json.Unmarshal(s.payload, &w); err != nil {
			res.intern = "capability payload does not decode: " + err.Error()
			return
		}
		for _, a := range c27Assets {
			for _, d := range c27Dirs {
				charged := int64(0)
				r, err := set.GetRate(s.to, a, d)
				if err == nil && r != nil {
					charged = r.PremiumRatePPM().Value()
				}
				_, src := ref.rate(s.to, a, d)
				res.evals++
				if err != nil || w.get(a, d) != charged {
					res.outcomes["advertised_DIFFERS"]++
					res.viol = append(res.viol, mc.Violation{Property: "C27",
						Key: fmt.Sprintf("advertised_differs_from_charged:asset=%s:op=%s:charged_source=%s", a, d, src),
						Detail: fmt.Sprintf("%v: %s to %s advertises %d ppm for %s/%s, Setting.GetRate(%s) (what the node charges) is %d ppm, %v",
							names, path, c27PeerName(s.to), w.get(a, d), a, d, c27PeerName(s.to), charged, err)})
				} else {
					res.outcomes["advertised_equals_charged:source="+src]++
					if def, _ := ref.rate("\x00nobody", a, d); src == "peer" && charged != def {
						res.outcomes["advertised_equals_charged:peer_rate_differs_from_default"]++
					}
				}
			}
		}
	}
	for _, p := range []string{c27P, c27Q, c27R} {
		id, _ := peersync.NewPeerID(p)
		if err := ps.RequestPoll(ctx, id); err != nil {
			res.intern = "RequestPoll: " + err.Error()
			return
		}
		sent := ln.take()
		if len(sent) != 1 || sent[0].to != p {
			res.intern = fmt.Sprintf("RequestPoll(%s) sent %d messages", c27PeerName(p), len(sent))
			return
		}
		check("request_poll", sent[0])
	}
	// the poll loop path: P connected and unknown to the (empty) peer store
	pid, _ := peersync.NewPeerID(c27P)
	ln.connected = []peersync.PeerID{pid}
	ps.ForcePollAllPeers(ctx)
	sent := ln.take()
	if len(sent) != 1 || sent[0].to != c27P {
		res.intern = fmt.Sprintf("ForcePollAllPeers sent %d messages", len(sent))
		return
	}
	check("request_poll(poll loop)", sent[0])
	if len(seq) > 0 {
		var w c27Wire
		json.Unmarshal(sent[0].payload, &w)
		res.sample = map[string]any{"part": "b+c", "sequence": names, "map": ref.key(), "advertised_to_P": w}
	}
	return
}

func TestC27(t *testing.T) {
	vsync.SetMode(vsync.Plain)
	rep := EnumReport{ID: "C27", Level: "model_checking", Start: time.Now(), Exhaustive: true,
		Outcomes: map[string]int{}, Alphabets: map[string]any{}, Extra: map[string]any{}}
	tier := mc.Tier()
	c27Compute(&rep, filepath.Join(workDir, "c27-grid"))

	type exploration struct {
		label string
		ops   []c27Op
		depth int
	}
	quickOps, pruned := c27Alphabet("quick")
	fullOps, _ := c27Alphabet("thorough")
	expl := []exploration{{"pruned alphabet, length<=4", quickOps, 4}}
	if tier == "thorough" {
		expl = []exploration{{"full alphabet, length<=4", fullOps, 4}, {"pruned alphabet, length<=5", quickOps, 5}}
	}
	const nw = 8
	stores := make([]*peersync.Store, nw)
	for i := range stores {
		s, err := peersync.NewStore(filepath.Join(workDir, fmt.Sprintf("c27-peers-%d.db", i)))
		if err != nil {
			t.Fatal(err)
		}
		stores[i] = s
		defer s.Close()
	}
	type item struct {
		seq []c27Op
	}
	allSeen := map[string]bool{}
	absorb := func(r c27Result) (string, bool) {
		rep.Transitions += r.evals
		for k, v := range r.outcomes {
			rep.Outcomes[k] += v
		}
		rep.Violations = append(rep.Violations, r.viol...)
		if r.intern != "" {
			rep.Internal = append(rep.Internal, r.intern)
			return "", false
		}
		if r.ref == nil {
			return "", false
		}
		// a read in between may leave something behind in the process (a cache): states after a lookup are kept apart
		if r.lookedUp {
			return r.ref.key() + "|" + r.stored + "|looked-up", true
		}
		return r.ref.key() + "|" + r.stored, true
	}
	sequences := 0
	var explInfo []map[string]any
	for _, ex := range expl {
		seen := map[string]bool{}
		r0 := c27Run(filepath.Join(workDir, "c27-init"), stores[0], nil)
		k0, _ := absorb(r0)
		seen[k0], allSeen[k0] = true, true
		perDepth := []int{1}
		frontier := []item{{nil}}
		for d := 0; d < ex.depth; d++ {
			var jobs [][]c27Op
			for _, it := range frontier {
				for _, o := range ex.ops {
					jobs = append(jobs, append(append([]c27Op{}, it.seq...), o))
				}
			}
			results := make([]c27Result, len(jobs))
			var wg sync.WaitGroup
			for w := 0; w < nw; w++ {
				wg.Add(1)
				go func(w int) {
					defer wg.Done()
					for i := w; i < len(jobs); i += nw {
						results[i] = c27Run(filepath.Join(workDir, fmt.Sprintf("c27-%d-%d", w, i)), stores[w], jobs[i])
					}
				}(w)
			}
			wg.Wait()
			var next []item
			for i, r := range results {
				sequences++
				k, ok := absorb(r)
				if !ok || seen[k] {
					continue
				}
				seen[k], allSeen[k] = true, true
				next = append(next, item{jobs[i]})
				if r.sample != nil && (len(rep.Samples) < 6 || (len(seen)%4001 == 0 && len(rep.Samples) < 10)) {
					rep.Samples = append(rep.Samples, r.sample)
				}
			}
			perDepth = append(perDepth, len(next))
			frontier = next
		}
		var opNames []string
		for _, o := range ex.ops {
			opNames = append(opNames, o.String())
		}
		explInfo = append(explInfo, map[string]any{"exploration": ex.label, "operations": opNames, "max_sequence_length": ex.depth,
			"new_map_states_per_depth": perDepth, "distinct_map_states": len(seen)})
	}
	rep.States = len(allSeen)
	rep.Alphabets["amount_sat"] = c27Amounts()
	rep.Alphabets["rate_ppm"] = c27Rates()
	rep.Alphabets["compute_entry_points"] = []string{"premium.PPM.Compute", "premium.Setting.Compute (rate stored for the peer in bbolt first)"}
	rep.Alphabets["explorations"] = explInfo
	rep.Alphabets["observed_peers"] = []string{"P", "Q", "R (never configured)"}
	rep.Extra["sequences_executed"] = sequences
	rep.Extra["alphabet_pruning"] = pruned
	rep.Rule = "(a) every amount x rate of the grid through PPM.Compute and Setting.Compute, reference amount*rate/10^6 truncated toward zero in math/big, " +
		"judged for amounts <= 21*10^14 sat, deviations beyond reported in compute_smallest_unjudged_deviation; " +
		"(b) breadth-first over all operation sequences of each exploration (alphabet, max length) from an empty bbolt file, each sequence replayed on a fresh file, " +
		"states deduplicated by the contents of the reference map (the successors of a map state do not depend on how it was reached because the " +
		"store keeps nothing outside the bbolt bucket); after the last operation GetRate/Compute for 3 peers x 2 assets x 2 directions and GetDefaultRate " +
		"are compared with: peer entry, else stored global entry, else premium.DefaultPremiumRate; " +
		"(c) in every such state the real peersync.PeerSync (real guard, real Setting, recording Lightning port) produces request_poll payloads for P, Q, R " +
		"(RequestPoll) and for P through the poll loop (ForcePollAllPeers, P connected and unknown); the four advertised rates must equal Setting.GetRate(peer)"
	rep.Need = []string{
		"compute:sign=neg:product_fits_int64=true:judged_equal", "compute:sign=pos:product_fits_int64=true:judged_equal",
		"compute:sign=zero:product_fits_int64=true:judged_equal", "compute:beyond_money_supply:deviates_not_judged",
		"op=set", "op=del", "op=setdef", "op=reopen",
		"getrate_equal:source=peer", "getrate_equal:source=stored_default", "getrate_equal:source=builtin",
		"getdefault_equal:source=stored_default", "getdefault_equal:source=builtin",
		"setting_compute_uses_effective_rate:source=peer",
		"advertised_equals_charged:source=peer", "advertised_equals_charged:source=stored_default", "advertised_equals_charged:source=builtin",
		"advertised_equals_charged:peer_rate_differs_from_default",
	}
	rep.Assumptions = append(rep.Assumptions,
		"amounts above the 21*10^14 sat money supply are not judged (reported as information)",
		"peer ids are node public keys: a peer literally called \"default\" (the store's key for the global rate) is outside the alphabet",
		"bbolt is opened with NoSync on /dev/shm; durability of bbolt itself is not examined; 'reopen' closes the file and builds a new Setting on it",
		"policy is nil in part (c) (peer allowed, not suspicious); only the premium part of the capability message is judged")
	if exp := os.Getenv("VERIF_C27_EXPORT"); exp != "" {
		// another property's check (C12: "a responder charges exactly the premium of its configured rate") uses this exploration as a sub-check
		b, _ := json.Marshal(map[string]any{"violations": rep.Violations, "states": rep.States, "executions": rep.Transitions, "internal": rep.Internal, "exhaustive": rep.Exhaustive})
		if err := os.WriteFile(exp, b, 0o644); err != nil {
			t.Fatal(err)
		}
		return
	}
	finishEnum(t, &rep)
}

// c27Dump renders every bucket / key / value of the bbolt file (sorted by bbolt itself) and returns its hash.
func c27Dump(db *bbolt.DB) string {
	h := sha256.New()
	_ = db.View(func(tx *bbolt.Tx) error {
		return tx.ForEach(func(name []byte, b *bbolt.Bucket) error {
			h.Write(name)
			h.Write([]byte{0})
			return b.ForEach(func(k, v []byte) error {
				h.Write(k)
				h.Write([]byte{1})
				h.Write(v)
				h.Write([]byte{2})
				return nil
			})
		})
	})
	return hex.EncodeToString(h.Sum(nil))[:16]
}
