package checks

import (
	"encoding/json"
	"fmt"
	"os"
	"os/exec"
	"strings"
	"testing"

	"verif/mc"
	"verif/node"
	"verif/sched"
	"verif/scn"
	"verif/vsync"
	"verif/world"
)

// C13 under concurrency: the same swap_in_request delivered twice at the same time (a retransmission overtaking
// the original), or a request racing with a cancel for it.  Every schedule (bounded preemptions) of the two handler
// threads is explored on the real service; whenever a message carrying the swap pubkey leaves the node, the
// latest durable record of that swap must already carry the Liquid anchor.

func c13sHarness(t testing.TB, variant string) sched.Harness {
	return sched.Harness{Name: "c13/" + variant, Setup: func() ([]sched.NamedFunc, func(e *sched.Exec) []string, func()) {
		w := world.New()
		lnA := w.AddLN(scn.IDA, false)
		lnB := w.AddLN(scn.IDB, true)
		for _, s := range []string{scn.Scid, scn.Scid2} {
			lnA.Channels = append(lnA.Channels, &world.Channel{Scid: s, Peer: scn.IDB, Spendable: 5_000_000_000, Receivable: 5_000_000_000})
			lnB.Channels = append(lnB.Channels, &world.Channel{Scid: s, Peer: scn.IDA, Spendable: 5_000_000_000, Receivable: 5_000_000_000})
		}
		d := node.NewDurable(w, scn.IDA)
		wc := node.WalletCfg{Balance: 100_000_000}
		wc2 := wc
		n := node.Boot(w, node.Cfg{ID: scn.IDA, Btc: true, Lbtc: true, Premium: e5Prem, BtcCfg: &wc, LbtcCfg: &wc2}, d, 0)
		n.RecoverPlain()
		sched.WaitSetupIdle()
		id := fmt.Sprintf("%064x", 0xc13)
		req, _ := json.Marshal(map[string]any{"protocol_version": 7, "swap_id": id, "scid": scn.Scid, "amount": scn.Amount, "pubkey": c09Pub, "acceptable_premium": 100000, "network": "", "asset": node.AssetField})
		cancel, _ := json.Marshal(map[string]any{"swap_id": id, "message": "never mind"})
		h := n.Handler()
		th := []sched.NamedFunc{{Name: "msg:request", F: func() { _ = h(scn.IDB, fmt.Sprintf("%x", mtSwapInReq), req) }}}
		switch variant {
		case "request-twice":
			th = append(th, sched.NamedFunc{Name: "msg:request(again)", F: func() { _ = h(scn.IDB, fmt.Sprintf("%x", mtSwapInReq), req) }})
		case "request+cancel":
			th = append(th, sched.NamedFunc{Name: "msg:cancel", F: func() { _ = h(scn.IDB, fmt.Sprintf("%x", mtCancel), cancel) }})
		case "request-thrice":
			th = append(th, sched.NamedFunc{Name: "msg:request(again)", F: func() { _ = h(scn.IDB, fmt.Sprintf("%x", mtSwapInReq), req) }},
				sched.NamedFunc{Name: "msg:request(third)", F: func() { _ = h(scn.IDB, fmt.Sprintf("%x", mtSwapInReq), req) }})
		}
		check := func(e *sched.Exec) []string {
			var problems []string
			anchored := false // does the latest durable record of the swap carry the anchor?
			for _, o := range w.Log {
				if o.Node != scn.IDA || o.SwapID != id {
					continue
				}
				switch o.Kind {
				case "store":
					if sm := decodeRecord(o.Payload); sm != nil && sm.Data != nil {
						anchored = sm.Data.StartingBlockHeightSet
					}
				case "send":
					if o.MsgType == mtSwapInAgree && !anchored {
						problems = append(problems, "pubkey_sent_before_anchor_durable:role=in_receiver:concurrent_deliveries="+variant)
					}
				}
			}
			return problems
		}
		return th, check, func() { n.Kill() }
	}}
}

type c13sReport struct {
	Executions int               `json:"executions"`
	Problems   map[string]string `json:"problems"`
	Internal   []string          `json:"internal"`
	Capped     bool              `json:"capped"`
	Bound      int               `json:"preemption_bound"`
	Cases      []map[string]any  `json:"cases"`
}

func TestC13SchedWorker(t *testing.T) {
	out := os.Getenv("VERIF_C13S_OUT")
	if out == "" {
		t.Skip("worker entry point")
	}
	bound, maxExec := 2, 4000
	if mc.Tier() == "thorough" {
		bound, maxExec = 3, 60000
	}
	e5SetPremium(premiumSetting(t, "c13s"))
	sched.Install()
	sched.TimerSpawnSites = []string{"(*timeOutService).addNewTimeOut"}
	world.YieldHook = sched.Yield
	world.Spawn = vsync.Go
	rep := c13sReport{Problems: map[string]string{}, Bound: bound}
	for _, v := range []string{"request-twice", "request+cancel", "request-thrice"} {
		res := sched.Explore(c13sHarness(t, v), bound, maxExec, func(e *sched.Exec) string { return "completed" })
		rep.Executions += res.Executions
		rep.Cases = append(rep.Cases, map[string]any{"case": v, "schedules": res.Executions, "capped": res.Capped})
		if res.Capped || res.Overflows > 0 {
			rep.Capped = true
		}
		rep.Internal = append(rep.Internal, res.Internal...)
		for k, s := range res.Problems {
			if _, ok := rep.Problems[k]; !ok {
				rep.Problems[k] = fmt.Sprintf("schedule %v", s)
			}
		}
	}
	b, _ := json.Marshal(rep)
	if err := os.WriteFile(out, b, 0o644); err != nil {
		t.Fatal(err)
	}
}

func c13Sched() ([]mc.Violation, map[string]any) {
	out := fmt.Sprintf("%s/c13s-%d.json", workDir, os.Getpid())
	cmd := exec.Command(os.Args[0], "-test.run", "^TestC13SchedWorker$", "-test.timeout", "0")
	cmd.Env = append(os.Environ(), "VERIF_C13S_OUT="+out)
	ob, err := cmd.CombinedOutput()
	b, rerr := os.ReadFile(out)
	cov := map[string]any{}
	if rerr != nil {
		cov["internal"] = []string{fmt.Sprintf("c13 sched worker failed: %v\n%s", err, tail(string(ob), 3000))}
		return nil, cov
	}
	_ = os.Remove(out)
	var rep c13sReport
	_ = json.Unmarshal(b, &rep)
	var vs []mc.Violation
	for k, d := range rep.Problems {
		vs = append(vs, mc.Violation{Property: "C13", Key: k, Detail: d})
	}
	var ints []string
	for _, s := range rep.Internal {
		if !strings.Contains(s, "replay divergence") {
			ints = append(ints, s)
		}
	}
	if len(ints) > 0 {
		cov["internal"] = ints
	}
	cov["sched_subcheck"] = map[string]any{"rule": fmt.Sprintf("all schedules with at most %d preemptions of concurrent deliveries of the same Liquid swap_in_request (twice, three times) and of a request with a cancel for it; at every send of the swap pubkey the latest durable record must carry the anchor", rep.Bound),
		"cases": rep.Cases, "schedules": rep.Executions, "capped": rep.Capped}
	return vs, cov
}
