package checks

import (
	"fmt"
	"testing"
	"testing/synctest"

	"verif/mc"
	"verif/scn"
)

func TestSmokeHonest(t *testing.T) {
	bubbleMode()
	ps := premiumSetting(t, "smoke")
	for _, chain := range []string{"btc", "lbtc"} {
		for _, typ := range []string{"out", "in"} {
			cfg := &scn.Cfg{Name: "smoke", Chain: chain, SwapType: typ, AInitiates: true, Premium: ps}
			synctest.Test(t, func(t *testing.T) {
				x := scn.Init(t, cfg)
				defer x.Finish()
				x.RPC(scn.Scid)
				steps := []mc.Event{
					{Name: "deliver", Arg: "B"}, {Name: "deliver", Arg: "A"}, {Name: "deliver", Arg: "B"}, {Name: "deliver", Arg: "A"},
					{Name: "block", Arg: "conf"}, {Name: "time", Arg: "11s"}, {Name: "time", Arg: "11s"},
				}
				for _, e := range steps {
					x.Apply(e)
					sa, sb := x.SwapOf(x.A), x.SwapOf(x.B)
					a, b := "-", "-"
					if sa != nil {
						a = string(sa.Current)
					}
					if sb != nil {
						b = string(sb.Current)
					}
					fmt.Printf("%s/%s after %-12s A=%s B=%s rpcerr=%s\n", chain, typ, e, a, b, x.RPCErr)
				}
				for _, o := range x.W.Log {
					if o.Kind != "store" {
						fmt.Printf("   %3d %s %s %s %s %s %s\n", o.Seq, o.Node[:4], o.Kind, o.State, o.Result, o.Err, o.Extra)
					}
				}
			})
		}
	}
}
