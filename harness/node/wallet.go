package node

import (
	"bytes"
	"crypto/sha256"
	"encoding/hex"
	"errors"
	"fmt"
	"sync"

	"github.com/btcsuite/btcd/btcec/v2"
	"github.com/btcsuite/btcd/btcutil"
	"github.com/btcsuite/btcd/chaincfg"
	"github.com/btcsuite/btcd/chaincfg/chainhash"
	"github.com/btcsuite/btcd/txscript"
	"github.com/btcsuite/btcd/wire"
	"github.com/elementsproject/peerswap/lightning"
	"github.com/elementsproject/peerswap/onchain"
	"github.com/elementsproject/peerswap/swap"
	"verif/world"
)

const LbtcAsset = "5ac9f65c0efcc4775e0baec4ec03abdde22473cd3cf33c0419ca290e0751b225" // regtest policy asset id (32 bytes hex)

// AssetField is what peerswap puts in the `asset` message field: 33 bytes.
var AssetField = "01" + LbtcAsset

type fixedEstimator struct{ rate btcutil.Amount }

func (f fixedEstimator) EstimateFeePerKW(uint32) (btcutil.Amount, error) { return f.rate, nil }
func (f fixedEstimator) Start() error                                    { return nil }

func NewBitcoinOnChain() *onchain.BitcoinOnChain {
	return onchain.NewBitcoinOnChain(fixedEstimator{rate: 253}, 253, 253, &chaincfg.RegressionNetParams)
}

// WalletCfg are the scenario-chosen degrees of freedom of wallet funding.
type WalletCfg struct {
	SwapOutIndex int    // position of the swap output in the opening tx (0..2)
	ExtraOuts    int    // number of change outputs
	Balance      uint64 // on-chain balance in sat
}

// SimWallet implements swap.Wallet (and, for lbtc, swap.Validator) for one
// node on one chain.  On btc every script / signature hash / witness comes
// from the real onchain.BitcoinOnChain code (the same calls the CLN and LND
// wallet adapters make); funding and broadcasting are simulated.  On lbtc
// (abstract tier) the same Bitcoin-format transactions are used together
// with per-output annotations for asset and blinding.
type SimWallet struct {
	mu    sync.Mutex
	w     *world.World
	chain *world.Chain
	node  string
	life  *world.Life
	btc   *onchain.BitcoinOnChain
	Cfg   *WalletCfg
	// durable wallet state
	st *WalletState
}

type WalletState struct {
	mu       sync.Mutex
	Addrs    map[string]bool // addresses handed out
	Key      *btcec.PrivateKey
	Funding  int
	Labels   map[string]string
	Openings []string
	Locked   uint64 // sat locked in own opening transactions (the balance the wallet reports goes down by it)
}

var walletKey = func() *btcec.PrivateKey {
	k, _ := btcec.PrivKeyFromBytes(bytes.Repeat([]byte{0x42}, 32))
	return k
}()

// NewWalletState: the wallet key is a process-wide constant (it never takes
// part in a swap script; saves a scalar multiplication per execution).
func NewWalletState() *WalletState {
	return &WalletState{Addrs: map[string]bool{}, Key: walletKey, Labels: map[string]string{}}
}

func (s *SimWallet) isBtc() bool { return s.chain.Name == "btc" }

func (s *SimWallet) csv(p *swap.OpeningParams) uint32 {
	if s.isBtc() {
		return onchain.BitcoinCsv
	}
	return p.CSV
}

func (s *SimWallet) fail(method string) error {
	if s.w.ShouldFail(s.node, s.chain.Name+"."+method) {
		return fmt.Errorf("%s wallet: %s failed (injected)", s.chain.Name, method)
	}
	return nil
}

func (s *SimWallet) SetLabel(txID, address, label string) error {
	s.life.Op(true)
	s.w.Record(world.Obs{Node: s.node, Inc: s.life.Inc, Kind: "wallet.label", Chain: s.chain.Name, TxID: txID, Extra: label, Effect: true})
	if err := s.fail("setlabel"); err != nil {
		return err
	}
	s.st.mu.Lock()
	s.st.Labels[txID] = label
	s.st.mu.Unlock()
	return nil
}

func p2wsh(script []byte) []byte {
	h := sha256.Sum256(script)
	return append([]byte{0x00, 0x20}, h[:]...)
}

func (s *SimWallet) GetOutputScript(params *swap.OpeningParams) ([]byte, error) {
	s.life.Op(false)
	if s.isBtc() {
		return s.btc.GetOutputScript(params)
	}
	rs, err := onchain.ParamsToTxScript(params, params.CSV)
	if err != nil {
		return nil, err
	}
	return p2wsh(rs), nil
}

func (s *SimWallet) changeScript() []byte {
	// P2WPKH of the wallet key
	pkh := btcutil.Hash160(s.st.Key.PubKey().SerializeCompressed())
	return append([]byte{0x00, 0x14}, pkh...)
}

func (s *SimWallet) CreateOpeningTransaction(p *swap.OpeningParams) (string, string, string, uint64, uint32, error) {
	s.life.Op(true)
	if err := s.fail("createopening"); err != nil {
		s.w.Record(world.Obs{Node: s.node, Inc: s.life.Inc, Kind: "wallet.open", Chain: s.chain.Name, Err: err.Error(), Effect: true})
		return "", "", "", 0, 0, err
	}
	pk, err := s.GetOutputScriptNoOp(p)
	if err != nil {
		return "", "", "", 0, 0, err
	}
	tx := wire.NewMsgTx(2)
	s.st.mu.Lock()
	s.st.Funding++
	fund := s.st.Funding
	s.st.mu.Unlock()
	prev := chainhash.HashH([]byte(fmt.Sprintf("funding/%s/%s/%d", s.node, s.chain.Name, fund)))
	tx.AddTxIn(wire.NewTxIn(wire.NewOutPoint(&prev, 0), nil, [][]byte{{0x01}, {0x02}}))
	nOut := 1 + s.Cfg.ExtraOuts
	idx := s.Cfg.SwapOutIndex
	if idx >= nOut {
		idx = nOut - 1
	}
	var annot []world.OutAnnot
	for i := 0; i < nOut; i++ {
		if i == idx {
			tx.AddTxOut(wire.NewTxOut(int64(p.Amount), pk))
			a := world.OutAnnot{}
			if !s.isBtc() {
				a.Asset = LbtcAsset
				if p.BlindingKey != nil {
					a.BlindPub = hex.EncodeToString(p.BlindingKey.PubKey().SerializeCompressed())
				}
			}
			annot = append(annot, a)
		} else {
			tx.AddTxOut(wire.NewTxOut(int64(50000+i), s.changeScript()))
			a := world.OutAnnot{}
			if !s.isBtc() {
				a.Asset = LbtcAsset
				a.BlindPub = hex.EncodeToString(s.st.Key.PubKey().SerializeCompressed())
			}
			annot = append(annot, a)
		}
	}
	txHex := world.TxHex(tx)
	var vout uint32
	if s.isBtc() {
		// same post-processing as the LND / CLN adapters
		ok, v, err := s.btc.GetVoutAndVerify(txHex, p)
		if err != nil || !ok {
			return "", "", "", 0, 0, fmt.Errorf("opening tx does not verify: %v", err)
		}
		vout = v
	} else {
		vout = uint32(idx)
	}
	txid, err := s.chain.Submit(txHex, s.node, annot, "opening")
	o := world.Obs{Node: s.node, Inc: s.life.Inc, Kind: "wallet.open", Chain: s.chain.Name, TxID: txid, Vout: uint32(idx), Extra: fmt.Sprintf("amount=%d", p.Amount), Effect: true}
	if err != nil {
		o.Err = err.Error()
		s.w.Record(o)
		return "", "", "", 0, 0, err
	}
	s.w.Record(o)
	s.st.mu.Lock()
	s.st.Openings = append(s.st.Openings, txid)
	s.st.Locked += p.Amount
	s.st.mu.Unlock()
	if err := s.fail("createopening.after"); err != nil {
		// the wallet broadcast succeeded but the adapter reports an error
		return "", "", "", 0, 0, err
	}
	addr := "addr-" + txid[:8]
	return txHex, addr, txid, 300, vout, nil
}

// GetOutputScriptNoOp is GetOutputScript without the liveness check.
func (s *SimWallet) GetOutputScriptNoOp(p *swap.OpeningParams) ([]byte, error) {
	if s.isBtc() {
		return s.btc.GetOutputScript(p)
	}
	rs, err := onchain.ParamsToTxScript(p, p.CSV)
	if err != nil {
		return nil, err
	}
	return p2wsh(rs), nil
}

func (s *SimWallet) NewAddress() (string, error) {
	s.life.Op(false)
	return s.newAddress()
}

func (s *SimWallet) newAddress() (string, error) {
	if err := s.fail("newaddress"); err != nil {
		return "", err
	}
	s.st.mu.Lock()
	defer s.st.mu.Unlock()
	n := len(s.st.Addrs)
	h := btcutil.Hash160([]byte(fmt.Sprintf("%s/%s/addr/%d", s.node, s.chain.Name, n)))
	a, err := btcutil.NewAddressWitnessPubKeyHash(h, &chaincfg.RegressionNetParams)
	if err != nil {
		return "", err
	}
	s.st.Addrs[a.EncodeAddress()] = true
	return a.EncodeAddress(), nil
}

// findVout locates the swap output the way the adapters do.
func (s *SimWallet) findVout(p *swap.OpeningParams, openingHex string) (uint32, *wire.MsgTx, error) {
	if s.isBtc() {
		ok, vout, err := s.btc.GetVoutAndVerify(openingHex, p)
		if err != nil {
			return 0, nil, err
		}
		if !ok {
			return 0, nil, errors.New("opening tx does not contain the swap output")
		}
		tx, _ := world.ParseTx(openingHex)
		return vout, tx, nil
	}
	tx, err := world.ParseTx(openingHex)
	if err != nil {
		return 0, nil, err
	}
	want, err := s.GetOutputScriptNoOp(p)
	if err != nil {
		return 0, nil, err
	}
	for i, o := range tx.TxOut {
		if bytes.Equal(o.PkScript, want) {
			return uint32(i), tx, nil
		}
	}
	return 0, nil, errors.New("vout not found")
}

func (s *SimWallet) prepare(p *swap.OpeningParams, c *swap.ClaimParams, addr string, vout uint32, seq uint32, fee uint64) (*wire.MsgTx, []byte, []byte, error) {
	if s.isBtc() {
		return s.btc.PrepareSpendingTransaction(p, c, addr, vout, seq, fee)
	}
	// lbtc abstract tier: same construction with the per-swap CSV
	opening, err := world.ParseTx(c.OpeningTxHex)
	if err != nil {
		return nil, nil, nil, err
	}
	prevHash := opening.TxHash()
	a, err := btcutil.DecodeAddress(addr, &chaincfg.RegressionNetParams)
	if err != nil {
		return nil, nil, nil, err
	}
	outScript, _ := txscript.PayToAddrScript(a)
	if fee == 0 {
		fee = 300
	}
	tx := wire.NewMsgTx(2)
	tx.AddTxOut(wire.NewTxOut(opening.TxOut[vout].Value-int64(fee), outScript))
	in := wire.NewTxIn(wire.NewOutPoint(&prevHash, vout), nil, [][]byte{})
	in.Sequence = seq
	tx.AddTxIn(in)
	redeem, err := onchain.ParamsToTxScript(p, p.CSV)
	if err != nil {
		return nil, nil, nil, err
	}
	fetcher := txscript.NewCannedPrevOutputFetcher(opening.TxOut[vout].PkScript, opening.TxOut[vout].Value)
	sh, err := txscript.CalcWitnessSigHash(redeem, txscript.NewTxSigHashes(tx, fetcher), txscript.SigHashAll, tx, 0, int64(p.Amount))
	if err != nil {
		return nil, nil, nil, err
	}
	return tx, sh, redeem, nil
}

func (s *SimWallet) spend(kind string, p *swap.OpeningParams, c *swap.ClaimParams, taker swap.Signer) (string, string, string, error) {
	s.life.Op(true)
	rec := func(txid string, err error) {
		o := world.Obs{Node: s.node, Inc: s.life.Inc, Kind: "wallet.spend", Chain: s.chain.Name, TxID: txid, Extra: kind, Effect: true}
		if err != nil {
			o.Err = err.Error()
		}
		s.w.Record(o)
	}
	if err := s.fail("spend"); err != nil {
		rec("", err)
		return "", "", "", err
	}
	addr, err := s.newAddress()
	if err != nil {
		rec("", err)
		return "", "", "", err
	}
	vout, _, err := s.findVout(p, c.OpeningTxHex)
	if err != nil {
		rec("", err)
		return "", "", "", err
	}
	var seq uint32
	var fee uint64
	if kind == "csv" {
		seq = s.csv(p)
	}
	if kind == "coop" && s.isBtc() {
		fee, _ = s.btc.GetFee(250)
	}
	tx, sigHash, redeem, err := s.prepare(p, c, addr, vout, seq, fee)
	if err != nil {
		rec("", err)
		return "", "", "", err
	}
	sig, err := c.Signer.Sign(sigHash)
	if err != nil {
		rec("", err)
		return "", "", "", err
	}
	switch kind {
	case "preimage":
		pre, err := lightning.MakePreimageFromStr(c.Preimage)
		if err != nil {
			rec("", err)
			return "", "", "", err
		}
		tx.TxIn[0].Witness = onchain.GetPreimageWitness(sig.Serialize(), pre[:], redeem)
	case "csv":
		tx.TxIn[0].Witness = onchain.GetCsvWitness(sig.Serialize(), redeem)
	case "coop":
		tsig, err := taker.Sign(sigHash)
		if err != nil {
			rec("", err)
			return "", "", "", err
		}
		tx.TxIn[0].Witness = onchain.GetCooperativeWitness(tsig.Serialize(), sig.Serialize(), redeem)
	}
	txHex := world.TxHex(tx)
	txid, err := s.chain.Submit(txHex, s.node, nil, "claim_"+kind)
	rec(txid, err)
	if err != nil {
		return "", "", "", err
	}
	return txid, txHex, addr, nil
}

func (s *SimWallet) CreatePreimageSpendingTransaction(p *swap.OpeningParams, c *swap.ClaimParams) (string, string, string, error) {
	return s.spend("preimage", p, c, nil)
}
func (s *SimWallet) CreateCsvSpendingTransaction(p *swap.OpeningParams, c *swap.ClaimParams) (string, string, string, error) {
	return s.spend("csv", p, c, nil)
}
func (s *SimWallet) CreateCoopSpendingTransaction(p *swap.OpeningParams, c *swap.ClaimParams, taker swap.Signer) (string, string, string, error) {
	return s.spend("coop", p, c, taker)
}

func (s *SimWallet) GetRefundFee() (uint64, error) { s.life.Op(false); return 300, nil }
func (s *SimWallet) GetFlatOpeningTXFee() (uint64, error) {
	s.life.Op(false)
	if err := s.fail("openingfee"); err != nil {
		return 0, err
	}
	return 300, nil
}
func (s *SimWallet) GetAsset() string {
	if s.isBtc() {
		return ""
	}
	return AssetField
}
func (s *SimWallet) GetNetwork() string {
	if s.isBtc() {
		return "regtest"
	}
	return ""
}
func (s *SimWallet) GetOnchainBalance() (uint64, error) {
	s.life.Op(false)
	if err := s.fail("balance"); err != nil {
		return 0, err
	}
	s.st.mu.Lock()
	locked := s.st.Locked
	s.st.mu.Unlock()
	if locked >= s.Cfg.Balance {
		return 0, nil
	}
	return s.Cfg.Balance - locked, nil
}

// ---------------------------------------------------------------- lbtc validator (abstract tier)

// SimLbtcValidator is the abstract-tier stand-in for onchain.LiquidOnChain's
// validator (which is checked on real confidential transactions in C01's
// enumeration).  It is a reference-quality implementation: exact amount,
// policy asset, script and unblindability with the announced key.
type SimLbtcValidator struct {
	w     *world.World
	chain *world.Chain
}

func (v *SimLbtcValidator) TxIdFromHex(txHex string) (string, error) {
	tx, err := world.ParseTx(txHex)
	if err != nil {
		return "", err
	}
	return tx.TxHash().String(), nil
}

func (v *SimLbtcValidator) GetCSVHeight() uint32 { return onchain.LiquidCsv }

func (v *SimLbtcValidator) ValidateTx(p *swap.OpeningParams, txHex string) (bool, error) {
	tx, err := world.ParseTx(txHex)
	if err != nil {
		return false, err
	}
	ct := v.chain.Get(tx.TxHash().String())
	if ct == nil {
		return false, errors.New("unknown transaction")
	}
	return LbtcOutputMatches(p, ct) >= 0, nil
}

// LbtcOutputMatches returns the index of an output of ct that satisfies the
// C01 predicate for params, or -1.
func LbtcOutputMatches(p *swap.OpeningParams, ct *world.ChainTx) int {
	rs, err := onchain.ParamsToTxScript(p, p.CSV)
	if err != nil {
		return -1
	}
	want := p2wsh(rs)
	for i, o := range ct.Msg.TxOut {
		if !bytes.Equal(o.PkScript, want) || o.Value != int64(p.Amount) {
			continue
		}
		a := ct.Annot[i]
		if a.Asset != LbtcAsset {
			continue
		}
		if a.BlindPub != "" {
			if p.BlindingKey == nil || hex.EncodeToString(p.BlindingKey.PubKey().SerializeCompressed()) != a.BlindPub {
				continue
			}
		}
		return i
	}
	return -1
}
