// Package node wires one incarnation of a real swap.SwapService onto the
// simulated world.
package node

import (
	"encoding/json"
	"errors"
	"fmt"
	"sort"
	"strings"
	"sync"

	"github.com/elementsproject/peerswap/swap"
	"verif/world"
)

// ---------------------------------------------------------------- store

// MemStore is durable across incarnations of a node.  It holds exactly what
// bboltStore holds: json.Marshal(*SwapStateMachine) per id (the equivalence of
// the two is checked in C14).
type MemStore struct {
	mu      sync.Mutex
	w       *world.World
	Node    string
	Records map[string][]byte
	Order   []string
	Writes  int
	FailAll bool
	cache   []*swap.SwapStateMachine // decoded view, valid while cacheAt == Writes (read-only!)
	cacheAt int
}

func NewMemStore(w *world.World, node string) *MemStore {
	return &MemStore{w: w, Node: node, Records: map[string][]byte{}}
}

// storeView is the per-incarnation face of the store.
type storeView struct {
	s    *MemStore
	life *world.Life
}

func (v *storeView) UpdateData(sm *swap.SwapStateMachine) error {
	v.life.Op(true)
	v.life.NoteStore()
	if v.s.w.ShouldFail(v.s.Node, "store.update") {
		return errors.New("store: write failed (injected)")
	}
	b, err := json.Marshal(sm)
	if err != nil {
		return err
	}
	id := sm.SwapId.String()
	v.s.mu.Lock()
	if _, ok := v.s.Records[id]; !ok {
		v.s.Order = append(v.s.Order, id)
	}
	v.s.Records[id] = b
	v.s.Writes++
	v.s.mu.Unlock()
	v.s.w.Record(world.Obs{Node: v.s.Node, Inc: v.life.Inc, Kind: "store", SwapID: id, State: string(sm.Current), Payload: string(b), Effect: true})
	return nil
}

func (s *MemStore) load(b []byte) (*swap.SwapStateMachine, error) {
	sm := &swap.SwapStateMachine{}
	if err := json.Unmarshal(b, sm); err != nil {
		return nil, err
	}
	return sm, nil
}

func (v *storeView) GetData(id string) (*swap.SwapStateMachine, error) {
	v.life.Op(false)
	v.s.mu.Lock()
	b, ok := v.s.Records[id]
	v.s.mu.Unlock()
	if !ok {
		return nil, swap.ErrDataNotAvailable
	}
	return v.s.load(b)
}

func (v *storeView) ListAll() ([]*swap.SwapStateMachine, error) {
	v.life.Op(false)
	return v.s.All()
}

func (s *MemStore) All() ([]*swap.SwapStateMachine, error) {
	s.mu.Lock()
	ids := append([]string{}, s.Order...)
	sort.Strings(ids) // bbolt iterates in key order
	var out []*swap.SwapStateMachine
	for _, id := range ids {
		sm, err := s.load(s.Records[id])
		if err != nil {
			s.mu.Unlock()
			return nil, err
		}
		out = append(out, sm)
	}
	s.mu.Unlock()
	return out, nil
}

func (v *storeView) ListAllByPeer(peer string) ([]*swap.SwapStateMachine, error) {
	all, err := v.ListAll()
	if err != nil {
		return nil, err
	}
	var out []*swap.SwapStateMachine
	for _, sm := range all {
		if sm.Data.PeerNodeId == peer {
			out = append(out, sm)
		}
	}
	return out, nil
}

// Raw returns a copy of the stored bytes.
func (s *MemStore) Raw() map[string]string {
	s.mu.Lock()
	defer s.mu.Unlock()
	out := map[string]string{}
	for k, v := range s.Records {
		out[k] = string(v)
	}
	return out
}

// ---------------------------------------------------------------- requested swaps

type reqStore struct {
	mu sync.Mutex
	m  map[string][]swap.RequestedSwap
}

func (r *reqStore) Add(id string, rs swap.RequestedSwap) error {
	r.mu.Lock()
	defer r.mu.Unlock()
	r.m[id] = append(r.m[id], rs)
	return nil
}
func (r *reqStore) Get(id string) ([]swap.RequestedSwap, error) {
	r.mu.Lock()
	defer r.mu.Unlock()
	return r.m[id], nil
}
func (r *reqStore) GetAll() (map[string][]swap.RequestedSwap, error) {
	r.mu.Lock()
	defer r.mu.Unlock()
	return r.m, nil
}

// ---------------------------------------------------------------- messenger

type messenger struct {
	w       *world.World
	node    string
	life    *world.Life
	handler func(peerId string, msgType string, payload []byte) error
}

func (m *messenger) SendMessage(peerId string, message []byte, messageType int) error {
	m.life.Op(true)
	var probe struct {
		SwapID string `json:"swap_id"`
	}
	_ = json.Unmarshal(message, &probe)
	if m.w.ShouldFail(m.node, "msg.send") {
		m.w.Record(world.Obs{Node: m.node, Inc: m.life.Inc, Kind: "send-failed", Peer: peerId, MsgType: messageType, Payload: string(message), SwapID: probe.SwapID, Effect: true})
		return errors.New("messenger: send failed (injected)")
	}
	m.w.Record(world.Obs{Node: m.node, Inc: m.life.Inc, Kind: "send", Peer: peerId, MsgType: messageType, Payload: string(message), SwapID: probe.SwapID, Effect: true, Extra: m.w.LN[m.node].PaySnapshot()})
	if m.w.Deliver != nil {
		m.w.Deliver(m.node, peerId, messageType, append([]byte{}, message...))
	}
	return nil
}

func (m *messenger) AddMessageHandler(f func(peerId string, msgType string, payload []byte) error) {
	m.handler = f
}

// ---------------------------------------------------------------- lightning

type lnClient struct {
	w    *world.World
	n    *world.LNNode
	life *world.Life
	cbs  []func(swapId string, invoiceType swap.InvoiceType)
}

func (l *lnClient) DecodePayreq(payreq string) (string, uint64, int64, error) {
	l.life.Op(false)
	if l.w.ShouldFail(l.n.ID, "ln.decode") {
		return "", 0, 0, errors.New("ln: decode failed (injected)")
	}
	inv, err := world.DecodeInvoice(payreq)
	if err != nil {
		return "", 0, 0, err
	}
	return inv.Hash, inv.Msat, inv.CLTV, nil
}

func (l *lnClient) PayInvoice(payreq string) (string, error) {
	l.life.Op(true)
	return "", errors.New("PayInvoice not used by the swap service")
}

func (l *lnClient) GetPayreq(msat uint64, preimage, swapId, memo string, t swap.InvoiceType, expirySeconds, expiryCltv uint64) (string, error) {
	l.life.Op(true)
	if l.w.ShouldFail(l.n.ID, "ln.invoice") {
		return "", errors.New("ln: invoice failed (injected)")
	}
	label := fmt.Sprintf("%s_%s", swapId, t)
	pr, err := l.n.CreateInvoice(msat, preimage, label, expirySeconds, expiryCltv)
	o := world.Obs{Node: l.n.ID, Inc: l.life.Inc, Kind: "ln.invoice", SwapID: swapId, Payreq: pr, Extra: fmt.Sprintf("type=%s msat=%d expiry=%d cltv=%d memo=%s", t, msat, expirySeconds, expiryCltv, memo), Effect: true}
	if err != nil {
		o.Err = err.Error()
	}
	l.w.Record(o)
	return pr, err
}

func (l *lnClient) PayInvoiceViaChannel(payreq, channel string) (string, error) {
	l.life.Op(true)
	return l.n.Pay(l.life, payreq, channel, 0, "ln.payfee")
}

func (l *lnClient) RebalancePayment(payreq, channel string, maxTotalCLTVDelta uint32) (string, error) {
	l.life.Op(true)
	return l.n.Pay(l.life, payreq, channel, maxTotalCLTVDelta, "ln.payclaim")
}

func (l *lnClient) RecoverClaimPayment(payreq string) (string, error) {
	l.life.Op(true)
	return l.n.Track(l.life, payreq)
}

func (l *lnClient) AddPaymentCallback(f func(swapId string, invoiceType swap.InvoiceType)) {
	l.cbs = append(l.cbs, f)
}

func (l *lnClient) onPaid(label string) {
	l.life.Op(false)
	i := strings.LastIndex(label, "_")
	if i < 0 {
		return
	}
	var t swap.InvoiceType
	switch label[i+1:] {
	case "claim":
		t = swap.INVOICE_CLAIM
	case "fee":
		t = swap.INVOICE_FEE
	}
	for _, cb := range l.cbs {
		cb(label[:i], t)
	}
}

func (l *lnClient) AddPaymentNotifier(swapId, payreq string, t swap.InvoiceType) {
	l.life.Op(true)
	l.w.Record(world.Obs{Node: l.n.ID, Inc: l.life.Inc, Kind: "ln.notifier", SwapID: swapId, Payreq: payreq, Extra: t.String(), Effect: true})
	l.n.AddNotifier(fmt.Sprintf("%s_%s", swapId, t))
}

func (l *lnClient) CanSpend(amountMsat uint64) error { l.life.Op(false); return nil }

func (l *lnClient) Implementation() string {
	if l.n.LND {
		return "LND"
	}
	return "CLN"
}

func (l *lnClient) SpendableMsat(scid string) (uint64, error) {
	l.life.Op(false)
	if l.w.ShouldFail(l.n.ID, "ln.spendable") {
		return 0, errors.New("ln: listchannels failed (injected)")
	}
	ch := l.n.Channel(scid)
	if ch == nil {
		return 0, fmt.Errorf("could not find a channel with scid: %s", scid)
	}
	return ch.Spendable, nil
}

func (l *lnClient) ReceivableMsat(scid string) (uint64, error) {
	l.life.Op(false)
	ch := l.n.Channel(scid)
	if ch == nil {
		return 0, fmt.Errorf("could not find a channel with scid: %s", scid)
	}
	return ch.Receivable, nil
}

func (l *lnClient) ProbePayment(scid string, amountMsat uint64) (bool, string, error) {
	l.life.Op(false)
	if l.w.ShouldFail(l.n.ID, "ln.probe") {
		return false, "", errors.New("ln: probe failed (injected)")
	}
	ch := l.n.Channel(scid)
	if ch == nil {
		return false, "", fmt.Errorf("could not find a channel with scid: %s", scid)
	}
	if ch.Spendable < amountMsat {
		return false, "WIRE_TEMPORARY_CHANNEL_FAILURE", nil
	}
	return true, "", nil
}

// ---------------------------------------------------------------- policy (permissive)

type SimPolicy struct {
	mu         sync.Mutex
	w          *world.World
	node       string
	life       *world.Life
	Suspicious map[string]bool
	Disabled   bool
	MinMsat    uint64
}

func (p *SimPolicy) IsPeerAllowed(peer string) bool { return true }
func (p *SimPolicy) IsPeerSuspicious(peer string) bool {
	p.mu.Lock()
	defer p.mu.Unlock()
	return p.Suspicious[peer]
}
func (p *SimPolicy) AddToSuspiciousPeerList(pubkey string) error {
	p.life.Op(true)
	p.w.Record(world.Obs{Node: p.node, Inc: p.life.Inc, Kind: "policy.suspicious", Peer: pubkey, Effect: true})
	p.mu.Lock()
	defer p.mu.Unlock()
	p.Suspicious[pubkey] = true
	return nil
}
func (p *SimPolicy) GetReserveOnchainMsat() uint64 { return 0 }
func (p *SimPolicy) GetMinSwapAmountMsat() uint64  { return p.MinMsat }
func (p *SimPolicy) NewSwapsAllowed() bool         { return !p.Disabled }

// opPolicy makes the one mutating method of a scenario-supplied policy an effect operation.
type opPolicy struct {
	swap.Policy
	life *world.Life
}

func (p *opPolicy) AddToSuspiciousPeerList(pubkey string) error {
	p.life.Op(true)
	return p.Policy.AddToSuspiciousPeerList(pubkey)
}
