package node

import (
	"errors"
	"fmt"
	"sort"
	"sync"

	"verif/world"
)

// SimWatcher is the idealised chain watcher of the abstract tier: it reports
// exactly what C20 demands of a watcher (the real watchers are explored
// against the same chain in C20 and plugged in instead of this one in the
// integrated tiers).
type SimWatcher struct {
	mu      sync.Mutex
	w       *world.World
	chain   *world.Chain
	node    string
	life    *world.Life
	confCb  func(swapId string, txHex string, err error) error
	csvCb   func(swapId string) error
	conf    map[string]*confReg
	csv     map[string]*csvReg
	started bool
	dirty   bool
}

type confReg struct {
	txid          string
	vout          uint32
	start, window uint32
}
type csvReg struct {
	txid string
	vout uint32
	csv  uint32
}

func newSimWatcher(w *world.World, c *world.Chain, node string, life *world.Life) *SimWatcher {
	s := &SimWatcher{w: w, chain: c, node: node, life: life, conf: map[string]*confReg{}, csv: map[string]*csvReg{}}
	c.Subscribe(func(h uint32) {
		if life.Dead() {
			return
		}
		go s.poll()
	})
	return s
}

func (s *SimWatcher) GetBlockHeight() (uint32, error) {
	s.life.Op(false)
	if s.w.ShouldFail(s.node, s.chain.Name+".getblockcount") {
		return 0, errors.New("rpc: getblockcount failed (injected)")
	}
	return s.w.ReportedTip(s.node, s.chain), nil
}

func (s *SimWatcher) StartWatchingTxs() error { return nil }

func (s *SimWatcher) AddConfirmationCallback(f func(swapId string, txHex string, err error) error) {
	s.mu.Lock()
	s.confCb = f
	s.mu.Unlock()
}
func (s *SimWatcher) AddCsvCallback(f func(swapId string) error) {
	s.mu.Lock()
	s.csvCb = f
	s.mu.Unlock()
}

func (s *SimWatcher) AddWaitForConfirmationTx(swapID, txID string, vout, startingHeight, paymentWindow uint32, _ []byte) {
	s.life.Op(true)
	s.w.Record(world.Obs{Node: s.node, Inc: s.life.Inc, Kind: "watch.conf", Chain: s.chain.Name, SwapID: swapID, TxID: txID, Vout: vout,
		Extra: fmt.Sprintf("start=%d window=%d", startingHeight, paymentWindow), Effect: true})
	s.mu.Lock()
	s.conf[swapID] = &confReg{txid: txID, vout: vout, start: startingHeight, window: paymentWindow}
	s.dirty = true
	s.mu.Unlock()
}

func (s *SimWatcher) AddWaitForCsvTx(swapID, txID string, vout, startingHeight, csv uint32, _ []byte) {
	s.life.Op(true)
	s.w.Record(world.Obs{Node: s.node, Inc: s.life.Inc, Kind: "watch.csv", Chain: s.chain.Name, SwapID: swapID, TxID: txID, Vout: vout,
		Extra: fmt.Sprintf("start=%d csv=%d", startingHeight, csv), Effect: true})
	s.mu.Lock()
	s.csv[swapID] = &csvReg{txid: txID, vout: vout, csv: csv}
	s.dirty = true
	s.mu.Unlock()
}

// PollIfDirty runs the first check of new registrations.  The harness calls
// it after the registering handler has gone quiescent (a watcher reacts to a
// registration asynchronously; the interleavings of a callback with the
// still-running handler are the subject of the scheduler-based checks).
func (s *SimWatcher) PollIfDirty() bool {
	s.mu.Lock()
	d := s.dirty
	s.dirty = false
	s.mu.Unlock()
	if d && !s.life.Dead() {
		go s.poll()
	}
	return d
}

func (s *SimWatcher) poll() {
	s.life.Op(false)
	tip := s.chain.Tip()
	s.mu.Lock()
	type confFire struct {
		id  string
		hex string
		err error
	}
	var cf []confFire
	var ids []string
	for id := range s.conf {
		ids = append(ids, id)
	}
	sort.Strings(ids)
	for _, id := range ids {
		r := s.conf[id]
		if uint64(tip) >= uint64(r.start)+uint64(r.window) {
			cf = append(cf, confFire{id, "", errors.New("exceeded csv limit")})
			delete(s.conf, id)
			continue
		}
		if c := s.chain.Confs(r.txid); c >= int(s.chain.MinConf) {
			cf = append(cf, confFire{id, s.chain.Get(r.txid).Hex, nil})
			delete(s.conf, id)
		}
	}
	var csvFire []string
	ids = ids[:0]
	for id := range s.csv {
		ids = append(ids, id)
	}
	sort.Strings(ids)
	for _, id := range ids {
		r := s.csv[id]
		if s.chain.SpentBy(r.txid, r.vout) != "" {
			continue
		}
		ct := s.chain.Get(r.txid)
		if ct == nil || int(r.vout) >= len(ct.Msg.TxOut) {
			continue
		}
		if c := s.chain.Confs(r.txid); c >= int(r.csv) {
			csvFire = append(csvFire, id)
		}
	}
	fired := map[string]*csvReg{}
	for _, id := range csvFire {
		fired[id] = s.csv[id]
		delete(s.csv, id)
	}
	confCb, csvCb := s.confCb, s.csvCb
	s.mu.Unlock()
	for _, f := range cf {
		if confCb != nil {
			s.life.Op(false)
			_ = confCb(f.id, f.hex, f.err)
		}
	}
	for _, id := range csvFire {
		if csvCb != nil {
			s.life.Op(false)
			if err := csvCb(id); err != nil {
				s.mu.Lock()
				if _, ok := s.csv[id]; !ok {
					s.csv[id] = fired[id]
				}
				s.mu.Unlock()
			}
		}
	}
}

func (s *SimWatcher) Key() string {
	s.mu.Lock()
	defer s.mu.Unlock()
	var parts []string
	for id, r := range s.conf {
		parts = append(parts, fmt.Sprintf("conf:%s:%s:%d", id, r.txid, r.vout))
	}
	for id, r := range s.csv {
		parts = append(parts, fmt.Sprintf("csv:%s:%s:%d", id, r.txid, r.vout))
	}
	sort.Strings(parts)
	return fmt.Sprintf("W%s%v", s.chain.Name, parts)
}
