package node

import (
	"encoding/base64"
	"encoding/hex"
	"encoding/json"
	"fmt"
	"sort"
	"strings"
	"testing/synctest"
	"time"

	"github.com/elementsproject/peerswap/messages"
	"github.com/elementsproject/peerswap/premium"
	"github.com/elementsproject/peerswap/swap"
	"verif/world"
)

// Durable is what survives a crash of the node process.
type Durable struct {
	Store      *MemStore
	BtcWallet  *WalletState
	LbtcWall   *WalletState
	Suspicious map[string]bool
}

type Cfg struct {
	ID        string
	LND       bool
	Btc, Lbtc bool
	BtcCfg    *WalletCfg
	LbtcCfg   *WalletCfg
	Premium   *premium.Setting
	// Policy, when non-nil, replaces the permissive simulated policy.
	Policy  swap.Policy
	MinMsat uint64
	// Watchers, when non-nil, replace the idealised watchers.
	BtcWatcher, LbtcWatcher swap.TxWatcher
	// LbtcValidator / LbtcWallet override (integrated tier)
	LbtcValidator swap.Validator
	LbtcWallet    swap.Wallet
}

// Node is one incarnation of a real swap.SwapService.
type Node struct {
	W     *world.World
	Cfg   Cfg
	D     *Durable
	Inc   int
	Life  *world.Life
	Svc   *swap.SwapService
	LN    *world.LNNode
	Msgr  *messenger
	Pol   *SimPolicy
	BtcW  *SimWatcher
	LbtcW *SimWatcher
	Mgr   *messages.Manager
	lnc   *lnClient
}

func NewDurable(w *world.World, id string) *Durable {
	return &Durable{Store: NewMemStore(w, id), BtcWallet: NewWalletState(), LbtcWall: NewWalletState(), Suspicious: map[string]bool{}}
}

// Boot starts a new incarnation: NewSwapServices / NewSwapService / Start,
// exactly as the daemons do.  RecoverSwaps is a separate step.
func Boot(w *world.World, cfg Cfg, d *Durable, inc int) *Node {
	n := &Node{W: w, Cfg: cfg, D: d, Inc: inc}
	n.Life = w.NewLife(cfg.ID, inc)
	ln := w.LN[cfg.ID]
	if ln == nil {
		ln = w.AddLN(cfg.ID, cfg.LND)
	}
	n.LN = ln
	n.lnc = &lnClient{w: w, n: ln, life: n.Life}
	ln.ResetIncarnation(n.lnc.onPaid)
	n.Msgr = &messenger{w: w, node: cfg.ID, life: n.Life}
	n.Mgr = messages.NewManager()
	n.Pol = &SimPolicy{w: w, node: cfg.ID, life: n.Life, Suspicious: d.Suspicious, MinMsat: cfg.MinMsat}
	var pol swap.Policy = n.Pol
	if cfg.Policy != nil {
		// a policy supplied by the scenario (e.g. the real policy.Policy on a real file): recording a
		// suspicious peer is an effect operation of this incarnation (a crash point, and impossible after death)
		pol = &opPolicy{Policy: cfg.Policy, life: n.Life}
	}
	boc := NewBitcoinOnChain()
	var btcWallet, lbtcWallet swap.Wallet
	var btcVal, lbtcVal swap.Validator
	var btcWatch, lbtcWatch swap.TxWatcher
	if cfg.Btc {
		btcWallet = &SimWallet{w: w, chain: w.Btc, node: cfg.ID, life: n.Life, btc: boc, Cfg: cfg.BtcCfg, st: d.BtcWallet}
		btcVal = boc
		if cfg.BtcWatcher != nil {
			btcWatch = cfg.BtcWatcher
		} else {
			n.BtcW = newSimWatcher(w, w.Btc, cfg.ID, n.Life)
			btcWatch = n.BtcW
		}
	}
	if cfg.Lbtc {
		lbtcWallet = &SimWallet{w: w, chain: w.Lbtc, node: cfg.ID, life: n.Life, btc: boc, Cfg: cfg.LbtcCfg, st: d.LbtcWall}
		lbtcVal = &SimLbtcValidator{w: w, chain: w.Lbtc}
		if cfg.LbtcWallet != nil {
			lbtcWallet = cfg.LbtcWallet
		}
		if cfg.LbtcValidator != nil {
			lbtcVal = cfg.LbtcValidator
		}
		if cfg.LbtcWatcher != nil {
			lbtcWatch = cfg.LbtcWatcher
		} else {
			n.LbtcW = newSimWatcher(w, w.Lbtc, cfg.ID, n.Life)
			lbtcWatch = n.LbtcW
		}
	}
	ss := swap.NewSwapServices(
		&storeView{s: d.Store, life: n.Life},
		&reqStore{m: map[string][]swap.RequestedSwap{}},
		n.lnc, n.Msgr, n.Mgr, pol,
		cfg.Btc, btcWallet, btcVal, btcWatch,
		cfg.Lbtc, lbtcWallet, lbtcVal, lbtcWatch,
		cfg.Premium,
	)
	n.Svc = swap.NewSwapService(ss)
	if err := n.Svc.Start(); err != nil {
		panic(err)
	}
	w.Record(world.Obs{Node: cfg.ID, Inc: inc, Kind: "boot"})
	return n
}

// Run executes f as an entry-point call of the node in its own goroutine and
// waits for quiescence (all goroutines of the bubble durably blocked).
func Run(f func()) {
	go f()
	synctest.Wait()
}

// Settle lets pending same-instant timers and goroutines finish.
func Settle() { synctest.Wait() }

// RecoverPlain runs RecoverSwaps in the calling goroutine (no bubble).
func (n *Node) RecoverPlain() { _ = n.Svc.RecoverSwaps() }

// Handler returns the message handler the service registered.
func (n *Node) Handler() func(peerId string, msgType string, payload []byte) error {
	return n.Msgr.handler
}

func (n *Node) Recover() {
	Run(func() {
		n.Life.Op(false)
		_ = n.Svc.RecoverSwaps()
	})
}

// Deliver hands one peer message to the node the way the daemons do.
func (n *Node) Deliver(from string, msgType int, payload []byte) {
	h := n.Msgr.handler
	if h == nil {
		return
	}
	Run(func() {
		n.Life.Op(false)
		_ = h(from, messages.MessageTypeToHexString(messages.MessageType(msgType)), payload)
	})
}

func (n *Node) DeliverRaw(from, msgType string, payload []byte) (err error, panicked any) {
	h := n.Msgr.handler
	if h == nil {
		return nil, nil
	}
	done := make(chan struct{})
	go func() {
		defer close(done)
		defer func() { panicked = recover() }()
		n.Life.Op(false)
		err = h(from, msgType, payload)
	}()
	synctest.Wait()
	return
}

// Kill ends the incarnation (crash): nothing of it can take effect any more.
func (n *Node) Kill() {
	n.Life.Kill()
}

// SwapView is the canonical, label-normalised view of one swap.
type SwapView struct {
	ID      string
	Current string
	Active  bool
	Record  string // persisted JSON
}

// Swaps returns persisted swaps sorted by creation order.
func (n *Node) Swaps() []*swap.SwapStateMachine {
	n.D.Store.mu.Lock()
	if n.D.Store.cache != nil && n.D.Store.cacheAt == n.D.Store.Writes {
		c := n.D.Store.cache
		n.D.Store.mu.Unlock()
		return c
	}
	at := n.D.Store.Writes
	n.D.Store.mu.Unlock()
	out := n.swapsUncached()
	n.D.Store.mu.Lock()
	n.D.Store.cache, n.D.Store.cacheAt = out, at
	n.D.Store.mu.Unlock()
	return out
}

func (n *Node) swapsUncached() []*swap.SwapStateMachine {
	all, _ := n.D.Store.All()
	byID := map[string]*swap.SwapStateMachine{}
	for _, s := range all {
		byID[s.SwapId.String()] = s
	}
	var out []*swap.SwapStateMachine
	for _, id := range n.D.Store.Order {
		out = append(out, byID[id])
	}
	return out
}

func (n *Node) Active(id string) *swap.SwapStateMachine {
	s, err := n.Svc.GetActiveSwap(id)
	if err != nil {
		return nil
	}
	return s
}

// Key renders the node state with raw (random) material; Tokens lists that
// material in a deterministic order so that the caller can label it.
func (n *Node) Key() string {
	var parts []string
	rawAll := n.D.Store.Raw()
	for _, id := range n.D.Store.Order {
		parts = append(parts, id+"="+rawAll[id])
		if a := n.Active(id); a != nil {
			parts = append(parts, "active:"+id+":"+string(a.Current))
		}
	}
	k := fmt.Sprintf("N[%s inc=%d dead=%v %s", n.Cfg.ID[:4], boolInt(n.Inc > 0), n.Life.Dead(), strings.Join(parts, ";"))
	if n.BtcW != nil {
		k += n.BtcW.Key()
	}
	if n.LbtcW != nil {
		k += n.LbtcW.Key()
	}
	var sus []string
	for p := range n.D.Suspicious {
		sus = append(sus, p[:4])
	}
	sort.Strings(sus)
	k += fmt.Sprintf(" sus%v]", sus)
	return k + n.LN.Key()
}

// Tokens returns the random strings of the node's swaps in a deterministic
// order (store order, fixed field order): class, value pairs.
func (n *Node) Tokens() [][2]string {
	var out [][2]string
	add := func(class, v string) {
		if v != "" {
			out = append(out, [2]string{class, v})
		}
	}
	inv := func(pr string) {
		if pr == "" {
			return
		}
		add("inv", pr)
		if i, err := world.DecodeInvoice(pr); err == nil {
			add("h", i.Hash)
		}
	}
	for _, sm := range n.Swaps() {
		d := sm.Data
		add("id", sm.SwapId.String())
		add("sk", base64.StdEncoding.EncodeToString(d.PrivkeyBytes))
		add("skhex", hex.EncodeToString(d.PrivkeyBytes))
		if d.SwapInRequest != nil {
			add("pk", d.SwapInRequest.Pubkey)
		}
		if d.SwapOutRequest != nil {
			add("pk", d.SwapOutRequest.Pubkey)
		}
		if d.SwapInAgreement != nil {
			add("pk", d.SwapInAgreement.Pubkey)
		}
		if d.SwapOutAgreement != nil {
			add("pk", d.SwapOutAgreement.Pubkey)
			inv(d.SwapOutAgreement.Payreq)
		}
		if d.OpeningTxBroadcasted != nil {
			inv(d.OpeningTxBroadcasted.Payreq)
			add("tx", d.OpeningTxBroadcasted.TxId)
			add("bk", d.OpeningTxBroadcasted.BlindingKey)
		}
		if d.CoopClose != nil {
			add("skhex", d.CoopClose.Privkey)
		}
		add("bk", d.BlindingKeyHex)
		add("pre", d.FeePreimage)
		add("pre", d.ClaimPreimage)
		add("h", d.ClaimPaymentHash)
		add("tx", d.ClaimTxId)
		add("txhex", d.OpeningTxHex)
		add("msg", base64.StdEncoding.EncodeToString(d.NextMessage))
	}
	return out
}

func boolInt(b bool) int {
	if b {
		return 1
	}
	return 0
}

var _ = time.Second
var _ = json.Marshal
