// Package world is the simulated environment (trusted base) of every check:
// chains, Lightning nodes, wallets, messengers, stores and the observation log.
// It is deliberately small, deterministic and strict.
package world

import (
	"crypto/sha256"
	"encoding/hex"
	"fmt"
	"runtime"
	"sort"
	"sync"
	"time"
)

// Obs is one externally visible operation performed by a node (or the chain),
// recorded in order.  Oracles are monitors over this log plus ground truth.
type Obs struct {
	Seq     int           `json:"seq"`
	At      time.Duration `json:"at"`
	Node    string        `json:"node,omitempty"`
	Inc     int           `json:"inc,omitempty"`
	Kind    string        `json:"kind"`
	SwapID  string        `json:"swap,omitempty"`
	Peer    string        `json:"peer,omitempty"`
	MsgType int           `json:"msgtype,omitempty"`
	Payload string        `json:"payload,omitempty"`
	State   string        `json:"state,omitempty"`
	Chain   string        `json:"chain,omitempty"`
	TxID    string        `json:"txid,omitempty"`
	Vout    uint32        `json:"vout,omitempty"`
	Payreq  string        `json:"payreq,omitempty"`
	Hash    string        `json:"hash,omitempty"`
	Scid    string        `json:"scid,omitempty"`
	Limit   uint32        `json:"limit,omitempty"`
	Result  string        `json:"result,omitempty"`
	Err     string        `json:"err,omitempty"`
	// LagA: how far node A's backend was behind the tip of the scenario's chain when this was recorded
	LagA    uint32        `json:"lag_a,omitempty"`
	BtcTip  uint32        `json:"btc_tip"`
	LbtcTip uint32        `json:"lbtc_tip"`
	Extra   string        `json:"extra,omitempty"`
	Effect  bool          `json:"effect,omitempty"` // counted as a crash point
}

// World holds everything outside the nodes under test.
type World struct {
	// HeightLag: node/chain -> number of blocks the node's backend is behind in its answers to
	// getblockcount (a backend that is still syncing or was restored from a snapshot); at most one entry is used
	HeightLag map[string]uint32
	mu    sync.Mutex
	Epoch time.Time
	Btc   *Chain
	Lbtc  *Chain
	LN    map[string]*LNNode
	Log   []Obs
	// Faults: key "<node>/<service.method>" -> list of remaining countdowns;
	// a call fails when its countdown reaches zero.
	Faults map[string][]int
	// PayPlan: per payer node, outcomes for the next payment attempts.
	PayPlan map[string][]PayOutcome
	// Deliver, if set, is called for every message a node sends (two-node runs).
	Deliver func(from, to string, msgType int, payload []byte)
	// Labels for canonicalisation: random strings in first-seen order.
}

func New() *World {
	w := &World{
		Epoch:   time.Now(),
		LN:      map[string]*LNNode{},
		Faults:  map[string][]int{},
		PayPlan: map[string][]PayOutcome{},
	}
	w.Btc = newChain(w, "btc", 3)
	w.Lbtc = newChain(w, "lbtc", 2)
	return w
}

func (w *World) Chain(name string) *Chain {
	if name == "btc" {
		return w.Btc
	}
	return w.Lbtc
}

func (w *World) now() time.Duration { return time.Since(w.Epoch) }

// Record appends an observation.  Caller must NOT hold w.mu.
func (w *World) Record(o Obs) {
	w.mu.Lock()
	defer w.mu.Unlock()
	w.recordLocked(o)
}

func (w *World) recordLocked(o Obs) {
	o.Seq = len(w.Log)
	o.At = w.now()
	o.BtcTip = w.Btc.Height
	for _, l := range w.HeightLag {
		o.LagA = l
	}
	o.LbtcTip = w.Lbtc.Height
	w.Log = append(w.Log, o)
}

// Labeler maps random strings (ids, keys, hashes, txids, invoices) to
// canonical labels in first-seen order.  One Labeler lives for exactly one
// state-key computation, whose traversal order is deterministic, so keys do
// not depend on randomness nor on when earlier keys were computed.
type Labeler struct {
	labels map[string]string
	seq    map[string]int
}

func NewLabeler() *Labeler { return &Labeler{labels: map[string]string{}, seq: map[string]int{}} }

func (l *Labeler) Label(class, s string) string {
	if s == "" {
		return ""
	}
	if v, ok := l.labels[s]; ok {
		return v
	}
	l.seq[class]++
	v := fmt.Sprintf("%s%d", class, l.seq[class])
	l.labels[s] = v
	return v
}

// ShouldFail consumes one call of node/method from the fault plan.
func (w *World) ShouldFail(node, method string) bool {
	w.mu.Lock()
	defer w.mu.Unlock()
	key := node + "/" + method
	lst := w.Faults[key]
	if len(lst) == 0 {
		return false
	}
	fail := false
	out := lst[:0]
	for _, c := range lst {
		if c == 0 {
			fail = true
			continue
		}
		out = append(out, c-1)
	}
	if len(out) == 0 {
		delete(w.Faults, key)
	} else {
		w.Faults[key] = out
	}
	if fail {
		w.recordLocked(Obs{Node: node, Kind: "fault-fired", Extra: method})
	}
	return fail
}

// AddFault makes the (k+1)-th next call of node/method fail (k=0: the next).
func (w *World) AddFault(node, method string, k int) {
	w.mu.Lock()
	defer w.mu.Unlock()
	key := node + "/" + method
	w.Faults[key] = append(w.Faults[key], k)
}

func (w *World) FaultKey() string {
	w.mu.Lock()
	defer w.mu.Unlock()
	var ks []string
	for k, v := range w.Faults {
		ks = append(ks, fmt.Sprintf("%s=%v", k, v))
	}
	sort.Strings(ks)
	var ps []string
	for k, v := range w.PayPlan {
		if len(v) > 0 {
			ps = append(ps, fmt.Sprintf("%s=%v", k, v))
		}
	}
	sort.Strings(ps)
	var ls []string
	for k, v := range w.HeightLag {
		ls = append(ls, fmt.Sprintf("%s=%d", k, v))
	}
	sort.Strings(ls)
	if len(ls) > 0 {
		return fmt.Sprintf("F%v P%v L%v", ks, ps, ls)
	}
	return fmt.Sprintf("F%v P%v", ks, ps)
}

// Life is the liveness token of one node incarnation.  Every simulated
// service call goes through Op: a dead incarnation can never again produce an
// effect (the calling goroutine ends via runtime.Goexit, deferred unlocks run).
type Life struct {
	w       *World
	Node    string
	Inc     int
	mu      sync.Mutex
	dead    bool
	crashAt int // -1: none; else number of effect ops still allowed
	Effects int // effect ops performed by this incarnation since ResetCount
	stores  []int // indices (since ResetCount) of the effect ops that were store writes
}

func (w *World) NewLife(node string, inc int) *Life {
	return &Life{w: w, Node: node, Inc: inc, crashAt: -1}
}

func (l *Life) Dead() bool {
	l.mu.Lock()
	defer l.mu.Unlock()
	return l.dead
}

func (l *Life) Kill() {
	l.mu.Lock()
	l.dead = true
	l.mu.Unlock()
}

// ArmCrash makes the incarnation die immediately before its (k+1)-th next
// effect operation.
func (l *Life) ArmCrash(k int) {
	l.mu.Lock()
	l.crashAt = k
	l.mu.Unlock()
}

func (l *Life) CrashArmed() bool {
	l.mu.Lock()
	defer l.mu.Unlock()
	return l.crashAt >= 0 && !l.dead
}

func (l *Life) ResetCount() {
	l.mu.Lock()
	l.Effects = 0
	l.stores = nil
	l.mu.Unlock()
}

// NoteStore marks the effect op just performed as a durable store write.
func (l *Life) NoteStore() {
	l.mu.Lock()
	l.stores = append(l.stores, l.Effects-1)
	l.mu.Unlock()
}

// StoreOps returns the indices of the store writes among the effect ops since ResetCount.
func (l *Life) StoreOps() []int {
	l.mu.Lock()
	defer l.mu.Unlock()
	return append([]int{}, l.stores...)
}

func (l *Life) EffectCount() int {
	l.mu.Lock()
	defer l.mu.Unlock()
	return l.Effects
}

// YieldHook, when set (scheduler-based exploration), is a scheduling point in
// front of every simulated service call.
var YieldHook func(what string)

// Spawn starts a goroutine of the simulation; the scheduler-based engine
// replaces it so that such goroutines become managed threads.
var Spawn = func(f func()) { go f() }

// Op must be called at the start of every simulated service call.
func (l *Life) Op(effect bool) {
	if YieldHook != nil {
		YieldHook("env")
	}
	l.mu.Lock()
	if l.dead {
		l.mu.Unlock()
		runtime.Goexit()
	}
	if effect {
		if l.crashAt == 0 {
			l.dead = true
			l.crashAt = -1
			l.mu.Unlock()
			l.w.Record(Obs{Node: l.Node, Inc: l.Inc, Kind: "crash"})
			runtime.Goexit()
		}
		if l.crashAt > 0 {
			l.crashAt--
		}
		l.Effects++
	}
	l.mu.Unlock()
}

func Sha256Hex(b []byte) string {
	h := sha256.Sum256(b)
	return hex.EncodeToString(h[:])
}

// ReportedTip is the height the node's backend answers for the chain (tip minus its lag).
func (w *World) ReportedTip(node string, c *Chain) uint32 {
	t := c.Tip()
	w.mu.Lock()
	l := w.HeightLag[node+"/"+c.Name]
	w.mu.Unlock()
	if l > t {
		return 0
	}
	return t - l
}
