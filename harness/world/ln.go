package world

import (
	"encoding/base64"
	"encoding/hex"
	"encoding/json"
	"errors"
	"fmt"
	"sort"
	"strings"
	"time"

	"github.com/elementsproject/peerswap/lightning"
)

// Invoice is the self-describing payment request of the simulation.  BOLT11
// parsing is the real Lightning node's job and outside peerswap.
type Invoice struct {
	Hash     string `json:"h"`
	Msat     uint64 `json:"a"`
	CLTV     int64  `json:"c"`
	Dest     string `json:"d"`
	ExpiryAt int64  `json:"e"` // virtual seconds since world epoch; 0 = never
	Nonce    int    `json:"n,omitempty"`
}

const payreqPrefix = "lnsim1"

func EncodeInvoice(inv Invoice) string {
	b, _ := json.Marshal(inv)
	return payreqPrefix + base64.RawURLEncoding.EncodeToString(b)
}

func DecodeInvoice(s string) (Invoice, error) {
	var inv Invoice
	if !strings.HasPrefix(s, payreqPrefix) {
		return inv, errors.New("invalid payment request")
	}
	b, err := base64.RawURLEncoding.DecodeString(s[len(payreqPrefix):])
	if err != nil {
		return inv, errors.New("invalid payment request")
	}
	if err := json.Unmarshal(b, &inv); err != nil {
		return inv, errors.New("invalid payment request")
	}
	return inv, nil
}

type PayOutcome int

const (
	PayDefault    PayOutcome = iota // settle if the payee can, else fail
	PayFail                         // definitive failure, nothing in flight
	PayPendingErr                   // HTLC goes out, the call errors; resolved later by Resolve
	PaySettledErr                   // payment settles, but the call returns an error
	PayHold                         // HTLC goes out and the call blocks until Resolve (CLN) / polls (LND)
)

func (p PayOutcome) String() string {
	return [...]string{"ok", "fail", "err-pending", "err-settled", "hold"}[p]
}

type PayState int

const (
	PayNone PayState = iota
	PayInflight
	PaySucceeded
	PayFailed
)

func (p PayState) String() string { return [...]string{"none", "inflight", "succeeded", "failed"}[p] }

type Payment struct {
	Hash     string
	Payreq   string
	State    PayState
	Attempts int
	Preimage string
	waiters  []chan struct{}
	Scids    []string
	Limits   []uint32
}

type LocalInvoice struct {
	Payreq   string
	Inv      Invoice
	Preimage string
	Label    string // swapId_type
	Paid     bool
	PaidAt   time.Duration
}

type Channel struct {
	Scid       string // canonical "x" form
	Peer       string
	Spendable  uint64
	Receivable uint64
}

// LNNode is one Lightning node (CLN-like or LND-like personality).
type LNNode struct {
	w        *World
	ID       string
	LND      bool
	Channels []*Channel
	Invoices map[string]*LocalInvoice // by payment hash
	Payments map[string]*Payment      // by payment hash
	// notifier registrations: label -> registered (per current incarnation)
	notifiers map[string]bool
	onPaid    func(label string)
	// Adversary: true when no real peerswap node runs on top (invoices are crafted by the scenario).
	Adversary bool
	// preimages the adversary is willing to release, by hash
	AdvPreimages map[string]string
	nonce        int
	invOrder     []string // creation order (deterministic rendering)
	payOrder     []string
	notOrder     []string
}

// Inflight returns the hashes of in-flight payments in creation order.
func (n *LNNode) Inflight() []string {
	n.w.mu.Lock()
	defer n.w.mu.Unlock()
	var out []string
	for _, h := range n.payOrder {
		if n.Payments[h].State == PayInflight {
			out = append(out, h)
		}
	}
	return out
}

func (w *World) AddLN(id string, lnd bool) *LNNode {
	n := &LNNode{w: w, ID: id, LND: lnd, Invoices: map[string]*LocalInvoice{}, Payments: map[string]*Payment{},
		notifiers: map[string]bool{}, AdvPreimages: map[string]string{}}
	w.LN[id] = n
	return n
}

func NormScid(s string) string { return strings.ReplaceAll(s, ":", "x") }

func (n *LNNode) Channel(scid string) *Channel {
	for _, c := range n.Channels {
		if c.Scid == NormScid(scid) {
			return c
		}
	}
	return nil
}

// ResetIncarnation forgets process-local registrations (restart of the node).
func (n *LNNode) ResetIncarnation(onPaid func(label string)) {
	n.w.mu.Lock()
	n.notifiers = map[string]bool{}
	n.notOrder = nil
	n.onPaid = onPaid
	n.w.mu.Unlock()
}

// CreateInvoice registers an invoice of this node.
func (n *LNNode) CreateInvoice(msat uint64, preimageHex, label string, expirySeconds, cltv uint64) (string, error) {
	pre, err := lightning.MakePreimageFromStr(preimageHex)
	if err != nil {
		return "", err
	}
	n.w.mu.Lock()
	defer n.w.mu.Unlock()
	if !n.LND { // CLN refuses a second invoice with the same label; lnd has no labels
		for _, li := range n.Invoices {
			if li.Label == label {
				return "", fmt.Errorf("Duplicate label '%s'", label)
			}
		}
	}
	h := pre.Hash().String()
	inv := Invoice{Hash: h, Msat: msat, CLTV: int64(cltv), Dest: n.ID}
	if expirySeconds > 0 {
		inv.ExpiryAt = int64(n.w.now()/time.Second) + int64(expirySeconds)
	}
	n.nonce++
	inv.Nonce = n.nonce
	pr := EncodeInvoice(inv)
	if _, dup := n.Invoices[h]; !dup {
		n.invOrder = append(n.invOrder, h)
	}
	n.Invoices[h] = &LocalInvoice{Payreq: pr, Inv: inv, Preimage: preimageHex, Label: label}
	return pr, nil
}

// AddNotifier models waitinvoice / SubscribeSingleInvoice: the node's payment
// callback fires once the labelled invoice is paid (immediately if it already is).
func (n *LNNode) AddNotifier(label string) {
	n.w.mu.Lock()
	if !n.notifiers[label] {
		n.notOrder = append(n.notOrder, label)
	}
	n.notifiers[label] = true
	var fire bool
	for _, li := range n.Invoices {
		if li.Label == label && li.Paid {
			fire = true
		}
	}
	cb := n.onPaid
	n.w.mu.Unlock()
	if fire && cb != nil {
		Spawn(func() { cb(label) })
	}
}

func (n *LNNode) expired(inv Invoice) bool {
	return inv.ExpiryAt != 0 && int64(n.w.now()/time.Second) >= inv.ExpiryAt
}

// settleLocked tries to settle hash at the payee. Returns preimage or "".
func (w *World) settleLocked(inv Invoice, payreq string) (string, func()) {
	payee, ok := w.LN[inv.Dest]
	if !ok {
		return "", nil
	}
	if payee.Adversary {
		if pre, ok := payee.AdvPreimages[inv.Hash]; ok {
			return pre, nil
		}
		return "", nil
	}
	li, ok := payee.Invoices[inv.Hash]
	if !ok || li.Payreq != payreq || li.Paid || payee.expired(li.Inv) {
		return "", nil
	}
	li.Paid = true
	li.PaidAt = w.now()
	var after func()
	if payee.notifiers[li.Label] && payee.onPaid != nil {
		cb, label := payee.onPaid, li.Label
		after = func() { Spawn(func() { cb(label) }) }
	}
	w.recordLocked(Obs{Node: payee.ID, Kind: "ln.incoming", Hash: inv.Hash, Extra: li.Label})
	return li.Preimage, after
}

// Pay models sendpay+waitsendpay (CLN) / SendPaymentV2 (LND) for one attempt.
func (n *LNNode) Pay(life *Life, payreq, scid string, limit uint32, kind string) (string, error) {
	inv, err := DecodeInvoice(payreq)
	if err != nil {
		return "", err
	}
	n.w.mu.Lock()
	p := n.Payments[inv.Hash]
	if p == nil {
		p = &Payment{Hash: inv.Hash, Payreq: payreq}
		n.Payments[inv.Hash] = p
		n.payOrder = append(n.payOrder, inv.Hash)
	}
	record := func(res string, e error) {
		o := Obs{Node: n.ID, Kind: kind, Payreq: payreq, Hash: inv.Hash, Scid: scid, Limit: limit, Result: res}
		if life != nil {
			o.Inc = life.Inc
		}
		if e != nil {
			o.Err = e.Error()
		}
		n.w.recordLocked(o)
	}
	// a blocking call (hold / join-pending) also leaves a record when it RETURNS to a live
	// incarnation (kind + ".ret"), so that an oracle can tell whether a payment call was still
	// outstanding at some later moment
	retObs := func(what string) {
		o := Obs{Node: n.ID, Kind: kind + ".ret", Hash: inv.Hash, Result: what}
		if life != nil {
			o.Inc = life.Inc
		}
		n.w.recordLocked(o)
	}
	switch p.State {
	case PaySucceeded:
		if n.LND {
			e := errors.New("invoice is already paid")
			record("already-paid", e)
			n.w.mu.Unlock()
			return "", e
		}
		record("complete", nil)
		pre := p.Preimage
		n.w.mu.Unlock()
		return pre, nil
	case PayInflight:
		if n.LND {
			e := errors.New("payment is in transition")
			record("in-transition", e)
			n.w.mu.Unlock()
			return "", e
		}
		// CLN: sendpay joins the pending payment, waitsendpay blocks.
		record("join-pending", nil)
		ch := make(chan struct{})
		p.waiters = append(p.waiters, ch)
		n.w.mu.Unlock()
		<-ch
		if life != nil {
			life.Op(false)
		}
		n.w.mu.Lock()
		defer n.w.mu.Unlock()
		if p.State == PaySucceeded {
			retObs("join-pending:ok")
			return p.Preimage, nil
		}
		retObs("join-pending:failed")
		return "", errors.New("payment failed: WIRE_TEMPORARY_CHANNEL_FAILURE")
	}
	// new attempt
	out := PayDefault
	if pl := n.w.PayPlan[n.ID]; len(pl) > 0 {
		out = pl[0]
		n.w.PayPlan[n.ID] = pl[1:]
	}
	p.Attempts++
	p.Scids = append(p.Scids, scid)
	p.Limits = append(p.Limits, limit)
	ch := n.Channel(scid)
	if ch == nil {
		p.State = PayFailed
		e := fmt.Errorf("channel %s not found", scid)
		record("no-channel", e)
		n.w.mu.Unlock()
		return "", e
	}
	switch out {
	case PayFail:
		p.State = PayFailed
		e := errors.New("payment failed: WIRE_TEMPORARY_CHANNEL_FAILURE (injected)")
		record("failed", e)
		n.w.mu.Unlock()
		return "", e
	case PayPendingErr:
		p.State = PayInflight
		e := errors.New("rpc connection lost while payment pending (injected)")
		record("err-pending", e)
		n.w.mu.Unlock()
		return "", e
	case PayHold:
		p.State = PayInflight
		record("hold", nil)
		wch := make(chan struct{})
		p.waiters = append(p.waiters, wch)
		n.w.mu.Unlock()
		<-wch
		if life != nil {
			life.Op(false)
		}
		n.w.mu.Lock()
		defer n.w.mu.Unlock()
		if p.State == PaySucceeded {
			retObs("hold:ok")
			return p.Preimage, nil
		}
		retObs("hold:failed")
		return "", errors.New("payment failed after hold")
	}
	pre, after := n.w.settleLocked(inv, payreq)
	if pre == "" || ch.Peer != inv.Dest || ch.Spendable < inv.Msat {
		p.State = PayFailed
		e := errors.New("payment failed: WIRE_INCORRECT_OR_UNKNOWN_PAYMENT_DETAILS")
		record("failed", e)
		n.w.mu.Unlock()
		return "", e
	}
	p.State = PaySucceeded
	p.Preimage = pre
	ch.Spendable -= inv.Msat
	if out == PaySettledErr {
		e := errors.New("rpc connection lost after payment settled (injected)")
		record("err-settled", e)
		n.w.mu.Unlock()
		if after != nil {
			after()
		}
		return "", e
	}
	record("succeeded", nil)
	n.w.mu.Unlock()
	if after != nil {
		after()
	}
	return pre, nil
}

// Resolve settles or fails an in-flight payment (environment event).
func (n *LNNode) Resolve(hash string, ok bool) {
	n.w.mu.Lock()
	p := n.Payments[hash]
	if p == nil || p.State != PayInflight {
		n.w.mu.Unlock()
		return
	}
	var after func()
	if ok {
		inv, _ := DecodeInvoice(p.Payreq)
		pre, a := n.w.settleLocked(inv, p.Payreq)
		after = a
		if pre != "" {
			p.State = PaySucceeded
			p.Preimage = pre
		} else {
			p.State = PayFailed
		}
	} else {
		p.State = PayFailed
	}
	n.w.recordLocked(Obs{Node: n.ID, Kind: "ln.resolve", Hash: hash, Result: p.State.String()})
	ws := p.waiters
	p.waiters = nil
	n.w.mu.Unlock()
	for _, c := range ws {
		close(c)
	}
	if after != nil {
		after()
	}
}

// Track models listsendpays/waitsendpay (CLN) and TrackPaymentV2 (LND) for
// RecoverClaimPayment: never creates a payment.
func (n *LNNode) Track(life *Life, payreq string) (string, error) {
	inv, err := DecodeInvoice(payreq)
	if err != nil {
		return "", err
	}
	n.w.mu.Lock()
	p := n.Payments[inv.Hash]
	o := Obs{Node: n.ID, Kind: "ln.track", Payreq: payreq, Hash: inv.Hash}
	if p == nil || p.State == PayNone {
		o.Result = "not-found"
		n.w.recordLocked(o)
		n.w.mu.Unlock()
		return "", errors.New("claim payment was not found")
	}
	o.Result = p.State.String()
	n.w.recordLocked(o)
	switch p.State {
	case PaySucceeded:
		pre := p.Preimage
		n.w.mu.Unlock()
		return pre, nil
	case PayFailed:
		n.w.mu.Unlock()
		return "", errors.New("claim payment already failed")
	}
	ch := make(chan struct{})
	p.waiters = append(p.waiters, ch)
	n.w.mu.Unlock()
	<-ch
	if life != nil {
		life.Op(false)
	}
	n.w.mu.Lock()
	defer n.w.mu.Unlock()
	if p.State == PaySucceeded {
		return p.Preimage, nil
	}
	return "", errors.New("claim payment failed")
}

func (n *LNNode) PayStateOf(hash string) PayState {
	n.w.mu.Lock()
	defer n.w.mu.Unlock()
	if p := n.Payments[hash]; p != nil {
		return p.State
	}
	return PayNone
}

// Key renders the node's tables with raw (random) hashes; the caller
// replaces them by labels.
func (n *LNNode) Key() string {
	n.w.mu.Lock()
	defer n.w.mu.Unlock()
	var invs, pays, nots, chs []string
	for _, h := range n.invOrder {
		li := n.Invoices[h]
		invs = append(invs, fmt.Sprintf("%s/%s/paid=%v/exp=%v", li.Label, h, li.Paid, n.expired(li.Inv)))
	}
	for _, h := range n.payOrder {
		p := n.Payments[h]
		pays = append(pays, fmt.Sprintf("%s/%s/a%d/w%d", h, p.State, p.Attempts, len(p.waiters)))
	}
	nots = append(nots, n.notOrder...)
	for _, c := range n.Channels {
		chs = append(chs, fmt.Sprintf("%s:%d:%d", c.Scid, c.Spendable, c.Receivable))
	}
	return fmt.Sprintf("LN[%s lnd=%v inv%v pay%v not%v ch%v]", n.ID[:4], n.LND, invs, pays, nots, chs)
}

func HexOf(b []byte) string { return hex.EncodeToString(b) }

// Shutdown releases every goroutine blocked inside the simulation (end of an
// execution; the incarnations are dead, so they exit at their next Op).
func (w *World) Shutdown() {
	w.mu.Lock()
	var ws []chan struct{}
	for _, n := range w.LN {
		for _, p := range n.Payments {
			ws = append(ws, p.waiters...)
			p.waiters = nil
		}
	}
	w.mu.Unlock()
	for _, c := range ws {
		close(c)
	}
}

// PaySnapshot renders the outgoing payment table ("hash=state,...") — ground
// truth recorded with every message a node sends.
func (n *LNNode) PaySnapshot() string {
	n.w.mu.Lock()
	defer n.w.mu.Unlock()
	var out []string
	for h, p := range n.Payments {
		out = append(out, h+"="+p.State.String())
	}
	sort.Strings(out)
	return strings.Join(out, ",")
}

// Tokens lists the random strings of the tables in creation order.
func (n *LNNode) Tokens() [][2]string {
	n.w.mu.Lock()
	defer n.w.mu.Unlock()
	var out [][2]string
	for _, h := range n.invOrder {
		out = append(out, [2]string{"h", h}, [2]string{"inv", n.Invoices[h].Payreq}, [2]string{"pre", n.Invoices[h].Preimage})
	}
	for _, h := range n.payOrder {
		out = append(out, [2]string{"h", h}, [2]string{"inv", n.Payments[h].Payreq})
	}
	return out
}
