package world

import (
	"bytes"
	"encoding/hex"
	"errors"
	"fmt"
	"sort"

	"github.com/btcsuite/btcd/txscript"
	"github.com/btcsuite/btcd/wire"
	"github.com/elementsproject/peerswap/txwatcher"
)

// Chain is a simulated block chain.  Transactions are real serialised
// wire.MsgTx on both chains; on the "lbtc" chain every output additionally
// carries an annotation (asset, blinding pubkey) standing in for Elements'
// confidential-output data in the abstract tier.
type Chain struct {
	w       *World
	Name    string
	MinConf uint32
	Height  uint32
	Hashes  map[uint32]string
	Txs     map[string]*ChainTx
	Order   []string
	Spent   map[string]string // "txid:vout" -> spending txid
	reorgs  int
	// Subscribers are called (outside the world lock) after every new tip.
	subs []func(height uint32)
	// StaleTxOut makes GetTxOut answer with the previous best block hash once.
	StaleOnce bool
}

type OutAnnot struct {
	Asset    string `json:"asset,omitempty"`
	BlindPub string `json:"blind_pub,omitempty"` // hex compressed pubkey the output is blinded to ("" = explicit)
}

type ChainTx struct {
	ID     string
	Hex    string
	By     string
	Height uint32 // 0 = mempool
	Msg    *wire.MsgTx
	Annot  []OutAnnot
	Kind   string
}

const (
	seqDisable  = uint32(1 << 31)
	seqTypeTime = uint32(1 << 22)
	seqMask     = uint32(0xffff)
)

func newChain(w *World, name string, minConf uint32) *Chain {
	c := &Chain{w: w, Name: name, MinConf: minConf, Height: 100, Hashes: map[uint32]string{},
		Txs: map[string]*ChainTx{}, Spent: map[string]string{}}
	for h := uint32(0); h <= c.Height; h++ {
		c.Hashes[h] = c.mkHash(h)
	}
	return c
}

func (c *Chain) mkHash(h uint32) string {
	return Sha256Hex([]byte(fmt.Sprintf("%s/%d/%d", c.Name, h, c.reorgs)))
}

// SetHeight jumps the chain to a height (only before anything happened).
func (c *Chain) SetHeight(h uint32) {
	c.w.mu.Lock()
	defer c.w.mu.Unlock()
	c.Height = h
	c.Hashes[h] = c.mkHash(h)
	if h > 0 {
		c.Hashes[h-1] = c.mkHash(h - 1)
	}
}

func (c *Chain) Subscribe(f func(height uint32)) {
	c.w.mu.Lock()
	c.subs = append(c.subs, f)
	c.w.mu.Unlock()
}

func (c *Chain) Tip() uint32 {
	c.w.mu.Lock()
	defer c.w.mu.Unlock()
	return c.Height
}

func ParseTx(txHex string) (*wire.MsgTx, error) {
	b, err := hex.DecodeString(txHex)
	if err != nil {
		return nil, err
	}
	tx := wire.NewMsgTx(2)
	if err := tx.Deserialize(bytes.NewReader(b)); err != nil {
		return nil, err
	}
	return tx, nil
}

func TxHex(tx *wire.MsgTx) string {
	var buf bytes.Buffer
	_ = tx.Serialize(&buf)
	return hex.EncodeToString(buf.Bytes())
}

// Submit validates (consensus for known inputs: script, BIP68, double spend,
// value conservation) and adds the transaction to the mempool.
func (c *Chain) Submit(txHex string, by string, annot []OutAnnot, kind string) (string, error) {
	tx, err := ParseTx(txHex)
	if err != nil {
		return "", err
	}
	c.w.mu.Lock()
	defer c.w.mu.Unlock()
	id := tx.TxHash().String()
	if _, ok := c.Txs[id]; ok {
		return id, nil // already known
	}
	var inSum, known int64
	fetcher := txscript.NewMultiPrevOutFetcher(nil)
	type chk struct {
		idx  int
		prev *wire.TxOut
	}
	var checks []chk
	for i, in := range tx.TxIn {
		key := fmt.Sprintf("%s:%d", in.PreviousOutPoint.Hash.String(), in.PreviousOutPoint.Index)
		if sp, ok := c.Spent[key]; ok {
			return "", fmt.Errorf("txn-mempool-conflict: %s already spent by %s", key, sp)
		}
		p, ok := c.Txs[in.PreviousOutPoint.Hash.String()]
		if !ok {
			continue // wallet funding input, not modelled
		}
		if int(in.PreviousOutPoint.Index) >= len(p.Msg.TxOut) {
			return "", errors.New("bad-txns-inputs-missingorspent")
		}
		po := p.Msg.TxOut[in.PreviousOutPoint.Index]
		fetcher.AddPrevOut(in.PreviousOutPoint, po)
		checks = append(checks, chk{i, po})
		inSum += po.Value
		known++
		// BIP68
		if tx.Version >= 2 && in.Sequence&seqDisable == 0 {
			if in.Sequence&seqTypeTime != 0 {
				return "", errors.New("non-BIP68-final (time based lock not modelled)")
			}
			need := in.Sequence & seqMask
			if need > 0 {
				if p.Height == 0 {
					return "", errors.New("non-BIP68-final")
				}
				// may be mined in block Height+1
				if c.Height+1 < p.Height+need {
					return "", errors.New("non-BIP68-final")
				}
			}
		}
	}
	if len(checks) > 0 {
		hashes := txscript.NewTxSigHashes(tx, fetcher)
		for _, ck := range checks {
			vm, err := txscript.NewEngine(ck.prev.PkScript, tx, ck.idx, txscript.StandardVerifyFlags, nil, hashes, ck.prev.Value, fetcher)
			if err != nil {
				return "", fmt.Errorf("mandatory-script-verify-flag-failed: %v", err)
			}
			if err := vm.Execute(); err != nil {
				return "", fmt.Errorf("mandatory-script-verify-flag-failed: %v", err)
			}
		}
	}
	if known == int64(len(tx.TxIn)) && known > 0 {
		var outSum int64
		for _, o := range tx.TxOut {
			if o.Value < 0 {
				return "", errors.New("bad-txns-vout-negative")
			}
			outSum += o.Value
		}
		if outSum > inSum {
			return "", errors.New("bad-txns-in-belowout")
		}
	}
	for _, in := range tx.TxIn {
		key := fmt.Sprintf("%s:%d", in.PreviousOutPoint.Hash.String(), in.PreviousOutPoint.Index)
		c.Spent[key] = id
	}
	for len(annot) < len(tx.TxOut) {
		annot = append(annot, OutAnnot{})
	}
	c.Txs[id] = &ChainTx{ID: id, Hex: txHex, By: by, Msg: tx, Annot: annot, Kind: kind}
	c.Order = append(c.Order, id)
	c.w.recordLocked(Obs{Node: by, Kind: "chain.submit", Chain: c.Name, TxID: id, Extra: kind})
	return id, nil
}

// Mine adds n blocks; mempool transactions are included in the first one
// unless withhold is set.
func (c *Chain) Mine(n int, withhold bool) {
	for i := 0; i < n; i++ {
		c.w.mu.Lock()
		c.Height++
		c.Hashes[c.Height] = c.mkHash(c.Height)
		if !withhold {
			for _, id := range c.Order {
				if t := c.Txs[id]; t.Height == 0 {
					t.Height = c.Height
				}
			}
		}
		h := c.Height
		subs := append([]func(uint32){}, c.subs...)
		c.w.mu.Unlock()
		for _, f := range subs {
			f(h)
		}
	}
}

// Notify re-announces the current tip to subscribers.
func (c *Chain) Notify() {
	c.w.mu.Lock()
	h := c.Height
	subs := append([]func(uint32){}, c.subs...)
	c.w.mu.Unlock()
	for _, f := range subs {
		f(h)
	}
}

// Reorg replaces the last depth blocks; transactions confirmed in them go
// back to the mempool (drop=false) or vanish (drop=true).
func (c *Chain) Reorg(depth uint32, drop bool) {
	c.w.mu.Lock()
	c.reorgs++
	from := c.Height - depth + 1
	for h := from; h <= c.Height; h++ {
		c.Hashes[h] = c.mkHash(h)
	}
	for _, id := range c.Order {
		t := c.Txs[id]
		if t.Height >= from {
			if drop {
				for _, in := range t.Msg.TxIn {
					delete(c.Spent, fmt.Sprintf("%s:%d", in.PreviousOutPoint.Hash.String(), in.PreviousOutPoint.Index))
				}
				delete(c.Txs, id)
			} else {
				t.Height = 0
			}
		}
	}
	if drop {
		var keep []string
		for _, id := range c.Order {
			if _, ok := c.Txs[id]; ok {
				keep = append(keep, id)
			}
		}
		c.Order = keep
	}
	h := c.Height
	subs := append([]func(uint32){}, c.subs...)
	c.w.mu.Unlock()
	for _, f := range subs {
		f(h)
	}
}

// Confs returns the number of confirmations of txid (0 = mempool, -1 = unknown).
func (c *Chain) Confs(txid string) int {
	c.w.mu.Lock()
	defer c.w.mu.Unlock()
	return c.confsLocked(txid)
}

func (c *Chain) confsLocked(txid string) int {
	t, ok := c.Txs[txid]
	if !ok {
		return -1
	}
	if t.Height == 0 {
		return 0
	}
	return int(c.Height - t.Height + 1)
}

func (c *Chain) Get(txid string) *ChainTx {
	c.w.mu.Lock()
	defer c.w.mu.Unlock()
	return c.Txs[txid]
}

func (c *Chain) SpentBy(txid string, vout uint32) string {
	c.w.mu.Lock()
	defer c.w.mu.Unlock()
	return c.Spent[fmt.Sprintf("%s:%d", txid, vout)]
}

// Key is the canonical description of the chain for state keys.
func (c *Chain) Key(base uint32) string {
	c.w.mu.Lock()
	defer c.w.mu.Unlock()
	var parts []string
	for _, id := range c.Order {
		t := c.Txs[id]
		conf := 0
		if t.Height != 0 {
			conf = int(c.Height - t.Height + 1)
		}
		var sp []string
		for i := range t.Msg.TxOut {
			if s, ok := c.Spent[fmt.Sprintf("%s:%d", id, i)]; ok {
				kind := "?"
				if st := c.Txs[s]; st != nil {
					kind = fmt.Sprintf("%s/c%d", st.Kind, c.confsLocked(s))
				}
				sp = append(sp, fmt.Sprintf("%d>%s", i, kind))
			}
		}
		parts = append(parts, fmt.Sprintf("%s/%s/c%d/%v", t.Kind, t.By, conf, sp))
	}
	sort.Strings(parts)
	return fmt.Sprintf("%s@+%d%v", c.Name, int64(c.Height)-int64(base), parts)
}

// ---------------------------------------------------------------- RPC view

// RPCView implements txwatcher.BlockchainRpc over the chain.
type RPCView struct {
	C    *Chain
	Life *Life
	Node string
}

func (v *RPCView) String() string { return v.C.Name }

func (v *RPCView) GetBlockHeight() (uint64, error) {
	if v.Life != nil {
		v.Life.Op(false)
	} else if YieldHook != nil {
		YieldHook("rpc")
	}
	if v.C.w.ShouldFail(v.Node, v.C.Name+".getblockcount") {
		return 0, errors.New("rpc: getblockcount failed (injected)")
	}
	return uint64(v.C.Tip()), nil
}

func (v *RPCView) GetBlockHash(height uint32) (string, error) {
	if v.Life != nil {
		v.Life.Op(false)
	} else if YieldHook != nil {
		YieldHook("rpc")
	}
	if v.C.w.ShouldFail(v.Node, v.C.Name+".getblockhash") {
		return "", errors.New("rpc: getblockhash failed (injected)")
	}
	v.C.w.mu.Lock()
	defer v.C.w.mu.Unlock()
	h, ok := v.C.Hashes[height]
	if !ok {
		return "", errors.New("Block height out of range")
	}
	return h, nil
}

func (v *RPCView) GetTxOut(txid string, vout uint32) (*txwatcher.TxOutResp, error) {
	if v.Life != nil {
		v.Life.Op(false)
	} else if YieldHook != nil {
		YieldHook("rpc")
	}
	if v.C.w.ShouldFail(v.Node, v.C.Name+".gettxout") {
		return nil, errors.New("rpc: gettxout failed (injected)")
	}
	c := v.C
	c.w.mu.Lock()
	defer c.w.mu.Unlock()
	t, ok := c.Txs[txid]
	if !ok || int(vout) >= len(t.Msg.TxOut) {
		return nil, nil
	}
	if _, spent := c.Spent[fmt.Sprintf("%s:%d", txid, vout)]; spent {
		return nil, nil
	}
	best := c.Hashes[c.Height]
	if c.StaleOnce && c.Height > 0 {
		c.StaleOnce = false
		best = c.Hashes[c.Height-1]
	}
	conf := uint32(0)
	if t.Height != 0 {
		conf = c.Height - t.Height + 1
	}
	return &txwatcher.TxOutResp{BestBlockHash: best, Confirmations: conf, Value: float64(t.Msg.TxOut[vout].Value) / 1e8}, nil
}

func (v *RPCView) GetRawtransactionWithBlockHash(txid, blockHash string) (string, error) {
	if v.Life != nil {
		v.Life.Op(false)
	} else if YieldHook != nil {
		YieldHook("rpc")
	}
	if v.C.w.ShouldFail(v.Node, v.C.Name+".getrawtransaction") {
		return "", errors.New("rpc: getrawtransaction failed (injected)")
	}
	c := v.C
	c.w.mu.Lock()
	defer c.w.mu.Unlock()
	t, ok := c.Txs[txid]
	if !ok || t.Height == 0 {
		return "", errors.New("No such transaction found in the provided block")
	}
	if c.Hashes[t.Height] != blockHash {
		return "", errors.New("No such transaction found in the provided block")
	}
	return t.Hex, nil
}

// MineQuiet adds n blocks and notifies subscribers only once at the end (a
// node that was offline / a batch of blocks).  Mempool transactions are
// included in the first block.
func (c *Chain) MineQuiet(n int) {
	if n <= 0 {
		return
	}
	c.w.mu.Lock()
	for i := 0; i < n; i++ {
		c.Height++
		c.Hashes[c.Height] = c.mkHash(c.Height)
		if i == 0 {
			for _, id := range c.Order {
				if t := c.Txs[id]; t.Height == 0 {
					t.Height = c.Height
				}
			}
		}
	}
	h := c.Height
	subs := append([]func(uint32){}, c.subs...)
	c.w.mu.Unlock()
	for _, f := range subs {
		f(h)
	}
}

// TxOrder returns the txids in submission order.
func (c *Chain) TxOrder() []string {
	c.w.mu.Lock()
	defer c.w.mu.Unlock()
	return append([]string{}, c.Order...)
}
