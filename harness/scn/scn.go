// Package scn is the swap scenario engine shared by the explicit-state checks:
// two real swap services (A = node under test, B = its peer) on one simulated
// world, a network the adversary controls (deliver / drop / mutate / inject /
// replay), chains, time, payment outcomes, faults, crashes and restarts.
package scn

import (
	"encoding/json"
	"fmt"
	"math/rand"
	"strings"
	"sync"
	"testing"
	"testing/synctest"
	"time"

	"github.com/elementsproject/peerswap/premium"
	"github.com/elementsproject/peerswap/swap"
	"verif/mc"
	"verif/node"
	"verif/vsync"
	"verif/world"
)

const (
	IDA    = "02aaaaaaaaaaaaaaaaaaaaaaaaaaaaaaaaaaaaaaaaaaaaaaaaaaaaaaaaaaaaaaaa"
	IDB    = "03bbbbbbbbbbbbbbbbbbbbbbbbbbbbbbbbbbbbbbbbbbbbbbbbbbbbbbbbbbbbbbbb"
	IDC    = "02cccccccccccccccccccccccccccccccccccccccccccccccccccccccccccccccc"
	Scid   = "100x1x0"
	ScidL  = "100:1:0"
	Scid2  = "200x2x0"
	Amount = uint64(1_000_000)
)

type Flags struct {
	Drop      bool
	Inject    bool
	Replay    bool
	Third     bool
	PayPlan   bool
	// Lag: node A's backend may fall behind in its getblockcount answers (event lag(N) / lag(0))
	Lag bool
	// PayKinds restricts the outcomes offered by payplan events (nil = all four).
	PayKinds []world.PayOutcome
	// InjectKinds replaces the default menu of injected peer messages (cancel, coop_bad, invalid).
	InjectKinds []string
	Faults    []string // methods of A that may fail once
	Restart   bool
	RestartB  bool
	Time      bool
	Blocks    bool
	Mutate    bool
	MaxTime   int // max number of time events per history
	MaxBlocks int // max number of block events per history
	NoCsvJump bool
	NoWinJump bool
	// TimeAlways / BlocksAlways disable the relevance pruning of time and block events.
	TimeAlways   bool
	BlocksAlways bool
}

type Cfg struct {
	Name       string
	Chain      string // btc | lbtc
	SwapType   string // out | in
	AInitiates bool
	ALnd, BLnd bool
	AWallet    node.WalletCfg
	BWallet    node.WalletCfg
	Flags      Flags
	Premium    *premium.Setting
	LimitPPM   int64
	// ScriptedB: node B is not driven (an adversary scripted by the scenario
	// plays the peer; messages to B just pile up in the queue for it to read).
	ScriptedB bool
	// Hooks
	ExtraEnabled func(x *Exec) []mc.Event
	ExtraApply   func(x *Exec, e mc.Event) bool
	ExtraKey     func(x *Exec) string
	ExtraTokens  func(x *Exec) [][2]string
	Setup        func(x *Exec)
	NodeCfg      func(x *Exec, id string, c *node.Cfg)
	Mutations    func(x *Exec, m Msg) []Mutation
}

// Role of node A in this configuration.
func (c Cfg) ARole() string {
	switch {
	case c.SwapType == "out" && c.AInitiates:
		return "out_sender"
	case c.SwapType == "out":
		return "out_receiver"
	case c.AInitiates:
		return "in_sender"
	default:
		return "in_receiver"
	}
}
func (c Cfg) ATaker() bool { r := c.ARole(); return r == "out_sender" || r == "in_receiver" }

type Msg struct {
	From, To string
	Type     int
	Payload  []byte
}

type Mutation struct {
	Name    string
	Payload []byte
	Type    int
}

type Exec struct {
	T    *testing.T
	Cfg  *Cfg
	W    *world.World
	A, B *node.Node
	DA   *node.Durable
	DB   *node.Durable
	// Net: pending messages per recipient, FIFO, identical consecutive copies collapsed.
	Net       map[string][]Msg
	Delivered []Msg
	NTime     int
	NInject   int // injected peer messages so far (part of the key: in-memory timers they may touch are not otherwise visible)
	NBlocks   int
	Start     time.Time
	RPCErr    string
	Ctx       map[string]any
	Panics    []string
	netMu     sync.Mutex
	lastEff   int
	lastStore []int
	finished  bool
	incA      int
	incB      int
}

func (x *Exec) NodeByID(id string) *node.Node {
	if id == IDA {
		return x.A
	}
	return x.B
}

func (x *Exec) nodeCfg(id string) node.Cfg {
	c := node.Cfg{ID: id, Btc: true, Lbtc: true, Premium: x.Cfg.Premium}
	if id == IDA {
		c.LND = x.Cfg.ALnd
		w := x.Cfg.AWallet
		w2 := x.Cfg.AWallet
		c.BtcCfg, c.LbtcCfg = &w, &w2
	} else {
		c.LND = x.Cfg.BLnd
		w := x.Cfg.BWallet
		w2 := x.Cfg.BWallet
		c.BtcCfg, c.LbtcCfg = &w, &w2
	}
	if c.BtcCfg.Balance == 0 {
		c.BtcCfg.Balance = 100_000_000
		c.LbtcCfg.Balance = 100_000_000
	}
	if x.Cfg.NodeCfg != nil {
		x.Cfg.NodeCfg(x, id, &c)
	}
	return c
}

func (x *Exec) enqueue(from, to string, t int, payload []byte) {
	x.netMu.Lock()
	defer x.netMu.Unlock()
	q := x.Net[to]
	if n := len(q); n > 0 && q[n-1].Type == t && q[n-1].From == from && string(q[n-1].Payload) == string(payload) {
		return // collapse identical consecutive copies (retransmissions)
	}
	x.Net[to] = append(q, Msg{From: from, To: to, Type: t, Payload: payload})
}

// Init builds the world and both nodes inside the bubble.
func Init(t *testing.T, cfg *Cfg) *Exec {
	vsync.Reset()
	rand.Seed(42)
	x := &Exec{T: t, Cfg: cfg, Net: map[string][]Msg{}, Ctx: map[string]any{}, Start: time.Now()}
	x.W = world.New()
	x.W.Deliver = x.enqueue
	lnA := x.W.AddLN(IDA, cfg.ALnd)
	lnB := x.W.AddLN(IDB, cfg.BLnd)
	for _, s := range []string{Scid, Scid2} {
		lnA.Channels = append(lnA.Channels, &world.Channel{Scid: s, Peer: IDB, Spendable: 5_000_000_000, Receivable: 5_000_000_000})
		lnB.Channels = append(lnB.Channels, &world.Channel{Scid: s, Peer: IDA, Spendable: 5_000_000_000, Receivable: 5_000_000_000})
	}
	x.DA = node.NewDurable(x.W, IDA)
	x.DB = node.NewDurable(x.W, IDB)
	if cfg.Setup != nil {
		cfg.Setup(x)
	}
	x.A = node.Boot(x.W, x.nodeCfg(IDA), x.DA, 0)
	x.B = node.Boot(x.W, x.nodeCfg(IDB), x.DB, 0)
	return x
}

func chainName(c string) string {
	if c == "btc" {
		return "btc"
	}
	return "lbtc"
}

// RPC starts the swap of the configuration on the initiating node.
func (x *Exec) RPC(scid string) {
	init, peer := x.A, IDB
	if !x.Cfg.AInitiates {
		init, peer = x.B, IDA
	}
	node.Run(func() {
		init.Life.Op(false)
		var err error
		limit := x.Cfg.LimitPPM
		if limit == 0 {
			limit = 10000
		}
		if x.Cfg.SwapType == "out" {
			_, err = init.Svc.SwapOut(peer, chainName(x.Cfg.Chain), scid, init.Cfg.ID, Amount, limit)
		} else {
			_, err = init.Svc.SwapIn(peer, chainName(x.Cfg.Chain), scid, init.Cfg.ID, Amount, limit)
		}
		if err != nil {
			x.RPCErr = err.Error()
		}
	})
}

// ---------------------------------------------------------------- alphabet

func ev(name, arg string, n, dev int) mc.Event { return mc.Event{Name: name, Arg: arg, N: n, Dev: dev} }

func who(id string) string {
	if id == IDA {
		return "A"
	}
	return "B"
}
func idOf(w string) string {
	if w == "A" {
		return IDA
	}
	return IDB
}

// Queue returns the pending messages for a node (oldest first).
func (x *Exec) Queue(id string) []Msg {
	x.netMu.Lock()
	defer x.netMu.Unlock()
	return append([]Msg{}, x.Net[id]...)
}

// DeliverTo hands a crafted message to a node.
func (x *Exec) DeliverTo(m Msg) { x.deliver(m) }

// SwapOfA returns the persisted record of A's first swap (nil if none).
func (x *Exec) SwapOf(n *node.Node) *swap.SwapStateMachine {
	s := n.Swaps()
	if len(s) == 0 {
		return nil
	}
	return s[0]
}

func (x *Exec) openingTx() *world.ChainTx {
	c := x.W.Chain(x.Cfg.Chain)
	for _, n := range []*node.Node{x.A, x.B} {
		if s := x.SwapOf(n); s != nil && s.Data.OpeningTxBroadcasted != nil {
			if t := c.Get(s.Data.OpeningTxBroadcasted.TxId); t != nil {
				return t
			}
		}
	}
	return nil
}

func (x *Exec) Enabled() []mc.Event {
	f := x.Cfg.Flags
	var out []mc.Event
	if x.A.Life.Dead() {
		// the only thing the node under test can do is restart; the world goes on
		out = append(out, ev("restart", "A", 0, 0))
	}
	for _, r := range []string{IDA, IDB} {
		q := x.Net[r]
		if len(q) == 0 {
			continue
		}
		if r == IDB && x.Cfg.ScriptedB {
			continue // the peer is played by the scenario's adversary, not by a real node
		}
		if !(r == IDA && x.A.Life.Dead()) {
			out = append(out, ev("deliver", who(r), 0, 0))
		}
		if f.Drop {
			out = append(out, ev("drop", who(r), 0, 1))
		}
		if f.Mutate && r == IDA && x.Cfg.Mutations != nil && !x.A.Life.Dead() {
			for _, m := range x.Cfg.Mutations(x, q[0]) {
				out = append(out, ev("mutate", m.Name, 0, 1))
			}
		}
	}
	c := x.W.Chain(x.Cfg.Chain)
	if f.Blocks && (f.MaxBlocks == 0 || x.NBlocks < f.MaxBlocks) && (f.BlocksAlways || x.chainRelevant()) {
		out = append(out, ev("block", "1", 0, 0))
		if ot := x.openingTx(); ot != nil {
			conf := c.Confs(ot.ID)
			if conf < int(c.MinConf) {
				out = append(out, ev("block", "conf", 0, 0))
			}
			csv := x.csv()
			if !f.NoCsvJump && conf < int(csv)-1 {
				out = append(out, ev("block", "csv-1", 0, 0))
			}
			if !f.NoCsvJump && conf < int(csv) {
				out = append(out, ev("block", "csv", 0, 0))
			}
		}
		if !f.NoWinJump {
			if start, win, ok := x.window(); ok {
				tip := c.Tip()
				if uint64(tip) < uint64(start)+uint64(win)-1 {
					out = append(out, ev("block", "win-1", 0, 0))
				}
				if uint64(tip) < uint64(start)+uint64(win) {
					out = append(out, ev("block", "win", 0, 0))
				}
			}
		}
	}
	if f.Time && (f.MaxTime == 0 || x.NTime < f.MaxTime) {
		short, long := f.TimeAlways, f.TimeAlways
		for _, n := range []*node.Node{x.A, x.B} {
			for _, s := range n.Swaps() {
				if s.IsFinished() {
					continue
				}
				long = true
				c := string(s.Current)
				if strings.Contains(c, "ValidateTxAndPay") || strings.HasSuffix(c, "_ClaimSwap") || strings.Contains(c, "ClaimSwapCsv") {
					short = true
				}
			}
		}
		if short {
			out = append(out, ev("time", "11s", 0, 0))
		}
		if long {
			out = append(out, ev("time", "11m", 0, 0))
		}
	}
	if !x.A.Life.Dead() {
		if f.PayPlan && x.Cfg.ATaker() && len(x.W.PayPlan[IDA]) == 0 && !x.claimPaid(x.A) {
			kinds := []world.PayOutcome{world.PayFail, world.PayPendingErr, world.PaySettledErr, world.PayHold}
			if f.PayKinds != nil {
				kinds = f.PayKinds
			}
			for _, o := range kinds {
				out = append(out, ev("payplan", o.String(), int(o), 1))
			}
		}
		if f.Restart {
			out = append(out, ev("restart", "A", 0, 1))
		}
		if f.Inject {
			if s := x.SwapOf(x.A); s != nil && !s.IsFinished() {
				kinds := []string{"cancel", "coop_bad", "invalid"}
				if f.InjectKinds != nil {
					kinds = f.InjectKinds
				}
				for _, k := range kinds {
					out = append(out, ev("inject", k, 0, 1))
				}
			}
		}
		if f.Replay {
			seen := map[int]bool{}
			for i, m := range x.Delivered {
				if m.To == IDA && !seen[m.Type] {
					seen[m.Type] = true
					out = append(out, ev("replay", fmt.Sprintf("%d", m.Type), i, 1))
				}
			}
		}
	}
	if f.Lag {
		if cur := x.W.HeightLag[IDA+"/"+x.Cfg.Chain]; cur == 0 {
			out = append(out, ev("lag", "behind", 3, 1), ev("lag", "behind", 70, 1))
		} else {
			out = append(out, ev("lag", "caught-up", 0, 0))
		}
	}
	// service faults can also be armed while the node is down (they hit the recovery)
	for _, m := range f.Faults {
		base := m
		if i := strings.IndexAny(m, "*#"); i > 0 {
			base = m[:i]
		}
		if len(x.W.Faults[IDA+"/"+base]) == 0 {
			out = append(out, ev("fault", m, 0, 1))
		}
	}
	if f.RestartB {
		out = append(out, ev("restart", "B", 0, 1))
	}
	for _, h := range x.inflight(IDA) {
		_ = h
		out = append(out, ev("resolve", "ok", 0, 0), ev("resolve", "fail", 0, 0))
		break
	}
	if x.Cfg.ExtraEnabled != nil {
		out = append(out, x.Cfg.ExtraEnabled(x)...)
	}
	return out
}

// chainRelevant: somebody can observe a new block (a transaction is known or
// an unfinished swap has a payment window running).
func (x *Exec) chainRelevant() bool {
	if len(x.W.Chain(x.Cfg.Chain).Order) > 0 {
		return true
	}
	_, _, ok := x.window()
	return ok
}

func (x *Exec) inflight(id string) []string { return x.W.LN[id].Inflight() }

func (x *Exec) claimPaid(n *node.Node) bool {
	for _, p := range n.LN.Payments {
		if p.State == world.PaySucceeded && strings.Contains(p.Payreq, "") {
			// claim vs fee: fee payments also succeed; distinguish by invoice label at payee
			inv, _ := world.DecodeInvoice(p.Payreq)
			if payee := x.W.LN[inv.Dest]; payee != nil {
				if li := payee.Invoices[inv.Hash]; li != nil && strings.HasSuffix(li.Label, "_claim") {
					return true
				}
			}
		}
	}
	return false
}

// CSV is the CSV of the configuration's chain (protocol 7).
func (x *Exec) CSV() uint32 { return x.csv() }

// RebootA starts a new incarnation of node A (the old one must be dead);
// recover=false leaves RecoverSwaps to a later step (the daemons call Start
// and accept messages before RecoverSwaps).
func (x *Exec) RebootA(recover bool) {
	x.incA++
	x.A = node.Boot(x.W, x.nodeCfg(IDA), x.DA, x.incA)
	if recover {
		x.A.Recover()
	}
}

// Silence makes the peer silent: everything queued in either direction is dropped.
func (x *Exec) Silence() {
	x.netMu.Lock()
	x.Net[IDA] = nil
	x.Net[IDB] = nil
	x.netMu.Unlock()
}

func (x *Exec) csv() uint32 {
	if x.Cfg.Chain == "btc" {
		return 1008
	}
	return 10080
}

// window returns the taker's payment window anchor if known.
func (x *Exec) window() (uint32, uint32, bool) {
	for _, n := range []*node.Node{x.A, x.B} {
		s := x.SwapOf(n)
		if s == nil || s.IsFinished() {
			continue
		}
		taker := (s.Type == swap.SWAPTYPE_OUT && s.Role == swap.SWAPROLE_SENDER) || (s.Type == swap.SWAPTYPE_IN && s.Role == swap.SWAPROLE_RECEIVER)
		if !taker || s.Data.StartingBlockHeight == 0 {
			continue
		}
		win := uint32(504)
		if x.Cfg.Chain != "btc" {
			win = 60
		}
		return s.Data.StartingBlockHeight, win, true
	}
	return 0, 0, false
}

// Apply executes one event and waits for quiescence.
func (x *Exec) Apply(e mc.Event) {
	x.A.Life.ResetCount()
	if e.Crash > 0 {
		x.A.Life.ArmCrash(e.Crash - 1)
	}
	switch e.Name {
	case "rpc":
		x.RPC(e.Arg)
	case "deliver", "drop":
		r := idOf(e.Arg)
		q := x.Net[r]
		if len(q) == 0 {
			break
		}
		m := q[0]
		x.Net[r] = q[1:]
		if e.Name == "deliver" {
			x.deliver(m)
		}
	case "mutate":
		q := x.Net[IDA]
		if len(q) == 0 || x.Cfg.Mutations == nil {
			break
		}
		for _, mu := range x.Cfg.Mutations(x, q[0]) {
			if mu.Name == e.Arg {
				x.Net[IDA] = q[1:]
				m := q[0]
				m.Payload = mu.Payload
				if mu.Type != 0 {
					m.Type = mu.Type
				}
				x.deliver(m)
				break
			}
		}
	case "block":
		x.NBlocks++
		c := x.W.Chain(x.Cfg.Chain)
		switch e.Arg {
		case "1":
			c.Mine(1, false)
		case "1w":
			c.Mine(1, true)
		case "conf":
			c.Mine(int(c.MinConf), false)
		case "csv-1", "csv":
			if ot := x.openingTx(); ot != nil {
				target := int(x.csv())
				if e.Arg == "csv-1" {
					target--
				}
				conf := c.Confs(ot.ID)
				if conf == 0 {
					c.Mine(1, false)
					conf = 1
				}
				if target > conf {
					c.MineQuiet(target - conf)
				}
			}
		case "win-1", "win":
			if start, win, ok := x.window(); ok {
				target := uint64(start) + uint64(win)
				if e.Arg == "win-1" {
					target--
				}
				tip := uint64(c.Tip())
				if target > tip {
					c.MineQuiet(int(target - tip))
				}
			}
		}
	case "time":
		x.NTime++
		switch e.Arg {
		case "11s":
			time.Sleep(11 * time.Second)
		case "11m":
			time.Sleep(11 * time.Minute)
		case "125s":
			time.Sleep(125 * time.Second)
		}
	case "lag":
		if x.W.HeightLag == nil {
			x.W.HeightLag = map[string]uint32{}
		}
		if e.N == 0 {
			delete(x.W.HeightLag, IDA+"/"+x.Cfg.Chain)
		} else {
			x.W.HeightLag[IDA+"/"+x.Cfg.Chain] = uint32(e.N)
		}
	case "payplan":
		x.W.PayPlan[IDA] = append(x.W.PayPlan[IDA], world.PayOutcome(e.N))
	case "resolve":
		if h := x.inflight(IDA); len(h) > 0 {
			x.W.LN[IDA].Resolve(h[0], e.Arg == "ok")
		}
	case "fault":
		if i := strings.Index(e.Arg, "#"); i > 0 {
			// "method#k": only the (k+1)-th next call fails
			var k int
			fmt.Sscanf(e.Arg[i+1:], "%d", &k)
			x.W.AddFault(IDA, e.Arg[:i], k)
		} else if i := strings.Index(e.Arg, "*"); i > 0 {
			var n int
			fmt.Sscanf(e.Arg[i+1:], "%d", &n)
			for k := 0; k < n; k++ {
				x.W.AddFault(IDA, e.Arg[:i], k)
			}
		} else {
			x.W.AddFault(IDA, e.Arg, 0)
		}
	case "restart":
		if e.Arg == "A" {
			x.A.Kill()
			node.Settle()
			x.incA++
			x.A = node.Boot(x.W, x.nodeCfg(IDA), x.DA, x.incA)
			x.A.Recover()
		} else {
			x.B.Kill()
			node.Settle()
			x.incB++
			x.B = node.Boot(x.W, x.nodeCfg(IDB), x.DB, x.incB)
			x.B.Recover()
		}
	case "inject":
		x.NInject++
		x.inject(e.Arg)
	case "replay":
		if e.N < len(x.Delivered) {
			x.deliver(x.Delivered[e.N])
		}
	default:
		if x.Cfg.ExtraApply == nil || !x.Cfg.ExtraApply(x, e) {
			panic("unknown event " + e.Name)
		}
	}
	x.settle()
	x.lastEff = x.A.Life.EffectCount()
	x.lastStore = x.A.Life.StoreOps()
	if e.Crash > 0 && x.A.Life.CrashArmed() {
		// the armed crash point was not reached: treat as crash after the event
		x.A.Kill()
	}
}

// settle waits for quiescence and then lets the watchers look at new
// registrations, until nothing moves any more.
func (x *Exec) settle() {
	for i := 0; i < 20; i++ {
		node.Settle()
		moved := false
		for _, n := range []*node.Node{x.A, x.B} {
			for _, w := range []*node.SimWatcher{n.BtcW, n.LbtcW} {
				if w != nil && w.PollIfDirty() {
					moved = true
				}
			}
		}
		if !moved {
			return
		}
	}
}

func (x *Exec) deliver(m Msg) {
	n := x.NodeByID(m.To)
	if n.Life.Dead() {
		return
	}
	x.Delivered = append(x.Delivered, m)
	_, p := n.DeliverRaw(m.From, fmt.Sprintf("%x", m.Type), m.Payload)
	if p != nil {
		x.Panics = append(x.Panics, fmt.Sprintf("panic delivering type %x to %s: %v", m.Type, who(m.To), p))
	}
}

func (x *Exec) inject(kind string) {
	s := x.SwapOf(x.A)
	if s == nil {
		return
	}
	id := s.SwapId.String()
	var payload []byte
	var t int
	switch kind {
	case "cancel":
		payload, _ = json.Marshal(map[string]any{"swap_id": id, "message": "adversarial cancel"})
		t = 42079
	case "coop_bad":
		payload, _ = json.Marshal(map[string]any{"swap_id": id, "message": "bad key", "privkey": strings.Repeat("11", 32)})
		t = 42081
	case "invalid":
		// coop close with malformed key: fails message validation
		payload, _ = json.Marshal(map[string]any{"swap_id": id, "message": "x", "privkey": "zz"})
		t = 42081
	case "agreement_other_type":
		// the counterparty answers with the agreement of the other swap type (right swap id)
		pk := strings.Repeat("02", 33)
		if x.Cfg.SwapType == "in" {
			payload, _ = json.Marshal(map[string]any{"protocol_version": 7, "swap_id": id, "pubkey": pk, "Payreq": "lnsim1junk", "premium": 0})
			t = 42075
		} else {
			payload, _ = json.Marshal(map[string]any{"protocol_version": 7, "swap_id": id, "pubkey": pk, "premium": 0})
			t = 42073
		}
	}
	x.deliver(Msg{From: IDB, To: IDA, Type: t, Payload: payload})
}

// Key is the canonical state key: the raw state rendering with every random
// string replaced by a label assigned in a deterministic order.
func (x *Exec) Key() string {
	var nets []string
	x.netMu.Lock()
	for _, r := range []string{IDA, IDB} {
		for _, m := range x.Net[r] {
			nets = append(nets, fmt.Sprintf("%s<%x:%s", who(r), m.Type, string(m.Payload)))
		}
	}
	x.netMu.Unlock()
	base := uint32(100)
	k := fmt.Sprintf("T+%ds nt=%d nb=%d ni=%d | %s | %s | %s | %s | net%v | %s | rpcerr=%s panics=%d", int(time.Since(x.Start)/time.Second), x.NTime, x.NBlocks, x.NInject,
		x.A.Key(), x.B.Key(), x.W.Btc.Key(base), x.W.Lbtc.Key(base), nets, x.W.FaultKey(), fmt.Sprint(x.RPCErr != ""), len(x.Panics))
	if x.Cfg.ExtraKey != nil {
		k += x.Cfg.ExtraKey(x)
	}
	lab := world.NewLabeler()
	var pairs []string
	seen := map[string]bool{}
	toks := append(x.A.Tokens(), x.B.Tokens()...)
	toks = append(toks, x.W.LN[IDA].Tokens()...)
	toks = append(toks, x.W.LN[IDB].Tokens()...)
	for _, c := range []*world.Chain{x.W.Btc, x.W.Lbtc} {
		for _, id := range c.TxOrder() {
			toks = append(toks, [2]string{"tx", id})
		}
	}
	if x.Cfg.ExtraTokens != nil {
		toks = append(toks, x.Cfg.ExtraTokens(x)...)
	}
	for _, t := range toks {
		if seen[t[1]] || len(t[1]) < 8 {
			continue
		}
		seen[t[1]] = true
		pairs = append(pairs, t[1], lab.Label(t[0], t[1]))
	}
	if len(pairs) > 0 {
		k = strings.NewReplacer(pairs...).Replace(k)
	}
	return k
}

// Finish ends the execution: both incarnations die, every blocked goroutine is released.
func (x *Exec) Finish() []string {
	if x.finished {
		return nil
	}
	x.finished = true
	x.A.Kill()
	x.B.Kill()
	x.W.Shutdown()
	synctest.Wait()
	// Time stops when the bubble's main goroutine exits: let every armed
	// timer of the dead incarnations fire (their goroutines end at the next
	// simulated call) before leaving.
	time.Sleep(11 * time.Minute)
	synctest.Wait()
	// Whoever still waits for a lock now waits for a holder that can never
	// release it: a deadlock (decided structurally, not by a time-out).
	stuck := vsync.Stuck()
	vsync.Abort()
	synctest.Wait()
	return stuck
}

// TraceLog prints the observation log of every execution (debugging).
var TraceLog bool

func (x *Exec) dumpLog() {
	for _, o := range x.W.Log {
		pl := o.Payload
		if o.Kind == "store" {
			pl = ""
		}
		if len(pl) > 100 {
			pl = pl[:100]
		}
		fmt.Printf("   %3d t=%-8s %s inc%d %-14s %s %s %s %s %s %s\n", o.Seq, o.At.Round(time.Millisecond), who(o.Node), o.Inc, o.Kind, o.State, o.Result, o.Err, o.Extra, o.TxID, pl)
	}
	fmt.Println("   ---")
}

// Oracle inspects the finished execution (whole log + ground truth).
type Oracle func(x *Exec) []mc.Violation

// Runner builds the mc.Runner for a configuration.
func Runner(t *testing.T, cfg *Cfg, initial []mc.Event, oracles []Oracle, outcome func(x *Exec) string) mc.Runner {
	return func(history []mc.Event) mc.StepResult {
		var res mc.StepResult
		func() {
			defer func() {
				if r := recover(); r != nil {
					res.Internal = fmt.Sprintf("harness panic: %v", r)
				}
			}()
			synctest.Test(t, func(t *testing.T) {
				x := Init(t, cfg)
				defer x.Finish()
				for _, e := range initial {
					x.Apply(e)
				}
				for i, e := range history {
					if i == len(history)-1 {
						res.PrefixKey = x.Key()
						res.PrefixDiff = res.PrefixKey
					}
					x.Apply(e)
				}
				res.Effects = x.lastEff
				res.StoreOps = x.lastStore
				if TraceLog {
					x.dumpLog()
				}
				res.Key = x.Key()
				res.KeyText = res.Key
				res.Enabled = x.Enabled()
				for _, o := range oracles {
					res.Violations = append(res.Violations, o(x)...)
				}
				if outcome != nil {
					res.Outcome = outcome(x)
				}
				if stuck := x.Finish(); len(stuck) > 0 {
					d := vsync.DeadlockReport{Kind: "stuck", Stacks: stuck}
					res.Violations = append(res.Violations, mc.Violation{Property: "C18", Key: "deadlock:" + DeadlockSite(d), Detail: strings.Join(stuck, "\n---\n")})
				}
			})
		}()
		return res
	}
}

// DeadlockSite extracts a stable call-site description from a deadlock report.
func DeadlockSite(d vsync.DeadlockReport) string {
	var sites []string
	for _, st := range d.Stacks {
		var fns []string
		for _, line := range strings.Split(st, "\n") {
			line = strings.TrimSpace(line)
			if strings.HasPrefix(line, "github.com/elementsproject/peerswap/") {
				fn := strings.TrimPrefix(line, "github.com/elementsproject/peerswap/")
				if i := strings.Index(fn, "("); i > 0 {
					// keep receiver types "(*T).m"
					if j := strings.LastIndex(fn, "("); j > 0 && !strings.HasPrefix(fn[j:], "(*") {
						fn = fn[:j]
					}
				}
				fns = append(fns, fn)
				if len(fns) == 3 {
					break
				}
			}
		}
		sites = append(sites, strings.Join(fns, "<"))
	}
	return strings.Join(sites, "||")
}
