# sourced by every command of the harness
export GOFLAGS=-mod=mod GOPROXY=off GOSUMDB=off GOTOOLCHAIN=local
export VERIF_DIR="${VERIF_DIR:-/verif}"
export GO="${GO:-/opt/veriftools/go1.26.8/bin/go}"
export VERIF_WORK="${VERIF_WORK:-/verif/.work}"
mkdir -p "$VERIF_WORK"
