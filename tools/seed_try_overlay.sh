#!/bin/bash
# usage: SEED_ROUND=3 seed_try_overlay.sh <id> <n> [check-id]
# Like seed2_try.sh, but leaves /repo alone: the patch is applied in the scratch worktree, the files it
# changes are copied into a directory mirroring /repo and handed to bin/check as VERIF_MUTANTS (the
# overlay then compiles exactly the patched sources).  Used while another long run needs /repo unchanged.
id=$1; n=$2; chk=${3:-$1}
base=/tmp/seed${SEED_ROUND:-2}; wt=$base/$id; out=$base/$id-out
m=/tmp/seedm/${SEED_ROUND:-2}_${id}_$n
rm -rf $m; mkdir -p $m
cd $wt || exit 2
git checkout -q -- . && git clean -fdq
git apply $out/patch$n.diff || { echo "$id/$n: patch does not apply"; exit 2; }
for f in $(git diff --name-only; git ls-files --others --exclude-standard); do mkdir -p $m/$(dirname $f); cp $f $m/$f; done
git checkout -q -- . && git clean -fdq
cd /verif
VERIF_WORK=/verif/.work-seed VERIF_MUTANTS=$m bin/check $chk > $out/check${n}_$chk.log 2>&1; rc=$?
rm -rf $m
echo "$id/$n via $chk (overlay): rc=$rc"; grep -E '^(VIOLATION|  key|INTERNAL)' $out/check${n}_$chk.log | grep -v VIOLATION | cut -c1-220 | head -6
