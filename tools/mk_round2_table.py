#!/usr/bin/env python3
"""Prints the markdown table of the round-2 seeded changes from seeded/*-r2-*/meta.json."""
import json,glob,os,re,sys
R=sys.argv[1] if len(sys.argv)>1 else "2"
rows=[]
for d in sorted(glob.glob(f'/verif/seeded/*-r{R}-*')):
    m=json.load(open(d+'/meta.json'))
    name=os.path.basename(d)
    what=(m.get('what_it_breaks') or '').replace('\n',' ').replace('|','/')
    what=re.split(r'(?<=[.;:])\s',what)[0][:170]
    res=m['result'].replace('\n',' ').replace('|','/')
    first='caught' if res.startswith('caught') else ('weakly caught' if res.startswith('weakly') else ('not a violation of this property' if res.startswith('NOT flagged') else 'missed'))
    rows.append((name,', '.join(m.get('files_changed') or []),what,first,res))
print("| id | file(s) | seeded change | first run | result / what was strengthened |")
print("|----|---------|---------------|-----------|--------------------------------|")
for r in rows: print("| "+" | ".join(r)+" |")
c=sum(1 for r in rows if r[3]=='caught'); print(f"\n{c} of {len(rows)} caught by the checks as they stood when the change arrived.")
