#!/usr/bin/env python3
import subprocess,re
s=open('/verif/DESIGN.md').read()
for R in ('2','3','4','5'):
    t=subprocess.check_output(['/verif/tools/mk_round2_table.py',R]).decode()
    s=re.sub(r'<!-- ROUND%s-TABLE-BEGIN -->.*?<!-- ROUND%s-TABLE-END -->'%(R,R),lambda m:'<!-- ROUND%s-TABLE-BEGIN -->\n'%R+t+'\n<!-- ROUND%s-TABLE-END -->'%R,s,flags=re.S)
open('/verif/DESIGN.md','w').write(s)
