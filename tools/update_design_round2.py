#!/usr/bin/env python3
import subprocess,re
t=subprocess.check_output(['/verif/tools/mk_round2_table.py']).decode()
s=open('/verif/DESIGN.md').read()
s=re.sub(r'<!-- ROUND2-TABLE-BEGIN -->.*?<!-- ROUND2-TABLE-END -->','<!-- ROUND2-TABLE-BEGIN -->\n'+t.replace('\\','\\\\')+'\n<!-- ROUND2-TABLE-END -->',s,flags=re.S)
open('/verif/DESIGN.md','w').write(s)
