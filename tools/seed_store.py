#!/usr/bin/env python3
# usage: seed_store.py <id> <check> <result text>   (copies /tmp/seed/<id>-out into /verif/seeded/<id>)
import json,os,shutil,glob,sys
i,chk,res=sys.argv[1],sys.argv[2],sys.argv[3]
name=sys.argv[4] if len(sys.argv)>4 else i
d=f'/verif/seeded/{name}'; os.makedirs(d,exist_ok=True)
out=f'/tmp/seed/{i}-out'
shutil.copy(out+'/patch.diff',d+'/patch.diff')
for f in glob.glob(out+'/*demo*_test.go'): shutil.copy(f,d+'/'+os.path.basename(f))
m=json.load(open(out+'/meta.json'))
m['author']='independent sub-agent given only the property text and a scratch worktree'
m['confirmed_by_me']=open(out+'/verify.log').read().strip()+" (tools/seed_verify.sh: demonstration passes without / fails with the patch; the touched package's own test suite passes with the patch; go build ./... ok)"
m['checks_run']=f'git -C /repo apply seeded/{name}/patch.diff; bin/check {chk}; git -C /repo checkout -- .'
m['result']=res
json.dump(m,open(d+'/meta.json','w'),indent=1)
print('stored',d,os.listdir(d))
