#!/bin/bash
# usage: seed2_verify.sh <id> <n> <pkg-dir> <demo-run-regex> [extra go test flags]
# Round 2 (two changes per property): confirms change <n> of /tmp/seed2/<id>-out in the scratch worktree /tmp/seed2/<id>.
export GOFLAGS=-mod=mod GOPROXY=off GOSUMDB=off
id=$1; n=$2; pkg=$3; rx=$4; extra=$5
base=/tmp/seed${SEED_ROUND:-2}; wt=$base/$id; out=$base/$id-out
cd $wt || exit 2
git checkout -q -- . && git clean -fdq
demos=$(ls $out/demo${n}_*_test.go 2>/dev/null)
[ -z "$demos" ] && { echo "$id/$n: no demo file"; exit 1; }
for d in $demos; do cp $d $wt/$pkg/; done
r_without=$(go test $extra ./$pkg/ -run "$rx" -count=1 2>&1 | tail -1)
git apply $out/patch$n.diff || { echo "$id/$n: patch does not apply"; exit 1; }
go build ./... || { echo "$id/$n: does not build"; exit 1; }
r_with=$(go test $extra ./$pkg/ -run "$rx" -count=1 2>&1 | tail -1)
for d in $demos; do rm -f $wt/$pkg/$(basename $d); done
pkgs=$(git diff --name-only | xargs -n1 dirname | sort -u | sed 's#^#./#' | tr '\n' ' ')
r_suite=$(go test $extra $pkgs ./$pkg/ -count=1 2>&1 | grep -E '^(ok|FAIL|---)' | tr '\n' ';')
git checkout -q -- . && git clean -fdq
echo "$id/$n | demo without patch: $r_without | demo with patch: $r_with | suites of touched packages with patch: $r_suite"
