#!/usr/bin/env python3
# usage: seed2_store.py <id> <n> <check> <result text>   (round 2: copies change n of /tmp/seed2/<id>-out into /verif/seeded/<id>-r2-<n>)
import json,os,shutil,glob,sys
R=os.environ.get('SEED_ROUND','2')
i,n,chk,res=sys.argv[1:5]
name=f'{i}-r{R}-{n}'
d=f'/verif/seeded/{name}'; os.makedirs(d,exist_ok=True)
out=f'/tmp/seed{R}/{i}-out'
shutil.copy(f'{out}/patch{n}.diff',d+'/patch.diff')
for f in glob.glob(f'{out}/demo{n}_*_test.go'): shutil.copy(f,d+'/'+os.path.basename(f))
m=json.load(open(f'{out}/meta{n}.json'))
m['author']='independent sub-agent (round 2 or 3: two changes per property) given only the property text and a scratch worktree'
m['confirmed_by_me']=open(f'{out}/verify{n}.log').read().strip()+" (tools/seed2_verify.sh: demonstration passes without / fails with the patch; suites of the touched packages pass with the patch; go build ./... ok)"
m['checks_run']=f'git -C /repo apply /verif/seeded/{name}/patch.diff; bin/check {chk}; git -C /repo checkout -- .'
m['result']=res
json.dump(m,open(d+'/meta.json','w'),indent=1)
print('stored',d,sorted(os.listdir(d)))
