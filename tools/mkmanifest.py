#!/usr/bin/env python3
"""Regenerates /verif/MANIFEST.json from the table below (kept next to the checks)."""
import json, os

ALL = ["C%02d" % i for i in range(1, 31)]

# id -> (level, engine, technique, text, note, design_ref)
CLAIMED = {}

def claim(pid, level, engine, technique, text, note, ref):
    CLAIMED[pid] = (level, engine, technique, text, note, ref)

E1NOTE = ("trusted base: simulated chain / Lightning node / wallets / messenger / store (verif/world, verif/node); "
          "idealised chain watcher in this tier (the real watchers are explored in C20); btcd script engine as consensus; "
          "go1.26.8 testing/synctest virtual time; sync import rewritten to verif/vsync by overlay")

claim("C06", "model_checking", "fsmx",
      "explicit-state BFS by replay over the real swap.SwapService (two real nodes, adversarial network, payment outcomes, faults, crash at every effect op, restarts); monitor on every coop_close",
      "Exhaustive enumeration of all histories up to the stated depth / deviation bounds of two real swap services on a simulated world; every coop_close the taker sends is checked against the ground-truth payment table, and every state in which the payment succeeded is driven through a fair continuation.",
      E1NOTE, "DESIGN.md §5 C06")
claim("C13", "model_checking", "fsmx",
      "explicit-state BFS by replay with a crash point at every effect operation; monitor over the ordered log of durable writes and sends",
      "All histories (bounded) of both Liquid taker roles incl. crash at every store write / service call and restarts; the oracle checks that the latest durable record carries the anchor when the pubkey first leaves and that it never changes.",
      E1NOTE, "DESIGN.md §5 C13")
claim("C15", "fault_enumeration", "fsmx",
      "crash-point enumeration (every effect operation of every handler) + explicit-state BFS over all continuations after restart",
      "Every store write / message send / wallet / Lightning / watcher call of every explored handler is a crash point; the restarted node runs the real recovery path and all continuations are explored; duplicates are counted on the simulated wallet / payment table / message log.",
      E1NOTE, "DESIGN.md §5 C15")
claim("C23", "model_checking", "fsmx",
      "explicit-state BFS by replay; every outgoing payload of both nodes is searched for every secret in all encodings",
      "All outgoing payloads of all explored histories (four roles, two chains, failure and cancel paths) are searched for every secret the simulation knows.",
      E1NOTE, "DESIGN.md §5 C23")

NA_REASON = "check not built yet in this session (planned, see DESIGN.md §5)"

def main():
    checks = []
    for pid in ALL:
        if pid not in CLAIMED:
            continue
        level, engine, technique, text, note, ref = CLAIMED[pid]
        checks.append({
            "property_id": pid,
            "quick_cmd": "bin/check %s --tier quick" % pid,
            "thorough_cmd": "bin/check %s --tier thorough" % pid,
            "evidence_file": "/verif/evidence/%s.json" % pid,
            "replay_cmd_template": "bin/check %s --replay {path}" % pid,
            "engine": engine,
            "level_claimed": {"category": level, "text": text, "design_ref": ref},
            "level_note": note,
            "technique": technique,
        })
    m = {
        "version": 1,
        "setup_cmd": "bin/setup",
        "hooks": {
            "guard": "verif",
            "enable": "go test -tags verif -overlay <generated sync-shim overlay> (bin/check does this from /repo's working tree)",
            "baseline_off_cmd": "bin/baseline_off",
            "source_commits": [],
            "add_only": True,
        },
        "engines": [
            {"name": "fsmx", "path": "harness/scn + harness/mc + harness/node + harness/world", "serves_properties": [p for p in ALL if p in CLAIMED and CLAIMED[p][1] == "fsmx"],
             "kind_free_text": "explicit-state breadth-first search by replay of the real swap.SwapService inside testing/synctest bubbles, worker-process pool, canonical state keys"},
            {"name": "enum", "path": "harness/checks", "serves_properties": [p for p in ALL if p in CLAIMED and CLAIMED[p][1] == "enum"],
             "kind_free_text": "bounded-exhaustive enumeration of inputs / operation sequences / block histories on the real functions against reference predicates"},
            {"name": "sched", "path": "harness/sched", "serves_properties": [p for p in ALL if p in CLAIMED and CLAIMED[p][1] == "sched"],
             "kind_free_text": "hand-written cooperative scheduler, depth-first exploration with iterative preemption bounding (deadlock mode / race-detector mode)"},
        ],
        "checks": checks,
        "not_applicable": [{"property_id": p, "reason": NA_REASON} for p in ALL if p not in CLAIMED],
        "notes": "All checks explore the real peerswap code (no separate model); see DESIGN.md. Known genuine defects are listed in known_findings.json.",
    }
    with open(os.path.join(os.path.dirname(__file__), "..", "MANIFEST.json"), "w") as f:
        json.dump(m, f, indent=1)

if __name__ == "__main__":
    main()
