#!/usr/bin/env python3
"""Regenerates /verif/MANIFEST.json from the table below (kept next to the checks)."""
import json, os

ALL = ["C%02d" % i for i in range(1, 31)]

# id -> (level, engine, technique, text, note, design_ref)
CLAIMED = {}

def claim(pid, level, engine, technique, text, note, ref):
    CLAIMED[pid] = (level, engine, technique, text, note, ref)

E1NOTE = ("trusted base: simulated chain / Lightning node / wallets / messenger / store (verif/world, verif/node); "
          "idealised chain watcher in this tier (the real watchers are explored in C20); btcd script engine as consensus; "
          "go1.26.8 testing/synctest virtual time; sync import rewritten to verif/vsync by overlay")

claim("C06", "model_checking", "fsmx",
      "explicit-state BFS by replay over the real swap.SwapService (two real nodes, adversarial network, payment outcomes, faults, crash at every effect op, restarts); monitor on every coop_close ; two fair continuations after a paid claim (with and without restart) ; sub-check: the real CLN RecoverClaimPayment over a fake lightningd socket, every list of 0..3 sendpay attempts x waitsendpay outcome",
      "Exhaustive enumeration of all histories up to the stated depth / deviation bounds of two real swap services on a simulated world; every coop_close the taker sends is checked against the ground-truth payment table, and every state in which the payment succeeded is driven through a fair continuation.",
      E1NOTE, "DESIGN.md §5 C06")
claim("C13", "model_checking", "fsmx",
      "explicit-state BFS by replay with a crash point at every effect operation; monitor over the ordered log of durable writes and sends ; deviation: the persisted record loses its anchor and the node recovers from it ; sub-check: stateless DFS over thread schedules (own cooperative scheduler, bounded preemptions) of two / three concurrent deliveries of the same request",
      "All histories (bounded) of both Liquid taker roles incl. crash at every store write / service call and restarts; the oracle checks that the latest durable record carries the anchor when the pubkey first leaves and that it never changes. A record without anchor must never lead to a payment nor get an anchor later.",
      E1NOTE, "DESIGN.md §5 C13")
claim("C15", "fault_enumeration", "fsmx",
      "crash-point enumeration (every effect operation of every handler) + explicit-state BFS over all continuations after restart",
      "Every store write / message send / wallet / Lightning / watcher call of every explored handler is a crash point; the restarted node runs the real recovery path and all continuations are explored; duplicates are counted on the simulated wallet / payment table / message log.",
      E1NOTE, "DESIGN.md §5 C15")
claim("C23", "model_checking", "fsmx",
      "explicit-state BFS by replay; every outgoing payload of both nodes is searched for every secret in all encodings + sub-check: every ordered pair (message handed to the real RedundantMessenger, message encoded meanwhile by the real MarshalPeerswapMessage) with every retransmitted copy inspected; faults incl. failing sends",
      "All outgoing payloads of all explored histories (four roles, two chains, failure and cancel paths) are searched for every secret the simulation knows. Every retransmitted copy is searched as well.",
      E1NOTE, "DESIGN.md §5 C23")


ENUMNOTE = ("trusted base: the reference predicate / model written from the property statement inside the check; btcd / go-elements / bbolt; "
            "the checked packages are built with their sync import rewritten to verif/vsync (plain mode = package sync)")

claim("C07", "model_checking", "fsmx",
      "explicit-state BFS by replay of both maker roles (peer silence, cancel / bad coop_close / invalid message, faults after the wallet broadcast, output orderings, restarts, crash at every effect op) + durable-record invariant + deterministic drain to CSV maturity with real spends validated by the btcd script engine + sub-check: CSV-registration families of the real-watcher block-history BFS with a fair continuation after every history (maturity must be reported), incl. a failed registration at lnd and a csv callback that fails once (rpc watcher)",
      "Exhaustive (bounded) histories of the real maker state machines; in every state the durable record is compared with the wallet's broadcast log, and every state with locked, unpaid funds is drained to CSV maturity where a consensus-valid refund must reach the simulated chain. Sub-check: from every explored watcher state with an open CSV registration, healthy services and a growing chain must lead to a maturity report (otherwise the refund is never triggered).",
      E1NOTE, "DESIGN.md §5 C07")
claim("C09", "model_checking", "fsmx",
      "explicit-state BFS bringing the swap into every reachable state, then every message type x sender x id delivered; store bytes / in-memory data / active map compared before and after against the admissibility predicate",
      "Every message type from counterparty and third party, with the id of the target swap or a fresh id, is delivered in every reachable state of every role (also between Start and RecoverSwaps); anything the statement does not admit must leave every swap byte-identical.",
      E1NOTE, "DESIGN.md §5 C09")
claim("C10", "model_checking", "fsmx",
      "explicit-state BFS over sequences of local initiations and incoming requests in both channel-id spellings, time-outs and restarts (count of non-terminal swaps per normalised channel id after every event) + stateless DFS over all thread schedules (<=2/3 preemptions, own cooperative scheduler) of RecoverSwaps || request / local initiation, and of two concurrent initiations, on one channel ; k-th store write of a recovery may fail",
      "All sequences (bounded) of initiations / requests / finishes / restarts on one channel in both spellings on the real service; the invariant is evaluated on the store after every event. Concurrency: every schedule within the preemption bound of a recovery racing with a request or a local initiation for the same channel, and of two racing initiations; afterwards the store must hold at most one non-terminal swap on the channel and a non-terminal restored swap must be active.",
      E1NOTE, "DESIGN.md §5 C10")
claim("C16", "model_checking", "fsmx",
      "explicit-state BFS to enumerate start states (all four roles, two chains, faults, crash at every effect op) + deterministic fair drain from every one of them ; sub-check: CSV-registration families of the real-watcher block-history BFS, followed by healthy services, a daemon restart (new watcher, watch registered again) and further blocks: maturity must be reported",
      "Every state reached by the bounded search is a start state from which the peer goes silent; a deterministic fair continuation (time, blocks to CSV maturity, restarts, healthy services) must reach a terminal state with the channel released. Exhaustive over the enumerated start states, not a fairness-quantified liveness proof.",
      E1NOTE, "DESIGN.md §5 C16")
claim("C17", "model_checking", "fsmx",
      "explicit-state BFS over delivery orders, dropped replies, virtual-time steps across the 10 minute timeout and restarts, under testing/synctest virtual time ; crash point at every effect operation; answers of the wrong agreement type injected",
      "All orders (bounded) of request / agreement / cancel / timeout / restart before the opening transaction for both requester roles and the swap-out responder; cancel state and cancel message are required once 10 virtual minutes have passed. ",
      E1NOTE, "DESIGN.md §5 C17")
claim("C22", "model_checking", "fsmx",
      "explicit-state BFS of maker histories after the announcement under virtual time; interval-agnostic monitor on the send instants of opening_tx_broadcasted (failed sends count as attempts; up to 25 consecutive send failures) ; sub-check: stateless DFS over thread schedules of recovery || message handling on the real Manager, then an AddSender probe: nothing may still be registered for a finished swap ; store write faults (next write / the one after it)",
      "All maker histories (bounded) after the announcement interleaved with virtual-time steps; the real RedundantMessenger / Manager run on the fake clock and the oracle checks one arithmetic progression while waiting and at most one already-due copy afterwards.",
      E1NOTE, "DESIGN.md §5 C22")
claim("C02", "model_checking", "enum",
      "bounded-exhaustive enumeration of witness stacks x sequences x tx versions on the real script, judged by the btcd script engine against the three families of the statement (suffix lemma validated by direct execution)",
      "Every witness stack up to the stated length over the item alphabet, for every key pair / hash / CSV / sequence / version combination, is decided; exhaustive for the stated alphabets.",
      ENUMNOTE, "DESIGN.md §5 C02")
claim("C14", "model_checking", "enum",
      "records collected from two-node explorations + per-field boundary mutations round-tripped through the real JSON codec; explicit-state search of the real bbolt store against a map model",
      "Every collected record and every one/two-field boundary mutation reloads byte- and field-identically; the bbolt store is equivalent to a map for all operation sequences up to depth 4.",
      ENUMNOTE, "DESIGN.md §5 C14")
claim("C21", "model_checking", "enum",
      "bounded-exhaustive enumeration of message field values through the real marshaller, and of (type string x payload) junk delivered to a real SwapService in every state of the honest runs (incl. well-formed messages followed by trailing bytes) ; every ordered pair (message handed to the real RedundantMessenger, message encoded afterwards): the copies sent later must still be the payload of the first",
      "All message values over the field alphabets keep their protocol number and round-trip; every junk (type, payload) pair in every state leaves all swaps unchanged and does not panic.",
      ENUMNOTE + "; receiving side runs on the simulated world of the fsmx engine", "DESIGN.md §5 C21")
claim("C24", "model_checking", "enum",
      "cartesian-product enumeration of invoices x channel ids x limits through the real CLN route builder, the real LND request builder and the real lnd.Client payment path over fake gRPC clients ; channel ids include ones whose components overflow their 24/24/16-bit fields onto an existing channel",
      "Exhaustive over the stated grids; the produced route / SendPaymentRequest is compared with the single-hop / single-part / swap-channel predicate of the statement.",
      ENUMNOTE + "; fake lnrpc / routerrpc clients", "DESIGN.md §5 C24")
claim("C25", "model_checking", "enum",
      "explicit-state BFS over policy operation sequences (incl. reload and restart) x initial file contents on the real policy.Policy against a two-set reference model ; sub-check: stateless DFS over thread schedules (bounded preemptions) of every unordered pair of the 7 policy operations on one key, linearizability against the two sequential orders of the same code",
      "All operation sequences up to the bound (thorough: until the reachable state space closes) from nine initial file shapes; after every operation memory, file and a policy re-created from the file agree with the model.",
      ENUMNOTE, "DESIGN.md §5 C25")
claim("C27", "model_checking", "enum",
      "grid enumeration of amount x rate against a big-integer reference; explicit-state BFS over rate operations on the real bbolt-backed premium.Setting; advertised-vs-charged comparison through the real PeerSync ; the state key of the BFS includes a digest of the bbolt file, reads are operations",
      "Exhaustive for the stated grids and operation alphabets up to the stated depth.",
      ENUMNOTE, "DESIGN.md §5 C27")
claim("C28", "model_checking", "enum",
      "explicit-state BFS by replay over peer-sync operation sequences (polls, request_polls, connects, disconnects, clock jumps, manual poll passes and cleanup sweeps, reopen; a second exploration around the sweep of an expired peer) on the real PeerSync in testing/synctest bubbles against a reference model",
      "All operation sequences up to the stated depth over 2-3 peers with virtual time; store contents, rate limiting, expiry and compatibility are compared with the model after every operation.",
      ENUMNOTE + "; go1.26.8 testing/synctest", "DESIGN.md §5 C28")
claim("C29", "model_checking", "enum",
      "exhaustive enumeration of store contents (0-2 swaps in every (type, role, state)) x stored versions through the real SafeUpgrade on real bbolt files",
      "Complete enumeration of the stated alphabet; version and every swap record are compared byte-for-byte before and after.",
      ENUMNOTE, "DESIGN.md §5 C29")
claim("C30", "model_checking", "enum",
      "cartesian-product enumeration of estimator answers x floors x sizes, version strings, and all pairs / triples of a version-string set against reference order axioms",
      "Exhaustive for the stated alphabets.",
      ENUMNOTE, "DESIGN.md §5 C30")


ADVNOTE = E1NOTE + "; the maker is a scripted adversary (crafted messages, invoices and on-chain transactions); Liquid in this tier: Bitcoin-format transactions with asset / blinding annotations and a reference validator"

claim("C01", "model_checking", "fsmx",
      "explicit-state BFS of both taker roles against a scripted adversarial maker (all opening-tx and announcement variants, at most 2-3 deviations, all orders with blocks / re-announcements / time / restarts); ground-truth predicate at every claim-payment attempt + sub-checks on the real components: bounded-exhaustive enumeration of the real Liquid validator on real confidential / explicit transactions, and the confirmation-registration families of the real-watcher block-history BFS (rpc, electrum, lnd)",
      "Exhaustive (bounded) exploration of the real taker state machines and the real Bitcoin validator against every enumerated malicious announcement; the statement's predicate is evaluated from chain ground truth at the instant of every payment attempt. The real onchain.LiquidOnChain.ValidateTx is run on every invalid-opening variant x layouts x amounts; the real chain watchers are explored over all block histories (reorgs, faults, mid-call changes) and a confirmation reported for an absent / unconfirmed / too shallow transaction is a C01 violation.",
      ADVNOTE, "DESIGN.md §5 C01")
claim("C04", "model_checking", "fsmx",
      "explicit-state BFS of both Liquid taker roles (tip moved between all steps, invoice CLTV grid, restarts, records rewritten to protocol 6 and recovered; pay-loop families starting in the paying state with failing / pending first attempts and crash points after every durable write) with an oracle at every payment attempt + grid enumeration of both route/request builders ; sub-check: block-history BFS of the real rpc watcher followed by a backend outage (all RPCs fail, chain grows): the height answered must be true or an error",
      "All histories (bounded) with the Liquid tip moved across the window edges between any two steps; window, anchor, invoice CLTV and route limit are checked at every attempt; protocol-6 records must never create a payment. Builders enumerated over the CLTV grid.",
      ADVNOTE, "DESIGN.md §5 C04")
claim("C05", "model_checking", "fsmx",
      "explicit-state BFS of both Bitcoin taker roles against the scripted maker (confirmation before/after the start height, blocks between all steps incl. pay retries, restarts, invoice CLTV grid, CLN and LND allowances; pay-loop families starting in the paying state with crash points after every durable write); inequality oracle at every payment attempt ; sub-checks on the real watchers: a confirmation reported for a transaction already a window deep, a stale height answered during a backend outage",
      "Every payment attempt in every explored history is checked for h_pay + route allowance < confirmation height + 1008.",
      ADVNOTE, "DESIGN.md §5 C05")
claim("C26", "model_checking", "fsmx",
      "explicit-state BFS of both maker roles to every history ending in a CSV refund, with the real policy.Policy on a real file and a real peersync.PeerSync; probes after the refund, also after a restart ; up to two operator actions on the running policy before the refund; well-formed and unparseable capability payloads; crash points after durable writes, the policy write being one ; the peer-sync instance lives as long as the swap service and may have talked to the peer before the refund; the operator may take the peer off the allow-list after the refund ; another peer, sorting before / after this one, may have been quarantined earlier",
      "In every state reached after a CSV refund the policy file, a policy re-created from it, incoming requests, local initiations and poll / request_poll handling are probed. ",
      E1NOTE + "; real policy file and real bbolt peer store", "DESIGN.md §5 C26")


SCHEDNOTE = ("trusted base: the hand-written cooperative scheduler (harness/sched), the sync shim, the simulated environment; the real BlockchainRpcTxWatcher is on the callback side; "
             "interleavings beyond the preemption bound and the watcher's polling loops / pay-retry loop (real-time) are out of reach")

claim("C03", "model_checking", "enum",
      "bounded-exhaustive enumeration of opening-tx layouts x paths x fee answers x secrets through the real LND wallet adapter (fake gRPC) and the real LiquidOnChain (real confidential transactions); verdicts by the btcd script engine / a cross-validated evaluator over go-elements sighashes",
      "Every spend the adapters build for every enumerated opening transaction is checked for outpoint, script acceptance, BIP68 maturity edge, single own output and value conservation; exhaustive for the stated alphabets.",
      ENUMNOTE + "; fake lnd gRPC clients / fake wallet.Wallet building real Elements transactions", "DESIGN.md §5 C03")
claim("C08", "model_checking", "enum",
      "cartesian-product enumeration of funding results x amounts x premiums x chains / back-ends x maker roles through the real CreateAndBroadcastOpeningTransaction with the real wallet adapters ; environment answer: elementsd refuses the first broadcast (-26) and funds the next transaction with another output layout",
      "The announced message is compared with the transaction actually handed to the chain (txid, index of the swap output, invoice amount / hash / expiry / CLTV, blinding key) for every enumerated case.",
      ENUMNOTE + "; fake lnd gRPC / fake elementsd RpcClient", "DESIGN.md §5 C08")
claim("C11", "model_checking", "enum",
      "cartesian-product enumeration of request fields x policy / configuration through the real request handlers with the real policy.Policy and premium.Setting; big-integer reference admission predicate ; every case is run twice, alone and after an earlier refused request of the same peer for the same channel: the verdicts must agree",
      "Full product over the interacting dimensions and all single / pairwise deviations of the others; the first reply (agreement vs cancel) is compared with the conjunction in the statement.",
      E1NOTE, "DESIGN.md §5 C11")
claim("C12", "model_checking", "enum",
      "boundary-grid enumeration (incl. int64 / uint64 extremes) of premiums, limits, amounts, fee invoices through the real initiator and responder code paths with a scripted peer; big-integer outflow bounds + sub-check: operation-sequence BFS on the real premium.Setting (set / delete / default / lookup / reopen) against a persistent-map reference ; sub-check: explicit-state BFS of a taker with restarts against the scripted maker, the amount paid after recovery is still amount + premium",
      "Every grid point is run through the real actions; payments, locked amounts and created invoices are compared with big-integer bounds. The rate the responder charges after any sequence of rate operations and reads is compared with the reference map.",
      E1NOTE, "DESIGN.md §5 C12")
claim("C18", "model_checking", "sched",
      "stateless DFS over thread schedules with iterative preemption bounding (cooperative scheduler at lock / spawn / wait / environment-call points) on the real swap service + real rpc watcher; deadlock = no enabled thread + sub-check: block-history BFS of the real rpc watcher with all its goroutines under virtual time and callbacks that take 2.5 s; no goroutine may wait for a watcher lock 8 s after the last event",
      "All schedules within the preemption bound of {peer message || block notification || payment || RPC reads || RecoverSwaps} for CSV not yet / just / long matured and maturing mid-run; deadlocks are decided structurally and reported with the lock cycle. Sub-check on the watcher's own goroutine structure (block poller, dispatcher, per-registration observers).",
      SCHEDNOTE, "DESIGN.md §3.6, §5 C18")
claim("C19", "model_checking", "sched",
      "the same schedule exploration built with -race; thread hand-off by raw pipe system calls (invisible to the detector), shim locks wrap the real primitives; oracle = zero race reports with access sites in peerswap code ; harnesses: maker / taker handlers with the real rpc watcher, policy operations, and the peer-sync entry points (poll ticker pass || forced pass || cleanup sweep) on a real bbolt store",
      "Every schedule within the bound is executed under the Go race detector, which then sees exactly the program's own happens-before edges; a self-test proves per run that an unsynchronised pair is reported and a mutex-protected pair is not. ",
      SCHEDNOTE + "; Go race detector (happens-before, shadow memory)", "DESIGN.md §3.6, §5 C19")
claim("C20", "model_checking", "enum",
      "explicit-state BFS by replay over block histories (blocks with / without the tx, mempool, reorgs, RPC errors, stale answers, window / CSV edge jumps, duplicate notifications, chain moving mid-lookup) for the real rpc, Electrum/LWK and LND watchers in synctest bubbles ; multi-registration family (three watches on one transaction), lnd with and without transaction index",
      "All histories up to the stated depth per watcher; every callback is compared with the chain's ground truth at that instant; at most one report per registration. ",
      ENUMNOTE + "; simulated chain views (bitcoind/elementsd RPC, Electrum, lnd chain notifier); go1.26.8 testing/synctest", "DESIGN.md §3.4, §5 C20")

NA_REASON = "check not built yet in this session (planned, see DESIGN.md §5)"

def main():
    checks = []
    for pid in ALL:
        if pid not in CLAIMED:
            continue
        level, engine, technique, text, note, ref = CLAIMED[pid]
        checks.append({
            "property_id": pid,
            "quick_cmd": "bin/check %s --tier quick" % pid,
            "thorough_cmd": "bin/check %s --tier thorough" % pid,
            "evidence_file": "/verif/evidence/%s.json" % pid,
            "replay_cmd_template": "bin/check %s --replay {path}" % pid,
            "engine": engine,
            "level_claimed": {"category": level, "text": text, "design_ref": ref},
            "level_note": note,
            "technique": technique,
        })
    m = {
        "version": 1,
        "setup_cmd": "bin/setup",
        "hooks": {
            "guard": "verif",
            "enable": "go test -tags verif -overlay <generated sync-shim overlay> (bin/check does this from /repo's working tree)",
            "baseline_off_cmd": "bin/baseline_off",
            "source_commits": ["17f08f8", "e94c44a", "a4d6eb7"],
            "add_only": True,
        },
        "engines": [
            {"name": "fsmx", "path": "harness/scn + harness/mc + harness/node + harness/world", "serves_properties": [p for p in ALL if p in CLAIMED and CLAIMED[p][1] == "fsmx"],
             "kind_free_text": "explicit-state breadth-first search by replay of the real swap.SwapService inside testing/synctest bubbles, worker-process pool, canonical state keys"},
            {"name": "enum", "path": "harness/checks", "serves_properties": [p for p in ALL if p in CLAIMED and CLAIMED[p][1] == "enum"],
             "kind_free_text": "bounded-exhaustive enumeration of inputs / operation sequences / block histories on the real functions against reference predicates"},
            {"name": "sched", "path": "harness/sched", "serves_properties": [p for p in ALL if p in CLAIMED and CLAIMED[p][1] == "sched"],
             "kind_free_text": "hand-written cooperative scheduler, depth-first exploration with iterative preemption bounding (deadlock mode / race-detector mode)"},
        ],
        "checks": checks,
        "not_applicable": [{"property_id": p, "reason": NA_REASON} for p in ALL if p not in CLAIMED],
        "notes": "All checks explore the real peerswap code (no separate model); see DESIGN.md. Known genuine defects are listed in known_findings.json.",
    }
    with open(os.path.join(os.path.dirname(__file__), "..", "MANIFEST.json"), "w") as f:
        json.dump(m, f, indent=1)

if __name__ == "__main__":
    main()
