#!/bin/bash
# usage: tools/seed_regress.sh <lanes> [property-pattern] [only-names-regex]   (with the third argument the rows of the matching names are replaced in REGRESSION.tsv, the others are kept)
# Re-runs every stored seeded change (/verif/seeded/<name>/patch.diff) against the CURRENT checks, as a
# source overlay (VERIF_MUTANTS; /repo is never touched), and records rc + keys in /verif/seeded/REGRESSION.tsv.
# Changes of one property run one after the other (they share evidence/<id>.json); properties run in
# <lanes> parallel lanes, each with its own scratch worktree of /repo under /tmp and its own VERIF_WORK.
# NOTE: overwrites evidence/<id>.json with runs on mutated sources - run the real checks afterwards.
lanes=${1:-4}; pat=${2:-C}; only=${3:-}
cd /verif
root=/tmp/seedreg; rm -rf $root; mkdir -p $root/out
props=$(ls seeded | grep -E "^$pat" | grep -E '^C[0-9]+' | sed -E 's/^(C[0-9]+).*/\1/' | sort -u)
lane() {
  k=$1; shift
  wt=$root/wt$k
  git -C /repo worktree add -q --detach $wt HEAD || exit 2
  for p in "$@"; do
    for d in $(ls -d seeded/$p seeded/$p-r* 2>/dev/null); do
      name=$(basename $d)
      [ -n "$only" ] && ! echo "$name" | grep -Eq "$only" && continue
      chk=$(python3 -c "import json,re,sys; print(re.findall(r'bin/check (C\d+)', json.load(open('$d/meta.json'))['checks_run'])[0])")
      m=$root/m$k; rm -rf $m; mkdir -p $m
      ( cd $wt && git checkout -q -- . && git clean -fdq && git apply /verif/$d/patch.diff ) || { echo -e "$name\t$chk\tpatch-does-not-apply\t" >> $root/out/lane$k.tsv; continue; }
      ( cd $wt && for f in $(git diff --name-only; git ls-files --others --exclude-standard); do mkdir -p $m/$(dirname $f); cp $f $m/$f; done; git checkout -q -- . && git clean -fdq )
      VERIF_WORK=/verif/.work-reg$k VERIF_MUTANTS=$m bin/check $chk > $root/out/$name.log 2>&1; rc=$?
      keys=$(grep -E '^  key:' $root/out/$name.log | sed 's/  key: //' | sort -u | head -3 | tr '\n' ' ')
      echo -e "$name\t$chk\trc=$rc\t$keys" >> $root/out/lane$k.tsv
    done
  done
  git -C /repo worktree remove --force $wt
  rm -rf /verif/.work-reg$k $root/m$k
}
i=0; declare -a L
for p in $props; do L[$((i%lanes))]+=" $p"; i=$((i+1)); done
for k in $(seq 0 $((lanes-1))); do lane $k ${L[$k]} & done
wait
git -C /repo worktree prune
if [ -n "$only" ]; then ( grep -Ev "^[^	]*($only)" seeded/REGRESSION.tsv; cat $root/out/lane*.tsv ) | sort > $root/merged.tsv; cp $root/merged.tsv seeded/REGRESSION.tsv; else cat $root/out/lane*.tsv | sort > seeded/REGRESSION.tsv; fi
echo "changes=$(wc -l < seeded/REGRESSION.tsv) caught=$(grep -c 'rc=1' seeded/REGRESSION.tsv) not_caught=$(grep -vc 'rc=1' seeded/REGRESSION.tsv)"
grep -v 'rc=1' seeded/REGRESSION.tsv
