#!/usr/bin/env python3
"""Regenerates the table of DESIGN.md section 13.3 from /verif/evidence/*.json (run after a full quick run)."""
import json,re
rows=[]
for i in range(1,31):
    pid=f'C{i:02d}'
    e=json.load(open(f'/verif/evidence/{pid}.json'))
    c=e.get('coverage',{})
    st=c.get('states') or c.get('distinct_nontrivial')
    tr=c.get('transitions') or c.get('evaluations')
    ex=c.get('exhaustive')
    fam=c.get('families') or []
    depth=''
    if fam and isinstance(fam[0],dict) and 'completed_depth' in fam[0]:
        ds=[f.get('completed_depth') for f in fam]
        depth=f"{len(fam)} families, depth completed {min(ds)}–{max(ds)}"
        caps=[f for f in fam if f.get('cap_hit')]
        if caps: depth+=f", {len(caps)} cut by the time budget"
    extra=[]
    if c.get('crash_point_runs'): extra.append(f"{c['crash_point_runs']} crash-point runs")
    if c.get('nondeterministic_replays'): extra.append(f"{c['nondeterministic_replays']} replays diverged at the pay loop's `select`")
    if c.get('sched_schedules'): extra.append(f"{c['sched_schedules']} schedules (E5)")
    if 'preemption_bound' in c: extra.append(f"preemption bound {c['preemption_bound']}")
    for k in ('watcher_subcheck','retransmission_subcheck','rate_subcheck','sched_subcheck','liquid_validator_enumeration'):
        v=c.get(k)
        if isinstance(v,dict):
            n=v.get('executions') or v.get('schedules') or v.get('copies_checked') or v.get('cases')
            extra.append(f"{k.replace('_',' ')}: {n}")
    rows.append((pid,e.get('tier'),st,tr,'yes' if ex else 'no',depth,'; '.join(extra)))
t="| id | tier | distinct states / verdict classes | executions of real code | exhaustive within the stated bounds | bounds completed | notes |\n|----|---|---|---|---|---|---|\n"
for r in rows: t+="| "+" | ".join(str(x) if x is not None else '' for x in r)+" |\n"
s=open('/verif/DESIGN.md').read()
m=re.search(r'(### 13\.3 [^\n]*\n\n)(\| id \|.*?\n)\n\(`no` =',s,flags=re.S)
assert m
s=s[:m.start(2)]+t+s[m.end(2):]
open('/verif/DESIGN.md','w').write(s)
print(t[:600])
