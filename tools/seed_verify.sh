#!/bin/bash
# usage: seed_verify.sh <id> <pkg-dir> <demo-run-regex>
# Confirms a seeded change in its scratch worktree /tmp/seed/<id>: compiles, the package's
# existing tests pass with it, the demonstration fails with it and passes without it.
export GOFLAGS=-mod=mod GOPROXY=off GOSUMDB=off
id=$1; pkg=$2; rx=$3
wt=/tmp/seed/$id; out=/tmp/seed/$id-out
cd $wt || exit 2
git checkout -q -- . && git clean -fdq
demo=$(ls $out/*demo*_test.go | head -1)
cp $demo $wt/$pkg/
r_without=$(go test ./$pkg/ -run "$rx" -count=1 2>&1 | tail -1)
git apply $out/patch.diff || { echo "$id: patch does not apply"; exit 1; }
go build ./... || { echo "$id: does not build"; exit 1; }
r_with=$(go test ./$pkg/ -run "$rx" -count=1 2>&1 | tail -1)
rm -f $wt/$pkg/$(basename $demo)
r_suite=$(go test ./$pkg/ -count=1 2>&1 | tail -1)
git checkout -q -- . && git clean -fdq
echo "$id | demo without patch: $r_without | demo with patch: $r_with | package suite with patch: $r_suite"
