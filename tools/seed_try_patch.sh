#!/bin/bash
# usage: tools/seed_try_patch.sh <patch.diff> <check-id> [logfile] [work-suffix]
# Runs a check against /repo + patch as a source overlay (VERIF_MUTANTS); /repo is not touched.
patch=$1; chk=$2; log=${3:-/tmp/seedtry-$$.log}; ws=${4:-seed}
wt=/tmp/seedtry-$$; m=/tmp/seedtry-$$-m
git -C /repo worktree add -q --detach $wt HEAD || exit 2
mkdir -p $m
( cd $wt && git apply $patch && for f in $(git diff --name-only; git ls-files --others --exclude-standard); do mkdir -p $m/$(dirname $f); cp $f $m/$f; done )
git -C /repo worktree remove --force $wt
cd /verif
VERIF_WORK=/verif/.work-$ws VERIF_MUTANTS=$m bin/check $chk > $log 2>&1; rc=$?
echo "$(basename $(dirname $patch))/$(basename $patch) via $chk (overlay): rc=$rc"; grep -E '^(  key|INTERNAL)' $log | sort -u | cut -c1-220 | head -6
rm -rf $m
