#!/bin/bash
# usage: seed2_try.sh <id> <n> [check-id]   applies change n of round 2 to /repo, runs the check, reverts
id=$1; n=$2; chk=${3:-$1}
cd /verif
git -C /repo apply /tmp/seed${SEED_ROUND:-2}/$id-out/patch$n.diff || { echo "$id/$n: patch does not apply to /repo"; exit 2; }
bin/check $chk > /tmp/seed${SEED_ROUND:-2}/$id-out/check${n}_$chk.log 2>&1; rc=$?
git -C /repo checkout -- .
echo "$id/$n via $chk: rc=$rc"; grep -E '^(VIOLATION|  key|INTERNAL)' /tmp/seed${SEED_ROUND:-2}/$id-out/check${n}_$chk.log | grep -v VIOLATION | cut -c1-220 | head -6
