#!/bin/bash
# usage: tools/seed_try_stored.sh <seeded-name> [check-id]   e.g.  seed_try_stored.sh C16-r3-2 C07
# Runs one stored seeded change against a check as a source overlay (VERIF_MUTANTS); /repo is not touched.
name=$1; d=/verif/seeded/$name
chk=${2:-$(python3 -c "import json,re; print(re.findall(r'bin/check (C\d+)', json.load(open('$d/meta.json'))['checks_run'])[0])")}
wt=/tmp/seedtry-$$; m=/tmp/seedtry-$$-m
git -C /repo worktree add -q --detach $wt HEAD || exit 2
mkdir -p $m
( cd $wt && git apply $d/patch.diff && for f in $(git diff --name-only; git ls-files --others --exclude-standard); do mkdir -p $m/$(dirname $f); cp $f $m/$f; done )
git -C /repo worktree remove --force $wt
cd /verif
VERIF_WORK=/verif/.work-seed VERIF_MUTANTS=$m bin/check $chk > /tmp/seedtry-$$.log 2>&1; rc=$?
echo "$name via $chk (overlay): rc=$rc"; grep -E '^(  key|INTERNAL)' /tmp/seedtry-$$.log | sort -u | cut -c1-220 | head -8
rm -rf $m /tmp/seedtry-$$.log
